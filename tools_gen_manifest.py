#!/usr/bin/env python3
"""regenerates MANIFEST.json from the table below (kept as code so it is always schema-valid)"""
import json, os
PY = '/venv/bin/python'
CHECKS = {}
def chk(pid, cat, text, note, tech, ref):
    CHECKS[pid] = dict(property_id=pid,
        quick_cmd=f'{PY} -m mcx check {pid} --tier quick',
        thorough_cmd=f'{PY} -m mcx check {pid} --tier thorough',
        evidence_file=f'/verif/evidence/{pid}.json',
        replay_cmd_template=f'{PY} -m mcx replay {{path}}',
        engine='mcx',
        level_claimed=dict(category=cat, text=text, design_ref=ref),
        level_note=note, technique=tech)

exec(open(os.path.join(os.path.dirname(__file__), 'manifest_table.py')).read())

man = {
 'version': 1,
 'setup_cmd': 'cd /verif && sh setup.sh',
 'hooks': {'guard': 'OPTICOMLIB_VERIF', 'enable': 'no source hooks are needed: every seam (numpy.random module attributes, gv singleton, PPG3204.inst) is reachable from outside the repository; checks import /repo working tree directly (editable install)',
           'baseline_off_cmd': 'cd /repo && /venv/bin/python -m pytest -ra -q -p no:cacheprovider --timeout=900 --continue-on-collection-errors',
           'source_commits': [], 'add_only': True},
 'engines': [{'name': 'mcx', 'path': '/verif/mcx', 'serves_properties': sorted(CHECKS),
              'kind_free_text': 'hand-rolled explicit-state / bounded-exhaustive explorer in Python running the real opticomlib code in lock-step with reference models; 16 forked workers; per-case horizon; scripted numpy RNG'}],
 'checks': [CHECKS[k] for k in sorted(CHECKS)],
 'not_applicable': NOT_APPLICABLE,
 'notes': NOTES,
}
json.dump(man, open(os.path.join(os.path.dirname(__file__), 'MANIFEST.json'), 'w'), indent=1)
print('checks:', sorted(CHECKS), 'n/a:', [x['property_id'] for x in NOT_APPLICABLE])
