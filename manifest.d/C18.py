chk('C18', 'exploration',
    'bounded-exhaustive exploration of the real utils.shortest_int and devices.ADC against brute-force references (quick / '
    'thorough). shortest_int: EVERY vector of length 1..8 / 9 over {0,1,2,3} (87 380 / 349 524), of length <= 6 / 8 over 4 more float '
    'alphabets (scale mix, 1e-11, 1e6 with near-ties, 1+k*eps) and <= 6 / 7 over int64, int32, uint16, full-scale int16, complex128 / 64 '
    'with zero imaginary part, x {10,25,50,75,90,99.99}; 16 edge percentages (1e-9 .. 99.9999999) x every '
    'vector of length <= 7 / 8 over {0,1,2,3} and <= 6 / 7 in int64 (1 288 744 / 6 728 232 calls); 13 data x 10 percentage spellings x '
    'every vector of length <= 4 / 5 (238 680 / 957 528); the lag clause on every (p, length), p a multiple of 1/2 / 1/4 in (0,100), '
    'length 2..200 / 400, on 3 probe vectors (118 803 / 477 603); 979 / 2 199 seeded records of 3..2^17 samples. Oracle: no exception, data '
    'values lo <= hi that are order statistics exactly floor(p*len/100) apart (lag 0 included) of minimum width over ALL such pairs. '
    'ADC: 5 signal families x 10 lengths (2..2^17) x 24 dtype / value forms (float64/32/16, int8..64, uint8/16, scales 1e-12..1e6, '
    'offsets, complex containers) x n 1..12 x otype {n,v} x 8 input forms (ndarray, container, 3 noise forms, 3 chained '
    'conversions): 38 640 / 229 800 fresh-input cases (quick: 7 base dtype x 3 base input forms with every n, all 10 lengths for '
    'float64 and 6 otherwise, the rest as a one-deviation lattice on <= 6 lengths and <= 6 n; thorough: full product, new x new cells at 6 n), 10 call '
    'spellings on a sub-product (4 560 / 28 500), 2 750 / 15 050 sweeps converting ONE input object (writable / write-protected) with all '
    '24 (n, otype), argument bytes compared with a snapshot after every call. Clauses: length, <= 2^n levels, integer codes in [0,2^n-1], '
    'values in [V_min,V_max], inside samples move <= half a step, outside samples get the end codes, for SOME minimal 99.99 % '
    'interval, mid-tread or mid-rise; plus the kernel call-history part (4 calls x 3 grids)',
    'covered at the listed alphabets, lengths and forms only: vectors longer than 9 only as lag-scan probe vectors and VERIF_SEED-seeded '
    'records; the quick tier thins lengths and bit depths outside the base block. Outside the statement and not run: constant records (zero '
    'step), the resampling argument fs, records with a non-zero imaginary part (complex containers only with imaginary part exactly +-0, '
    'judged on the real part), bool / NaN / inf / 2-D data, float or bool n; an invalid otype is not asserted (no error clause). Widths are '
    'compared in the float arithmetic the input dtype implies (monotone rounding: a reported non-minimum is real, windows closer than one '
    'rounding error count as tied); ADC tolerances are 32 eps max(|V_min|,|V_max|,range) with eps of that arithmetic, so on a large offset '
    'the volt and half-step clauses bind only up to the rounding of the offset; numpy 1.26 value-based scalar promotion is assumed',
    'full-space enumeration batched by vector prefix / form pair / length, differential oracle = brute force over all windows (python floats '
    'for short vectors, numpy for long records), failing inputs re-registered as single replayable cases; mutation-checked (M1-M13, H1-H7, '
    'W1-W3 in notes/C18.md)',
    'DESIGN.md 5/C18')
