chk('C18', 'exploration',
    'bounded-exhaustive exploration of utils.shortest_int and devices.ADC on the real code against brute-force references: '
    'shortest_int on EVERY data vector of length 1..8 over {0,1,2,3} (87 380 vectors = every tie pattern up to that size; thorough: '
    'length <= 9, 349 524 vectors), every vector of length <= 6 (thorough 8) over the scale mix {0,0.5,1e-3,7} and over the tiny-scale '
    'alphabet {0,1,2,3}e-11, int64 vectors of length <= 6 (7), each with every percentage in {10,25,50,75,90,99.99} (622 560 / 3 276 768 '
    'calls), plus seeded 10^4 and 2^17-sample Gaussian / uniform / 16-level records; oracle: two data values lo <= hi that are order '
    'statistics exactly floor(p*len/100) apart (lag computed with fractions and in floats, either accepted) whose width equals the '
    'minimum over ALL pairs that far apart, no exception (lag 0 included). ADC over the full product of 5 signal families (Gaussian, '
    'uniform, sine, 16-level quantised, Gaussian with +-10 sigma outliers) x lengths {2,3,100,9999,10000,20000,2^17} x n 1..12 x otype '
    '{n,v} x {ndarray, container, container+noise} (2 520 cases, thorough 3 seeds): length, <= 2^n levels, integer codes in [0,2^n-1], '
    'values in [V_min,V_max], samples inside move <= half a step, samples outside get the end codes, for SOME minimal 99.99 % interval '
    'of the brute-force reference and either the mid-tread or the mid-rise reading of "quantisation step"',
    'the signal/data quantifier is covered at the listed alphabets and lengths only (vectors longer than 9 only as seeded records); '
    'constant records (V_max == V_min, zero step) and the resampling argument fs are outside the statement and not run; width '
    'comparisons are made in float arithmetic (monotone rounding: a reported non-minimum is a real non-minimum, two windows whose real '
    'widths differ by less than one rounding error are treated as tied); ADC tolerances are 32 eps max(|V_min|,|V_max|,range)',
    'full-space enumeration batched by vector prefix, differential oracle = brute force over all windows (python floats for short '
    'vectors, numpy for long records), failing vectors re-registered as single replayable cases; mutation-checked (13 mutants)',
    'DESIGN.md 5/C18')
