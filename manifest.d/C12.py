chk('C12', 'model_checking',
    'stateless exploration of the nondeterminism tree of ppm.HDD on the real function: a scripted numpy RNG turns every scalar randint/choice request into a tree node and HDD '
    'is re-executed for every answer the generator can give. FULL tree for EVERY slot pattern of <=12 slots, M in {2,4,8} (quick) / <=16 slots, M in {2,4,8,16} (thorough); '
    'deviation-bounded tree (at most d answers differ from the first candidate) for every 13-16-slot pattern (quick, d=2), every 18-slot M=2 pattern (thorough, d=1), 1-3 '
    'symbols of a 9-kind alphabet for M=16..256 (1 symbol full; 2: d=1 / thorough full; 3: d=1) and 3-5-symbol kind sequences for M in {4,8} (d<=2). Every leaf: one ON slot '
    'per symbol, valid symbols unchanged, kept slot was ON; every choice request: ON slots only; small patterns also in up to 49 container forms, on the same object again '
    'under other answers, and with the real generator (outcome must be a leaf). quick 265 773 patterns, 3.90 M leaves (= executions of HDD), 7.52 M nodes; thorough 653 960 / 14.7 M / 29.1 M. Around it, '
    'bounded-exhaustive: PPM_ENCODER/PPM_DECODER on every bit string of length 0..12 x M in {2..256} x 49 container forms up to 8 bits (thorough 12), else 13 (str separator '
    'spellings, element types, 13 ndarray dtypes, strided / write-protected views), arguments byte-compared after each call; all ordered symbol pairs, 2000-4097-bit words, '
    'records beyond 2^16 slots, zero symbols, M as numpy scalar / 0-d / keyword; SDD identity on DAC(codeword) (sps {1,2,5,16} x 3 pulse shapes x short codewords) and chains '
    'DEC(SDD(DAC(ENC(b))))==b, HDD(ENC(b)); SDD argmax on 4 seeded energy families, all amplitude permutations and tied-energy assignments (M<=4, thorough 8), 15 sample '
    'dtypes x 15 container/noise layouts + 5 scales/offset (3 612 / 9 632 cases), one shared object after each of 10 gv configurations and every a->b->a history; ValueError '
    'for 16 invalid orders, 0 and ragged lengths in all forms (3 839 cases); real-RNG conformance (up to 8 numpy seeds x 2000-slot seeded patterns replayed through the '
    'scripted RNG); kernel call-history part (7 calls x 3 ambient grids vs a fresh interpreter). quick 349 832 / thorough 915 838 cases',
    'slot patterns above 16 slots (18 for M=2) and orders above 16 are covered only through the 9-kind alphabet and a deviation bound, not exhaustively (quick: 4.35 M sibling '
    'answers pruned); "randomly for long sequences" is covered by seeded 2000-slot patterns / long words whose content (not the enumeration) depends on VERIF_SEED; the SDD ON slot '
    'is asserted only on symbols where all readings of "integrated energy" (sum x, sum x^2; complex: sum Re x, sum |x|^2, |sum x|) pick the same slot beyond the rounding bound '
    '(quick 59 693 of 65 984 symbols); that numpy.random.randint/choice only return members of the requested candidate set is trusted and bound by the conformance part; '
    'float-valued orders may be rejected or treated as the int; narrow / unsigned numpy orders, M=1, bool orders, tab/newline/";" string spellings, nested or ragged '
    'containers and integer samples beyond 2^53 are run or left out but not asserted',
    'scripted-RNG stateless search of the HDD answer tree by re-execution (full / deviation-bounded) in lock-step with a three-clause reference oracle + bounded-exhaustive '
    'differential enumeration (container forms, dtypes, call histories) for encoder, decoder, SDD and the error clauses; fresh-interpreter differential oracle for the kernel '
    'call-history part', 'DESIGN.md 5/C12')
