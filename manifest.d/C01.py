chk('C01', 'model_checking',
    'explicit-state search over operator programs on the real electrical_signal / optical_signal objects in lock-step with an (S,N) '
    'array-pair model. Leaves: 663 = 108 base (3 layouts x lengths {1,2,3,5,7,64} x int64/float64/complex128 x noise absent/present) + '
    '555 extra (8 narrow dtypes bool..complex64; 6 scale/offset variants, 2 VERIF_SEED-selected random fields; noise all-zero / of '
    'another dtype / in row 0 only; lengths 13, 127). Alphabet: 483 ops = + - * with 71 right-operand kinds (second objects of equal '
    'length / length 1 / other dtypes / all-zero noise, the object itself, Python and numpy scalars, ndarrays of 10 dtypes, 0-d / strided '
    '/ 2-row arrays, lists, tuples, strings), 30 reflected kinds, 12 length-mismatch operands (ValueError required), 106 neutral-element ops (0 / 0.0 / -0.0 / 0j / False, numpy zeros, constant '
    'arrays / lists / strings, all-zero objects on both sides of + -: 21 right / 14 left kinds; 1 and all-one objects for *: 14 / 8; 14 '
    'built-in sum() forms), 26 slice forms, 6 '
    'copy forms, 6 transforms. Wide: all 483 ops on every leaf; depth 2 quick = the 105-op core alphabet as prefix and final op from the '
    'base leaves + 29 dtype-preserving prefixes x 483 from 24 narrow leaves; thorough adds core x 483 and new-op x core from the base '
    'leaves, dtype-preserving x 483 from all extra leaves, and depth 3 (core^3) from 36 base leaves only. Deep: de-duplicating DFS over '
    'two 12-op alphabets, depth <= 4 from 108 + <= 5 from 144 leaves (quick) / <= 6 from 36 + 240 leaves (thorough). Constructors: full '
    'products of 1600 forms and 2640 dtype combinations + 47 special / must-reject spellings; 9 sweeps repeated under 3 other gv '
    'histories. quick 17 272 cases, 527 409 states / 2 405 703 transitions; thorough 481 759 cases, 4.48 M states / 55.9 M transitions. Oracles on '
    'every transition: contract, freshness (np.shares_memory), operand immutability (write-protected buffers, every attribute compared), '
    '+ -: total field (integers modulo 2^bits, floats 8 eps relative) and noise-iff; slices / copy / constructors exact. Shared '
    'call-history part: 2 calls x 3 grids',
    'values outside the alphabets (ramps, alternating noise, the listed scale members, two seeded fields per run) and mixed-layout '
    'operands (1-pol with 2-pol) are not explored; depth 3 over the core alphabet is thorough-only and from 36 of the 108 base leaves; '
    'depth 2 from the extra leaves uses dtype-preserving prefixes only; inside programs the neutral elements appear in their int '
    'spelling and as sum([x]) only (0 as operand of * and 1 as operand of + - are ordinary scalars); numpy integers as slice indices and ndarrays / numpy scalars on '
    'the LEFT are outside the property text. For * and the transforms only the contract is stated, so the model adopts the implementation '
    'values after checking it. Boolean samples are outside the quantified dtypes: a numpy TypeError is accepted and the total-field '
    'clause is skipped on all-boolean operands; float16 samples beyond the dtype range are not compared. Not asserted (statement silent): '
    'result dtype, lossy dtype=, copy(n) with n > length, invalid n_pol, invalid transform domain',
    'explicit-state BFS/DFS over operation sequences on the real objects with a lock-step reference model; bounded-exhaustive constructor '
    'products with exact differential oracle',
    'DESIGN.md 5/C01')
