chk('C02', 'model_checking',
    'explicit-state BFS over transform programs - all sequences of the 6 operations (w|f|t) x (shift False|True), de-duplicated by '
    'canonical object state - on the real electrical / optical (1- and 2-pol) signal objects in lock-step with a numpy.fft row-wise model '
    'AND an exact 80-bit DFT model of the (signal, noise) pair. Leaves (15 003 quick / 22 813 thorough): (a) lengths '
    '{1,2,3,4,5,7,8,11,13,16,17} (+ 6,9,31,32 thorough) x FULL BASIS e_k, j*e_k on every row + ramps + one VERIF_SEED-selected field + 5 '
    'scale members x noise absent / alone / mixed / zero-sum / all-zero; (b) 14 sample dtypes (bool .. complex long double) x 4 data '
    'kinds incl. both integer limits x same- or other-dtype noise; (c) long lengths 97,127,1023..1025,4095..4097,8191 (+ '
    '61,255,257,2047,4099,16384) with a reduced alphabet; (d) 27 construction forms (containers, dtype=, memory layouts, slice, copy(), '
    'scalars) x 8 lengths. Depth: quick <= 2 (dtype / form leaves and records > 128 samples: 1); thorough <= 4 (3 for lengths '
    '6,9,13,31,32,61,97,127; 2 for forms and records > 128 samples, 1 beyond 5000). Above 128 samples the exact model is evaluated at 16 '
    'output positions only. 107 185 / 1 807 800 distinct states, 223 596 / 4 721 514 transitions. Every transition: new object, same '
    'class / n_pol / shape, no aliasing, write-protected operand unchanged, values within d*8*eps*max(1,log2 N)*||x||2 of both models, '
    'Parseval per row, x(f) == x(w) and the opposite numpy shift undoing the shift bitwise, round trips, repeated call; states: len(), '
    'power(), power(by)/abs(by) (depth <= 1 / 2), w()/w(True) == 2*pi*k/N*gv.fs for the gv in force at call time (22 gv histories, 7 '
    'non-commensurate); 17 invalid domains and 16 invalid by values must raise. Part wgrid: layout x 14 / 18 lengths x noise x 22^2 '
    'ordered (gv at construction, gv at call) pairs, with and without clean() (37 752 / 49 368 cases). Shared call-history part: 4 calls '
    'x 3 grids',
    'continuum quantifier (all fields) is covered at basis points + ramps + scale members + one seeded field only - by linearity the '
    'basis pins the operator, but it remains a finite statement; lengths above 32 only with the reduced alphabet, none above 8191 (16384 '
    'thorough); program depth > 4 and non-finite values are not explored. Precision demanded on float16/float32/complex64 samples is '
    'single (eps 2^-23: numpy >= 2 transforms them in single precision), double elsewhere; power()/abs() are not asserted where the '
    'formula leaves the range of a bool / fixed-width integer dtype. An invalid domain or by may raise ValueError or TypeError (statement '
    'silent); upper-case domains and letter case of by are neither demanded nor forbidden. phase(), t(), dt(), sps() are outside the '
    'statement and not checked; gv.fs read from the real gv object is taken as the configured rate (its consistency is C14)',
    'explicit-state BFS over operation sequences on the real objects with two lock-step reference models (numpy.fft and exact long-double '
    'DFT) + full basis enumeration + full product of gv configuration pairs',
    'DESIGN.md 5/C02')
