chk('C05', 'exploration',
    'bounded-exhaustive exploration of the real DAC and SAMPLER against a slot-by-slot reference waveform. rect: EVERY bit word of length '
    '1..6 (quick) / 1..8 (thorough) x 20 container forms / bit dtypes (str, lists, tuple, 9 write-protected ndarray dtypes, '
    'binary_sequence; 13 of them with nrz / rz only) x sps {2,3,4,5,8,16,17,128} (thorough + 7,9,31,32,64,127) x 3 / 6 (Vout,bias) pairs '
    'incl. negative Vout, +-47.9, None x 5 spellings of nrz / rz, plus every word of length 1..3 / 1..5 x 12 edge amplitudes (np.float64, '
    'nextafter(48,0), 1e-12..1e-3): whole waveform per slot; SAMPLER at EVERY instant k in [0,sps) (k as int / np.int64 / int32 / intp) '
    'on the waveform with an index-coded noise vector, signal AND noise bit-exact against indexed samples (on the 7 basic forms); '
    'sign-aware threshold at bias+Vout/2 returns the word (every k nrz, k < sps//2 rz); the decision fed to DAC again. Gaussian: sps '
    '{8,9,16,17,32,64,128} x EVERY integer T in [ceil(sps/2),2sps] x m 1..4 on 14 words of isolated ones (gauss.iso; amplitudes other '
    'than (1,0) on 0001000 only) and on 14 / 60 mixed words holding isolated ones AND runs of adjacent ones (gauss.mix): peak position 1 '
    'sample, peak value 5 %, half-maximum width 1 sample; EVERY sps 8..128 at the T / m limits and with T, m omitted; gauss.inv: every '
    'word x T in [ceil(sps/2),sps] x m inverted at k=sps//2. rect.mix: the mixed words in nrz / rz. long: 11 structured / seeded patterns '
    'x 12 lengths 7..4097 (thorough 27, ..8192) x 3 shapes. sampler: write-protected generic records of 32 kinds (dtypes '
    'bool..complex128, mixed-dtype / zero / no noise, scales 1e-12..1e6) x 17-19 lengths up to 4097 x every k, result sampled again. '
    'grid: EVERY sps 2..128 x 17 gv call forms; reconf: 540 a -> b -> a grid changes without clean. valid: 8 591 cases (documented '
    'TypeError / ValueError for Vout, bias, T, m, c, shape names; in-range boundary values accepted). quick 78 914 cases (0.50 M DAC, '
    '4.49 M SAMPLER calls); thorough 387 142. Shared call-history part: 5 calls x 3 grids',
    'continuum quantifiers (Vout/bias in (-48,48), T, sps) are covered at the listed alphabet points only (sps 2..128 completely only in '
    'the thin grid slice and at the T / m limits); exhaustive words stop at 8 bits (6 quick), longer words are structured patterns; slot '
    'centre = mean sample index (sps-1)/2, peak position = midpoint of the samples within 1e-9 of the maximum, isolated 1 = no other one '
    'within 6 slots; Gaussian inverse only for T <= sps; |Vout| or |bias| exactly 48 may be rejected or accepted; non-float64 numpy '
    'scalars, 0-d arrays, bool, Fraction, integer-valued float T / m: TypeError or the correct waveform both accepted; case / white-space '
    'variants of shape names: ValueError or the documented waveform; narrow / unsigned numpy k, nan, the BW low-pass waveform, chirp c != '
    '0, SAMPLER on optical signals and ragged bit containers are outside the statement and not asserted',
    'full-product enumeration with differential oracle (hand-built slot reference, explicit index arithmetic for SAMPLER, interpolated '
    'half-maximum crossings for the Gaussian pulse), tolerances = rounding bound for slot values, bit-exact for SAMPLER, the bands of the '
    'statement for the Gaussian pulse',
    'DESIGN.md 5/C05')
