chk('C05', 'exploration',
    'bounded-exhaustive exploration of DAC and SAMPLER on the real code against a slot-by-slot reference waveform: EVERY bit word of '
    'length 1..8 (quick 1..6) x 7 container forms (str, spaced str, list, tuple, int ndarray, bool ndarray, binary_sequence) x sps '
    '{2,3,4,5,8,16,17,128} (thorough additionally 7,9,31,32,64,127) x 6 (quick 3) (Vout,bias) pairs incl. negative Vout, +-47.9 and None '
    'x the 5 spellings of nrz/rz, whole waveform compared sample by sample, SAMPLER executed at EVERY instant k in [0,sps) on the waveform '
    'with an index-coded noise vector (signal AND noise compared bit-exactly with explicitly indexed samples) followed by the sign-aware '
    'threshold decision at bias+Vout/2; Gaussian: sps {8,9,16,17,32,64,128} x EVERY integer T in [ceil(sps/2),2sps] x m 1..4 on the '
    'isolated one 0001000 (peak position, peak value 5 %, half-maximum width 1 sample) and every word x every integer T in '
    '[ceil(sps/2),sps] x m for the inversion at k=sps//2; SAMPLER on generic real/complex/noise-free records of lengths that are not '
    'multiples of sps; every documented TypeError/ValueError for Vout, bias, T, m, c and unknown shapes, one wrong argument at a time',
    'continuum quantifiers (all Vout/bias in (-48,48), all sps in 2..128) are covered at the listed alphabet points only; words longer '
    'than 8 bits are not run (slots are independent for nrz/rz; for the Gaussian shape 8 slots exceed the +-4-slot pulse support only '
    'partly); the slot centre is taken as the mean sample index (sps-1)/2 of the slot and the peak position as the midpoint of the samples '
    'within 1e-9 of the maximum; |Vout| or |bias| exactly 48 may be rejected or accepted; numpy scalar types, bool, None and '
    'integer-valued floats for T/m and the BW (low-pass) stage are outside the statement and not exercised',
    'full-product enumeration with differential oracle (hand-built slot reference, explicit index arithmetic for SAMPLER, interpolated '
    'half-maximum crossings for the Gaussian pulse), tolerances = rounding bound for slot values, bit-exact for SAMPLER, the bands of '
    'the statement for the Gaussian pulse',
    'DESIGN.md 5/C05')
