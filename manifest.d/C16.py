chk('C16', 'exploration',
    'bounded-exhaustive enumeration of FBG designs on the real implementation. lattice: every design differing from the baseline in <= 2 of 18 axes = 4 396 designs (both '
    'tiers): sampling rate (4, incl. 33.3 GS/s), input length (10: 2^8..2^12, odd, prime, non-smooth), layout (10: 1/2 polarisations, zero second row, n_pol=2, 5 noise forms), '
    'input field (18: content, 12 sample dtypes, scales 1e-12..1e6, DC offset), filtfilt, call form (retH / no retH / print / positional), kL (6, 0.1..8), kL as whole '
    'periods | exact, vdneff (3), chirp F (7, 0..+-20), apodisation (20: built-in names, callable twins in 5 callable forms, seeded smooth positive callables, profiles not '
    'even in z), 6 specification routes {fc,landa_D}x{kL,L,N}, scalar type of the design numbers (6), gv history (8), offset of the Bragg frequency from gv.f0 (3), neff (3), '
    'fringe visibility v (2), design through vdneff | dneff. thorough adds lattice3 (exactly 3 deviations over the 10 first-release axes and neff, 5 266) and the full product '
    'kL x vdneff x apodisation x F (2 520). index: neff {1.45,1,2.2,3.4} x v {1,0.5,0.1} x 14 ways of specifying the grating x 2 (thorough 3) profiles (336 / 2 016). limits: '
    'kL, vdneff, F at the documented limits and one ulp inside, exact numbers, x 4 (6) apodisations x 2 (3) rates (640 / 1 440). corners: the 16 corners of (fs,n,vdneff,kL) '
    '(32 / 80). seq: every ordered pair (a,b) of 17 calls run in one process as b,a,b\' on shared input objects, gv reconfigured in between (272 x 3 calls): H(b\')==H(b). spec: '
    'all 2^7 presence/absence patterns of {landa_D,fc,kL,L,N,dneff,vdneff} x 3 (6) value sets. Every design is checked at EVERY frequency bin against closed forms computed '
    'from the design numbers and ITS neff (tanh^2(kL int p) with scipy.quad of a reference profile, sinh^2 g/(cosh^2 g - d^2/k^2)), |H|<=1, against its name/callable twin and '
    'the (fc,kL) route (1e-9), and the returned field against ifft(fft(in)*ifftshift(H)) per polarisation, energy not increased. Kernel call-history part: 3 FBG calls x 3 '
    'grids vs a fresh interpreter. quick 6 125 evaluations / 11 700 FBG calls, thorough 16 823',
    'holds for the enumerated alphabets only (bounded, not a proof over the continuous parameter ranges; <= 2 deviations, neff/v crossed with all routes only at n = 256); '
    'tolerances are multiples of the RK45 rtol=1e-3 the implementation uses (|H|<=1+5e-3, peak 2e-3, uniform spectrum 1e-2; measured worst 0 / 4e-4 / 5e-3); '
    'same-H relations to 1e-9; determined-but-unlisted specifications may either compute or raise ValueError; the sign of the chirp '
    'is not constrained (a non-deciding diagnostic against the documented coupled-mode ODE only records the deviation); dneff designs: uniform closed form with '
    'd = delta + sigma, apodised ones only passivity / filtering / energy / equivalence; what becomes of input noise is not asserted, the energy clause is skipped for noisy '
    'inputs; lengths outside 2^8..2^12, one ulp outside the limits, kL/N/L = 0 are outside; rcos is read as 1/2(1+cos 2 pi z); numpy.fft and scipy.quad are trusted; the '
    'random input fields and two apodisation members are seeded (VERIF_SEED picks content only)',
    'deviation-lattice + full-product bounded-exhaustive exploration with closed-form, differential (name vs callable, route vs route, call vs repeated call in a sequence) '
    'and presence-pattern oracles on 16 workers; fresh-interpreter differential oracle for the kernel call-history part',
    'DESIGN.md 5/C16')
