chk('C03', 'exploration',
    'bounded-exhaustive words x deviation lattice of link configurations, every case executed on the REAL chained blocks '
    'bits -> DAC(Vout=Vpi, nrz|gaussian) -> MZM(CW carrier, bias=-Vpi) -> [DM | FIBER(alpha=0.2, gamma=0), |beta2*L| = 0.9 % of T_slot^2, both signs] '
    '-> PD(include_noise=ase-only on a noise-free field, run under a scripted RNG that reports any random draw) -> SAMPLER(sps//2) -> threshold '
    'midway between the two received level means (numpy comparison AND the library > operator), oracle = the transmitted word, exact equality. '
    'Lattice over 12 axes (baseline first): sps {16,4,5,7,8,33,64}, R {1e9,10e9}, pulse {nrz,gaussian}, Vpi {5,2}, loss {0,3 dB}, ER {26,10,40 dB}, '
    'launch {0,-20,+10 dBm}, r {1,0.5}, R_load {50,1e3}, PD BW {0.75R,0.7R,2R}, layout {1-pol, 2-pol split carrier, 2-pol with both rows populated '
    '(-45 deg linear state)}, channel {none, DM+, DM-, FIBER+, FIBER-}; points with PD BW >= fs/2 dropped: 25 points at k<=1, 275 at k<=2, 1781 at k<=3. '
    'quick: ALL 254 words of length 8 containing both symbols x the 25 k<=1 points (6 350 links) + 8 fixed words (0^8 1^8, (01)^8, single 1 / single 0 '
    'in 16 slots, PRBS7[:16], PRBS7[:64], two VERIF_SEED-selected 16-bit words) x the 275 k<=2 points; thorough: ALL 1022 words of length 10 x k<=1, ALL '
    '254 words of length 8 x every k=2 point (63 500 links), the fixed words x the 1781 k<=3 points. Packaged routines on the same links: ook.DSP on '
    '32/64/127 slots of PRBS7 and seeded-random data, ppm.DSP soft and hard (estimated threshold) on PPM_ENCODER output (encoder compared with a '
    'reference) for M in {2,4,8,16} x 3 data words (all-symbols ramp, PRBS7, seeded), over the k<=1 (thorough k<=2) points + 6 corner points x a KMeans '
    'seed alphabet {0,1} ({0,1,2}); on every decoded output ook/ppm BER_analizer(counter) must be exactly 0 and exactly k/n for EVERY way of flipping '
    'k in {1,2,3} bits at positions {0,1,n//2,n-2,n-1}; the same on plain sequences of length 2..127 (thorough: + all 6-bit words)',
    'continuum quantifiers (sps 4..64, rates, Vpi/loss/ER, powers, responsivity/load/bandwidth) are covered at the lattice points and only up to 2 (quick) '
    '/ 3 (thorough) simultaneous deviations from the baseline; word lengths 8/10 exhaustively, longer words only the fixed set and the DSP words; MZM BW '
    'and DAC BW stages, rz pulses, pol=y, beta3 and gamma != 0 are not exercised; the dispersion magnitude is one value (0.9 %) per sign; ook.DSP only on '
    'pseudo-random data as the statement says; the level means used for the midway threshold are taken over the transmitted ones / zeros; the '
    '2-pol-rot layout applies a harness-side unitary Jones rotation after the MZM because the MZM block always empties one row; a one-sample timing '
    'error of the Gaussian pulse does not change any decision in the explored space and is therefore not detectable through this property (C05 owns pulse position)',
    'bounded-exhaustive enumeration (all short words x deviation lattice, iterated bound k) on the real block chain with the transmitted word as oracle; '
    'owned nondeterminism: scripted numpy RNG around the link, enumerated np.random.seed alphabet for KMeans, single-threaded workers',
    'DESIGN.md 5/C03')
