chk('C03', 'exploration',
    'bounded-exhaustive words x deviation lattice of link configurations on the REAL chain bits -> DAC -> MZM(CW carrier) -> [DM | '
    'FIBER(gamma=0), |beta2*L| = 0.9 % (one DM member 0.99 %) of T_slot^2, both signs] -> PD(ase-only, noise-free field, scripted RNG '
    'reports any draw) -> SAMPLER(sps//2) -> threshold midway between the received level means (numpy and the library > operator, 6 '
    'threshold forms); oracle = the transmitted word, exact. 17 axes: sps {16,4,5,7,8,33,64}, rate, pulse, Vpi, loss, ER, launch -50..+20 '
    'dBm, r, R_load, PD BW, 6 layouts (incl. pol=y, all-zero noise attached), 11 channel, 5 tx, 3 PD call forms, and 3 notation axes (11 '
    'bit containers, 7 gv call forms incl. non-integer fs/R, 4 scalar number forms); PD BW >= fs/2 dropped: 61 points at k<=1, 1 682 at '
    'k<=2, 27 864 at k<=3, of which quick runs 3 188 (option / notation deviations k<=2) and thorough 9 310 (notation k<=2). quick: ALL '
    '254 words of length 8 with both symbols, all words of length 2..5 longer than the 16-sample padding and 4 seeded / single-symbol '
    'words of 128,129,4097 slots x the 61 points; 8 fixed words (16 / 64 slots, 2 VERIF_SEED-selected) x 3 188 points (44 868 link runs). '
    'thorough: ALL 1022 words of length 10 x 61, ALL 254 x the 1 621 k=2 points, lengths 2..7 and 127..8193, fixed words x 9 310. '
    'Packaged routines: ook.DSP (32/64/127 slots PRBS7 / seeded, records up to 8193 / 10001 slots) on k<=1 (thorough k<=2) + 9 corners + '
    'all 81 pairs (thorough + 197 triples) of eye-shaping deviations x KMeans seeds {0,1} / {0,1,2}: 1 564 / 11 172 runs; ppm.DSP soft / '
    'hard (estimated and explicit threshold), M in {2,4,8,16} x ramp, PRBS7, seeded, ragged and 6 structured words, 1, 3, 8192/M+1 '
    'symbols: 4 513 / 17 718 runs. On every decoded output and on plain sequences (all pairs of 9 containers, Tx longer by 0..3 bits) '
    'both BER_analizer(counter) must give exactly 0, exactly k/n for every flip set of k in {1,2,3} over 5 positions and over a ladder of '
    'counts 4..n at machine-word boundaries on records up to 70 001 (thorough 2^24+2) bits. Shared call-history part: 20 calls x 3 grids',
    'continuum quantifiers (sps 4..64, rates, Vpi/loss/ER, powers, responsivity/load/bandwidth) are covered at the lattice points and up '
    'to 3 simultaneous deviations (2 when one is an option / notation deviation; thorough: notation only); words exhaustively for lengths '
    '2..5, 8 (quick) / 2..8, 10 (thorough) at k<=1 (8 also at k=2 in thorough), longer words only the fixed / seeded / single-symbol sets '
    'and the DSP words; rz pulses, DAC(c,m,T), beta3, gamma != 0, Rx longer than Tx are outside; ppm.DSP hard decision with estimated '
    'threshold only on records of >= 32 slots; number / container forms rotate over the cases in the quick tier; the level means of the '
    'midway threshold are taken over the transmitted ones / zeros; the 2-pol-rot layout applies a harness-side unitary Jones rotation; a '
    'one-sample timing error of the Gaussian pulse is not detectable through this property (C05 owns pulse position)',
    'bounded-exhaustive enumeration (all short words x deviation lattice, iterated bound k) on the real block chain with the transmitted '
    'word as oracle; owned nondeterminism: scripted numpy RNG around the link, enumerated np.random.seed alphabet for KMeans, '
    'single-threaded workers',
    'DESIGN.md 5/C03')
