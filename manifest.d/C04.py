chk('C04', 'model_checking',
    'explicit-state enumeration of the PRBS generator. Model: for all 7 orders the whole cycle of 2^n-1 LFSR states is walked by a native '
    'C walker (literal period, ones, visited bitmap - order 31 bitmap thorough only; 2.16e9 states) and the order of x modulo the '
    'documented polynomial is computed = 2^n-1. Real PRBS: one call over the whole period for n in {7,9,11,15,20} (quick) + 23 and, in '
    '256 segments of 2^23 shifts chained through jump-ahead checkpoints, all 2^31-1 states of PRBS31 (thorough, time-budgeted: a run that '
    'does not fit reports the covered fraction and exhaustive=false; the last recorded thorough run covered all 256 segments in '
    '184 s); quick for orders 23/31: 64 x 2^16 consecutive states from checkpoints spread over the cycle (50 % / 0.2 %). Call-level '
    'relation state --len--> (bits,state) from EVERY non-zero start state for n<=15 (quick) / n<=20 (thorough), 64 / 4096 states for the '
    'larger orders, lengths {1,2,3,n-1,n,n+1,2n+3} and, for n<=9 from every state (n=11,15: 64 / 16 states), 9 lengths around 1, 2, 3 '
    'periods. Histories: all sequences of 1..3 resumed calls over the 7 short lengths, every 2-split of 2n+3 and 3-split of n+2, all 81 '
    '4-call sequences over {1,2,n+1} (+ 11 period-multiple sequences for n<=9), the returned state object fed back unchanged, from every '
    'non-zero state of orders 7,9 (thorough + 11) and 64 / 256 states otherwise, against the single call (525..1031 sequences per state). '
    'Seeds: 731 values (+-2^k, +-(2^k+-1) at every machine-word size, residues, zero class + warning). Forms: 2 575 cases - seed / len / '
    'order as every numpy integer dtype at its limits and around 2^n, bool, integral floats, 0-d arrays (rejection accepted, a returned '
    'sequence must be that of the integer value; the type return_seed hands out must work), call forms, 7 gv configurations. Validation: '
    '2 376 cases (non-positive / non-int len, 59 + 16 unsupported orders, both, x seed x return_seed). quick 8 337 / thorough 14 106 '
    'cases (quick: 2.05 M real calls). Shared call-history part: 2 calls x 3 grids',
    'orders 23 and 31 are enumerated completely on the implementation only in the thorough tier and order 31 only when the time budget '
    'allows (quick: C model + conformance segments); histories are bounded to 3 calls (4 over a 3-length alphabet) and start states are '
    'complete only for n<=9 / n<=11; longer histories follow by induction from the one-call relation only under the assumption that PRBS '
    'keeps no hidden state; the start-state sets of the larger orders are fixed patterns + jump-ahead samples, not exhaustive; default '
    'len and default seed are not asserted; non-integral floats, str, list, 1-d arrays as seed are outside the statement; for typed '
    'arguments the statement does not name, TypeError / ValueError / OverflowError count as a legitimate rejection; GF(2) algebra, numpy '
    'and the C compiler are trusted',
    'explicit-state walk of the real generator + bounded call-history exploration against an independent GF(2) reference (recurrence, '
    'companion matrix, polynomial order, native C walker)',
    'DESIGN.md 5/C04')
