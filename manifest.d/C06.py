chk('C06', 'exploration',
    'real MZM / PM / LASER against closed-form per-sample reference models, 372 930 cases quick / 2.27 M thorough. '
    'MZM: deviation lattice k<=2 quick (890 points) / k<=3 thorough (5 562) over (20 level + 14 waveform drive records, '
    'field lengths 1..1025, one record with every (field value, drive level) pair, one of 100..1000 Vpi; 4 biases, 4 Vpi, '
    '6 losses, 7 ER incl. 0 / 60 dB and one ulp inside, 2 pol) with the FULL product 4 layouts x 6 noise kinds (+ x-only / y-only for 2-pol) '
    'x 10 drive containers at every point; the lattice with k-1 for 15 further field layouts (real / int / uint8 / bool / '
    'f16 / f32 / c64 fields, empty y, x1e-9, x1e6, DC offset, read-only, LASER output), 14 further drive containers '
    '(numpy scalars, 0-d, small-int / bool / c128 arrays, tuple, noisy electrical_signal), 7 scalar types of bias / Vpi / '
    'loss / ER, 2 other grids; 18 pol values; integer drives at dtype limits. Oracles: transfer identity on signal and noise, passivity, '
    'on/off ratio, 2Vpi periodicity, pol extinction, container equivalence, 7 wrong drive lengths per N -> ValueError, '
    'bitwise-equal repeat call after a grid change. PM: full product 4 Vpi x 19 layouts x noise x (3 scalar containers '
    'x 20 + 7 waveform containers x 14 records); 13 further containers x 8 Vpi types x 3 grids; ALL ordered PM sequences of depth 2 '
    '(23-element alphabet) and 3 (8 quick / 23 thorough); ALL ordered mixed MZM/PM chains of depth 2 / 3 over 6 calls. LASER under the '
    'scripted numpy RNG: full product 5 time-vector kinds x 2 grids x N {16,64} (+1,2) x 2 offsets x 4 powers x 5 linewidths x 5 phase-noise '
    'answers {0, ramp, +-pi alternating, seeded, large} x df on bins {None,0,+-1,+-3,+-N/8,+-N/2}; lattice k<=3 / 4 adding 4 grids, '
    'prime N, far offset, scalar types of p / lw / df, extreme powers, RIN; |df| > fs/2 (incl. the doubles next to fs/2) raises on 6 grids; '
    'all 36 ordered grid pairs reconfigured between calls; kernel call-history part (7 calls x 3 grids vs a fresh interpreter)',
    'continuum quantifiers (fields, drives, bias/Vpi/loss/ER, laser powers/linewidths) are covered at the stated alphabet points only; the '
    'MZM lattice is a deviation bound, not the full parameter product; seeded members depend on VERIF_SEED; BW of MZM stays None. Not '
    'exercised: float16 drive arrays for MZM, list / tuple drives of PM, string forms of electrical_signal, unsigned and 8/16-bit numpy '
    'scalars as parameters, integer-minimum df, ER / loss outside their documented range. Where the statement is silent two behaviours are '
    'accepted and nothing else: length-1 drive array against N > 1 (ValueError or constant drive), noise of an electrical_signal drive '
    '(ignored or added), numpy-integer / float32 / 0-d scalar PM drives (documented TypeError or applied), pol other than x / y (rejected '
    'or one of the two results). With RIN only the rotation clause is checked, not the level. Gaussianity of numpy.random.normal is '
    'trusted (the scripted RNG enumerates its answers instead)',
    'deviation-lattice + full-product enumeration and exhaustive PM / mixed operation sequences on the real devices, scripted-RNG enumeration of '
    'LASER phase-noise answers (the RIN samples are one fixed scripted vector), differential oracle against closed-form transfer functions '
    'with rounding-bound tolerances',
    'DESIGN.md 5/C06')
