chk('C06', 'exploration',
    'bounded-exhaustive exploration of MZM / PM / LASER on the real code against closed-form per-sample reference models: '
    'MZM over a deviation lattice (k<=2 quick, k<=3 thorough) of (17 drive levels | 6 waveforms incl. a 102-sample record holding every '
    '(field value, drive level) pair, 4 biases, 3 Vpi, 4 losses, 5 ER, 2 pol) with the FULL product 4 layouts x 6 noise kinds '
    '(incl. zero-sum and all-zero noise) x 7 drive containers at every lattice point, checking transfer identity on signal and noise, '
    'passivity, on/off ratio, 2Vpi periodicity, polarisation extinction, container equivalence and wrong-length ValueError; PM as a full '
    'product plus ALL ordered PM operation sequences of depth 2 (23-element drive alphabet) and depth 3 (8 quick / 23 thorough) for '
    'additivity; LASER under the scripted numpy RNG over every phase-noise answer vector {0, ramp, +-pi alternating, seeded, large} x '
    'df on FFT bins {0, +-1, +-3, +-fs/8, +-fs/2} x powers x linewidths x grids, and |df| > fs/2 raising',
    'continuum quantifiers (all complex fields, all real drives/bias/Vpi/loss/ER, all laser powers/linewidths) are covered at the stated '
    'alphabet points only; the MZM lattice is a deviation bound (k axes away from the baseline), not the full parameter product; the '
    'MZM band-pass stage (BW) is left None; numpy scalar integer drives and list drives of PM are outside the documented drive types and '
    'not exercised; that numpy.random.normal is Gaussian is trusted (the scripted RNG enumerates its answers instead)',
    'deviation-lattice + full-product enumeration and exhaustive PM operation sequences on the real devices, scripted-RNG enumeration of '
    'LASER phase-noise answers, differential oracle against closed-form transfer functions with rounding-bound tolerances',
    'DESIGN.md 5/C06')
