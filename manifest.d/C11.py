chk('C11', 'exploration',
    'bounded-exhaustive BASIS enumeration on the real LPF/BPF. Configuration = device x order 1..8 (quick {1,4,8}; other orders a thin slice at cutoff 0.1) x cutoff '
    '{0.01,0.05,0.1,0.25,0.45}*fs x fs {16,160} GS/s x fs from gv or (LPF) fs=... with gv at the other rate. For every configuration and N in {n_min,28,64,257} '
    '(n_min = 17..28, shortest legal record of the order) the response to EVERY unit impulse - the complete operator matrix M - is taken through the plain entry point and '
    'again through 8 further base kinds per device (int/scaled/retH ndarray, containers with/without/only noise, complex dtype, 1-/2-pol), 18 LPF / 14 BPF extended kinds '
    '(retH=True mode, amplitudes 1e-12..1e6, ripple on a DC level; quick N<=64) and 57 hardening kinds (15 sample dtypes incl. unsigned / full-scale ints, 5 spellings of '
    'BW/n/fs, 4 gv call forms, zero / aliased / mixed-dtype noise, strided and Fortran views, fs = 16 Hz; quick N in {n_min,28}), permuted basis vectors on signal, noise and '
    'both polarisation rows of one call: every response == matching column of M (1e-10 of the amplitude), zero components stay zero, constants return (1e-12), shapes kept, '
    'write-protected inputs byte-identical. Plus superposition and F(x)==M@x on deterministic, seeded and dtype-quantised fields, chained F(F(x)); zero phase (3 centred '
    'pulses in 2049 samples, symmetric to 1e-10 of the peak); 13-tone ladder on the middle half of 4096 samples (gain real positive, <=1, non-increasing, 6.0+-0.1 dB at the '
    'cutoff; also on 7 cutoffs 0.011..0.449); LPF retH == closed-form Bessel (1e-6) == scipy zpk prototype (1e-9) on N in {n_min,28,64,97,257,1025,4096}, |retH|^2 == two-pass '
    'tone gain (1e-3); history: ONE write-protected input through all ordered pairs (thorough + triples) of 7 gv reconfigurations with/without fs=..., and cutoff / order sweeps '
    'on one object, judged by the closed-form two-pass gain (1e-6); kernel call-history part: 7 calls under 3 ambient grids vs a fresh interpreter (77 cases). '
    'quick 49 239 cases / 774 k filter calls, thorough 212 323 / 7.76 M',
    'pins the operator on the enumerated (order, cutoff, fs, N) grid only: other cutoffs/orders/lengths/rates and records shorter than n_min (scipy rejects them for orders '
    '>= 5; <= 16 samples is outside the statement) are not covered; 4 amplitudes and 3 (DC, ripple) pairs: a threshold between members escapes; no ripple members in the '
    'zero-phase part; histories have 2 (thorough 3) steps over 7 grid configurations; "away from the edges" = middle half of 4096 samples / +-(6/fc+50) of 2049; "6.0 dB" is '
    'read as 6.0 +- 0.1; f16/f32/c64 records are judged at 8 eps of their dtype; LPF is checked on real-valued input only (complex dtype with zero imaginary part included); '
    'scipy.signal.bessel is trusted as a pure function (memoised per worker) and the closed-form reference assumes the documented Bessel model; seeded random fields are '
    'alphabet members, not the deciding step',
    'bounded-exhaustive enumeration of the full impulse basis (operator matrix recovery) with differential oracle between entry points / dtypes / spellings / layouts + '
    'superposition/constant/symmetry/tone-ladder oracles + closed-form Bessel reference for retH and for call histories on a shared input; fresh-interpreter differential '
    'oracle for the kernel call-history part',
    'DESIGN.md 5/C11')
