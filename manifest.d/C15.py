chk('C15', 'model_checking',
    'explicit-state BFS over expression programs from ALL 8191 words of length 0..12 as leaves: first-level op set of 794 ops (a+w, w+a for every word w of length <= 4 in '
    'its 12 base forms: 4 string spellings, int/bool list, tuple, bool/int64/float64/uint8 ndarray, binary_sequence; ~a; 7 slices; a+a, a[:k]+a[k:], a+~a and 10 more self-derived; '
    '18 invalid operands x 2 orders), 1680 ops from the leaves <= 7 (+ words <= 3 in 21 extended dtype/element-type forms, 76 operands that must be refused, '
    '53 the statement is silent on), 173 ops deeper (w <= 2). Every transition is executed on the real object (rebuilt by replaying its path) in lock-step with a tuple-of-bits '
    'model; states deduplicated by canonical form (word + layout flags of .data). quick: depth 1 from every leaf, depth 2 from the leaves <= 10: 195 583 states, 10.6 M '
    'transitions; thorough: depth 2 from every leaf + depth 4 from the leaves <= 6 + every-form first level for leaves <= 8: 982 955 states, 62.1 M transitions. Per transition: '
    'closure (.data 1-D uint8 in {0,1}), new object, shares memory with neither operand, operands write-protected and byte-compared, len(a+b), (a+b)[:len a]==a, ~~a==a, '
    'ones+zeros==len, ones(~a)==zeros(a), model equality; len/ones/zeros re-asked after the ops in rotating order. Around it: every word built in 32 container forms (ndarray '
    'of 15 dtypes, strided / negative-stride views, list/tuple element types, mixed separators; words > 8: 18) + 17 scalar spellings (157 981 constructions); 1 797 '
    'invalid / free constructions (one bad value or token per context, dtype limits, non-1-D shapes); every integer index in 8 integer kinds and every slice '
    'start:stop:step of words <= 6 (thorough 9); never-queried operands (words <= 8 / 10); 660 / 1 410 long words, 18 lengths up to 65537 bits (seeded content); x>th / x<th '
    'over 8 value classes (alphabets^n, n <= 2 / 3, incl. tiny / big / offset / extreme) x noise words x threshold forms, a signal container/dtype axis and seeded fields of 12 '
    'lengths (444 / 1 156 cases); the same cases after 12 gv histories; kernel call-history part (3 calls x 3 grids vs a fresh interpreter). '
    'quick 44 543 / thorough 290 373 evaluations',
    'state abstraction assumes behaviour depends only on .data (bytes, dtype, shape, contiguity - all part of the canonical form); bounded depth / word length (BFS states up '
    'to 16 bits plus doubled words), not a fixed point (the state space is infinite); inside the BFS only 7 slices, all others on words <= 6 (9); fancy / boolean indexing '
    'closure only; comparison equality clause demanded only where S>=0, S+N>=0, th>=0 (quick 291 008 of 437 622 comparisons), elsewhere validity and length; a threshold of '
    'another length may raise ValueError or return the signal length; bool signal with bool noise, reflected comparisons, a[0] on the empty sequence, out-of-range indices '
    'and the empty string are outside; "free" inputs (tab/newline separators, float/signed spellings in strings, range, bytes, sets, generators, scalar operands of + ...) '
    'may be refused or accepted as a valid sequence; long-word and compare-long content depends on VERIF_SEED',
    'explicit-state BFS with canonical-form deduplication on the real objects + reference model in lock-step (bounded depth, no fixed point claimed); bounded-exhaustive '
    'tables for constructions / indexing / comparisons; fresh-interpreter differential oracle for the kernel call-history part', 'DESIGN.md 5/C15')
