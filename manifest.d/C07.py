chk('C07', 'model_checking',
    'explicit-state search (part C) over ALL span sequences (6-span alphabet: DM(+300), DM(-300), fibre A 0.5 km, fibre A 3 km, fibre B '
    '50 km, pure-loss 3 km; depth <= 2 quick / <= 3 thorough) on every grid (158 quick / 650 thorough), model state = exact rational triple '
    '(sum beta2*L, sum beta3*L, sum alpha*L): 4 266 states / 6 636 transitions quick, 50 050 / 167 700 thorough; every transition executed on the real DM/FIBER by chaining returned objects and compared with the model filter, '
    'the single equivalent span and the first history of the same model state. Grids = N x 1-/2-pol x gv call history: N in '
    '{1,2,3,13,16,17,64,65} with the FULL basis e_k, j*e_k (operator F M F^-1 recovered, compared with retH), N in {97,127,206,4097,8192} in '
    'probe mode (e_k, j*e_k for k in 0,1,N/2,N-1, ones, random, one-sided; thorough: full basis for 17 lengths up to 206, probe also for 8 lengths 1023..16384); '
    'gv histories: sps+R 16/160/320 GS/s (thorough + 40/1280) on every N; 14 other call forms and two-call histories - non-integer fs/R, fs '
    'alone, N in force, 1310 nm - on N in {2,3,64} (thorough: every full-basis N <= 129, 1023); N > 1000 on 2 / 3 rates only. Part A: every grid x 156 devices (7 '
    'DM; FIBER 3 L x 3 alpha x 5 beta2 x 3 beta3; 14 extreme: |D| 1e-3 / 1e6 ps^2, L 1e-9..1e5 km, alpha 1e-9..100 dB/km) on basis, ones, seeded '
    'random, noisy, one-sided fields and all 480 two-impulse superpositions (N=16). Part B: 485 laws (DM(D1)oDM(D2)==DM(D1+D2) 49 pairs, '
    'FIBER(L,b2)==DM(b2*L) 15, FIBER(L2)oFIBER(L1)==FIBER(L1+L2) 405, 16 extreme) on every grid (N > 1000: 170 of them). Part D: lattice of '
    '461 call forms around 5 base devices on 22 / 190 grids: 11 input dtypes, list / tuple / str inputs, 10 scalar spellings of D / L / alpha '
    '/ beta2 / beta3, 7 spellings of gamma = 0, positional calls, phi_max, show_progress, retH forms, scales 1e-100..1e100, DC offset, 6 noise '
    'layouts, the same objects used twice, gv reconfigured between identical calls, sweeps on one write-protected input. Plus the kernel '
    'call-history part (6 calls x 3 grids vs a fresh interpreter)',
    'continuum quantifiers (all fields, all D/beta/alpha/L, all fs) are covered at basis/grid points only (the full basis pins the operator at '
    'each listed parameter point, not between them); probe-mode lengths check the filter on a few inputs, not the whole operator; gamma = 0 '
    'only; search depth bounded (2 / 3), the model state space is infinite; the noise component (passed through unfiltered by both blocks) is '
    'outside the statement: only its shape is checked, and for a noisy input either the signal part or the total field may obey the filter; '
    'retH may be in fft or fftshift order; loss law within the 2e-4 band of the alpha/4.343 constant (alpha*L <= 50 dB per device); non-'
    'optical_signal inputs (documented TypeError) are outside; VERIF_SEED only changes the seeded random fields; numpy.fft, x87 extended '
    'precision and that every gv call form leaves the documented gv.fs (asserted before each case; C14 checks gv) are trusted',
    'explicit-state search over span sequences with an accumulated-parameter model and differential oracle (sequence == single equivalent span) + '
    'full basis enumeration and call-form deviation lattice against a numpy.fft reference filter',
    'DESIGN.md 5/C07')
