chk('C13', 'exploration',
    'full product (s0, s1) in {0.1,0.05,0.3,1}^2 [thorough +{0.02,3}] x 12 [22] values mu/max(s0,s1) in [1e-3,20] x (OOK | PPM M in {2,4,...,256} x {hard,soft}) for '
    'ook/ppm.theory_BER (scalar, vector, 2-D, length-1, read-only calls; M as numpy integers), a slice also at common scales 1e-9,1e-6,1e6 [+1e-12] (216 / 1044 cases); the '
    'same product x 6 offsets mu0 in {0,0.3,-1,5,-250,1000} for ook/ppm.THRESHOLD_EST, BER_analizer("estimator") and utils.optimum_threshold, and at offsets {0,0.3} [+ -1] x '
    '10 kinds of eye objects carrying more than the four statistics (threshold attribute None / inside / at the ends / outside, timing fields, complete GET_EYE / lab.GET_EYE '
    'records; 51 840 / 689 040 objects) + 4 eyes measured by devices.GET_EYE: same result as the bare object. Receiver model: every point within k<=3 (quick) / k<=4 '
    '(thorough) deviations of two baselines (unamplified; amplified G=20 dB, NF=5 dB) over 15 axes (ER, amplify, call form, G, NF, BW_opt/BW_el, r, R_L, T, NF_el, 9 '
    'modulation/M/decision members, BW_el, wavelength, type form of every numeric argument, type of M) = 7 850 / 48 841 points, each with the FULL 7-step P_avg ladder '
    '-50..0 dBm for utils.p_ase, average_voltages, noise_variances, theory_BER (vector, scalar, 5 fixed thresholds 1e-6..1-1e-6) and the helper results chained into the '
    'slot-level formulas / estimators; utils.theory_BER vectorised over each of 11 arguments at every point within 1 [2] deviations (583 / 6 787); 39 forms cases (7 operand '
    'type forms, containers, documented defaults, keyword vs positional, undocumented spellings: rejected or same value); cross-device clause: full product of r, R_L, T, Fn, '
    'P_avg, ER, BW for PD (thermal and shot scales captured from scripted numpy.random.normal requests) and G x NF x wavelength x BW for EDFA (scripted randn) = 2 154 / '
    '14 628 cases; 165 calls under 8 ambient gv configurations (bit-identical); kernel call-history part (10 calls x 3 grids vs a fresh interpreter); the minimal inputs of '
    'DESIGN 8 #8-#12 are replayed first. quick 11 343 / thorough 72 668 cases; VERIF_SEED is not used',
    'continuum quantifiers (all mu, s0, s1, P_avg/ER/G/NF/...) are covered at the listed grid points only; oracle = independent scipy.special/quad evaluation of the formulas '
    'in the property text: grid-minimised BERs must lie in the band [true minimum, minimum on the 1000- (ook/ppm) or 5000-point (utils) threshold grid]; quad-based soft '
    'values are compared with atol 1e-8 (quad epsabs); for M > 2 the statement gives no value for ppm.theory_BER(soft): deviations from the documented integral (4 quick '
    'points, up to 2.6e-7) are recorded in coverage.stats, not reported; the lattice calls utils.theory_BER with explicit f0 = c/wavelength; optimum_threshold need not stay '
    'inside [mu0, mu1] when no solution lies there (nan accepted when none exists); vector non-P_avg arguments of the helpers, empty vectors, bool/complex/float16 operands '
    'and invalid inputs are outside; numpy.random.normal(0, s) having variance s^2 is trusted (only the requested scale is observed)',
    'bounded-exhaustive product + deviation lattice on the real functions against an independent closed-form/quadrature reference model (band oracle for grid minimisation, '
    'named wrong-model variants to classify a mismatch), differential oracle between argument forms / eye-object kinds / ambient grids, scripted-RNG capture of the device '
    'noise scales, fresh-interpreter differential oracle for the kernel call-history part', 'DESIGN.md 5/C13')
