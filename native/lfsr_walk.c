/* lfsr_walk.c - companion model for property C04 (PRBS).
 *
 * Model: the linear recurring sequence a[m] = a[m-n] ^ a[m-t] over GF(2).  The n most
 * recent terms are kept in one machine word w (bit j of w = a[m-j]); "state" means this
 * window.  Nothing here is taken from the library under test.
 *
 *   lfsr_walk walk n t K [bitmap]
 *       start from window 1 and step until the window is 1 again (literal count, at most
 *       2^n steps).  Prints
 *           ck <i> <window>     the window after i*K steps (i = 0,1,...) when K > 0
 *           period <P>          number of steps until the first return to window 1 (0 = none)
 *           ones <O>            number of 1 outputs in those P steps
 *           zero <Z>            1 if the all-zero window was ever reached
 *           distinct <D>        (with "bitmap") number of distinct windows seen, from a 2^n-bit map
 *           revisits <R>        (with "bitmap") steps that landed on an already marked window
 *   lfsr_walk bits n t seed L
 *       writes L bytes (0/1): the outputs a[0..L-1] when the window starts as `seed`
 *       (a[0] = seed & 1), followed by the window after L steps as 8 bytes little endian.
 */
#include <stdio.h>
#include <stdlib.h>
#include <string.h>
#include <stdint.h>

static int usage(void)
{
    fprintf(stderr, "usage: lfsr_walk walk n t K [bitmap] | lfsr_walk bits n t seed L\n");
    return 2;
}

int main(int argc, char **argv)
{
    if (argc < 5) return usage();
    int n = atoi(argv[2]), t = atoi(argv[3]);
    if (n < 2 || n > 40 || t < 1 || t >= n) return usage();
    const uint64_t mask = (((uint64_t)1) << n) - 1;

    if (!strcmp(argv[1], "walk")) {
        uint64_t K = strtoull(argv[4], NULL, 10);
        int want_map = argc > 5 && !strcmp(argv[5], "bitmap");
        uint64_t *map = NULL;
        if (want_map) {
            map = calloc((((uint64_t)1) << n) / 64 + 1, sizeof(uint64_t));
            if (!map) { fprintf(stderr, "no memory for the bitmap\n"); return 3; }
        }
        uint64_t w = 1, steps = 0, ones = 0, distinct = 0, revisits = 0, period = 0, nextck = 0, ick = 0;
        int zero = 0;
        const uint64_t limit = ((uint64_t)1) << n;
        for (;;) {
            if (K && steps == nextck) {
                printf("ck %llu %llu\n", (unsigned long long)ick, (unsigned long long)w);
                ick++; nextck += K;
            }
            if (map) {
                uint64_t bit = ((uint64_t)1) << (w & 63);
                if (map[w >> 6] & bit) revisits++; else { map[w >> 6] |= bit; distinct++; }
            }
            ones += w & 1;
            uint64_t nb = ((w >> (n - 1)) ^ (w >> (t - 1))) & 1;
            w = ((w << 1) | nb) & mask;
            steps++;
            if (w == 0) zero = 1;
            if (w == 1) { period = steps; break; }
            if (steps >= limit) break;
        }
        printf("period %llu\nones %llu\nzero %d\n", (unsigned long long)period, (unsigned long long)ones, zero);
        if (map) printf("distinct %llu\nrevisits %llu\n", (unsigned long long)distinct, (unsigned long long)revisits);
        free(map);
        return 0;
    }

    if (!strcmp(argv[1], "bits")) {
        if (argc < 6) return usage();
        uint64_t w = strtoull(argv[4], NULL, 10) & mask;
        uint64_t L = strtoull(argv[5], NULL, 10);
        const size_t B = 1 << 16;
        unsigned char *buf = malloc(B);
        if (!buf) return 3;
        uint64_t done = 0;
        while (done < L) {
            size_t m = (L - done) < B ? (size_t)(L - done) : B;
            for (size_t i = 0; i < m; i++) {
                buf[i] = (unsigned char)(w & 1);
                uint64_t nb = ((w >> (n - 1)) ^ (w >> (t - 1))) & 1;
                w = ((w << 1) | nb) & mask;
            }
            if (fwrite(buf, 1, m, stdout) != m) return 4;
            done += m;
        }
        unsigned char fin[8];
        for (int i = 0; i < 8; i++) fin[i] = (unsigned char)((w >> (8 * i)) & 0xff);
        if (fwrite(fin, 1, 8, stdout) != 8) return 4;
        free(buf);
        return 0;
    }
    return usage();
}
