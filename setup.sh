#!/bin/sh
# offline setup: byte-compile the explorer and build the native LFSR walker
set -e
cd "$(dirname "$(readlink -f "$0")")"
mkdir -p build evidence violations
if [ -f native/lfsr_walk.c ]; then gcc -O2 -o build/lfsr_walk native/lfsr_walk.c; fi
/venv/bin/python -m compileall -q mcx >/dev/null
echo setup ok
