#!/usr/bin/env python3
"""Regenerates the generated blocks of DESIGN.md (between <!-- BEGIN GENERATED:name --> / <!-- END GENERATED:name -->)
from evidence/*.json, known_findings.json, seeded/*/meta.json and MANIFEST.json.  Coordinator tool; checks never run it."""
import glob, json, os, re
V = '/verif'


def coverage_table():
    man = {c['property_id']: c for c in json.load(open(f'{V}/MANIFEST.json'))['checks']}
    rows = ['| id | level | tier of last run | evaluations | states / transitions | distinct outcomes | distinct non-trivial | exhaustive | wall s |',
            '|---|---|---|---|---|---|---|---|---|']
    for f in sorted(glob.glob(f'{V}/evidence/C*.json')):
        e = json.load(open(f)); c = e['coverage']
        st = f"{c.get('states', '-')} / {c.get('transitions', '-')}" if e['level'] == 'model_checking' else '-'
        rows.append(f"| {e['property_id']} | {e['level']} | {e['tier']} (seed {e['seed']}) | {c.get('evaluations')} | {st} | {c.get('distinct_outcomes')} | "
                    f"{c.get('distinct_nontrivial')} | {c.get('exhaustive')} | {e['wall_s']} |")
    return '\n'.join(rows)


def findings_table():
    d = json.load(open(f'{V}/known_findings.json'))['findings']
    rows = ['| property | key | status | /repo commit | what failed |', '|---|---|---|---|---|']
    for f in d:
        what = re.sub(r'^fixed: property=\S+ \S+ ', '', f['what']).replace('|', '\\|')
        rows.append(f"| {f['property']} | `{f['key']}` | {f['status']} | {f.get('commit', '')} | {what} |")
    return '\n'.join(rows)


def seeded_table():
    rows = ['| seeded change | breaks | needs to manifest (summary) | repo tests with patch | demo (clean -> patched) | check result | first key(s) | earlier result |',
            '|---|---|---|---|---|---|---|---|']
    for m in sorted(glob.glob(f'{V}/seeded/*/meta.json')):
        j = json.load(open(m))
        name = os.path.basename(os.path.dirname(m))
        summ = ''
        sp = os.path.join(os.path.dirname(m), 'summary.txt')
        if os.path.exists(sp):
            summ = open(sp).read().strip().replace('\n', ' ').replace('|', '\\|')
        keys = '; '.join(re.sub(r'^\[[^\]]*\] ', '', k).split(':  ')[0].split(': ')[0][:70] for k in j['check'].get('first_keys', [])[:2]).replace('|', '\\|')
        # history of earlier evaluations, run-length compressed: "missed, caught x5"
        hs, hist = ['missed' if h.get('detected') is False else 'caught' for h in j.get('history', [])], []
        for h in hs:
            if hist and hist[-1][0] == h:
                hist[-1][1] += 1
            else:
                hist.append([h, 1])
        hist = ', '.join(h if n == 1 else f'{h} x{n}' for h, n in hist) or '-'
        rows.append(f"| {name} | {j['property']} | {summ} | {j['repo_tests_with_patch'].split(',')[0]} | exit {j['demo_without_patch']['exit']} -> {j['demo_with_patch']['exit']} | "
                    f"{('caught (exit 1)' if j['detected'] else 'MISSED (exit %s)' % j['check']['exit']) if j.get('confirmed', True) else 'n/a: no longer breaks the property on the repaired tree'} | {keys} | {hist} |")
    return '\n'.join(rows)


BLOCKS = {'coverage': coverage_table, 'findings': findings_table, 'seeded': seeded_table}

if __name__ == '__main__':
    p = f'{V}/DESIGN.md'
    s = open(p).read()
    for name, fn in BLOCKS.items():
        a, b = f'<!-- BEGIN GENERATED:{name} -->', f'<!-- END GENERATED:{name} -->'
        if a in s and b in s:
            s = s[:s.index(a) + len(a)] + '\n' + fn() + '\n' + s[s.index(b):]
    open(p, 'w').write(s)
    print('DESIGN.md tables regenerated')
