# table of claimed checks; exec'd by tools_gen_manifest.py
NOTES = 'See DESIGN.md. Exit codes: 0 held, 1 VIOLATION line(s), 2 harness error (never a violation). known_findings.json lists genuine defects (known/fixed).'
ALL = ['C%02d' % i for i in range(1, 21)]

chk('C14', 'model_checking',
    'BFS to a fixed point over all histories of gv(...)/clean() calls from a 265-action alphabet (closure: the frontier empties, so the invariant holds for histories of ANY length over that alphabet), every transition executed on the real singleton in lock-step with a reference model; plus exhaustive ordered call sequences of the public functions for purity/determinism/aliasing',
    'alphabet of rates is finite (powers of two times 1e9, commensurate); wall-clock execution_time is excluded from comparison; numpy RNG reseeded through the public seed call',
    'explicit-state BFS to fixed point on the real gv object + exhaustive call-order enumeration with differential oracle', 'DESIGN.md 5/C14')

import glob as _glob
for _f in sorted(_glob.glob(os.path.join(os.path.dirname(os.path.abspath(__file__)) if '__file__' in dir() else '/verif', 'manifest.d', 'C*.py'))):
    exec(open(_f).read())
# only checks reviewed by the coordinator are claimed
READY = ['C%02d' % i for i in range(1, 21)]
for _k in list(CHECKS):
    if _k not in READY:
        del CHECKS[_k]
_claimed = set(CHECKS)
NOT_APPLICABLE = [{'property_id': p, 'reason': 'check not built yet in this revision (work in progress; see DESIGN.md section 9)'} for p in ALL if p not in _claimed]
