# table of claimed checks; exec'd by tools_gen_manifest.py
NOTES = 'See DESIGN.md. Exit codes: 0 held, 1 VIOLATION line(s), 2 harness error (never a violation). known_findings.json lists genuine defects (known/fixed).'
ALL = ['C%02d' % i for i in range(1, 21)]

chk('C14', 'model_checking',
    'part A: BFS to a fixed point over all histories of gv(...)/clean() calls from an alphabet of 469 (quick) / 1 733 (thorough) actions: clean(), 443 keyword calls (every '
    'commensurate subset of the core sps/R/fs/wavelength/N/custom values; sps, R, fs, N, wavelength also as float / numpy scalar / 0-d / Python int; odd N*sps; rates whose '
    'float quotient is one ulp off the integer; customs alpha/beta from separate calls), 15 positional spellings, 10 failing/odd calls each followed by clean(). The frontier '
    'empties (quick depth 6: 1 508 states, 684 164 transitions; thorough depth 7: 8 190 states, 13.76 M transitions), so the invariant holds for histories of ANY length over '
    'that alphabet; every transition is executed on the real singleton (state reached by replaying its shortest history) in lock-step with a reference model; in every '
    'successor: sps positive int, fs = R*sps, dt = 1/fs, f0 = c/wavelength, the given values in force, t/w/dw consistent with N, no grid without N, customs exactly those '
    'given since clean(), clean() == new instance incl. types. Plus 288 / 360 histories with a custom keyword (4 / 5 names incl. leading-underscore and dunder-like ones) of 18 kinds of value (None, containers, arrays, callables...) x 4 '
    'placements, then clean(). Part B: menu of 183 public calls (devices, codecs, DSP, utils, signal operators; dtype, length-1, prime-length, long, layout, scale, boundary, '
    'container, optional-argument and chained-pipeline entries) on shared write-protected inputs under 4 ambient grids (one with N in force), + 20 grid-built entries (waveforms made on the grid in '
    'force) and 5 grids with an ODD sps (3,5,7,9,15); oracle for every call = the '
    'same call made FIRST in a fresh interpreter (1 657 subprocesses, 2 numpy seeds). Executed: every entry twice per seed and grid; every ordered pair on the base grid; '
    'every entry under every grid switch g1,g2,g1 (2 196); every ordered pair of cheap entries across a grid switch; every ordered triple of 36 cheap entries (quick) / of '
    '114 entries + every quadruple of 16 (thorough): 248 100 / 1.79 M library calls. Heap part: each of the 1 657 (entry, grid) calls made after freed heap buffers of every small '
    'size were deliberately filled with nan, then with 1e300: identical outputs (key uninitialised-memory), equal to the fresh process; 1 225 dirty-heap '
    'sequences of 35 slot-structured entries under / across the odd grids. After every call: gv and argument bytes unchanged, no output shares memory with an '
    'argument or gv.t/gv.w, earlier outputs intact; examined outputs are overwritten to expose memoised buffers',
    'the fixed point is relative to the finite alphabet: commensurate rates only (fs/R = x.5 only as an odd call before clean()), a handful of values per attribute, two custom '
    'names; two singleton states are identified when all attributes are equal BY VALUE (1e9, 10**9, np.float64(1e9) are one state); nothing is asserted about the state a '
    'failing call leaves, only that clean() restores the defaults; N = 0, non-integer sps/N, keyword names that shadow methods/grid attributes are outside; the t[-1] endpoint '
    'convention is not fixed; part B covers call sequences of length 2 everywhere, 3 (4) only over the cheap sub-menus, on one canned input per entry; heap dirtying is best effort above numpy\'s 1 KiB block cache, and a same-sized '
    'temporary freed just before an np.empty masks the read; wall-clock '
    'execution_time is excluded from comparison; display helpers (str/repr/print/sizeof), tic/toc, plotting and lab instruments are not in the menu; numpy RNG reseeded '
    'through the public seed call',
    'explicit-state BFS to fixed point on the real gv object in lock-step with a reference model + exhaustive call-order enumeration with a fresh-interpreter differential '
    'oracle', 'DESIGN.md 5/C14')

import glob as _glob
for _f in sorted(_glob.glob(os.path.join(os.path.dirname(os.path.abspath(__file__)) if '__file__' in dir() else '/verif', 'manifest.d', 'C*.py'))):
    exec(open(_f).read())
# only checks reviewed by the coordinator are claimed
READY = ['C%02d' % i for i in range(1, 21)]
for _k in list(CHECKS):
    if _k not in READY:
        del CHECKS[_k]
_claimed = set(CHECKS)
NOT_APPLICABLE = [{'property_id': p, 'reason': 'check not built yet in this revision (work in progress; see DESIGN.md section 9)'} for p in ALL if p not in _claimed]
