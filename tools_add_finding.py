#!/usr/bin/env python3
"""tools_add_finding.py PROP KEY STATUS COMMIT WHAT  -- append an entry to known_findings.json (coordinator tool, never run by checks)"""
import json, sys
p='/verif/known_findings.json'; d=json.load(open(p))
prop,key,status,commit,what=sys.argv[1:6]
if any(f['property']==prop and f['key']==key for f in d['findings']):
    print('exists', prop, key); sys.exit(0)
pre = f'fixed: property={prop} {commit} ' if status=='fixed' else ''
d['findings'].append({'property':prop,'key':key,'status':status,'commit':commit,'what':pre+what})
json.dump(d,open(p,'w'),indent=1); print('added',prop,key)
