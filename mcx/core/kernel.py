"""Kernel of the explorer: worker pool with a per-case horizon, context object that
collects violations / coverage, evidence + violation files, known-findings handling.

A *check* is a python module `mcx.props.cNN` with

    ID      = 'CNN'
    LEVEL   = 'model_checking' | 'exploration'
    def run(ctx): ...

`run` enumerates finite spaces and calls `ctx.pmap(case_fn, cases, ...)` (or runs cases
inline through `ctx.run_case`).  A *case function* is a module-level function
`fn(case) -> CaseResult-dict` (see `ok()/res()` helpers) that executes the REAL
implementation on one case and compares with the reference model.  Everything a case
function returns is plain data so that it can cross the process boundary and be written
to a replay file.
"""
from __future__ import annotations

import base64
import hashlib
import importlib
import json
import multiprocessing as mp
import os
import pickle
import signal
import subprocess
import sys
import time
import traceback
import warnings

VERIF = os.path.dirname(os.path.dirname(os.path.dirname(os.path.abspath(__file__))))
REPO = os.environ.get('MCX_REPO', '/repo')
NPROC = int(os.environ.get('MCX_WORKERS', '16'))


class Horizon(Exception):
    """raised inside a worker when a case exceeds its time horizon"""


def _alarm(signum, frame):
    raise Horizon()


# --------------------------------------------------------------------------- results
def res(viol=None, obs=None, nontrivial=False, stats=None, payload=None):
    """Result of one case.
    viol: list of (key, message) ; obs: any picklable canonical observation (hashed);
    nontrivial: bool or a hashable tag (distinct tags are counted); stats: dict of ints summed."""
    return {'viol': viol or [], 'obs': obs, 'nt': nontrivial, 'stats': stats or {}, 'payload': payload}


def _digest(o):
    return hashlib.sha256(pickle.dumps(o, protocol=4)).hexdigest()[:24]


def _lib_frame(tb):
    """innermost frame that lies inside the library under test (or None)"""
    hit = None
    for fs in traceback.extract_tb(tb):
        if '/opticomlib/' in fs.filename:
            hit = f'{os.path.basename(fs.filename)}:{fs.name}'
    return hit


def exec_case(fn, case, horizon):
    """run fn(case) under a horizon; never raises"""
    import numpy as np
    old = signal.signal(signal.SIGALRM, _alarm)
    signal.setitimer(signal.ITIMER_REAL, horizon)
    try:
        with warnings.catch_warnings():
            warnings.simplefilter('ignore')
            with np.errstate(all='ignore'):
                r = fn(case)
        signal.setitimer(signal.ITIMER_REAL, 0)
        if r is None:
            r = res()
        return r
    except Horizon:
        signal.setitimer(signal.ITIMER_REAL, 0)
        return res(viol=[('horizon', f'case did not return within {horizon}s')], obs='HORIZON')
    except BaseException as e:  # noqa
        signal.setitimer(signal.ITIMER_REAL, 0)
        where = _lib_frame(e.__traceback__)
        tb = ''.join(traceback.format_exception(type(e), e, e.__traceback__)[-6:])
        if where is None:
            return {'viol': [], 'obs': None, 'nt': False, 'stats': {}, 'harness_error': tb}
        return res(viol=[(f'uncaught:{type(e).__name__}@{where}', f'{type(e).__name__}: {e}')],
                   obs=('EXC', type(e).__name__, where))
    finally:
        signal.signal(signal.SIGALRM, old)


_WSEQ = [0]      # number of cases this process has executed (position of a case in the process' call history)


def _worker(args):
    modname, fname, idx_cases, horizon = args
    fn = getattr(importlib.import_module(modname), fname)
    out = []
    for idx, case in idx_cases:
        r = exec_case(fn, case, horizon)
        r['obs'] = _digest(r['obs'])
        r['w'] = (os.getpid(), _WSEQ[0])
        _WSEQ[0] += 1
        out.append((idx, r))
    return out


_POOL = None


def _init_worker():
    os.environ['OMP_NUM_THREADS'] = '1'
    os.environ['OPENBLAS_NUM_THREADS'] = '1'
    try:
        from threadpoolctl import threadpool_limits
        threadpool_limits(1)
    except Exception:
        pass


def get_pool():
    global _POOL
    if _POOL is None:
        _POOL = mp.get_context('fork').Pool(NPROC, initializer=_init_worker, maxtasksperchild=None)
    return _POOL


# --------------------------------------------------------------------------- context
class Ctx:
    def __init__(self, pid, level, tier, seed):
        self.pid, self.level, self.tier, self.seed = pid, level, tier, seed
        self.quick = tier == 'quick'
        self.t0 = time.time()
        self.evaluations = 0
        self.nt_tags = set()
        self.nt_count = 0
        self.outcomes = set()
        self.hasher = hashlib.sha256()
        self.viol = []          # dicts
        self.samples = []
        self.spaces = {}
        self.stats = {}
        self.caps = []
        self.exhaustive = True
        self.extra = {}
        self.assumptions = []
        self.rules = []
        self.harness_errors = []
        self.nondet = []          # cases whose observation differed between two processes (state carried between cases)
        self.wlog = {}            # pid -> list of (seq, fn-name, case): execution history of every worker process
        self.prefork = []         # cases executed in the coordinating process through run_case
        self.part_wall = {}
        self.states = 0
        self.transitions = 0
        self.traces = 0

    # -- bookkeeping
    def space(self, name, size, quiet=False):
        self.spaces[name] = self.spaces.get(name, 0) + int(size)
        if not quiet:
            print(f'[{self.pid}] space {name}: {size}', flush=True)

    def rule(self, text):
        self.rules.append(text)

    def assume(self, text):
        self.assumptions.append(text)

    def cap(self, text):
        self.caps.append(text)
        self.exhaustive = False

    def sample(self, s):
        if len(self.samples) < 8:
            self.samples.append(s)

    def add_stats(self, d):
        for k, v in d.items():
            self.stats[k] = self.stats.get(k, 0) + v

    def graph(self, states=0, transitions=0, traces=None):
        self.states += states
        self.transitions += transitions
        self.traces += transitions if traces is None else traces

    # -- running cases
    def _absorb(self, part, fn, case, r):
        self.evaluations += 1
        w = r.get('w')
        if w is not None:
            self.wlog.setdefault(w[0], []).append((w[1], f'{fn.__module__}:{fn.__name__}', case))
        if r.get('harness_error'):
            self.harness_errors.append((part, repr(case)[:300], r['harness_error']))
            return
        nt = r['nt']
        if nt:
            tag = (part, r['obs']) if nt is True else (part, nt)
            if tag not in self.nt_tags:
                self.nt_tags.add(tag)
        self.outcomes.add((part, r['obs']))
        self.hasher.update(str(r['obs']).encode())
        self.add_stats(r['stats'])
        for key, msg in r['viol']:
            self.viol.append({'part': part, 'key': key, 'msg': msg, 'case': case,
                              'fn': f'{fn.__module__}:{fn.__name__}', 'w': w})

    def pmap(self, part, fn, cases, horizon=20.0, chunk=None, sample_every=None, quiet=False, recheck=8):
        """run fn over all cases on the worker pool; deterministic merge in index order"""
        cases = list(cases)
        n = len(cases)
        _t0 = time.time()
        self.space(part, n, quiet)
        if n == 0:
            return []
        if sample_every is None:
            sample_every = max(1, n // 3)
        for i in range(0, n, sample_every):
            self.sample({'part': part, 'index': i, 'case': _jsonable(cases[i])})
        if chunk is None:
            chunk = max(1, min(256, n // (NPROC * 4) or 1))
        idx = list(enumerate(cases))
        tasks = [(fn.__module__, fn.__name__, idx[i:i + chunk], horizon) for i in range(0, n, chunk)]
        if NPROC <= 1 or n < 4:
            outs = [_worker(t) for t in tasks]
        else:
            outs = get_pool().map(_worker, tasks, chunksize=1)
        flat = [x for o in outs for x in o]
        flat.sort(key=lambda x: x[0])
        # determinism proof: re-run the first 16 cases in this process and compare digests
        for i, r in flat[:recheck]:
            r2 = exec_case(fn, cases[i], horizon)
            if _digest(r2['obs']) != r['obs'] and not r.get('harness_error'):
                self.nondet.append((part, repr(cases[i])[:300]))
        for i, r in flat:
            self._absorb(part, fn, cases[i], r)
        self.part_wall[part] = round(self.part_wall.get(part, 0) + time.time() - _t0, 2)
        return [r.get('payload') for _, r in flat]

    def run_case(self, part, fn, case, horizon=60.0):
        r = exec_case(fn, case, horizon)
        r['obs'] = _digest(r['obs'])
        self.prefork.append((f'{fn.__module__}:{fn.__name__}', case))
        self._absorb(part, fn, case, r)
        return r

    def violation(self, part, key, msg, case=None, fn=None):
        self.viol.append({'part': part, 'key': key, 'msg': msg, 'case': case,
                          'fn': fn and f'{fn.__module__}:{fn.__name__}'})


def _jsonable(o, depth=0):
    import numpy as np
    if depth > 6:
        return repr(o)[:200]
    if isinstance(o, (str, int, float, bool)) or o is None:
        if isinstance(o, float) and (o != o or o in (float('inf'), float('-inf'))):
            return repr(o)
        return o
    if isinstance(o, (list, tuple)):
        if len(o) > 24:
            return [_jsonable(x, depth + 1) for x in o[:24]] + [f'... ({len(o)} items)']
        return [_jsonable(x, depth + 1) for x in o]
    if isinstance(o, dict):
        if len(o) > 24:
            return f'dict({len(o)} items)'
        return {str(k): _jsonable(v, depth + 1) for k, v in o.items()}
    if isinstance(o, np.ndarray):
        if o.size > 24:
            return f'ndarray{o.shape}:{o.dtype}:sha={hashlib.sha256(o.tobytes()).hexdigest()[:12]}'
        return repr(o.tolist())
    if isinstance(o, (np.integer,)):
        return int(o)
    if isinstance(o, (np.floating,)):
        return float(o)
    return repr(o)[:300]


# --------------------------------------------------------------------------- findings
def load_known():
    p = os.path.join(VERIF, 'known_findings.json')
    if not os.path.exists(p):
        return []
    return json.load(open(p))['findings']


def _history(ctx, v, cap=4000):
    """call history of the process that executed the violating case (cases run before it, in order): lets `replay`
    reproduce violations that need state carried between library calls"""
    w = v.get('w')
    if not w:
        return None
    hist = sorted((x for x in ctx.wlog.get(w[0], []) if x[0] < w[1]), key=lambda x: x[0])[-cap:]
    full = [(f, c) for f, c in ctx.prefork] + [(f, c) for _, f, c in hist]
    return base64.b64encode(pickle.dumps(full, protocol=4)).decode()


def finish(ctx: Ctx, rule_nt: str):
    """write evidence + violation files, print lines, return exit code"""
    wall = time.time() - ctx.t0
    known = [k for k in load_known() if k['property'] == ctx.pid and k['status'] == 'known']
    known_keys = {k['key']: k for k in known}
    new, seen_known = [], {}
    for v in ctx.viol:
        if v['key'] in known_keys:
            seen_known.setdefault(v['key'], []).append(v)
        else:
            new.append(v)

    vdir = os.path.join(VERIF, 'violations', ctx.pid)
    os.makedirs(vdir, exist_ok=True)
    for f in os.listdir(vdir):
        os.unlink(os.path.join(vdir, f))
    lines = []
    # group new violations by key; one replay file per key (first = simplest case)
    bykey = {}
    for v in new:
        bykey.setdefault(v['key'], []).append(v)
    for n, (key, vs) in enumerate(sorted(bykey.items(), key=lambda kv: str(kv[0]))):
        v = vs[0]
        part = v['part']
        path = os.path.join(vdir, f'{n:03d}.json')
        doc = {'property': ctx.pid, 'part': part, 'key': key, 'message': v['msg'], 'count': len(vs),
               'fn': v['fn'], 'case': _jsonable(v['case']), 'case_repr': repr(v['case'])[:4000],
               'case_pickle_b64': base64.b64encode(pickle.dumps(v['case'], protocol=4)).decode(),
               'seed': ctx.seed, 'tier': ctx.tier, 'history_pickle_b64': _history(ctx, v),
               'replay_cmd': f'cd /verif && /venv/bin/python -m mcx replay {path}'}
        json.dump(doc, open(path, 'w'), indent=1)
        lines.append(f'VIOLATION property={ctx.pid} replay={path}')
        print(f'  [{part}] {key}: {v["msg"]}  ({len(vs)} case(s)); first case: {repr(v["case"])[:300]}')
    for key, vs in seen_known.items():
        print(f'KNOWN-FINDING: property={ctx.pid} {key}: {known_keys[key]["what"]} ({len(vs)} case(s))')

    cov = {
        'exhaustive': bool(ctx.exhaustive),
        'evaluations': int(ctx.evaluations),
        'distinct_nontrivial': int(len(ctx.nt_tags)),
        'rule': ' | '.join(ctx.rules) + ' || non-trivial: ' + rule_nt,
        'samples': ctx.samples[:8] or [{'note': 'no case executed'}],
        'spaces': ctx.spaces,
        'distinct_outcomes': len(ctx.outcomes),
        'observation_digest': ctx.hasher.hexdigest(),
        'caps_hit': ctx.caps,
        'stats': ctx.stats,
        'known_findings_seen': sorted(seen_known),
        'workers': NPROC,
        'wall_s_per_part': ctx.part_wall,
    }
    if ctx.level == 'model_checking':
        cov['states'] = int(ctx.states)
        cov['transitions'] = int(ctx.transitions)
        cov['traces_validated_against_impl'] = int(ctx.traces)
    cov.update(ctx.extra)
    ev = {'property_id': ctx.pid, 'tier': ctx.tier, 'seed': int(ctx.seed), 'level': ctx.level,
          'coverage': cov, 'assumptions': ctx.assumptions, 'wall_s': round(wall, 2),
          'violations': len(bykey)}
    # runs against a scratch copy of the library (MCX_REPO set by the seeded-change / mutant runners) must not overwrite the
    # evidence of the registered check, which describes /repo itself
    evdir = os.path.join(VERIF, 'evidence') if os.path.realpath(REPO) == os.path.realpath('/repo') else os.path.join(VERIF, 'evidence', 'scratch')
    os.makedirs(evdir, exist_ok=True)
    evp = os.path.join(evdir, f'{ctx.pid}.json')
    json.dump(ev, open(evp, 'w'), indent=1)
    _validate(evp)

    print(f'[{ctx.pid}] tier={ctx.tier} seed={ctx.seed} evaluations={ctx.evaluations} '
          f'states={ctx.states} transitions={ctx.transitions} distinct_outcomes={len(ctx.outcomes)} '
          f'nontrivial={len(ctx.nt_tags)} exhaustive={ctx.exhaustive} wall={wall:.1f}s '
          f'violations={len(bykey)} known={len(seen_known)}', flush=True)
    if ctx.nondet:
        for part, case in ctx.nondet[:3]:
            print(f'HISTORY-DEPENDENT [{part}] case={case}: the same case observed in two different processes gave different '
                  f'library results (state carried between library calls)', file=sys.stderr)
    if ctx.harness_errors:
        for part, case, tb in ctx.harness_errors[:5]:
            print(f'HARNESS-ERROR [{part}] case={case}\n{tb}', file=sys.stderr)
    if (ctx.harness_errors or ctx.nondet) and not lines:
        # nothing attributable to the property was found, but the run is not trustworthy
        print(f'[{ctx.pid}] {len(ctx.harness_errors)} harness error(s), {len(ctx.nondet)} history-dependent case(s): '
              f'result not trustworthy', file=sys.stderr)
        return 2
    for l in lines:
        print(l)
    return 1 if lines else 0


def _validate(path):
    schema = '/root/.vp/EVIDENCE.schema.json'
    if not os.path.exists(schema):
        schema = os.path.join(VERIF, 'schemas', 'EVIDENCE.schema.json')
    code = ("import json,sys,jsonschema;"
            "jsonschema.validate(json.load(open(sys.argv[1])), json.load(open(sys.argv[2])))")
    try:
        p = subprocess.run(['python3-vt', '-W', 'ignore', '-c', code, path, schema], capture_output=True, text=True, timeout=60)
        if p.returncode != 0:
            print('EVIDENCE-SCHEMA-ERROR', p.stderr[-800:], file=sys.stderr)
    except Exception as e:  # validator not available: minimal structural check
        ev = json.load(open(path))
        for k in ('property_id', 'tier', 'seed', 'level', 'coverage', 'wall_s'):
            assert k in ev, k


def main(argv=None):
    import argparse
    ap = argparse.ArgumentParser(prog='mcx')
    sub = ap.add_subparsers(dest='cmd', required=True)
    c = sub.add_parser('check')
    c.add_argument('pid')
    c.add_argument('--tier', default=os.environ.get('VERIF_TIER', 'quick'), choices=['quick', 'thorough'])
    r = sub.add_parser('replay')
    r.add_argument('path')
    a = ap.parse_args(argv)
    os.environ.setdefault('PYTHONHASHSEED', '0')
    os.environ['OMP_NUM_THREADS'] = '1'
    os.environ['OPENBLAS_NUM_THREADS'] = '1'
    os.environ.setdefault('MPLBACKEND', 'Agg')
    if REPO not in sys.path:
        sys.path.insert(0, REPO)
    if a.cmd == 'check':
        raw = (os.environ.get('VERIF_SEED', '0') or '0').strip()
        try:
            seed = int(raw)
        except ValueError:      # any string is accepted as a seed
            import zlib
            seed = zlib.crc32(raw.encode())
        # the property modules derive numpy seeds as seed + small offsets / seed * small factors: keep it small and
        # non-negative so that any VERIF_SEED value is usable (values below 2 000 003 are used as they are)
        seed %= 2000003
        mod = importlib.import_module(f'mcx.props.{a.pid.lower()}')
        ctx = Ctx(mod.ID, mod.LEVEL, a.tier, seed)
        import opticomlib
        assert os.path.realpath(opticomlib.__file__).startswith(os.path.realpath(REPO)), opticomlib.__file__
        try:
            mod.run(ctx)
            if mod.ID != 'C14' and os.environ.get('MCX_NO_HISTORY') != '1':
                from mcx.props import c14b
                if mod.ID in c14b.HISTORY_GROUPS:
                    c14b.run_history_part(ctx, c14b.HISTORY_GROUPS[mod.ID])
        except Exception:
            traceback.print_exc()
            ctx.harness_errors.append(('run', '-', traceback.format_exc()))
        code = finish(ctx, getattr(mod, 'NONTRIVIAL', 'see rule'))
        if _POOL is not None:
            _POOL.terminate()
        sys.stdout.flush()
        sys.stderr.flush()
        os._exit(code)
    else:
        doc = json.load(open(a.path))
        modname, fname = doc['fn'].split(':')
        fn = getattr(importlib.import_module(modname), fname)
        case = pickle.loads(base64.b64decode(doc['case_pickle_b64']))
        print('replaying', doc['property'], doc['part'], doc['key'])
        print('case:', repr(case)[:2000])
        r = exec_case(fn, case, 120.0)
        if not any(k == doc['key'] for k, _ in r['viol']) and doc.get('history_pickle_b64'):
            hist = pickle.loads(base64.b64decode(doc['history_pickle_b64']))
            print(f'not reproduced from the initial state; replaying the {len(hist)} case(s) the process executed before it')
            for f, c in hist:
                m, n = f.split(':')
                exec_case(getattr(importlib.import_module(m), n), c, 120.0)
            r = exec_case(fn, case, 120.0)
        if r.get('harness_error'):
            print(r['harness_error'])
            sys.exit(2)
        for k, m in r['viol']:
            print(f'  VIOLATED {k}: {m}')
        if any(k == doc['key'] for k, _ in r['viol']):
            print(f'VIOLATION property={doc["property"]} replay={a.path}')
            sys.exit(1)
        print('case passes on the current tree')
        sys.exit(0)
