"""Seams the harness owns: the gv singleton, numpy's global RNG (scripted), write-protected inputs."""
from __future__ import annotations
import contextlib
import numpy as np


def gv_reset(**kw):
    """gv.clean() and then one explicit configuration call (silently)"""
    import warnings
    from opticomlib.typing import gv
    gv.clean()
    if kw:
        with warnings.catch_warnings():
            warnings.simplefilter('ignore')
            gv(**kw)
    return gv


def gv_snapshot():
    from opticomlib.typing import gv
    out = []
    for k in sorted(gv.__dict__):
        v = gv.__dict__[k]
        if isinstance(v, np.ndarray):
            out.append((k, 'nd', v.shape, v.dtype.str, v.tobytes()))
        else:
            out.append((k, repr(v)))
    return tuple(out)


class Unscripted(Exception):
    pass


class ScriptedRNG:
    """Replacement for the four numpy.random entry points the library uses.
    Every request is recorded; answers come from `answer(fn, info)`."""

    def __init__(self, answer=None):
        self.requests = []
        self.answer = answer or (lambda kind, info: None)

    # np.random.normal(loc, scale, size)
    def normal(self, loc=0.0, scale=1.0, size=None):
        info = {'fn': 'normal', 'loc': float(np.asarray(loc).ravel()[0]) if np.ndim(loc) == 0 else 'array',
                'scale': float(scale) if np.ndim(scale) == 0 else 'array', 'size': size}
        self.requests.append(info)
        a = self.answer('normal', info)
        n = size if size is not None else ()
        if a is None:
            return np.zeros(n) + loc
        return np.asarray(a, dtype=float).reshape(n) * scale + loc

    def randn(self, *shape):
        info = {'fn': 'randn', 'size': tuple(shape)}
        self.requests.append(info)
        a = self.answer('randn', info)
        if a is None:
            return np.zeros(shape)
        return np.asarray(a, dtype=float).reshape(shape)

    def randint(self, low, high=None, size=None, dtype=int):
        info = {'fn': 'randint', 'low': low, 'high': high, 'size': size}
        self.requests.append(info)
        a = self.answer('randint', info)
        if a is None:
            a = 0
        return a

    def choice(self, a, size=None, replace=True, p=None):
        arr = np.array(a)
        info = {'fn': 'choice', 'a': arr.tolist(), 'size': size}
        self.requests.append(info)
        i = self.answer('choice', info)
        if i is None:
            i = 0
        return arr[i]


@contextlib.contextmanager
def scripted_rng(script: ScriptedRNG):
    names = ['normal', 'randn', 'randint', 'choice']
    forbidden = ['rand', 'random', 'random_sample', 'standard_normal', 'uniform', 'default_rng', 'shuffle', 'permutation']
    old = {n: getattr(np.random, n) for n in names + forbidden}

    def deny(name):
        def f(*a, **k):
            raise Unscripted(f'unscripted randomness: numpy.random.{name}')
        return f
    try:
        for n in names:
            setattr(np.random, n, getattr(script, n))
        for n in forbidden:
            setattr(np.random, n, deny(n))
        yield script
    finally:
        for n, f in old.items():
            setattr(np.random, n, f)


def protect(*arrays):
    for a in arrays:
        if isinstance(a, np.ndarray):
            a.flags.writeable = False


def obj_arrays(x):
    """buffers of a library object (signal/noise/data)"""
    out = []
    for name in ('signal', 'noise', 'data'):
        a = getattr(x, name, None)
        if isinstance(a, np.ndarray):
            out.append(a)
    return out


def freeze(x):
    """write-protect the buffers of a library object and return a byte snapshot"""
    arrs = obj_arrays(x) if not isinstance(x, np.ndarray) else [x]
    for a in arrs:
        a.flags.writeable = False
    return [(a.shape, a.dtype.str, a.tobytes()) for a in arrs]


def unchanged(x, snap):
    arrs = obj_arrays(x) if not isinstance(x, np.ndarray) else [x]
    return [(a.shape, a.dtype.str, a.tobytes()) for a in arrs] == snap
