from mcx.core.kernel import main
main()
