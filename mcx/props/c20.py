"""C20 - PPG3204 driver emits only in-range commands; pattern memory round-trips; SYNC aligns.

Explicit-state search over driver call sequences against a simulated instrument (c20_fake.Fake attached as
`ppg.inst`), a command monitor on every transition, a caller-side reference model stepped in lock-step;
dry-run mode (no session: commands are printed) explored through captured stdout.  Parts:

  single   every single set_* call: full product value alphabet x channel alphabet (scalar and list forms),
           followed by the matching get_* (depth-2 sequence), attached and dry-run
  agg      the __call__/config aggregate over every subset of its 9 arguments x {in-range, out-of-range}
  data     set_data; get_data for EVERY length 1..2100 (+ long ones) x start address x channel set x form
  overlap  set_data; set_data(overlapping range); get_data  (depth 3)
  bfs      breadth-first search over call sequences from a mixed action alphabet, canonical instrument state
  sync     SYNC for every delay d in [0, 127*sps), sps in {2,4}, several seeded noise fields; short records
"""
from __future__ import annotations
import contextlib
import io
import itertools
import traceback
import warnings
import numpy as np

from mcx.core.kernel import res
from mcx.core.env import gv_reset
from mcx.props.c20_fake import (Fake, FakeBug, bg, clamp, chan_list, expect_setter, SETTERS, GETTERS, FREQ, AMPL,
                                OFFS, SKEW, PLEN, ORDERS, NCH, MEM, BLOCK, FREQ_RTOL)

ID = 'C20'
LEVEL = 'model_checking'
NONTRIVIAL = ('a call with an out-of-range value or channel selection, a per-channel list form, a data transfer of more '
              'than one block or not starting at address 1, a call sequence of depth >= 2, or a SYNC delay d > 0')

SETTERS.update({
    'set_mode': ('type', None, 0.0, 0.0),
    'enable_outputs': ('outp', None, 0.0, 0.0),
    'disable_outputs': ('outp', None, 0.0, 0.0),
})
GET_OF = {'set_patt_len': 'get_patt_len', 'set_output_voltage': 'get_output_voltage', 'set_offset': 'get_offset',
          'set_skew': 'get_skew', 'set_bits_shift': 'get_bits_shift', 'set_prbs_order': 'get_prbs_order',
          'set_mode': 'get_mode'}


class HarnessBug(Exception):
    pass


# ------------------------------------------------------------------ driving the real driver
def new_ppg(fake=None):
    from opticomlib.lab import PPG3204
    ppg = PPG3204()            # no address: no VISA session is opened
    if fake is not None:
        ppg.inst = fake        # the driver's own seam
    return ppg


def _lab_fn(tb):
    hit = None
    for fs in traceback.extract_tb(tb):
        if fs.filename.endswith('opticomlib/lab.py'):
            hit = fs.name
    return hit


def drive(ppg, op, args=(), kw=None):
    """call ppg.<op>(*args, **kw) -> (ret, exc or None, n_warnings, stdout)"""
    buf = io.StringIO()
    bug = None
    ret = exc = None
    with warnings.catch_warnings(record=True) as w:
        warnings.simplefilter('always')
        try:
            with contextlib.redirect_stdout(buf):
                ret = getattr(ppg, op)(*args, **(kw or {}))
        except FakeBug as e:
            bug = str(e)
        except Exception as e:  # noqa
            fn = _lab_fn(e.__traceback__)
            if fn is None:
                raise
            exc = (type(e).__name__, fn, str(e)[:160])
        nw = len(w)
    if bug:
        raise HarnessBug('simulated instrument crashed:\n' + bug)
    return ret, exc, nw, buf.getvalue()


def as_args(a):
    """actions carry plain data; lists stay lists, ('arr', rows) becomes an ndarray"""
    if isinstance(a, tuple) and len(a) == 2 and a[0] == 'arr':
        return np.array(a[1], dtype=np.uint8)
    return a


def model_args(op, args):
    """(value, channels) as seen by the reference model"""
    if op in ('enable_outputs', 'disable_outputs'):
        return (1 if op == 'enable_outputs' else 0), (args[0] if args else None)
    val = args[0]
    chs = args[1] if len(args) > 1 else None
    if op == 'set_mode':
        val = val.upper()
    return val, chs


def flat_bits(x):
    """bits of one channel of a get_data result, whatever the nesting"""
    a = np.asarray(x)
    if a.dtype == object:
        return np.concatenate([flat_bits(y) for y in a]) if a.size else np.zeros(0, int)
    return a.ravel().astype(int)


def size_class(n):
    return 'size<=1024' if n <= BLOCK else ('size=k*1024' if n % BLOCK == 0 else 'size>1024')


def data_rows(args):
    """per requested channel the bit row a set_data action writes: args=(data, start, chs)"""
    data, start, chs = args
    req, _ = chan_list(chs)
    clipped = [clamp(c, 1, NCH) for c in req][:NCH]
    if isinstance(data, str):
        rows = [[int(c) for c in data]] * len(clipped)
    else:
        d = data[1] if (isinstance(data, tuple) and data[0] == 'arr') else data
        if len(d) and isinstance(d[0], (list, tuple)):
            rows = [list(r) for r in d]
        else:
            rows = [list(d)] * len(clipped)
    return clipped, rows


def step(fake, ppg, op, args=(), kw=None):
    """ONE transition: run the driver call against the instrument, command monitor, lock-step reference model.
    -> (viol, obs, info)"""
    before = fake.clone()
    n_issue, n_log, n_parsed = len(fake.issues), len(fake.log), len(fake.parsed)
    call_args = tuple(as_args(a) for a in args)
    ret, exc, nw, out = drive(ppg, op, call_args, kw)
    viol = list(fake.issues[n_issue:])
    cmds = fake.log[n_log:]
    sig = f'{op}{tuple(args)!r}'[:200]
    cls = ''
    if op == 'get_data':
        cls = ':' + size_class(args[0])
    if exc:
        extra = ''
        if op == 'get_data' and fake.stats['zero_len_reads']:
            extra = f' [after {fake.stats["zero_len_reads"]} zero-length read(s), last command {cmds[-1] if cmds else None!r}]'
        viol.append((f'{exc[1]}:raises-{exc[0]}{cls}', f'{sig} raised {exc[0]}: {exc[2]}{extra}'))
    oor = False
    info = {'oor': False}
    if op == 'set_freq':
        v = args[0]
        oor = not (FREQ[0] <= v <= FREQ[1])
        if not exc:
            want = clamp(v, *FREQ)
            if abs(fake.freq - want) > FREQ_RTOL * want:
                viol.append(('set_freq:register-not-clamped-request', f'{sig}: frequency register {fake.freq!r}, expected {want!r}'))
            if fake.reg != before.reg or fake.writes() != before.writes():
                viol.append(('set_freq:touches-other-register', f'{sig} changed a channel register'))
    elif op in SETTERS:
        val, chs = model_args(op, args)
        e = expect_setter(op, val, chs, before)
        oor = e['oor']
        if not exc:
            chk = e['check'](fake)
            if any(k.startswith('cmd:out-of-range') for k, _ in viol):    # the monitor already reports the raw value
                chk = [(k, m) for k, m in chk if not k.endswith(':register-not-clamped-request')]
            viol += chk
            if fake.writes() != before.writes():
                viol.append((f'{op}:touches-memory', f'{sig} changed the pattern memory'))
    elif op == 'reset':
        if not exc and (fake.reg != Fake().reg or fake.freq != Fake().freq or fake.writes() != before.writes()):
            viol.append(('reset:state', f'{sig}: registers not at defaults / memory changed'))
    elif op == 'set_data':
        data, start, chs = args
        req, ch_oor = chan_list(chs)
        clipped, rows = data_rows(args)
        L = len(rows[0]) if rows else 0
        keep = min(L, MEM - start + 1)
        oor = ch_oor or keep < L
        if not exc:
            writes = {}
            for c, row in zip(clipped, rows):
                writes.setdefault(c, []).append(np.array(row[:keep], dtype=np.uint8))
            blocks = {}
            for kind, c, f in fake.parsed[n_parsed:]:
                if kind == 'data':
                    blocks.setdefault(c, []).append(f)
            if sorted(blocks) != sorted(set(clipped)):
                viol.append(('set_data:wrong-channels', f'{sig}: blocks sent to channels {sorted(blocks)}, expected {sorted(set(clipped))}'))
            for c, bl in blocks.items():
                addr = start
                for (p, n, k, pl) in bl[:len(bl) // max(1, clipped.count(c))]:
                    if p != addr:
                        viol.append(('set_data:addresses-not-consecutive', f'{sig}: CH{c} block at address {p}, expected {addr}'))
                        break
                    addr += n
                else:
                    if addr != start + keep:
                        viol.append(('set_data:length-not-covered', f'{sig}: CH{c} blocks cover {addr - start} bits, expected {keep}'))
            for c in range(1, NCH + 1):
                ext = fake.extent(c)
                lo = min(start, ext[0]) if ext else start
                hi = max(start + keep, ext[1]) if ext else start + keep
                ref = before.content(c, lo, hi - lo)
                for w in writes.get(c, []):           # duplicates of a channel: the last writer wins
                    ref[start - lo:start - lo + w.size] = w
                bad = np.nonzero(fake.content(c, lo, hi - lo) != ref)[0]
                if bad.size:
                    viol.append(('set_data:memory-differs', f'{sig}: CH{c} memory differs from the reference at {bad.size} '
                                                              f'address(es), first {int(bad[0]) + lo}'))
            if fake.reg != before.reg or fake.freq != before.freq:
                viol.append(('set_data:touches-register', f'{sig} changed a register'))
    elif op == 'get_data':
        size, start = args[0], args[1]
        chs = args[2] if len(args) > 2 else None
        req, ch_oor = chan_list(chs)
        clipped = [clamp(c, 1, NCH) for c in req]
        keep = min(size, MEM - start + 1)
        oor = ch_oor or keep < size
        if not exc:
            try:
                n_ret = len(ret)
            except TypeError:
                n_ret = -1
            if n_ret not in (len(clipped), min(len(clipped), NCH)):
                viol.append((f'get_data:wrong-channel-count{cls}', f'{sig}: returned {n_ret} rows for channels {clipped}'))
            else:
                for i in range(n_ret):
                    want = np.array(before.content(clipped[i], start, keep))
                    try:
                        got = flat_bits(ret[i])
                    except Exception:
                        got = None
                    if got is None or got.size != want.size or (got != want).any():
                        nbad = -1 if got is None or got.size != want.size else int((got != want).sum())
                        viol.append((f'get_data:wrong-bits{cls}',
                                     f'{sig}: row {i} (CH{clipped[i]}) has {None if got is None else got.size} bits, expected {want.size}; '
                                     f'{nbad} differ'))
                        break
            if fake.state() != before.state():
                viol.append(('get_data:changes-state', f'{sig} changed the instrument state'))
    elif op in GETTERS or op == 'get_freq':
        chs = args[0] if args else None
        req, oor = chan_list(chs) if op != 'get_freq' else ([], False)
        if not exc:
            if op == 'get_freq':
                if ret != before.freq:
                    viol.append(('get_freq:value', f'{sig} returned {ret!r}, instrument holds {before.freq!r}'))
            else:
                clipped = [clamp(c, 1, NCH) for c in req]
                reg = GETTERS[op]
                got = [x.strip() if isinstance(x, str) else x for x in np.asarray(ret).tolist()]
                if len(got) not in (len(clipped), min(len(clipped), NCH)):
                    viol.append((f'{op}:wrong-channel-count', f'{sig} returned {got!r} for channels {clipped}'))
                else:
                    want = [before.reg[c][reg] for c in clipped][:len(got)]
                    if got != want:
                        viol.append((f'{op}:value', f'{sig} returned {got!r}, instrument holds {want!r}'))
            if fake.state() != before.state():
                viol.append((f'{op}:changes-state', f'{sig} changed the instrument state'))
    else:
        raise HarnessBug(f'no model for {op}')
    if oor and not exc and nw == 0:
        viol.append((f'{op}:no-warning', f'{sig}: out-of-range request but no warning was issued'))
    info = {'oor': oor, 'exc': exc, 'nw': nw, 'cmds': cmds, 'ret': ret, 'stdout': out}
    retc = None
    if ret is not None and not isinstance(ret, (bool, str)):
        try:
            retc = np.asarray(ret).tolist() if np.asarray(ret).dtype != object else repr(ret)
        except Exception:
            retc = repr(ret)
    obs = (tuple(cmds), exc[:2] if exc else None, nw > 0, repr(retc))
    return viol, obs, info


def dry_run(op, args):
    """the same call without a session: printed lines go through a second monitor"""
    ppg = new_ppg(None)
    ret, exc, nw, out = drive(ppg, op, tuple(as_args(a) for a in args))
    mon = Fake()
    lines = out.split('\n')
    if lines and lines[-1] == '':
        lines = lines[:-1]
    for ln in lines:
        mon.query(ln)
    return lines, exc, nw, mon.issues


# ------------------------------------------------------------------ part: single calls
def single_case(case):
    op, args = case
    fake = Fake()
    ppg = new_ppg(fake)
    viol, obs, info = step(fake, ppg, op, args)
    observations = [obs]
    ntr = 1
    set_cmds = list(info['cmds'])
    # depth-2 sequence set_X; get_X (same channels, then all channels)
    if op == 'set_freq':
        v2, o2, _ = step(fake, ppg, 'get_freq', ())
        viol += v2
        observations.append(o2)
        ntr += 1
    elif op in GET_OF:
        chs = args[1] if len(args) > 1 else None
        for c in ([chs, None] if chs is not None else [None]):
            v2, o2, _ = step(fake, ppg, GET_OF[op], (c,))
            viol += v2
            observations.append(o2)
            ntr += 1
    # dry-run mode
    lines, dexc, dnw, dissues = dry_run(op, args)
    have = {k for k, _ in viol}
    viol += [('dry-run:' + k, m) for k, m in dissues if k not in have]
    if dexc:
        if f'{dexc[1]}:raises-{dexc[0]}' not in have:
            viol.append((f'dry-run:{dexc[1]}:raises-{dexc[0]}', f'dry-run {op}{args!r} raised {dexc[0]}: {dexc[2]}'))
    elif info['oor'] and dnw == 0 and f'{op}:no-warning' not in have:
        viol.append((f'dry-run:{op}:no-warning', f'dry-run {op}{args!r}: out-of-range request but no warning'))
    if not dexc and not info['exc'] and not viol and lines != set_cmds:
        viol.append(('dry-run:stream-differs', f'{op}{args!r}: printed {lines[:4]} but sent {set_cmds[:4]}'))
    observations.append((tuple(lines), dexc[:2] if dexc else None, dnw > 0))
    nt = info['oor'] or any(isinstance(a, list) for a in args)
    return res(viol=_dedup(viol), obs=tuple(observations), nontrivial=bool(nt),
               stats={'transitions': ntr, 'commands': len(fake.log), 'dry_run_lines': len(lines),
                      'oor_calls': int(info['oor'])})


def _dedup(viol):
    seen, out = set(), []
    for k, m in viol:
        if k not in seen:
            seen.add(k)
            out.append((k, m))
    return out


CHSEL = [None, 1, 4, 0, 5, -1, [1, 2], [0, 5], [1, 2, 3, 4, 5], [4, 4]]


def around(lo, hi, unit, thorough):
    """values several decades around each limit, simplest first (DESIGN alphabet first, then the extension)"""
    out = []
    for L in (lo, hi):
        for f in ([1e-3, 1e-2, 1e-1, 10, 100, 1e3] if thorough else [0.1, 10]):
            out.append(L * f)
        out += [float(np.nextafter(L, -np.inf)), float(np.nextafter(L, np.inf)), L - unit, L + unit]
    return out


def value_alphabets(tier):
    th = tier == 'thorough'
    V = {
        'set_freq': [1e10, 1.5e9, 32e9, 0, 1.5e8, 1.49e9, 32.01e9, 3.2e11, 2.5e9, 12.345678e9] + around(1.5e9, 32e9, 1e4, th) + [-1e9, 1e15, float('inf')],
        'set_output_voltage': [1, 0.3, 2, 1.0, 0.5, 1.26, 0, 0.0, 0.03, 0.29, 2.01, 5, 5.0, 20, -1.0] + around(0.3, 2.0, 0.005, th),
        'set_offset': [0, -2, 3, 0.5, -0.04, 1.26, -20, -2.1, 3.1, 7, 30] + around(-2.0, 3.0, 0.005, th),
        'set_skew': [0, 0.0, 25e-12, -25e-12, 0.5e-12, -1.23e-11, -1e-9, -25.1e-12, 1e-10, 25.1e-12, 1, -1] + around(-25e-12, 25e-12, 1e-13, th),
        'set_patt_len': [1000, 2, 2 ** 21, 127, 0, 1, 2 ** 21 + 1, 2 ** 24, -5, 3] + ([10 ** k for k in range(1, 10)] if th else []),
        'set_prbs_order': [7, 9, 11, 15, 23, 31, 0, 8, 10, 40, 6, 32, 13, 19, 27, -1] + (list(range(1, 7)) + list(range(33, 36)) + [100, 1000] if th else []),
        'set_bits_shift': [10, 0, -3, 2 ** 30 - 1],
    }
    return V


def single_cases(tier):
    V = value_alphabets(tier)
    cases = []
    for v in V['set_freq']:
        cases.append(('set_freq', (v,)))
    for op in ['set_patt_len', 'set_output_voltage', 'set_offset', 'set_skew', 'set_prbs_order', 'set_bits_shift']:
        vals = V[op]
        for chs in CHSEL:
            for v in vals:
                cases.append((op, (v, chs)))
        # per-channel list forms: rotations of the scalar alphabet (mix in- and out-of-range values), length = number of
        # requested channels; plus length mismatches (1 value, 5 values)
        for chs in CHSEL:
            m = len(chan_list(chs)[0])
            for j in range(len(vals)):
                cases.append((op, ([vals[(j + i * 3) % len(vals)] for i in range(m)], chs)))
            cases.append((op, ([vals[0]], chs)))
            cases.append((op, ([vals[i % len(vals)] for i in range(5)], chs)))
    for chs in CHSEL:
        for mode in ('data', 'PRBS', 'Data', 'prbs'):
            cases.append(('set_mode', (mode, chs)))
        cases.append(('enable_outputs', (chs,)))
        cases.append(('disable_outputs', (chs,)))
    return cases


# ------------------------------------------------------------------ part: aggregate __call__/config
AGG = [  # name, in-range, out-of-range (None = no out-of-range notion: second in-range value)
    ('freq', 1e10, 3.2e11), ('patt_len', 1000, 2 ** 24), ('Vout', 1.5, 5.0), ('offset', 0.5, -20),
    ('bsh', 10, -7), ('skew', 0.5e-12, 1e-10), ('mode', 'PRBS', 'DATA'), ('order', 7, 40),
    ('data', ('arr', (0, 0, 0, 1, 1, 1, 0, 1)), ('arr', tuple(int(bg(9, i)) for i in range(1030)))),
]
AGG_SETTER = {'patt_len': 'set_patt_len', 'Vout': 'set_output_voltage', 'offset': 'set_offset', 'bsh': 'set_bits_shift',
              'skew': 'set_skew', 'order': 'set_prbs_order'}


def agg_case(case):
    op, choice, chs = case          # choice: tuple of 0 absent / 1 in-range / 2 out-of-range per AGG entry
    kw = {}
    for (name, a, b), c in zip(AGG, choice):
        if c:
            kw[name] = a if c == 1 else b
    fake = Fake()
    ppg = new_ppg(fake)
    before = fake.clone()
    call_kw = {k: as_args(v) for k, v in kw.items()}
    call_kw['CHs'] = chs
    ret, exc, nw, out = drive(ppg, op, (), call_kw)
    viol = list(fake.issues)
    sig = f'{op}({", ".join(f"{k}={v!r}"[:40] for k, v in kw.items())}, CHs={chs!r})'
    req, ch_oor = chan_list(chs)
    any_ch_arg = any(k not in ('freq', 'order', 'data') for k in kw) or ('order' in kw and kw.get('mode') == 'PRBS') \
        or ('data' in kw and kw.get('mode') == 'DATA')
    oor = False
    if exc:
        viol.append((f'{exc[1]}:raises-{exc[0]}', f'{sig} raised {exc[0]}: {exc[2]}'))
    else:
        touched = set()
        oor_ops = []
        if 'freq' in kw:
            want = clamp(kw['freq'], *FREQ)
            oor |= want != kw['freq']
            if want != kw['freq']:
                oor_ops.append('set_freq')
            if abs(fake.freq - want) > FREQ_RTOL * want:
                viol.append(('set_freq:register-not-clamped-request', f'{sig}: frequency register {fake.freq!r}, expected {want!r}'))
        elif fake.freq != before.freq:
            viol.append(('aggregate:touches-other-register', f'{sig} changed the frequency'))
        for name, sop in AGG_SETTER.items():
            if name in kw and (name != 'order' or kw.get('mode') == 'PRBS'):
                e = expect_setter(sop, kw[name], chs, before)
                oor |= e['oor']
                if e['oor'] and not ch_oor:
                    oor_ops.append(sop)
                touched.add(SETTERS[sop][0])
                viol += [(k, m) for k, m in e['check'](fake) if 'touches-other' not in k
                         and not (k.endswith(':register-not-clamped-request') and any(q.startswith('cmd:out-of-range') for q, _ in viol))]
            elif name == 'order' and name in kw:
                touched.add('plen')         # statement silent on whether order is applied without mode='PRBS'
        if 'mode' in kw:
            e = expect_setter('set_mode', kw['mode'], chs, before)
            touched.add('type')
            viol += [(k, m) for k, m in e['check'](fake) if 'touches-other' not in k]
        if any_ch_arg:
            oor |= ch_oor
        for c in range(1, NCH + 1):
            for k in fake.reg[c]:
                if k not in touched and fake.reg[c][k] != before.reg[c][k]:
                    viol.append(('aggregate:touches-other-register', f'{sig} changed CH{c} {k}'))
        if 'data' in kw and kw.get('mode') == 'DATA':
            clipped, rows = data_rows((kw['data'], 1, chs))
            for c, row in zip(clipped, rows):
                if not np.array_equal(fake.content(c, 1, len(row)), np.array(row, dtype=np.uint8)):
                    viol.append(('set_data:memory-differs', f'{sig}: CH{c} memory differs from the data'))
                    break
        elif 'data' not in kw and fake.writes() != before.writes():
            viol.append(('aggregate:touches-memory', f'{sig} changed the memory'))
        if oor and nw == 0:
            viol.append((f'{oor_ops[0] if oor_ops else "aggregate"}:no-warning', f'{sig}: out-of-range request but no warning was issued'))
        if op == '__call__' and ret != 'Done':
            pass    # return value is not part of the statement
    obs = (tuple(fake.log), exc[:2] if exc else None, nw > 0)
    return res(viol=_dedup(viol), obs=obs, nontrivial=bool(2 in choice or ch_oor),
               stats={'transitions': 1, 'commands': len(fake.log), 'oor_calls': int(oor or 2 in choice)})


def agg_cases(tier):
    cases = []
    n = len(AGG)
    if tier == 'thorough':
        for choice in itertools.product((0, 1, 2), repeat=n):
            for op, chs in (('__call__', 2), ('config', [0, 5])):
                cases.append((op, choice, chs))
        for choice in itertools.product((0, 1), repeat=n):
            cases.append(('__call__', choice, None))
    else:
        for sub in itertools.product((0, 1), repeat=n):          # every subset of the arguments (2^9) ...
            for lvl in (1, 2):                                   # ... all in-range / all out-of-range
                choice = tuple(s * lvl for s in sub)
                for op, chs in (('__call__', 2), ('config', None), ('__call__', [0, 5])):
                    cases.append((op, choice, chs))
        for i in range(n):                                       # exactly one argument out of range, rest in range
            cases.append(('config', tuple(2 if j == i else 1 for j in range(n)), [1, 3]))
    cases.sort(key=lambda c: (sum(1 for x in c[1] if x), sum(c[1])))
    return cases


# ------------------------------------------------------------------ part: data round trips
def bits_for(seed, L, start, nrows):
    rng = np.random.RandomState([seed & 0x7FFFFFFF, L, start])
    return rng.randint(0, 2, size=(nrows, L)).astype(np.uint8)


def data_case(case):
    seed, L, start, chs, form = case
    req, _ = chan_list(chs)
    nrows = min(len(req), NCH)
    rows = bits_for(seed, L, start, nrows)
    if form == 'str':
        data = ''.join(map(str, rows[0].tolist()))
    elif form == 'arr1d':
        data = ('arr', tuple(rows[0].tolist()))
    elif form == 'list1d':
        data = rows[0].tolist()
    else:
        data = ('arr', tuple(tuple(r) for r in rows.tolist()))
    fake = Fake()
    ppg = new_ppg(fake)
    viol, o1, i1 = step(fake, ppg, 'set_data', (data, start, chs))
    v1n = len(viol)
    nblocks = fake.stats['blocks']
    sent = list(fake.log)
    v2, o2, i2 = step(fake, ppg, 'get_data', (L, start, chs))
    viol += v2
    ndry = 0
    if L % BLOCK in (0, 1, BLOCK - 1) or L <= 2 or L > 2100:      # dry-run mode at the block boundaries
        lines, dexc, dnw, dissues = dry_run('set_data', (data, start, chs))
        ndry = len(lines)
        have = {k for k, _ in viol}
        viol += [('dry-run:' + k, m) for k, m in dissues if k not in have]
        if dexc:
            viol.append((f'dry-run:{dexc[1]}:raises-{dexc[0]}', f'dry-run set_data(<{L} bits>, {start}, {chs!r}) raised {dexc[0]}: {dexc[2]}'))
        elif not i1['exc'] and not v1n and lines != sent:
            viol.append(('dry-run:stream-differs', f'set_data(<{L} bits>, {start}, {chs!r}): {len(lines)} printed lines differ from the {len(sent)} commands sent'))
    obs = (o1[1:], o2[1:], len(fake.log), tuple(c[:40] for c in fake.log[:2]), tuple(c[:40] for c in fake.log[-2:]))
    return res(viol=_dedup(viol), obs=obs, nontrivial=bool(L > BLOCK or start != 1),
               stats={'transitions': 2, 'commands': len(fake.log), 'dry_run_lines': ndry, 'blocks': nblocks, 'reads': fake.stats['reads'],
                      'zero_len_reads': fake.stats['zero_len_reads'], 'bits_written': L * nrows,
                      'oor_calls': int(i1['oor']) + int(i2['oor'])})


DATA_CH = [None, 2, [1, 3]]
STARTS = [1, 2, 1000, 1024, 1025]


def forms_for(chs):
    if chs is None or isinstance(chs, int):
        return ['str', 'arr1d']
    return ['arr1d', 'arr2d']


def data_cases(tier, seed):
    long = [3071, 3072, 3073, 4096, 10000]
    cases = []
    lengths = list(range(1, 2101)) + long
    for L in lengths:
        for si, start in enumerate(STARTS):
            boundary = L % BLOCK in (0, 1, BLOCK - 1) or L in (1, 2) or L > 2100
            for ci, chs in enumerate(DATA_CH):
                fs = forms_for(chs)
                if tier == 'thorough':
                    use = fs + (['list1d'] if chs == 2 else [])
                elif boundary:
                    use = fs                               # block boundaries: full product, both forms
                elif (L + si) % len(DATA_CH) == ci:
                    use = [fs[(L // 3 + si) % 2]]          # elsewhere channel sets and forms rotate over L and start
                else:
                    use = []
                for f in use:
                    cases.append((seed, L, start, chs, f))
    # end of the memory: the request does not fit; the driver documents truncation with a warning
    for L, start in [(1, MEM), (2, MEM), (300, MEM - 100), (1025, MEM - 1024), (1500, MEM - 1100), (2048, MEM - 2047)]:
        for chs in DATA_CH[:2]:
            cases.append((seed, L, start, chs, 'arr1d'))
    return cases


def overlap_case(case):
    seed, L1, s1, L2, s2, ch1, ch2, chg = case
    fake = Fake()
    ppg = new_ppg(fake)
    viol = []
    obs = []
    n1 = min(len(chan_list(ch1)[0]), NCH)
    n2 = min(len(chan_list(ch2)[0]), NCH)
    r1 = bits_for(seed, L1, s1, n1)
    r2 = bits_for(seed + 1, L2, s2, n2)
    d1 = ('arr', tuple(tuple(r) for r in r1.tolist())) if n1 > 1 else ('arr', tuple(r1[0].tolist()))
    d2 = ''.join(map(str, r2[0].tolist())) if (ch2 is None or isinstance(ch2, int)) else ('arr', tuple(tuple(r) for r in r2.tolist()))
    lo = min(s1, s2)
    hi = max(s1 + L1, s2 + L2)
    for op, args in (('set_data', (d1, s1, ch1)), ('set_data', (d2, s2, ch2)), ('get_data', (hi - lo, lo, chg)),
                     ('get_data', (min(L2, 7), s2, chg))):
        v, o, _ = step(fake, ppg, op, args)
        viol += v
        obs.append(o[1:])
    obs.append(len(fake.log))
    return res(viol=_dedup(viol), obs=tuple(obs), nontrivial=True,
               stats={'transitions': 4, 'commands': len(fake.log), 'blocks': fake.stats['blocks'], 'reads': fake.stats['reads'],
                      'zero_len_reads': fake.stats['zero_len_reads']})


def overlap_cases(tier, seed):
    Ls = [1, 5, 1023, 1024, 1025, 2049] if tier == 'quick' else [1, 2, 5, 1000, 1023, 1024, 1025, 2047, 2048, 2049, 3000]
    offs = [0, 1, -1, 3, 1024] if tier == 'quick' else [0, 1, -1, 3, 500, 1023, 1024, 1025, -1024]
    s1s = [1, 1024, 2000] if tier == 'quick' else [1, 2, 1024, 1025, 2000]
    chp = [(None, 2, None), ([1, 3], [3, 4], None), (2, None, [1, 2])]
    cases = []
    for L1 in Ls:
        for L2 in Ls:
            for s1 in s1s:
                for off in offs:
                    s2 = s1 + off
                    if s2 < 1:
                        continue
                    if not (s2 < s1 + L1 + 1 and s1 < s2 + L2 + 1):
                        continue        # overlapping or adjacent ranges only
                    for ch1, ch2, chg in chp:
                        cases.append((seed, L1, s1, L2, s2, ch1, ch2, chg))
    return cases


# ------------------------------------------------------------------ part: BFS over call sequences
def bfs_actions(tier):
    d5 = '01101'
    d3 = ('arr', ((1, 0, 1), (0, 1, 1)))
    d1030 = ('arr', tuple(int(bg(7, i)) for i in range(1030)))
    acts = [
        ('set_freq', (12.5e9,)), ('set_freq', (3.2e11,)),
        ('set_patt_len', (1000, None)), ('set_patt_len', (2 ** 24, [0, 5])), ('set_patt_len', ([2, 1], [1, 2])),
        ('set_output_voltage', (1.5, None)), ('set_output_voltage', (5.0, 2)), ('set_output_voltage', ([0.5, 0.03], [3, 4])),
        ('set_offset', (0.5, None)), ('set_offset', (7, 1)), ('set_offset', ([-20, 1.0], [2, 3])),
        ('set_skew', (1e-11, None)), ('set_skew', (1e-10, 4)),
        ('set_mode', ('prbs', None)), ('set_mode', ('data', [1, 2])),
        ('set_prbs_order', (15, None)), ('set_prbs_order', (40, 5)),
        ('set_bits_shift', (10, None)), ('set_bits_shift', (-3, 2)),
        ('enable_outputs', (None,)), ('disable_outputs', ([1, 5],)),
        ('set_data', (d5, 1, None)), ('set_data', (d3, 3, [2, 4])), ('set_data', (d1030, 1000, [1, 3])),
        ('reset', ()),
        ('get_freq', ()), ('get_patt_len', (None,)), ('get_output_voltage', ([1, 2],)), ('get_offset', (None,)),
        ('get_skew', (5,)), ('get_mode', (None,)), ('get_prbs_order', (None,)), ('get_bits_shift', ([2, 2],)),
        ('get_data', (8, 1, None)), ('get_data', (1030, 1000, [1, 3])), ('get_data', (2048, 2, 2)),
    ]
    if tier == 'thorough':
        acts += [('set_freq', (1.5e9,)), ('set_output_voltage', (0.0, 1)), ('set_offset', (-2.0, 4)),
                 ('set_skew', ([-1e-9, 5e-12, 0, 0, 0], [1, 2, 3, 4, 5])), ('set_prbs_order', (10, 3)),
                 ('enable_outputs', (0,)), ('set_data', ('1', 1024, 4)), ('get_data', (1024, 1, 4))]
    return acts


def _replay(acts, hist):
    fake = Fake()
    ppg = new_ppg(fake)
    for ai in hist:
        op, args = acts[ai]
        step(fake, ppg, op, args)
    return fake, ppg


def expand(case):
    """case = (tier, history of action indices): every action of the alphabet is executed from the state the history
    reaches (history replayed on a fresh driver + instrument each time)"""
    tier, hist = case
    acts = bfs_actions(tier)
    viol, succ, obs = [], [], []
    ncmd = 0
    base, _ = _replay(acts, hist)
    for ai, (op, args) in enumerate(acts):
        fake = base.clone()
        ppg = new_ppg(fake)
        n0 = len(fake.log)
        v, o, info = step(fake, ppg, op, args)
        ncmd += len(fake.log) - n0
        names = [acts[i][0] for i in hist] + [op]
        for k, m in v:
            viol.append((k, f'history {list(hist) + [ai]} = {names}: {m}'))
        st = hash_str(repr(fake.state()))
        succ.append(st)
        obs.append((o[1:], len(o[0]), st))
    return res(viol=_dedup(viol), obs=tuple(obs), payload=succ, nontrivial=len(hist) >= 1,
               stats={'transitions': len(acts), 'commands': ncmd})


def hash_str(s):
    import hashlib
    return hashlib.sha256(s.encode()).hexdigest()[:16]


def replay_history(case):
    """replay one history (used for the violation files of the bfs part): case = (tier, history)"""
    tier, hist = case
    acts = bfs_actions(tier)
    fake = Fake()
    ppg = new_ppg(fake)
    viol = []
    for n, ai in enumerate(hist):
        op, args = acts[ai]
        v, o, _ = step(fake, ppg, op, args)
        if n == len(hist) - 1:
            viol += v
    return res(viol=_dedup(viol), obs=repr(fake.state()))


def run_bfs(ctx):
    tier = ctx.tier
    acts = bfs_actions(tier)
    depth_max = 3 if ctx.quick else 4
    ctx.space('bfs.actions', len(acts))
    init = hash_str(repr(Fake().state()))
    seen = {init: ()}
    frontier = [()]
    depth = 0
    transitions = 0
    while frontier and depth < depth_max:
        payloads = ctx.pmap(f'bfs.depth{depth}', expand, [(tier, h) for h in frontier], horizon=120, quiet=True, recheck=2,
                            sample_every=max(1, len(frontier) // 2))
        nxt = []
        for h, succ in zip(frontier, payloads):
            if succ is None:
                continue
            for ai, st in enumerate(succ):
                transitions += 1
                if st not in seen:
                    seen[st] = h + (ai,)
                    nxt.append(h + (ai,))
        frontier = nxt
        depth += 1
        print(f'[C20] bfs depth {depth}: states={len(seen)} frontier={len(frontier)} transitions={transitions}', flush=True)
    closed = not frontier
    for st in seen:
        ctx.nt_tags.add(('bfs-state', st))
    ctx.extra['bfs'] = {'states': len(seen), 'transitions': transitions, 'depth': depth, 'closed': closed,
                        'unexpanded_frontier': len(frontier)}
    ctx.sample({'part': 'bfs', 'deepest_history': [repr(acts[i])[:80] for i in max(seen.values(), key=len)]})
    # violations found by expand: point the replay file at the single failing history
    for v in ctx.viol:
        if v['fn'] and v['fn'].endswith(':expand'):
            try:
                msg = v['msg']
                hist = eval(msg[len('history '):msg.index(' = ')])
                v['case'] = (tier, tuple(hist))
                v['fn'] = 'mcx.props.c20:replay_history'
            except Exception:
                pass
    return len(seen), transitions, closed, depth


# ------------------------------------------------------------------ part: SYNC
def prbs7():
    """x^7 + x^6 + 1, 127 slots"""
    s = [1, 0, 0, 0, 0, 0, 0]
    out = []
    for _ in range(127):
        out.append(s[6])
        s = [s[6] ^ s[5]] + s[:6]
    return np.array(out, dtype=int)


def sync_case(case):
    from opticomlib.lab import SYNC
    from opticomlib.typing import electrical_signal, binary_sequence
    seed, sps, d, form, k = case
    p = prbs7()
    tx = np.kron(p, np.ones(sps))
    l = tx.size
    gv_reset(sps=sps)
    if k < 0:
        noise = np.zeros(3 * l)
    else:
        noise = np.random.RandomState([seed & 0x7FFFFFFF, sps, d, k]).normal(0, 0.1, 3 * l)
    if form == 'pad':        # delayed with d leading zero samples (nothing transmitted yet), three repetitions follow
        rx = np.concatenate([np.zeros(d), np.tile(tx, 3)])[:3 * l] + noise
    else:                    # steady state: the periodic waveform delayed by d samples
        rx = np.roll(np.tile(tx, 3), d) + noise
    pat = p
    if form in ('i16', 'u8'):   # digitised records: ADC counts (int16) / raw scope bytes (uint8), uint8 slot pattern
        rx = np.round(rx * 100).astype(np.int16) if form == 'i16' else np.clip(np.round((rx + 1.0) * 60), 0, 255).astype(np.uint8)
        pat = np.asarray(p, dtype=np.uint8)
    rx.flags.writeable = False
    viol = []
    sig = f'SYNC(rx=3x PRBS7 waveform {"zero-padded" if form == "pad" else "cyclically"} delayed by d={d}, sps={sps}, noise#{k}, {form})'
    cls = 'd=0' if d == 0 else 'd>0'
    try:
        if form == 'es':
            out, i = SYNC(electrical_signal(rx), binary_sequence(p))
        else:
            out, i = SYNC(rx, pat, sps)
    except Exception as e:  # noqa
        if _lab_fn(e.__traceback__) is None:
            raise
        viol.append((f'SYNC:raises-{type(e).__name__}:{cls}', f'{sig} raised {type(e).__name__}: {str(e)[:120]}'))
        return res(viol=viol, obs=('EXC', type(e).__name__), nontrivial=d > 0, stats={'sync_calls': 1})
    i = int(i)
    if i != d:
        viol.append((f'SYNC:index:{cls}', f'{sig} returned index {i}, expected {d}'))
    s = np.asarray(out.signal)
    if s.size == 0 or s.size > rx.size - i or not np.array_equal(s, rx[i:i + s.size]):
        viol.append((f'SYNC:signal-not-rx-from-index:{cls}', f'{sig}: returned signal ({s.size} samples) is not rx[{i}:{i}+{s.size}]'))
    elif i == d and s.size < l:
        pass    # length of the synchronised record is not part of the statement
    return res(viol=viol, obs=(i, s.size, float(np.round(s[:4].real.sum(), 6)) if s.size else None),
               nontrivial=d > 0, stats={'sync_calls': 1})


def sync_short_case(case):
    from opticomlib.lab import SYNC
    from opticomlib.typing import electrical_signal, binary_sequence
    seed, sps, n, form = case
    p = prbs7()
    tx = np.kron(p, np.ones(sps))
    gv_reset(sps=sps)
    rx = np.tile(tx, 1)[:n] + np.random.RandomState([seed & 0x7FFFFFFF, sps, n]).normal(0, 0.1, n)
    try:
        if form == 'es' and n >= 1:
            SYNC(electrical_signal(rx), binary_sequence(p))
        else:
            SYNC(rx, p, sps)
    except BufferError:
        return res(obs='BufferError', nontrivial=n > 0, stats={'sync_calls': 1})
    except Exception as e:  # noqa
        if _lab_fn(e.__traceback__) is None:
            raise
        return res(viol=[('SYNC:short-record-not-BufferError', f'SYNC(record of {n} < {tx.size} samples) raised {type(e).__name__}: {e}')],
                   obs=type(e).__name__, stats={'sync_calls': 1})
    return res(viol=[('SYNC:short-record-not-BufferError', f'SYNC(record of {n} < {tx.size} samples) returned instead of raising BufferError')],
               obs='returned', stats={'sync_calls': 1})


def sync_cases(tier, seed):
    K = 4 if tier == 'quick' else 16
    cases = []
    for sps in (2, 4):
        for d in range(127 * sps):
            for form in ('nd', 'es', 'pad'):
                for k in [-1] + list(range(K)):
                    cases.append((seed, sps, d, form, k))
            for form in ('i16', 'u8'):          # integer-dtype records (one noise field each)
                cases.append((seed, sps, d, form, 0))
    cases.sort(key=lambda c: (c[2], c[1], c[4], c[3]))
    short = [(seed, sps, n, form) for sps in (2, 4) for n in range(0, 127 * sps) for form in ('nd', 'es')]
    return cases, short


# ------------------------------------------------------------------ regression replays (minimal failing inputs)
REGRESS_SINGLE = [
    ('set_output_voltage', (5.0, 1)),         # DESIGN 8 #19: raw 5.0 V sent
    ('set_output_voltage', (0.0, 1)),         # #19: TypeError formatting the warning
    ('set_offset', (3.1, 1)),                 # #20: TypeError formatting the warning
]
REGRESS_DATA = [(0, 1025, 1, 1, 'str'), (0, 2048, 1, 1, 'str')]   # #21


def run(ctx):
    seed = ctx.seed
    tier = ctx.tier
    ctx.assume('the instrument is simulated from the SCPI grammar the driver itself uses and the limits in the property text; '
               'real firmware responses are not available')
    ctx.assume('a zero-length read is answered with the empty block "#10" (most lenient instrument)')
    ctx.assume('numpy.random.RandomState(seed) produces the "seeded" bit fields and the N(0, 0.1) noise of SYNC')
    ctx.rule('every driver call is one transition executed on the real PPG3204 object with the simulated session attached as '
             'ppg.inst; a command monitor parses every emitted SCPI string (channel 1..4, value inside the documented limits, block '
             'header/size/address) and a caller-side reference model predicts the registers/memory after the call; '
             'single: full product value x channel alphabets incl. per-channel list forms, then the matching getter, then the '
             'same call in dry-run mode; agg: subsets of the 9 aggregate arguments x {in,out of range}; data: every length '
             '1..2100 + {3071,3072,3073,4096,10000} x 5 start addresses x 3 channel sets (+ end of memory); overlap: two '
             'overlapping writes then reads; bfs: breadth-first search over call sequences with canonical instrument state; '
             'sync: every delay d in [0,127*sps) x sps{2,4} x 3 input forms x noise fields')
    for c in REGRESS_SINGLE:
        ctx.run_case('regress', single_case, c)
    for c in REGRESS_DATA:
        ctx.run_case('regress', data_case, c)

    sc = single_cases(tier)
    ctx.pmap('single', single_case, sc, horizon=30)
    ac = agg_cases(tier)
    ctx.pmap('agg', agg_case, ac, horizon=30)
    dc = data_cases(tier, seed)
    ctx.pmap('data', data_case, dc, horizon=60)
    oc = overlap_cases(tier, seed)
    ctx.pmap('overlap', overlap_case, oc, horizon=60)
    states, transitions, closed, depth = run_bfs(ctx)
    if not closed:
        ctx.rule(f'bfs is depth-bounded at {depth} (the state space is a product of register values; closure is not the goal)')
    yc, ys = sync_cases(tier, seed)
    ctx.pmap('sync', sync_case, yc, horizon=30)
    ctx.pmap('sync.short', sync_short_case, ys, horizon=30)

    tr_other = ctx.stats.get('transitions', 0) - transitions   # stats also counted the bfs transitions
    ctx.graph(states=states, transitions=ctx.stats.get('transitions', 0))
    ctx.extra['sizes'] = {'single': len(sc), 'agg': len(ac), 'data': len(dc), 'overlap': len(oc), 'sync': len(yc),
                          'sync_short': len(ys), 'bfs_states': states, 'bfs_transitions': transitions,
                          'non_bfs_transitions': tr_other}
