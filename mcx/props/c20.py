"""C20 - PPG3204 driver emits only in-range commands; pattern memory round-trips; SYNC aligns.

Explicit-state search over driver call sequences against a simulated instrument (c20_fake.Fake attached as
`ppg.inst`), a command monitor on every transition, a caller-side reference model stepped in lock-step;
dry-run mode (no session: commands are printed) explored through captured stdout.  Parts:

  single   every single set_* call: full product value alphabet x channel alphabet (scalar and list forms),
           followed by the matching get_* (depth-2 sequence), attached and dry-run
  agg      the __call__/config aggregate over every subset of its 9 arguments x {in-range, out-of-range}
  data     set_data; get_data for EVERY length 1..2100 (+ long ones) x start address x channel set x form
  overlap  set_data; set_data(overlapping range); get_data  (depth 3)
  bfs      breadth-first search over call sequences from a mixed action alphabet, canonical instrument state
  sync     SYNC for every delay d in [0, 127*sps), sps in {2,4}, several seeded noise fields; short records

Hardening pass (notes/C20.md): every part also runs the same requests in the other documented containers / sample dtypes
(tagged tuples in the case data, see as_args/plain), plus
  getsweep reads of 1..3 blocks (+-1 bit) from every start-address class, incl. out-of-range start / size
  chain    the array / numpy scalar returned by one call fed to the next call
  sync     one deviation at a time over every delay: sps {1,3,8}, record / slot dtypes, library classes with a noise
           component, record lengths, amplitude scale / offset, grid histories, PRBS9 / PRBS11 / PRBS15

Strengthening after seeded wave 4 (notes/C20.md): NON-INTEGRAL requests for the integer-valued parameters (pattern length,
PRBS order, bit shift; get_data size / start address): whole-valued floats and values one ulp / 1e-9 / 1e-6 / a fraction away
from every legal value, in every floating-point container; the command monitor validates the value TEXT of these commands
(c20_fake.int_value) instead of truncating it.
"""
from __future__ import annotations
import contextlib
import io
import itertools
import traceback
import warnings
import numpy as np

from mcx.core.kernel import res
from mcx.core.env import gv_reset
from mcx.props.c20_fake import (Fake, FakeBug, bg, clamp, chan_list, expect_setter, SETTERS, GETTERS, FREQ, AMPL,
                                OFFS, SKEW, PLEN, ORDERS, NCH, MEM, BLOCK, FREQ_RTOL)

ID = 'C20'
LEVEL = 'model_checking'
NONTRIVIAL = ('a call with an out-of-range value or channel selection, a per-channel list form, a data transfer of more '
              'than one block or not starting at address 1, a call sequence of depth >= 2, or a SYNC delay d > 0')

SETTERS.update({
    'set_mode': ('type', None, 0.0, 0.0),
    'enable_outputs': ('outp', None, 0.0, 0.0),
    'disable_outputs': ('outp', None, 0.0, 0.0),
})
GET_OF = {'set_patt_len': 'get_patt_len', 'set_output_voltage': 'get_output_voltage', 'set_offset': 'get_offset',
          'set_skew': 'get_skew', 'set_bits_shift': 'get_bits_shift', 'set_prbs_order': 'get_prbs_order',
          'set_mode': 'get_mode'}


class HarnessBug(Exception):
    pass


# ------------------------------------------------------------------ driving the real driver
def new_ppg(fake=None):
    from opticomlib.lab import PPG3204
    ppg = PPG3204()            # no address: no VISA session is opened
    if fake is not None:
        ppg.inst = fake        # the driver's own seam
    return ppg


def _lab_fn(tb):
    hit = None
    for fs in traceback.extract_tb(tb):
        if fs.filename.endswith('opticomlib/lab.py'):
            hit = fs.name
    return hit


def drive(ppg, op, args=(), kw=None):
    """call ppg.<op>(*args, **kw) -> (ret, exc or None, n_warnings, stdout)"""
    buf = io.StringIO()
    bug = None
    ret = exc = None
    with warnings.catch_warnings(record=True) as w:
        warnings.simplefilter('always')
        try:
            with contextlib.redirect_stdout(buf):
                ret = getattr(ppg, op)(*args, **(kw or {}))
        except FakeBug as e:
            bug = str(e)
        except Exception as e:  # noqa
            fn = _lab_fn(e.__traceback__)
            if fn is None:
                raise
            exc = (type(e).__name__, fn, str(e)[:160])
        nw = len(w)
    if bug:
        raise HarnessBug('simulated instrument crashed:\n' + bug)
    return ret, exc, nw, buf.getvalue()


def _tag(a):
    return a[0] if isinstance(a, tuple) and a and isinstance(a[0], str) else None


def as_args(a):
    """actions carry plain picklable data; lists stay lists, tagged tuples become the container / dtype they name:
       ('arr', rows)               uint8 ndarray
       ('tup', seq)                tuple (nested for 2-D)
       ('np', dtype, seq[, 'ro'])  ndarray of that dtype, optionally write-protected
       ('nps', dtype, v)           numpy scalar          ('np0', dtype, v)  0-d ndarray
       ('mix', seq)                list mixing numpy scalars (even positions) and Python numbers (odd positions)
       ('len', v)                  v itself; marks a Python literal of an undocumented type (float for an int parameter)"""
    t = _tag(a)
    if t == 'arr':
        return np.array(a[1], dtype=np.uint8)
    if t == 'tup':
        return tuple(tuple(x) if isinstance(x, (list, tuple)) else x for x in a[1])
    if t == 'np':
        x = np.array(a[2], dtype=a[1])
        if len(a) > 3:
            x.flags.writeable = False
        return x
    if t == 'nps':
        return np.dtype(a[1]).type(a[2])
    if t == 'np0':
        return np.array(a[2], dtype=a[1])
    if t == 'mix':
        return [((np.int64(x) if isinstance(x, int) else np.float64(x)) if i % 2 == 0 else x) for i, x in enumerate(a[1])]
    if t == 'len':
        return a[1]
    return a


def plain(a):
    """what the reference model sees: the requested numbers as Python scalars / (nested) lists, whatever the container
    or dtype they travel in (a float32 request IS the float32-rounded number)"""
    t = _tag(a)
    if t == 'arr':
        return np.array(a[1], dtype=np.uint8).tolist()
    if t == 'tup':
        return [list(x) if isinstance(x, (list, tuple)) else x for x in a[1]]
    if t == 'np':
        return np.array(a[2], dtype=a[1]).tolist()
    if t in ('nps', 'np0'):
        return np.dtype(a[1]).type(a[2]).item()
    if t == 'mix':
        return list(a[1])
    if t == 'len':
        return a[1]
    if isinstance(a, np.ndarray):
        return a.tolist()
    if isinstance(a, np.generic):
        return a.item()
    return a


def has_float(a):
    """the argument carries a floating-point number (Python float, numpy floating scalar / 0-d / array, or a list / tuple
    holding one)"""
    t = _tag(a)
    if t in ('np', 'nps', 'np0'):
        return np.dtype(a[1]).kind == 'f'
    if t in ('tup', 'mix'):
        return any(has_float(x) for x in a[1])
    if t == 'len':
        return has_float(a[1])
    if isinstance(a, (list, tuple)):
        return any(has_float(x) for x in a)
    return isinstance(a, (float, np.floating))


def lenient_call(op, raw):
    """argument types the driver does not document (its docstrings: int / float / Array_Like): numpy scalars other than
    float64 (which IS a Python float), 0-d arrays, bool, bool arrays as values, floats for integer parameters (scalar or
    inside any container; strengthening after seeded wave 4: these are now enumerated for every integer-valued setter).  The
    driver documents ValueError for 'not in the correct format'; the statement is silent on them.  For these calls a
    ValueError/TypeError is tolerated; whatever IS emitted still goes through the monitor and, when the call is accepted,
    through the full clamp-and-warn model."""
    for j, a in enumerate(raw):
        if isinstance(a, bool):
            return True
        if j == 0 and op in INT_SETTERS and has_float(a):      # documented int / Array_Like(int): floats in any container
            return True
        if j in (0, 1) and op == 'get_data' and has_float(a):  # size, start_addrs: documented int
            return True
        t = _tag(a)
        if t in ('np0', 'len'):
            return True
        if t == 'nps' and a[1] != 'float64':
            return True
        if t == 'np' and a[1] == 'bool' and j == 0 and (op in SETTERS or op == 'set_freq'):
            return True
    return False


def model_args(op, args):
    """(value, channels) as seen by the reference model"""
    if op in ('enable_outputs', 'disable_outputs'):
        return (1 if op == 'enable_outputs' else 0), (args[0] if args else None)
    val = args[0]
    chs = args[1] if len(args) > 1 else None
    if op == 'set_mode':
        val = val.upper()
    return val, chs


def flat_bits(x):
    """bits of one channel of a get_data result, whatever the nesting"""
    a = np.asarray(x)
    if a.dtype == object:
        return np.concatenate([flat_bits(y) for y in a]) if a.size else np.zeros(0, int)
    return a.ravel().astype(int)


def size_class(n):
    return 'size<=1024' if n <= BLOCK else ('size=k*1024' if n % BLOCK == 0 else 'size>1024')


def data_rows(args):
    """per requested channel the bit row a set_data action writes: args=(data, start, chs).  A string may carry the
    separators str2array documents (blank, comma); a 2-D form gives one row per channel in order (rows and channels are
    paired; what happens to an unpaired row or channel is not stated)"""
    data, start, chs = (plain(a) for a in args)
    req, _ = chan_list(chs)
    clipped = [clamp(c, 1, NCH) for c in req][:NCH]
    if isinstance(data, str):
        rows = [[int(c) for c in data if c not in ' ,']] * len(clipped)
    else:
        d = data
        if len(d) and isinstance(d[0], (list, tuple)):
            rows = [[int(bool(x)) for x in r] for r in d]
        else:
            rows = [[int(bool(x)) for x in d]] * len(clipped)
    return clipped, rows


def step(fake, ppg, op, args=(), kw=None):
    """ONE transition: run the driver call against the instrument, command monitor, lock-step reference model.
    -> (viol, obs, info)"""
    before = fake.clone()
    n_issue, n_log, n_parsed = len(fake.issues), len(fake.log), len(fake.parsed)
    raw = tuple(args)
    call_args = tuple(as_args(a) for a in raw)
    args = tuple(plain(a) for a in raw)          # the model works on the requested numbers
    lenient = lenient_call(op, raw)
    ret, exc, nw, out = drive(ppg, op, call_args, kw)
    viol = list(fake.issues[n_issue:])
    cmds = fake.log[n_log:]
    sig = f'{op}{raw!r}'[:200]
    cls = ''
    if op == 'get_data':
        cls = ':' + (size_class(args[0]) if isinstance(args[0], int) else 'size-not-int')
    tolerated = bool(exc and lenient and exc[0] in ('ValueError', 'TypeError'))
    if exc and not tolerated:
        extra = ''
        if op == 'get_data' and fake.stats['zero_len_reads']:
            extra = f' [after {fake.stats["zero_len_reads"]} zero-length read(s), last command {cmds[-1] if cmds else None!r}]'
        viol.append((f'{exc[1]}:raises-{exc[0]}{cls}', f'{sig} raised {exc[0]}: {exc[2]}{extra}'))
    oor = False
    info = {'oor': False}
    if op == 'set_freq':
        v = args[0]
        oor = not (FREQ[0] <= v <= FREQ[1])
        if not exc:
            want = clamp(v, *FREQ)
            if abs(fake.freq - want) > FREQ_RTOL * want:
                viol.append(('set_freq:register-not-clamped-request', f'{sig}: frequency register {fake.freq!r}, expected {want!r}'))
            if fake.reg != before.reg or fake.writes() != before.writes():
                viol.append(('set_freq:touches-other-register', f'{sig} changed a channel register'))
    elif op in SETTERS:
        val, chs = model_args(op, args)
        e = expect_setter(op, val, chs, before)
        oor = e['oor']
        if not exc:
            chk = e['check'](fake)
            if any(k.startswith(('cmd:out-of-range', 'cmd:non-integral')) for k, _ in viol):    # the monitor already reports the raw value
                chk = [(k, m) for k, m in chk if not k.endswith(':register-not-clamped-request')]
            viol += chk
            if fake.writes() != before.writes():
                viol.append((f'{op}:touches-memory', f'{sig} changed the pattern memory'))
    elif op == 'reset':
        if not exc and (fake.reg != Fake().reg or fake.freq != Fake().freq or fake.writes() != before.writes()):
            viol.append(('reset:state', f'{sig}: registers not at defaults / memory changed'))
    elif op == 'set_data':
        data, start, chs = args
        req, ch_oor = chan_list(chs)
        clipped, rows = data_rows(args)
        L = len(rows[0]) if rows else 0
        keep = max(0, min(L, MEM - start + 1))
        oor = ch_oor or keep < L
        if not exc:
            writes = {}
            for c, row in zip(clipped, rows):
                writes.setdefault(c, []).append(np.array(row[:keep], dtype=np.uint8))
            free = set(clipped[len(rows):]) - set(writes)     # requested channels that no row of a 2-D form is paired with
            blocks = {}
            for kind, c, f in fake.parsed[n_parsed:]:
                if kind == 'data':
                    blocks.setdefault(c, []).append(f)
            if not (set(writes) <= set(blocks) <= set(writes) | free):
                viol.append(('set_data:wrong-channels', f'{sig}: blocks sent to channels {sorted(blocks)}, expected {sorted(writes)}'))
            for c, bl in blocks.items():
                if c not in writes:
                    continue
                addr = start
                for (p, n, k, pl) in bl[:len(bl) // max(1, len(writes[c]))]:
                    if p != addr:
                        viol.append(('set_data:addresses-not-consecutive', f'{sig}: CH{c} block at address {p}, expected {addr}'))
                        break
                    addr += n
                else:
                    if addr != start + keep:
                        viol.append(('set_data:length-not-covered', f'{sig}: CH{c} blocks cover {addr - start} bits, expected {keep}'))
            for c in range(1, NCH + 1):
                if c in free:
                    continue
                ext = fake.extent(c)
                lo = min(start, ext[0]) if ext else start
                hi = max(start + keep, ext[1]) if ext else start + keep
                ref = before.content(c, lo, hi - lo)
                for w in writes.get(c, []):           # duplicates of a channel: the last writer wins
                    ref[start - lo:start - lo + w.size] = w
                bad = np.nonzero(fake.content(c, lo, hi - lo) != ref)[0]
                if bad.size:
                    viol.append(('set_data:memory-differs', f'{sig}: CH{c} memory differs from the reference at {bad.size} '
                                                              f'address(es), first {int(bad[0]) + lo}'))
            if fake.reg != before.reg or fake.freq != before.freq:
                viol.append(('set_data:touches-register', f'{sig} changed a register'))
    elif op == 'get_data':
        size, start = args[0], args[1]
        chs = args[2] if len(args) > 2 else None
        req, ch_oor = (chan_list(chs) if not tolerated else ([], False))
        clipped = [clamp(c, 1, NCH) for c in req]
        frac = any(isinstance(a, float) and not float(a).is_integer() for a in (size, start))
        if not exc and frac:
            # a non-integral size / start address (documented: ValueError) was accepted: there is no reference for what is
            # read; the commands it emitted went through the monitor (a fractional address / count does not parse)
            pass
        elif not exc:
            # documented (Warns): an out-of-range start address or size is set "to the nearest value" with a warning
            start_req, start = start, clamp(start, 1, MEM)
            keep = clamp(size, 1, MEM - start + 1)
            oor = ch_oor or keep != size or start != start_req
        if not exc and not frac:
            try:
                n_ret = len(ret)
            except TypeError:
                n_ret = -1
            if n_ret not in (len(clipped), min(len(clipped), NCH)):
                viol.append((f'get_data:wrong-channel-count{cls}', f'{sig}: returned {n_ret} rows for channels {clipped}'))
            else:
                for i in range(n_ret):
                    want = np.array(before.content(clipped[i], start, keep))
                    try:
                        got = flat_bits(ret[i])
                    except Exception:
                        got = None
                    if got is None or got.size != want.size or (got != want).any():
                        nbad = -1 if got is None or got.size != want.size else int((got != want).sum())
                        viol.append((f'get_data:wrong-bits{cls}',
                                     f'{sig}: row {i} (CH{clipped[i]}) has {None if got is None else got.size} bits, expected {want.size}; '
                                     f'{nbad} differ'))
                        break
            if fake.state() != before.state():
                viol.append(('get_data:changes-state', f'{sig} changed the instrument state'))
    elif op in GETTERS or op == 'get_freq':
        chs = args[0] if args else None
        req, oor = chan_list(chs) if (op != 'get_freq' and not tolerated) else ([], False)
        if not exc:
            if op == 'get_freq':
                if ret != before.freq:
                    viol.append(('get_freq:value', f'{sig} returned {ret!r}, instrument holds {before.freq!r}'))
            else:
                clipped = [clamp(c, 1, NCH) for c in req]
                reg = GETTERS[op]
                got = [x.strip() if isinstance(x, str) else x for x in np.asarray(ret).tolist()]
                if len(got) not in (len(clipped), min(len(clipped), NCH)):
                    viol.append((f'{op}:wrong-channel-count', f'{sig} returned {got!r} for channels {clipped}'))
                else:
                    want = [before.reg[c][reg] for c in clipped][:len(got)]
                    if got != want:
                        viol.append((f'{op}:value', f'{sig} returned {got!r}, instrument holds {want!r}'))
            if fake.state() != before.state():
                viol.append((f'{op}:changes-state', f'{sig} changed the instrument state'))
    else:
        raise HarnessBug(f'no model for {op}')
    if oor and not exc and nw == 0:
        viol.append((f'{op}:no-warning', f'{sig}: out-of-range request but no warning was issued'))
    info = {'oor': oor, 'exc': exc, 'nw': nw, 'cmds': cmds, 'ret': ret, 'stdout': out, 'lenient': lenient, 'tolerated': tolerated}
    retc = None
    if ret is not None and not isinstance(ret, (bool, str)):
        try:
            retc = np.asarray(ret).tolist() if np.asarray(ret).dtype != object else repr(ret)
        except Exception:
            retc = repr(ret)
    obs = (tuple(cmds), exc[:2] if exc else None, nw > 0, repr(retc))
    return viol, obs, info


def dry_run(op, args):
    """the same call without a session: printed lines go through a second monitor"""
    ppg = new_ppg(None)
    ret, exc, nw, out = drive(ppg, op, tuple(as_args(a) for a in args))
    mon = Fake()
    lines = out.split('\n')
    if lines and lines[-1] == '':
        lines = lines[:-1]
    for ln in lines:
        mon.query(ln)
    return lines, exc, nw, mon.issues


# ------------------------------------------------------------------ part: single calls
def single_case(case):
    op, args = case
    fake = Fake()
    ppg = new_ppg(fake)
    viol, obs, info = step(fake, ppg, op, args)
    observations = [obs]
    ntr = 1
    set_cmds = list(info['cmds'])
    # depth-2 sequence set_X; get_X (same channels, then all channels)
    if op == 'set_freq':
        v2, o2, _ = step(fake, ppg, 'get_freq', ())
        viol += v2
        observations.append(o2)
        ntr += 1
    elif op in GET_OF:
        chs = args[1] if len(args) > 1 else None
        for c in ([chs, None] if chs is not None else [None]):
            v2, o2, _ = step(fake, ppg, GET_OF[op], (c,))
            viol += v2
            observations.append(o2)
            ntr += 1
    # dry-run mode
    lines, dexc, dnw, dissues = dry_run(op, args)
    have = {k for k, _ in viol}
    viol += [('dry-run:' + k, m) for k, m in dissues if k not in have]
    if dexc:
        if f'{dexc[1]}:raises-{dexc[0]}' not in have and not (info['lenient'] and dexc[0] in ('ValueError', 'TypeError')):
            viol.append((f'dry-run:{dexc[1]}:raises-{dexc[0]}', f'dry-run {op}{args!r} raised {dexc[0]}: {dexc[2]}'))
    elif info['oor'] and dnw == 0 and f'{op}:no-warning' not in have:
        viol.append((f'dry-run:{op}:no-warning', f'dry-run {op}{args!r}: out-of-range request but no warning'))
    if not dexc and not info['exc'] and not viol and lines != set_cmds:
        viol.append(('dry-run:stream-differs', f'{op}{args!r}: printed {lines[:4]} but sent {set_cmds[:4]}'))
    observations.append((tuple(lines), dexc[:2] if dexc else None, dnw > 0))
    if _tag(args[0]) == 'np' and args[0][1] in ('float16', 'float32'):      # limits that a narrow float type cannot hold: own key
        viol = [(k + f'@{args[0][1]}-array' if k.endswith(':register-not-clamped-request') else k, m) for k, m in viol]
    if op != 'set_freq' and any(abs(x) >= 2 ** 63 for x in np.ravel(np.asarray(plain(args[0]), dtype=object)) if isinstance(x, (int, float))):
        # a request that numpy cannot hold as int64 (uint64 / object / huge float): own key
        viol = [(k + '@beyond-int64' if k.endswith(':register-not-clamped-request') else k, m) for k, m in viol]
    nt = info['oor'] or any(isinstance(a, list) or _tag(a) for a in args)
    return res(viol=_dedup(viol), obs=tuple(observations), nontrivial=bool(nt),
               stats={'transitions': ntr, 'commands': len(fake.log), 'dry_run_lines': len(lines),
                      'oor_calls': int(info['oor']),
                      'non_integral_values_on_the_wire': sum(v for k, v in fake.stats.items() if k.startswith('non_integral_'))})


def _dedup(viol):
    seen, out = set(), []
    for k, m in viol:
        if k not in seen:
            seen.add(k)
            out.append((k, m))
    return out


CHSEL = [None, 1, 4, 0, 5, -1, [1, 2], [0, 5], [1, 2, 3, 4, 5], [4, 4]]
# hardening pass: other containers / dtypes of the channel argument, mixed valid+invalid lists, more than 4 entries, empty
CHSEL_X = [('tup', (1, 2)), ('tup', (0, 5)), ('np', 'int64', [1, 2]), ('np', 'uint8', [0, 5]), ('np', 'int8', [-1, 3]),
           ('np', 'int32', [4, 3, 2, 1], 'ro'), ('np', 'int64', [0, 5], 'ro'), ('mix', [1, 5]), [1, 7], [0, 1], [3, -2, 9, 2], [2, 2, 2, 2, 2], [7, 1, 1, 1], [],
           ('nps', 'int64', 2), ('nps', 'int32', 5), ('np0', 'int64', 3), True]

# per setter: 4-vectors (below the lower limit, above the upper limit, lower limit, upper limit) at several distances, the
# last ones integer-valued / small enough for the narrow integer dtypes
VECS = {
    'set_patt_len': [(1, 2 ** 21 + 1, 2, 2 ** 21), (-5, 2 ** 24, 127, 1000), (0, 3, 2, 100), (1, 1, 2, 2)],
    'set_output_voltage': [(0.29, 2.01, 0.3, 2.0), (0.03, 5.0, 1.26, 1.5), (0, 5, 1, 2), (-1, 20, 2, 1)],
    'set_offset': [(-2.1, 3.1, -2.0, 3.0), (-20.0, 30.0, 0.5, -0.04), (-20, 7, -2, 3), (-3, 4, 0, 1)],
    'set_skew': [(-25.1e-12, 25.1e-12, -25e-12, 25e-12), (-1e-9, 1e-10, 0.0, 0.5e-12), (-1, 1, 0, 0), (-100, 100, 0, 0)],
    'set_prbs_order': [(0, 40, 7, 31), (6, 32, 8, 10), (-1, 100, 13, 27), (1, 127, 23, 15)],
    'set_bits_shift': [(-3, 2 ** 30 - 1, 0, 10), (-(2 ** 30 - 1), 100, 1, 2), (-1, 1, 0, 3), (-100, 100, 0, 0)],
}
INT_SETTERS = ('set_patt_len', 'set_prbs_order', 'set_bits_shift')
INT_DT = ['int8', 'uint8', 'int16', 'uint16', 'int32', 'uint32', 'int64']
FLT_DT = ['float16', 'float32', 'float64']


def fits(vec, dt):
    """the vector travels unchanged (integers) / rounded but finite and in order (floats) in an array of dtype dt"""
    d = np.dtype(dt)
    if d.kind in 'iu':
        ii = np.iinfo(d)
        return all(float(v) == int(v) and ii.min <= int(v) <= ii.max for v in vec)
    if d.kind == 'b':
        return all(v in (0, 1) for v in vec)
    with np.errstate(over='ignore'):
        return bool(np.all(np.isfinite(np.array(vec, dtype=np.float64).astype(d))))


def typed_value_cases(op, tier):
    """hardening pass: the same requests in every documented container and sample dtype (per-channel arrays), as numpy /
    Python scalars of the other numeric types, both limits violated in one call, value lists shorter / longer than the
    channel list"""
    V = VECS[op]
    out = []
    flt = op not in INT_SETTERS
    # (a) both limits violated in ONE per-channel list: every permutation of the nearest vector, rotations of the others
    for perm in itertools.permutations(V[0]):
        out.append((op, (list(perm), None)))
    for vec in V[1:]:
        for r in range(4):
            out.append((op, ([vec[(r + i) % 4] for i in range(4)], None)))
    for vec in V:
        b, a, lo, hi = vec
        for pair in ([b, a], [a, b], [b, hi], [lo, a], [lo, hi]):
            for chs in ([1, 2], ('tup', (4, 1)), [0, 5], ('np', 'int64', [3, 3])):
                out.append((op, (pair, chs)))
    # (b) containers and dtypes of the per-channel value array
    for vi, vec in enumerate(V):
        for r in (0, 1):
            v4 = [vec[(r + i) % 4] for i in range(4)]
            out.append((op, (('tup', tuple(v4)), None)))
            out.append((op, (('mix', v4), None)))
            for dt in INT_DT + (FLT_DT if flt else []) + ['bool']:
                if fits(v4, dt):
                    out.append((op, (('np', dt, v4), None)))
                    if dt in ('int64', 'float64', 'int8', 'float32'):
                        out.append((op, (('np', dt, v4, 'ro'), ('np', 'int64', [4, 3, 2, 1]))))
                        out.append((op, (('np', dt, v4[:2]), ('tup', (2, 5)))))
            if tier == 'thorough':
                for dt in INT_DT + (FLT_DT if flt else []):
                    if fits(v4, dt):
                        for chs in CHSEL[6:] + CHSEL_X[:7]:
                            out.append((op, (('np', dt, v4[:max(1, len(chan_list(plain(chs))[0]))]), chs)))
    if op != 'set_bits_shift':
        out.append((op, (('np', 'bool', [1, 0, 1, 0]), None)))
        out.append((op, (('np', 'bool', [0, 1]), ('tup', (1, 4)))))
    # (c) scalars of other numeric types (Python int <-> float twins, numpy scalars, 0-d arrays, bool)
    seen = set()
    for vec in V:
        for v in vec:
            if v in seen:
                continue
            seen.add(v)
            forms = []
            if float(v) == int(v) and abs(v) < 2 ** 62:
                forms += [int(v), ('nps', 'int64', int(v)), ('np0', 'int64', int(v))]
                forms += [('nps', dt, int(v)) for dt in ('int8', 'uint8', 'int32') if fits([v], dt)]
                if op != 'set_bits_shift':      # a float bit shift is printed as '3.0'; not a documented type, no limit stated
                    forms += [float(v) if flt else ('len', float(v))]
                if v in (0, 1) and op not in ('set_bits_shift', 'set_skew'):
                    # bool is not a documented type anywhere; these two setters print the value with a bare '{}' (-> 'False'):
                    # a bool is no request for a number of bits / seconds, the statement does not cover it
                    forms.append(bool(v))
            if flt:
                forms += [float(v), ('nps', 'float64', float(v)), ('nps', 'float32', float(v)), ('np0', 'float64', float(v)),
                          ('np0', 'float32', float(v))]
            for f in forms:
                for chs in (None, 2, [0, 5]):
                    out.append((op, (f, chs)))
    # (d) value lists shorter / longer than the channel list (0, m-1, m+1, 8 values)
    for chs in (None, [1, 2], 3, [1, 2, 3, 4, 5], ('tup', (2, 9))):
        m = len(chan_list(plain(chs))[0])
        for n in sorted({0, m - 1, m + 1, 8}):
            for r in (0, 1, 2):
                vals = [V[r][(r + i) % 4] for i in range(n)]
                out.append((op, (vals, chs)))
                if n and fits(vals, 'int64' if not flt else 'float64'):
                    out.append((op, (('np', 'int64' if not flt else 'float64', vals), chs)))
    return out


# ---- strengthening after seeded wave 4: NON-INTEGRAL requests for the integer-valued parameters
# anchors: every legal value class of the parameter (both limits, interior, every supported order) + unsupported / outside ones
FRAC_ANCHORS = {
    'set_prbs_order': list(ORDERS) + [8, 20, 0, 40],
    'set_patt_len': [2, 3, 127, 1000, 2 ** 21 - 1, 2 ** 21, 1, 0, 2 ** 21 + 1],
    'set_bits_shift': [0, 1, 10, -3, 2 ** 30 - 1, -(2 ** 30 - 1)],
}
# distance from the anchor: 0 = the whole number as a float ('7.0' on the wire); fractions whose integer part
# is the anchor (.5, .4, .97) or the anchor's lower neighbour (-.5); 1e-6; 1e-9; one ulp
FRAC_OFFS = [0.0, 0.5, 0.4, -0.5, 0.97, 1e-6, -1e-6, 1e-9, -1e-9, 'ulp+', 'ulp-']


def frac_values(op):
    out = []
    for a in FRAC_ANCHORS[op]:
        for d in FRAC_OFFS:
            if d == 'ulp+':
                v = float(np.nextafter(float(a), np.inf))
            elif d == 'ulp-':
                v = float(np.nextafter(float(a), -np.inf))
            else:
                v = float(a) + d
            out.append(v)
    return list(dict.fromkeys(out))


def fractional_cases(op, tier):
    """every integer-valued setter with floating-point requests: whole-valued floats, values one ulp / 1e-9 / 1e-6 / a fraction
    away from every anchor, as Python float, numpy float64 / float32 scalar, 0-d array, one-element list, per-channel list /
    tuple / float64 / float32 / float16 / read-only array, list mixing int and float, list mixing numpy and Python numbers;
    non-finite and huge floats in the per-channel forms (they cannot travel as int)"""
    th = tier == 'thorough'
    vals = frac_values(op)
    n = len(vals)
    anchors = FRAC_ANCHORS[op]
    out = []
    for j, v in enumerate(vals):            # simplest first: one value
        out.append((op, ([v], 3)))
        out.append((op, ([v], None)))                         # one value for four channels
        for form in (('len', v), ('nps', 'float64', v), ('nps', 'float32', v), ('np0', 'float64', v)):
            for chs in ((None, 2, [0, 5]) if th else (None, 2)):
                out.append((op, (form, chs)))
    for j, v in enumerate(vals):
        # per-channel forms: v first, the other entries walk through the alphabet (stride coprime to its length)
        v4 = [vals[(j + i * 7) % n] for i in range(4)]
        ints = [anchors[(j + i) % len(anchors)] for i in range(4)]
        mixed = [v4[i] if i % 2 == 0 else ints[i] for i in range(4)]           # float, int, float, int
        mixed2 = [ints[i] if i % 2 == 0 else v4[i] for i in range(4)]          # int, float, int, float
        forms4 = [v4, ('tup', tuple(v4)), ('np', 'float64', v4), ('np', 'float64', v4, 'ro'), mixed, mixed2, ('mix', mixed),
                  ('mix', v4)]
        for dt in ('float32', 'float16'):
            if fits(v4, dt):
                forms4.append(('np', dt, v4))
        for f in forms4:
            out.append((op, (f, None)))
        chx = [[1, 3], ('tup', (4, 1)), [0, 5], ('np', 'int64', [2, 2])]
        for ci, chs in enumerate(chx):
            fl = forms4 if th else [forms4[(j + ci) % len(forms4)]]
            for f in fl:
                t = _tag(f)
                if t == 'tup':
                    f2 = ('tup', f[1][:2])
                elif t == 'np':
                    f2 = (f[0], f[1], f[2][:2]) + f[3:]
                elif t == 'mix':
                    f2 = ('mix', f[1][:2])
                else:
                    f2 = f[:2]
                out.append((op, (f2, chs)))
    # scale: non-finite / huge floats can only be requested through a floating-point container
    big = [float('inf'), float('-inf'), 1e300, -1e300, 2.0 ** 62, 1e19] if op != 'set_bits_shift' else [2.0 ** 40, -2.0 ** 40]
    for b in big:
        out.append((op, ([b], 1)))
        out.append((op, (('np', 'float64', [b, float(anchors[0]), float(anchors[1]) + 0.5, b]), None)))
        out.append((op, ([anchors[0], b], [2, 3])))
    if op != 'set_bits_shift':      # ... and the same magnitudes as Python int (beyond int64: numpy holds them as uint64 / object)
        for b in (10 ** 19, -10 ** 19, 2 ** 63, 2 ** 64, 10 ** 30):
            out.append((op, (b, 1)))
            out.append((op, ([b], [2])))
            out.append((op, ([anchors[0], b], [2, 3])))
    return out


FREQ_X = [10 ** 10, 10 ** 12, 0, -1, 32 * 10 ** 9, 15 * 10 ** 8, 15 * 10 ** 8 - 1, 32 * 10 ** 9 + 1,
          ('nps', 'float64', 5e10), ('nps', 'float64', 1.5e9), ('nps', 'float32', 5e10), ('nps', 'float32', 32e9),
          ('nps', 'float32', 1.5e9), ('nps', 'float32', 1e9), ('nps', 'int64', 10 ** 12), ('nps', 'int64', 10 ** 10),
          ('nps', 'int32', 2 * 10 ** 9), ('nps', 'int32', 10 ** 9), ('nps', 'uint8', 5), ('np0', 'float64', 5e10),
          ('np0', 'float64', 2e9), ('np0', 'int64', 1), True, 1e300, -1e300, float('-inf'), 5e-324]


def around(lo, hi, unit, thorough):
    """values several decades around each limit, simplest first (DESIGN alphabet first, then the extension)"""
    out = []
    for L in (lo, hi):
        for f in ([1e-3, 1e-2, 1e-1, 10, 100, 1e3] if thorough else [0.1, 10]):
            out.append(L * f)
        out += [float(np.nextafter(L, -np.inf)), float(np.nextafter(L, np.inf)), L - unit, L + unit]
    return out


def value_alphabets(tier):
    th = tier == 'thorough'
    V = {
        'set_freq': [1e10, 1.5e9, 32e9, 0, 1.5e8, 1.49e9, 32.01e9, 3.2e11, 2.5e9, 12.345678e9] + around(1.5e9, 32e9, 1e4, th) + [-1e9, 1e15, float('inf')],
        'set_output_voltage': [1, 0.3, 2, 1.0, 0.5, 1.26, 0, 0.0, 0.03, 0.29, 2.01, 5, 5.0, 20, -1.0] + around(0.3, 2.0, 0.005, th),
        'set_offset': [0, -2, 3, 0.5, -0.04, 1.26, -20, -2.1, 3.1, 7, 30] + around(-2.0, 3.0, 0.005, th),
        'set_skew': [0, 0.0, 25e-12, -25e-12, 0.5e-12, -1.23e-11, -1e-9, -25.1e-12, 1e-10, 25.1e-12, 1, -1] + around(-25e-12, 25e-12, 1e-13, th),
        'set_patt_len': [1000, 2, 2 ** 21, 127, 0, 1, 2 ** 21 + 1, 2 ** 24, -5, 3] + ([10 ** k for k in range(1, 10)] if th else []),
        'set_prbs_order': [7, 9, 11, 15, 23, 31, 0, 8, 10, 40, 6, 32, 13, 19, 27, -1] + (list(range(1, 7)) + list(range(33, 36)) + [100, 1000] if th else []),
        'set_bits_shift': [10, 0, -3, 2 ** 30 - 1],
    }
    return V


def single_cases(tier):
    V = value_alphabets(tier)
    cases = []
    for v in V['set_freq']:
        cases.append(('set_freq', (v,)))
    for op in ['set_patt_len', 'set_output_voltage', 'set_offset', 'set_skew', 'set_prbs_order', 'set_bits_shift']:
        vals = V[op]
        for chs in CHSEL:
            for v in vals:
                cases.append((op, (v, chs)))
        # per-channel list forms: rotations of the scalar alphabet (mix in- and out-of-range values), length = number of
        # requested channels; plus length mismatches (1 value, 5 values)
        for chs in CHSEL:
            m = len(chan_list(chs)[0])
            for j in range(len(vals)):
                cases.append((op, ([vals[(j + i * 3) % len(vals)] for i in range(m)], chs)))
            cases.append((op, ([vals[0]], chs)))
            cases.append((op, ([vals[i % len(vals)] for i in range(5)], chs)))
    for chs in CHSEL + CHSEL_X:
        for mode in ('data', 'PRBS', 'Data', 'prbs'):
            cases.append(('set_mode', (mode, chs)))
        cases.append(('enable_outputs', (chs,)))
        cases.append(('disable_outputs', (chs,)))
    # ---- hardening pass (appended: the simplest, documented-example-like cases above stay first)
    for v in FREQ_X:
        cases.append(('set_freq', (v,)))
    for op in ['set_patt_len', 'set_output_voltage', 'set_offset', 'set_skew', 'set_prbs_order', 'set_bits_shift']:
        vals = V[op] + [float('inf'), float('-inf'), 1e300] * (op not in INT_SETTERS) + [2 ** 62, -2 ** 62] * (op in INT_SETTERS[:2])
        for chs in CHSEL_X:
            for v in (vals if tier == 'thorough' else vals[:12] + vals[-3:]):
                cases.append((op, (v, chs)))
        for chs in CHSEL[:2]:
            for v in vals[len(V[op]):]:
                cases.append((op, (v, chs)))
        cases += typed_value_cases(op, tier)
    # ---- strengthening after seeded wave 4 (appended)
    for op in INT_SETTERS:
        cases += fractional_cases(op, tier)
    return cases


# ------------------------------------------------------------------ part: aggregate __call__/config
AGG = [  # name, in-range, out-of-range (None = no out-of-range notion: second in-range value)
    ('freq', 1e10, 3.2e11), ('patt_len', 1000, 2 ** 24), ('Vout', 1.5, 5.0), ('offset', 0.5, -20),
    ('bsh', 10, -7), ('skew', 0.5e-12, 1e-10), ('mode', 'PRBS', 'DATA'), ('order', 7, 40),
    ('data', ('arr', (0, 0, 0, 1, 1, 1, 0, 1)), ('arr', tuple(int(bg(9, i)) for i in range(1030)))),
]
AGG3 = {  # level 3: per-channel forms that violate BOTH limits in one call (cut to the number of requested channels)
    'freq': ('nps', 'float32', 5e10), 'patt_len': [1, 2 ** 24, 2, 2 ** 21], 'Vout': ('np', 'int8', [0, 5, 1, 2]),
    'offset': ('tup', (-20, 7, -2.0, 3.0)), 'bsh': ('np', 'int64', [-7, 10, 0, 3]), 'skew': [-1e-10, 1e-10, -25e-12, 25e-12],
    'mode': 'DATA', 'order': ('np', 'uint8', [0, 40, 7, 31]), 'data': None,
}
AGG4 = {  # level 4 (strengthening after seeded wave 4): non-integral per-channel requests for the integer-valued arguments
    'patt_len': [1000.5, 2.4, 1.5, 2 ** 21 + 0.5], 'order': ('np', 'float64', [7.4, 9.97, 23.0, 31.5]), 'bsh': ('tup', (0.5, -2.5, 3.0, 10.25)),
}
AGG_SETTER = {'patt_len': 'set_patt_len', 'Vout': 'set_output_voltage', 'offset': 'set_offset', 'bsh': 'set_bits_shift',
              'skew': 'set_skew', 'order': 'set_prbs_order'}


def agg_case(case):
    op, choice, chs_raw = case      # choice: tuple of 0 absent / 1 in-range / 2 out-of-range / 3 per-channel both limits / 4 non-integral
    chs = plain(chs_raw)
    m = min(len(chan_list(chs)[0]), NCH)
    kw_raw = {}
    for (name, a, b), c in zip(AGG, choice):
        if c in (3, 4):
            v = AGG3[name] if c == 3 else AGG4[name]
            if name == 'data':          # one row per requested channel, 1030 bits each (two blocks)
                v = ('tup', tuple(tuple(int(bg(11 + r, i)) for i in range(1030)) for r in range(m)))
            elif _tag(v) == 'tup':
                v = ('tup', v[1][:m])
            elif _tag(v) == 'np':
                v = (v[0], v[1], v[2][:m])
            elif isinstance(v, list):
                v = v[:m]
            kw_raw[name] = v
        elif c:
            kw_raw[name] = a if c == 1 else b
    kw = {k: plain(v) for k, v in kw_raw.items()}
    fake = Fake()
    ppg = new_ppg(fake)
    before = fake.clone()
    call_kw = {k: as_args(v) for k, v in kw_raw.items()}
    call_kw['CHs'] = as_args(chs_raw)
    ret, exc, nw, out = drive(ppg, op, (), call_kw)
    viol = list(fake.issues)
    sig = f'{op}({", ".join(f"{k}={v!r}"[:40] for k, v in kw_raw.items())}, CHs={chs_raw!r})'
    req, ch_oor = chan_list(chs)
    any_ch_arg = any(k not in ('freq', 'order', 'data') for k in kw) or ('order' in kw and kw.get('mode') == 'PRBS') \
        or ('data' in kw and kw.get('mode') == 'DATA')
    oor = False
    if exc and 4 in choice and exc[0] in ('ValueError', 'TypeError'):
        pass        # floats for an integer parameter are not a documented type: a refusal is tolerated (see lenient_call)
    elif exc:
        viol.append((f'{exc[1]}:raises-{exc[0]}', f'{sig} raised {exc[0]}: {exc[2]}'))
    else:
        touched = set()
        oor_ops = []
        if 'freq' in kw:
            want = clamp(kw['freq'], *FREQ)
            oor |= want != kw['freq']
            if want != kw['freq']:
                oor_ops.append('set_freq')
            if abs(fake.freq - want) > FREQ_RTOL * want:
                viol.append(('set_freq:register-not-clamped-request', f'{sig}: frequency register {fake.freq!r}, expected {want!r}'))
        elif fake.freq != before.freq:
            viol.append(('aggregate:touches-other-register', f'{sig} changed the frequency'))
        for name, sop in AGG_SETTER.items():
            if name in kw and (name != 'order' or kw.get('mode') == 'PRBS'):
                e = expect_setter(sop, kw[name], chs, before)
                oor |= e['oor']
                if e['oor'] and not ch_oor:
                    oor_ops.append(sop)
                touched.add(SETTERS[sop][0])
                viol += [(k, m) for k, m in e['check'](fake) if 'touches-other' not in k
                         and not (k.endswith(':register-not-clamped-request')
                                  and any(q.startswith(('cmd:out-of-range', 'cmd:non-integral')) for q, _ in viol))]
            elif name == 'order' and name in kw:
                touched.add('plen')         # statement silent on whether order is applied without mode='PRBS'
        if 'mode' in kw:
            e = expect_setter('set_mode', kw['mode'], chs, before)
            touched.add('type')
            viol += [(k, m) for k, m in e['check'](fake) if 'touches-other' not in k]
        if any_ch_arg:
            oor |= ch_oor
        for c in range(1, NCH + 1):
            for k in fake.reg[c]:
                if k not in touched and fake.reg[c][k] != before.reg[c][k]:
                    viol.append(('aggregate:touches-other-register', f'{sig} changed CH{c} {k}'))
        if 'data' in kw and kw.get('mode') == 'DATA':
            clipped, rows = data_rows((kw['data'], 1, chs))
            for c, row in zip(clipped, rows):
                if not np.array_equal(fake.content(c, 1, len(row)), np.array(row, dtype=np.uint8)):
                    viol.append(('set_data:memory-differs', f'{sig}: CH{c} memory differs from the data'))
                    break
        elif 'data' not in kw and fake.writes() != before.writes():
            viol.append(('aggregate:touches-memory', f'{sig} changed the memory'))
        if oor and nw == 0:
            viol.append((f'{oor_ops[0] if oor_ops else "aggregate"}:no-warning', f'{sig}: out-of-range request but no warning was issued'))
        if op == '__call__' and ret != 'Done':
            pass    # return value is not part of the statement
    obs = (tuple(fake.log), exc[:2] if exc else None, nw > 0)
    return res(viol=_dedup(viol), obs=obs, nontrivial=bool(2 in choice or 3 in choice or 4 in choice or ch_oor),
               stats={'transitions': 1, 'commands': len(fake.log), 'oor_calls': int(oor or 2 in choice or 3 in choice),
                      'non_integral_values_on_the_wire': sum(v for k, v in fake.stats.items() if k.startswith('non_integral_'))})


def agg_cases(tier):
    cases = []
    n = len(AGG)
    if tier == 'thorough':
        for choice in itertools.product((0, 1, 2), repeat=n):
            for op, chs in (('__call__', 2), ('config', [0, 5])):
                cases.append((op, choice, chs))
        for choice in itertools.product((0, 1), repeat=n):
            cases.append(('__call__', choice, None))
    else:
        for sub in itertools.product((0, 1), repeat=n):          # every subset of the arguments (2^9) ...
            for lvl in (1, 2):                                   # ... all in-range / all out-of-range
                choice = tuple(s * lvl for s in sub)
                for op, chs in (('__call__', 2), ('config', None), ('__call__', [0, 5])):
                    cases.append((op, choice, chs))
        for i in range(n):                                       # exactly one argument out of range, rest in range
            cases.append(('config', tuple(2 if j == i else 1 for j in range(n)), [1, 3]))
    # hardening pass: every subset with per-channel both-limit forms in other containers / dtypes, channel containers
    for sub in itertools.product((0, 1), repeat=n):
        for op, chs in (('__call__', None), ('config', ('np', 'int64', [4, 1])), ('__call__', ('tup', (0, 5)))):
            if tier == 'thorough' or chs is None or sum(sub) <= 2 or sum(sub) >= n - 1:
                cases.append((op, tuple(s * 3 for s in sub), chs))
    for i in range(n):                                           # exactly one per-channel form, the rest in-range scalars
        cases.append(('config', tuple(3 if j == i else 1 for j in range(n)), ('tup', (2, 3, 4))))
    # strengthening after seeded wave 4: non-integral per-channel requests for the integer-valued arguments - each alone, each
    # with every other argument in range, every pair, all three (order is applied with mode='PRBS' = the in-range mode)
    names = [a[0] for a in AGG]
    ints = [names.index(k) for k in ('patt_len', 'order', 'bsh')]
    imode = names.index('mode')
    for r in (1, 2, 3):
        for sub in itertools.combinations(ints, r):
            for rest in (0, 1):
                choice = [rest] * n
                for i in sub:
                    choice[i] = 4
                choice[imode] = 1
                for op, chs in (('__call__', None), ('config', [1, 3]), ('__call__', ('tup', (0, 5))), ('config', 2)):
                    cases.append((op, tuple(choice), chs))
    cases.sort(key=lambda c: (sum(1 for x in c[1] if x), sum(c[1])))
    return cases


# ------------------------------------------------------------------ part: data round trips
def bits_for(seed, L, start, nrows):
    rng = np.random.RandomState([seed & 0x7FFFFFFF, L, start])
    return rng.randint(0, 2, size=(nrows, L)).astype(np.uint8)


FORMS_1D = ['str', 'arr1d', 'str_sp', 'list1d', 'str_cm', 'bool1d', 'tup1d', 'i64_1d', 'f64_1d', 'ro1d', 'str_cs', 'f32_1d']
FORMS_2D = ['arr2d', 'list2d', 'tup2d', 'bool2d', 'i8_2d', 'ro2d', 'f64_2d', 'rows+1', 'rows-1']


def make_data(form, seed, L, start, nrows):
    """the data argument of set_data in the named container / dtype / spelling; 1-D forms carry the first row (the driver
    documents that it is written to every requested channel), 2-D forms one row per channel"""
    if form in ('rows+1', 'rows-1'):
        n = nrows + 1 if form == 'rows+1' else max(1, nrows - 1)
        return bits_for(seed, L, start, n).tolist()
    rows = bits_for(seed, L, start, nrows)
    r0 = rows[0].tolist()
    sep = {'str': '', 'str_sp': ' ', 'str_cm': ',', 'str_cs': ', '}
    if form in sep:
        return sep[form].join(map(str, r0))
    one = {'arr1d': ('arr', tuple(r0)), 'list1d': r0, 'tup1d': ('tup', tuple(r0)), 'bool1d': ('np', 'bool', r0),
           'i64_1d': ('np', 'int64', r0), 'f64_1d': ('np', 'float64', r0), 'f32_1d': ('np', 'float32', r0), 'ro1d': ('np', 'uint8', r0, 'ro')}
    if form in one:
        return one[form]
    rl = rows.tolist()
    two = {'arr2d': ('arr', tuple(tuple(r) for r in rl)), 'list2d': rl, 'tup2d': ('tup', tuple(tuple(r) for r in rl)),
           'bool2d': ('np', 'bool', rl), 'i8_2d': ('np', 'int8', rl), 'f64_2d': ('np', 'float64', rl), 'ro2d': ('np', 'uint8', rl, 'ro')}
    return two[form]


def data_case(case):
    seed, L, start, chs, form = case
    req, _ = chan_list(plain(chs))
    nrows = min(len(req), NCH)
    data = make_data(form, seed, L, start, nrows)
    fake = Fake()
    ppg = new_ppg(fake)
    viol, o1, i1 = step(fake, ppg, 'set_data', (data, start, chs))
    v1n = len(viol)
    nblocks = fake.stats['blocks']
    sent = list(fake.log)
    v2, o2, i2 = step(fake, ppg, 'get_data', (L, start, chs))
    viol += v2
    ndry = 0
    if L % BLOCK in (0, 1, BLOCK - 1) or L <= 2 or L > 2100:      # dry-run mode at the block boundaries
        lines, dexc, dnw, dissues = dry_run('set_data', (data, start, chs))
        ndry = len(lines)
        have = {k for k, _ in viol}
        viol += [('dry-run:' + k, m) for k, m in dissues if k not in have]
        if dexc and i1['lenient'] and dexc[0] in ('ValueError', 'TypeError'):
            pass
        elif dexc:
            viol.append((f'dry-run:{dexc[1]}:raises-{dexc[0]}', f'dry-run set_data(<{L} bits>, {start}, {chs!r}) raised {dexc[0]}: {dexc[2]}'))
        elif not i1['exc'] and not v1n and lines != sent:
            viol.append(('dry-run:stream-differs', f'set_data(<{L} bits>, {start}, {chs!r}): {len(lines)} printed lines differ from the {len(sent)} commands sent'))
    if start + 3 * L >= MEM and (form in FORMS_2D or form in ('str_sp', 'str_cm', 'str_cs')):
        # a request near the end of the memory in a form whose len() is not its bit count: own keys
        tag = '@2-D-data-at-memory-end' if form in FORMS_2D else '@separator-string-at-memory-end'
        viol = [(k + tag if ('set_data:' in k or k.startswith('get_data:wrong-bits')) else k, m) for k, m in viol]
    obs = (o1[1:], o2[1:], len(fake.log), tuple(c[:40] for c in fake.log[:2]), tuple(c[:40] for c in fake.log[-2:]))
    return res(viol=_dedup(viol), obs=obs, nontrivial=bool(L > BLOCK or start != 1 or form not in ('str', 'arr1d')),
               stats={'transitions': 2, 'commands': len(fake.log), 'dry_run_lines': ndry, 'blocks': nblocks, 'reads': fake.stats['reads'],
                      'zero_len_reads': fake.stats['zero_len_reads'], 'bits_written': L * nrows,
                      'oor_calls': int(i1['oor']) + int(i2['oor'])})


DATA_CH = [None, 2, [1, 3]]
STARTS = [1, 2, 1000, 1024, 1025]


def forms_for(chs):
    if chs is None or isinstance(chs, int):
        return ['str', 'arr1d']
    return ['arr1d', 'arr2d']


def forms_x(chs):
    """hardening pass: every other container / dtype / spelling of the data argument"""
    if chs is None or isinstance(chs, int):
        return [f for f in FORMS_1D if f not in ('str', 'arr1d')]
    return [f for f in FORMS_2D if f != 'arr2d'] + ['list1d', 'tup1d', 'bool1d']


DATA_CH_X = [('tup', (4, 1)), ('np', 'int64', [2, 3, 1]), [0, 5], [1, 7], ('nps', 'int64', 3), [2, 2]]
POW10 = (9, 10, 99, 100, 999, 1000)          # block lengths where the header digit count changes
FORM_L = [1, 2, 3, 9, 10, 99, 100, 999, 1000, 1023, 1024, 1025, 2047, 2048, 2049, 3073]


def data_cases(tier, seed):
    # k*1024 - 1, k*1024, k*1024 + 1 (k = 3, 4, 5, 8; 9, 10 in part) and remainders with 1/2/3/4 header digits after full blocks
    long = [3071, 3072, 3073, 4096, 10000, 3081, 3082, 3171, 3172, 4071, 4072, 4095, 4097, 5119, 5120, 5121, 8191, 8192, 8193,
            9215, 9216, 9217, 9999, 10239, 10240, 10241]
    if tier == 'thorough':
        long += [6143, 6144, 6145, 7167, 7168, 7169, 9225, 9226, 9315, 9316, 10215, 10216]
    cases = []
    lengths = list(range(1, 2101)) + long
    for L in lengths:
        for si, start in enumerate(STARTS):
            boundary = L % BLOCK in (0, 1, BLOCK - 1) or L in (1, 2) or L > 2100 or L % BLOCK in POW10
            for ci, chs in enumerate(DATA_CH):
                fs = forms_for(chs)
                fx = forms_x(chs)
                if tier == 'thorough':
                    use = fs + (['list1d'] if chs == 2 else []) + [fx[(L + si) % len(fx)]]
                elif boundary:
                    use = fs                               # block boundaries: full product, both forms
                    if L <= 2100 or si in (0, 4):
                        use = use + [fx[(L // BLOCK + L % BLOCK + si) % len(fx)]]
                elif (L + si) % len(DATA_CH) == ci:
                    use = [fs[(L // 3 + si) % 2]]          # elsewhere channel sets and forms rotate over L and start
                    use.append(fx[(L // 3 + si) % len(fx)])   # ... and so do the other containers / dtypes / spellings
                else:
                    use = []
                for f in use:
                    cases.append((seed, L, start, chs, f))
    # forms x lengths (the conversion of the argument is independent of the block splitting: special lengths only)
    for L in FORM_L:
        for start in (1, 1000):
            for chs in DATA_CH:
                for f in forms_x(chs) + (['arr2d', 'list2d', 'rows+1', 'rows-1'] if chs is None else []):
                    cases.append((seed, L, start, chs, f))
    # channel containers / mixed valid+invalid channel lists
    for L in (1, 10, 1000, 1024, 1025, 2049):
        for chs in DATA_CH_X:
            m = len(chan_list(plain(chs))[0])
            for f in (['arr1d', 'str'] if m == 1 else ['arr1d', 'arr2d', 'list2d']):
                cases.append((seed, L, 2, chs, f))
    # end of the memory: data ending one cell before / exactly on / one and five cells after the last cell (the part that
    # does not fit is documented to be cut with a warning), every block-boundary length, every kind of form
    for L, start in [(1, MEM), (2, MEM), (300, MEM - 100), (1025, MEM - 1024), (1500, MEM - 1100), (2048, MEM - 2047)]:
        for chs in DATA_CH[:2]:
            cases.append((seed, L, start, chs, 'arr1d'))
    for L in (1, 2, 3, 10, 1000, 1023, 1024, 1025, 2047, 2048, 2049, 3073):
        for over in (-1, 0, 1, 5):
            start = MEM + over - L + 1
            if start > MEM:
                continue
            for chs in DATA_CH:
                fl = ['arr1d', 'str', 'str_sp', 'list1d', 'ro1d'] if not isinstance(chs, list) else ['arr1d', 'arr2d', 'list2d', 'ro2d', 'rows+1']
                for f in fl:
                    cases.append((seed, L, start, chs, f))
    return cases


# ------------------------------------------------------------------ part: reads of 1..3 blocks from every start-address class
def getsweep_case(case):
    seed, size, start, chs = case
    fake = Fake()
    ppg = new_ppg(fake)
    n = plain(size)
    if _tag(start):                  # a start address of an undocumented type (float)
        s_req, s_c = start, clamp(int(plain(start)), 1, MEM)
    else:
        s_req = start if isinstance(start, int) else MEM - n + 1 + {'end-1': -1, 'end': 0, 'end+1': 1}[start]
        s_c = clamp(s_req, 1, MEM)
    w0 = clamp(s_c - 700, 1, MEM - 1499)            # 1500 known bits around the first address read, the rest is background
    rows = bits_for(seed, 1500, w0, 1)
    viol, o1, _ = step(fake, ppg, 'set_data', (('arr', tuple(rows[0].tolist())), w0, None))
    v2, o2, i2 = step(fake, ppg, 'get_data', (size, s_req, chs))
    viol += v2
    return res(viol=_dedup(viol), obs=(o2, fake.stats['reads']), nontrivial=True,
               stats={'transitions': 2, 'commands': len(fake.log), 'reads': fake.stats['reads'], 'zero_len_reads': fake.stats['zero_len_reads'],
                      'oor_calls': int(i2['oor'])})


def getsweep_cases(tier, seed):
    sizes = [1, 2, 1023, 1024, 1025, 2047, 2048, 2049, 3071, 3072, 3073, 0, -1]
    starts = [1, 2, 1023, 1024, 1025, 2048, 2049, 'end-1', 'end', 'end+1', MEM, 0, -5, MEM + 1]
    chsel = [None, 2, [1, 3], ('tup', (4, 1)), [0, 5], ('np', 'int64', [2, 2])]
    cases = [(seed, n, s, c) for n in sizes for s in starts for c in chsel if not (n < 1 and not isinstance(s, int))]
    for n in (('nps', 'int64', 5), ('nps', 'int32', 1024), ('len', 1024.0), True):      # undocumented size types
        cases += [(seed, n, 1, c) for c in chsel[:3]]
    # strengthening after seeded wave 4: non-integral size / start address (documented: ValueError; nothing fractional may reach the wire)
    for n in (('len', 1024.5), ('len', 2.5), ('len', 0.5), ('nps', 'float64', 1024.5), ('nps', 'float32', 3.5), ('len', 2048.0000001)):
        cases += [(seed, n, s, c) for s in (1, 1000) for c in chsel[:3]]
    for s in (('len', 1.5), ('len', 1024.5), ('len', 1000.0), ('nps', 'float64', 2.5), ('len', 0.5)):
        cases += [(seed, n, s, c) for n in (8, 1025) for c in chsel[:3]]
    return cases


def overlap_case(case):
    seed, L1, s1, L2, s2, ch1, ch2, chg = case
    fake = Fake()
    ppg = new_ppg(fake)
    viol = []
    obs = []
    n1 = min(len(chan_list(ch1)[0]), NCH)
    n2 = min(len(chan_list(ch2)[0]), NCH)
    r1 = bits_for(seed, L1, s1, n1)
    r2 = bits_for(seed + 1, L2, s2, n2)
    d1 = ('arr', tuple(tuple(r) for r in r1.tolist())) if n1 > 1 else ('arr', tuple(r1[0].tolist()))
    d2 = ''.join(map(str, r2[0].tolist())) if (ch2 is None or isinstance(ch2, int)) else ('arr', tuple(tuple(r) for r in r2.tolist()))
    lo = min(s1, s2)
    hi = max(s1 + L1, s2 + L2)
    for op, args in (('set_data', (d1, s1, ch1)), ('set_data', (d2, s2, ch2)), ('get_data', (hi - lo, lo, chg)),
                     ('get_data', (min(L2, 7), s2, chg))):
        v, o, _ = step(fake, ppg, op, args)
        viol += v
        obs.append(o[1:])
    obs.append(len(fake.log))
    return res(viol=_dedup(viol), obs=tuple(obs), nontrivial=True,
               stats={'transitions': 4, 'commands': len(fake.log), 'blocks': fake.stats['blocks'], 'reads': fake.stats['reads'],
                      'zero_len_reads': fake.stats['zero_len_reads']})


def overlap_cases(tier, seed):
    Ls = [1, 5, 1023, 1024, 1025, 2049] if tier == 'quick' else [1, 2, 5, 1000, 1023, 1024, 1025, 2047, 2048, 2049, 3000]
    offs = [0, 1, -1, 3, 1024] if tier == 'quick' else [0, 1, -1, 3, 500, 1023, 1024, 1025, -1024]
    s1s = [1, 1024, 2000] if tier == 'quick' else [1, 2, 1024, 1025, 2000]
    chp = [(None, 2, None), ([1, 3], [3, 4], None), (2, None, [1, 2])]
    cases = []
    for L1 in Ls:
        for L2 in Ls:
            for s1 in s1s:
                for off in offs:
                    s2 = s1 + off
                    if s2 < 1:
                        continue
                    if not (s2 < s1 + L1 + 1 and s1 < s2 + L2 + 1):
                        continue        # overlapping or adjacent ranges only
                    for ch1, ch2, chg in chp:
                        cases.append((seed, L1, s1, L2, s2, ch1, ch2, chg))
    return cases


# ------------------------------------------------------------------ part: results of one call fed to the next
CHAIN_REG = [('set_patt_len', 'get_patt_len', [1000, [1, 2 ** 24, 5, 2 ** 21]]),
             ('set_output_voltage', 'get_output_voltage', [1.26, [0.03, 5.0, 0.3, 2.0]]),
             ('set_offset', 'get_offset', [-0.04, [-20, 7, -2.0, 3.0]]),
             ('set_skew', 'get_skew', [0.5e-12, [-1e-9, 1e-10, -25e-12, 25e-12]]),
             ('set_prbs_order', 'get_prbs_order', [15, [0, 40, 8, 23]]),
             ('set_bits_shift', 'get_bits_shift', [10, [-3, 2 ** 30 - 1, 0, 7]])]
CHAIN_CH = [(None, None), ([1, 2], [3, 4]), ([0, 5], ('tup', (2, 3))), (3, 1), ([4, 3, 2, 1], None)]


def chain_case(case):
    """set X on channels A; Y = get X(A); set X(Y) on channels B with the RETURNED container (ndarray of whatever dtype the
    driver returns), then with its first element (a numpy scalar); get X(B).  Same for the pattern memory."""
    kind = case[0]
    fake = Fake()
    ppg = new_ppg(fake)
    viol, obs, ntr = [], [], 0

    def do(op, args):
        nonlocal ntr
        v, o, info = step(fake, ppg, op, args)
        viol.extend(v)
        obs.append(o[1:])
        ntr += 1
        return info
    if kind == 'reg':
        _, sop, gop, val, cha, chb = case
        do(sop, (val, cha))
        r = do(gop, (cha,))['ret']
        if isinstance(r, np.ndarray) and r.dtype != object and r.size:
            nb = min(len(chan_list(plain(chb))[0]), NCH)
            back = ('np', str(r.dtype), r.tolist()[:nb] if nb <= r.size else (r.tolist() * 4)[:nb])
            do(sop, (back, chb))
            do(gop, (chb,))
            do(sop, (('nps', str(r.dtype), r.tolist()[0]), chb))      # the returned numpy scalar
            do(gop, (None,))
    else:
        _, seed, L, s1, s2, cha, chb = case
        na = min(len(chan_list(plain(cha))[0]), NCH)
        rows = bits_for(seed, L, s1, na)
        do('set_data', (('arr', tuple(tuple(r) for r in rows.tolist())), s1, cha))
        r = do('get_data', (L, s1, cha))['ret']
        if isinstance(r, np.ndarray) and r.dtype != object and r.ndim == 2:
            do('set_data', (('np', str(r.dtype), r.tolist()), s2, chb))       # the returned 2-D array as the next data
            do('get_data', (L, s2, chb))
            do('set_data', (('np', str(r.dtype), r[0].tolist()), s2 + L, chb))  # one returned row for all channels, adjacent
            do('get_data', (2 * L, s2, chb))
    return res(viol=_dedup(viol), obs=tuple(obs), nontrivial=True,
               stats={'transitions': ntr, 'commands': len(fake.log), 'blocks': fake.stats['blocks'], 'reads': fake.stats['reads']})


def chain_cases(tier, seed):
    cases = []
    for sop, gop, vals in CHAIN_REG:
        for v in vals:
            for cha, chb in CHAIN_CH:
                if isinstance(v, list):
                    v_ = v[:min(len(chan_list(plain(cha))[0]), NCH)]
                else:
                    v_ = v
                cases.append(('reg', sop, gop, v_, cha, chb))
    Ls = [1, 2, 10, 1000, 1024, 1025, 2049] if tier == 'quick' else [1, 2, 9, 10, 99, 100, 999, 1000, 1023, 1024, 1025, 2047, 2048, 2049, 3073]
    for L in Ls:
        for s1, s2 in ((1, 1), (1, 5000), (1000, 1025), (1024, 2)):
            for cha, chb in (([1, 2], [3, 4]), (None, None), ([1, 3], ('tup', (2, 4))), ([2, 4], ('np', 'int64', [4, 2]))):
                cases.append(('data', seed, L, s1, s2, cha, chb))
    return cases


# ------------------------------------------------------------------ part: BFS over call sequences
def bfs_actions(tier):
    d5 = '01101'
    d3 = ('arr', ((1, 0, 1), (0, 1, 1)))
    d1030 = ('arr', tuple(int(bg(7, i)) for i in range(1030)))
    acts = [
        ('set_freq', (12.5e9,)), ('set_freq', (3.2e11,)),
        ('set_patt_len', (1000, None)), ('set_patt_len', (2 ** 24, [0, 5])), ('set_patt_len', ([2, 1], [1, 2])),
        ('set_output_voltage', (1.5, None)), ('set_output_voltage', (5.0, 2)), ('set_output_voltage', ([0.5, 0.03], [3, 4])),
        ('set_offset', (0.5, None)), ('set_offset', (7, 1)), ('set_offset', ([-20, 1.0], [2, 3])),
        ('set_skew', (1e-11, None)), ('set_skew', (1e-10, 4)),
        ('set_mode', ('prbs', None)), ('set_mode', ('data', [1, 2])),
        ('set_prbs_order', (15, None)), ('set_prbs_order', (40, 5)),
        ('set_bits_shift', (10, None)), ('set_bits_shift', (-3, 2)),
        ('enable_outputs', (None,)), ('disable_outputs', ([1, 5],)),
        ('set_data', (d5, 1, None)), ('set_data', (d3, 3, [2, 4])), ('set_data', (d1030, 1000, [1, 3])),
        ('reset', ()),
        ('get_freq', ()), ('get_patt_len', (None,)), ('get_output_voltage', ([1, 2],)), ('get_offset', (None,)),
        ('get_skew', (5,)), ('get_mode', (None,)), ('get_prbs_order', (None,)), ('get_bits_shift', ([2, 2],)),
        ('get_data', (8, 1, None)), ('get_data', (1030, 1000, [1, 3])), ('get_data', (2048, 2, 2)),
        # hardening pass: other containers / dtypes inside call sequences
        ('set_offset', (('np', 'int8', [-20, 7]), ('tup', (2, 3)))), ('set_skew', (('np', 'float64', [-1e-9, 1e-10], 'ro'), [1, 4])),
        ('set_data', (('tup', ((1, 0, 1, 1), (0, 0, 1, 0))), 1023, ('np', 'int64', [3, 1]))), ('get_data', (1025, 1023, ('tup', (1, 3)))),
        # strengthening after seeded wave 4: non-integral requests for integer-valued parameters inside call sequences
        ('set_prbs_order', ([9.97, 23.5], [1, 2])), ('set_patt_len', (('np', 'float64', [1000.5, 1.5]), [3, 4])),
    ]
    if tier == 'thorough':
        acts += [('set_freq', (1.5e9,)), ('set_output_voltage', (0.0, 1)), ('set_offset', (-2.0, 4)),
                 ('set_skew', ([-1e-9, 5e-12, 0, 0, 0], [1, 2, 3, 4, 5])), ('set_prbs_order', (10, 3)),
                 ('enable_outputs', (0,)), ('set_data', ('1', 1024, 4)), ('get_data', (1024, 1, 4))]
    return acts


def _replay(acts, hist):
    fake = Fake()
    ppg = new_ppg(fake)
    for ai in hist:
        op, args = acts[ai]
        step(fake, ppg, op, args)
    return fake, ppg


def expand(case):
    """case = (tier, history of action indices): every action of the alphabet is executed from the state the history
    reaches (history replayed on a fresh driver + instrument each time)"""
    tier, hist = case
    acts = bfs_actions(tier)
    viol, succ, obs = [], [], []
    ncmd = 0
    base, _ = _replay(acts, hist)
    for ai, (op, args) in enumerate(acts):
        fake = base.clone()
        ppg = new_ppg(fake)
        n0 = len(fake.log)
        v, o, info = step(fake, ppg, op, args)
        ncmd += len(fake.log) - n0
        names = [acts[i][0] for i in hist] + [op]
        for k, m in v:
            viol.append((k, f'history {list(hist) + [ai]} = {names}: {m}'))
        st = hash_str(repr(fake.state()))
        succ.append(st)
        obs.append((o[1:], len(o[0]), st))
    return res(viol=_dedup(viol), obs=tuple(obs), payload=succ, nontrivial=len(hist) >= 1,
               stats={'transitions': len(acts), 'commands': ncmd})


def hash_str(s):
    import hashlib
    return hashlib.sha256(s.encode()).hexdigest()[:16]


def replay_history(case):
    """replay one history (used for the violation files of the bfs part): case = (tier, history)"""
    tier, hist = case
    acts = bfs_actions(tier)
    fake = Fake()
    ppg = new_ppg(fake)
    viol = []
    for n, ai in enumerate(hist):
        op, args = acts[ai]
        v, o, _ = step(fake, ppg, op, args)
        if n == len(hist) - 1:
            viol += v
    return res(viol=_dedup(viol), obs=repr(fake.state()))


def run_bfs(ctx):
    tier = ctx.tier
    acts = bfs_actions(tier)
    depth_max = 3 if ctx.quick else 4
    ctx.space('bfs.actions', len(acts))
    init = hash_str(repr(Fake().state()))
    seen = {init: ()}
    frontier = [()]
    depth = 0
    transitions = 0
    while frontier and depth < depth_max:
        payloads = ctx.pmap(f'bfs.depth{depth}', expand, [(tier, h) for h in frontier], horizon=120, quiet=True, recheck=2,
                            sample_every=max(1, len(frontier) // 2))
        nxt = []
        for h, succ in zip(frontier, payloads):
            if succ is None:
                continue
            for ai, st in enumerate(succ):
                transitions += 1
                if st not in seen:
                    seen[st] = h + (ai,)
                    nxt.append(h + (ai,))
        frontier = nxt
        depth += 1
        print(f'[C20] bfs depth {depth}: states={len(seen)} frontier={len(frontier)} transitions={transitions}', flush=True)
    closed = not frontier
    for st in seen:
        ctx.nt_tags.add(('bfs-state', st))
    ctx.extra['bfs'] = {'states': len(seen), 'transitions': transitions, 'depth': depth, 'closed': closed,
                        'unexpanded_frontier': len(frontier)}
    ctx.sample({'part': 'bfs', 'deepest_history': [repr(acts[i])[:80] for i in max(seen.values(), key=len)]})
    # violations found by expand: point the replay file at the single failing history
    for v in ctx.viol:
        if v['fn'] and v['fn'].endswith(':expand'):
            try:
                msg = v['msg']
                hist = eval(msg[len('history '):msg.index(' = ')])
                v['case'] = (tier, tuple(hist))
                v['fn'] = 'mcx.props.c20:replay_history'
            except Exception:
                pass
    return len(seen), transitions, closed, depth


# ------------------------------------------------------------------ part: SYNC
import functools

PRBS_TAPS = {7: (7, 6), 9: (9, 5), 11: (11, 9), 15: (15, 14)}      # x^7+x^6+1, x^9+x^5+1, x^11+x^9+1, x^15+x^14+1


@functools.lru_cache(maxsize=None)
def _prbs(n):
    a, b = PRBS_TAPS[n]
    s = [1] + [0] * (n - 1)
    out = []
    for _ in range(2 ** n - 1):
        out.append(s[a - 1])
        s = [s[a - 1] ^ s[b - 1]] + s[:n - 1]
    o = np.array(out, dtype=int)
    if int(o.sum()) != 2 ** (n - 1) or any(np.array_equal(o, np.roll(o, k)) for k in (1, 2, 3, (2 ** n - 1) // 3)):
        raise HarnessBug(f'own PRBS{n} generator is not maximal-length')
    return o


def prbs(n=7):
    """own LFSR, one period of 2^n - 1 slots"""
    return _prbs(n).copy()


def prbs7():
    """x^7 + x^6 + 1, 127 slots"""
    return prbs(7)


# record dtypes: how a digitiser would deliver the same waveform (scale, offset -> dtype)
RX_DT = {'i8': (50, 0, np.int8), 'u8': (60, 60, np.uint8), 'i16': (100, 0, np.int16), 'u16': (1000, 5000, np.uint16),
         'i32': (10000, 0, np.int32), 'i64': (10 ** 6, 0, np.int64), 'f16': (1, 0, np.float16), 'f32': (1, 0, np.float32),
         'c64': (1, 0, np.complex64), 'c128': (1, 0, np.complex128), 'bool': (1, 0, np.bool_)}
SLOT_DT = {'sb': np.bool_, 'su8': np.uint8, 'si64': np.int64, 'sf64': np.float64, 'sf32': np.float32}
TOLERATED_FORMS = ('slist', 'stup', 'rxlist', 'spsf')     # containers / types SYNC's signature does not list


def sync_case(case):
    """case = (seed, sps, d, form, k)  or  (seed, sps, d, form, k, pat, nspec, var)
       pat    PRBS order of the slot pattern
       nspec  record length: ('rep', r) = r pattern lengths; 'l+d' = the record ends with the first complete pattern;
              'l+d+1', '2l-1', '2l', '2l+1'
       var    None | ('scale', f) | ('dc', offset) | ('gv', how) | 'twice'"""
    from opticomlib.lab import SYNC
    from opticomlib.typing import electrical_signal, binary_sequence, gv
    seed, sps, d, form, k = case[:5]
    pat, nspec, var = case[5:] if len(case) > 5 else (7, ('rep', 3), None)
    p = prbs(pat)
    tx = np.kron(p, np.ones(sps))
    l = tx.size
    n = {'l+d': l + d, 'l+d+1': l + d + 1, '2l-1': 2 * l - 1, '2l': 2 * l, '2l+1': 2 * l + 1}[nspec] if isinstance(nspec, str) else nspec[1] * l
    if var is not None and var[0] == 'gv':
        if var[1] == 'Rfs':             # the same sps configured through (R, fs)
            gv_reset(R=1e9, fs=sps * 1e9)
        elif var[1] == 'Rfs-nonint':    # non-integer R and fs with an integer ratio
            gv_reset(R=1.25e9 + 0.5, fs=sps * (1.25e9 + 0.5))
        else:                           # the grid says something else than the sps argument (ndarray forms only)
            gv_reset(sps=16)
    else:
        gv_reset(sps=sps)
    reps = n // l + 2
    if k < 0:
        noise = np.zeros(n)
    else:
        noise = np.random.RandomState([seed & 0x7FFFFFFF, pat, sps, d, k]).normal(0, 0.1, n)
    if form == 'pad':        # delayed with d leading zero samples (nothing transmitted yet), repetitions follow
        clean = np.concatenate([np.zeros(d), np.tile(tx, reps)])[:n]
    else:                    # steady state: the periodic waveform delayed by d samples
        clean = np.roll(np.tile(tx, reps), d)[:n]
    if var is not None and var[0] == 'scale':
        clean, noise = clean * var[1], noise * var[1]
    if var is not None and var[0] == 'dc':          # large offset, small swing (noise in proportion)
        clean, noise = var[1] + 0.01 * clean, 0.01 * noise
    rx = clean + noise
    pat_arg = p
    if form in RX_DT:       # digitised records: ADC counts / raw scope bytes / narrower floats, uint8 slot pattern
        sc, off, dt = RX_DT[form]
        if np.dtype(dt).kind in 'iu':
            ii = np.iinfo(dt)
            rx = np.clip(np.round(rx * sc + off), ii.min, ii.max).astype(dt)
        elif dt is np.bool_:
            rx = clean.astype(bool)
        else:
            rx = rx.astype(dt)
        pat_arg = np.asarray(p, dtype=np.uint8)
    if form in SLOT_DT:
        pat_arg = p.astype(SLOT_DT[form])
    rx.flags.writeable = False
    pat_arg.flags.writeable = False
    rx_copy, pat_copy = rx.copy(), pat_arg.copy()
    viol = []
    sig = (f'SYNC(rx={n} samples of the PRBS{pat} waveform {"zero-padded" if form == "pad" else "cyclically"} delayed by d={d}, sps={sps}, '
           f'noise#{k}, {form}{"" if var is None else ", " + repr(var)})')
    cls = 'd=0' if d == 0 else 'd>0'
    noise_part = None

    def call():
        nonlocal noise_part
        if form == 'es':
            return SYNC(electrical_signal(rx), binary_sequence(p))
        if form == 'esn':       # the library's own class with the noise in its noise component
            noise_part = noise
            return SYNC(electrical_signal(clean, noise), binary_sequence(p))
        if form == 'esnd':
            return SYNC(electrical_signal(rx), pat_arg)
        if form == 'essps':     # an sps argument next to an electrical_signal (which carries its own) - a wrong one
            return SYNC(electrical_signal(rx), binary_sequence(p), sps + 1)
        if form == 'bsnd':
            return SYNC(rx, binary_sequence(p), sps)
        if form == 'slist':
            return SYNC(rx, p.tolist(), sps)
        if form == 'stup':
            return SYNC(rx, tuple(p.tolist()), sps)
        if form == 'rxlist':
            return SYNC(rx.tolist(), p, sps)
        if form == 'spsf':
            return SYNC(rx, p, float(sps))
        if form == 'spsnp':
            return SYNC(rx, pat_arg, np.int64(sps))
        if form == 'kw':
            return SYNC(signal_rx=rx, slots_tx=pat_arg, sps=sps)
        return SYNC(rx, pat_arg, sps)
    try:
        out, i = call()
        if var == 'twice':      # the same objects again: same answer
            out2, i2 = call()
            if int(i2) != int(i) or not np.array_equal(np.asarray(out2.signal), np.asarray(out.signal)):
                viol.append((f'SYNC:second-call-differs:{cls}', f'{sig}: second call with the same objects returned index {int(i2)} after {int(i)}'))
    except Exception as e:  # noqa
        if _lab_fn(e.__traceback__) is None:
            raise
        if form in TOLERATED_FORMS and isinstance(e, (TypeError, ValueError)):
            return res(viol=[], obs=('EXC-tolerated', type(e).__name__), nontrivial=d > 0, stats={'sync_calls': 1})
        viol.append((f'SYNC:raises-{type(e).__name__}:{cls}', f'{sig} raised {type(e).__name__}: {str(e)[:120]}'))
        return res(viol=viol, obs=('EXC', type(e).__name__), nontrivial=d > 0, stats={'sync_calls': 1})
    i = int(i)
    if i != d:
        viol.append((f'SYNC:index:{cls}', f'{sig} returned index {i}, expected {d}'))
    s = np.asarray(out.signal)
    # an electrical_signal with a noise component: "a signal starting at that sample" is its signal part or signal + noise
    refs = [clean, clean + noise] if form == 'esn' else [rx]
    if s.size == 0 or s.size > rx.size - i or not any(np.array_equal(s, ref[i:i + s.size]) for ref in refs):
        viol.append((f'SYNC:signal-not-rx-from-index:{cls}', f'{sig}: returned signal ({s.size} samples) is not rx[{i}:{i}+{s.size}]'))
    elif i == d and s.size < l:
        pass    # length of the synchronised record is not part of the statement
    if noise_part is not None and getattr(out, 'noise', None) is not None:     # a noise component, if kept, must be cut alike
        nz = np.asarray(out.noise)
        if nz.size != s.size or not np.array_equal(nz, noise_part[i:i + nz.size]):
            viol.append((f'SYNC:noise-not-rx-noise-from-index:{cls}', f'{sig}: returned noise component is not rx.noise[{i}:{i}+{nz.size}]'))
    if not (np.array_equal(rx, rx_copy) and np.array_equal(pat_arg, pat_copy)):
        viol.append((f'SYNC:modifies-argument:{cls}', f'{sig}: an argument array was modified'))
    return res(viol=viol, obs=(i, s.size, float(np.round(s[:4].real.sum(), 6)) if s.size else None),
               nontrivial=d > 0, stats={'sync_calls': 1})


def sync_short_case(case):
    from opticomlib.lab import SYNC
    from opticomlib.typing import electrical_signal, binary_sequence
    seed, sps, n, form = case[:4]
    pat = case[4] if len(case) > 4 else 7
    p = prbs(pat)
    tx = np.kron(p, np.ones(sps))
    gv_reset(sps=sps)
    rx = np.tile(tx, 1)[:n] + np.random.RandomState([seed & 0x7FFFFFFF, sps, n]).normal(0, 0.1, n)
    try:
        if form == 'es' and n >= 1:
            SYNC(electrical_signal(rx), binary_sequence(p))
        elif form == 'esn' and n >= 1:
            SYNC(electrical_signal(rx, 0.1 * rx), binary_sequence(p))
        elif form == 'i16':
            SYNC(np.round(100 * rx).astype(np.int16), p.astype(np.uint8), sps)
        elif form == 'f32':
            SYNC(rx.astype(np.float32), binary_sequence(p), sps)
        else:
            SYNC(rx, p, sps)
    except BufferError:
        return res(obs='BufferError', nontrivial=n > 0, stats={'sync_calls': 1})
    except Exception as e:  # noqa
        if _lab_fn(e.__traceback__) is None:
            raise
        return res(viol=[('SYNC:short-record-not-BufferError', f'SYNC(record of {n} < {tx.size} samples) raised {type(e).__name__}: {e}')],
                   obs=type(e).__name__, stats={'sync_calls': 1})
    return res(viol=[('SYNC:short-record-not-BufferError', f'SYNC(record of {n} < {tx.size} samples) returned instead of raising BufferError')],
               obs='returned', stats={'sync_calls': 1})


def sync_cases(tier, seed):
    th = tier == 'thorough'
    K = 16 if th else 4
    cases = []
    for sps in (2, 4):
        for d in range(127 * sps):
            for form in ('nd', 'es', 'pad'):
                for k in [-1] + list(range(K)):
                    cases.append((seed, sps, d, form, k))
            for form in ('i16', 'u8'):          # integer-dtype records (one noise field each)
                cases.append((seed, sps, d, form, 0))
    cases.sort(key=lambda c: (c[2], c[1], c[4], c[3]))
    # ---- hardening pass: one deviation at a time from the base case, EVERY delay d in [0, l) for each
    x = []
    base3 = ('rep', 3)
    for sps in (1, 2, 3, 4, 8):                                       # sps = 1 and odd sps; PRBS7
        l = 127 * sps
        for d in range(l):
            if sps in (1, 3, 8):
                for form in ('nd', 'es', 'pad'):
                    for k in ((-1, 0, 1) if not th else [-1] + list(range(8))):
                        x.append((seed, sps, d, form, k, 7, base3, None))
            # record dtypes, slot dtypes, the library's classes in every combination, call spellings
            for form in list(RX_DT) + list(SLOT_DT) + ['esn', 'esnd', 'essps', 'bsnd', 'spsnp', 'kw'] + list(TOLERATED_FORMS):
                if sps in (1, 2, 3) or th:
                    x.append((seed, sps, d, form, -1 if form == 'bool' else 0, 7, base3, None))
            if sps in (1, 2, 3) or th:
                x.append((seed, sps, d, 'esn', -1, 7, base3, None))        # noise component present but all-zero
            # record lengths: exactly two pattern lengths, one sample less / more, 5 lengths, just the first complete pattern
            for nspec in (('rep', 2), '2l-1', '2l+1', ('rep', 5), 'l+d', 'l+d+1') if (sps in (1, 2, 3) or th) else ():
                if nspec == 'l+d' and d == 0:
                    continue        # a record of exactly one pattern length: not "longer", not "shorter" - statement silent
                for form in ('nd', 'es') + (('pad',) if isinstance(nspec, tuple) else ()):
                    for k in (-1, 0):
                        x.append((seed, sps, d, form, k, 7, nspec, None))
            # amplitude scale, large offset with a small swing, grid histories, repeated call with the same objects
            if sps in (1, 2) or th:
                for var in (('scale', 1e-9), ('scale', 1e-6), ('scale', 1e6), ('dc', 1000.0), ('dc', 1e6), 'twice'):
                    x.append((seed, sps, d, 'nd', 0, 7, base3, var))
                for var in (('gv', 'Rfs'), ('gv', 'Rfs-nonint')):
                    x.append((seed, sps, d, 'es', 0, 7, base3, var))
                    x.append((seed, sps, d, 'esn', 1, 7, ('rep', 2), var))
                x.append((seed, sps, d, 'nd', 0, 7, base3, ('gv', 'other')))
                x.append((seed, sps, d, 'i16', 1, 7, ('rep', 2), ('gv', 'other')))
    # patterns of other lengths: PRBS9 every delay; PRBS11 / PRBS15 every delay in the thorough tier, a thinned set in quick
    for pat, spss in ((9, (1, 2)), (11, (1,)), (15, (1,))):
        for sps in spss:
            l = (2 ** pat - 1) * sps
            if pat == 9 or (th and pat == 11):
                ds = range(l)
            else:
                step_ = (13 if pat == 11 else 997) if not th else 97
                ds = sorted(set(range(0, l, step_)) | {0, 1, 2, sps, l // 2, l - sps, l - 2, l - 1})
            for d in ds:
                for form, k, nspec in (('nd', -1, base3), ('nd', 0, ('rep', 2)), ('es', 1, base3), ('pad', 0, base3), ('i16', 0, ('rep', 2)),
                                       ('u8', 1, base3), ('f32', 0, '2l-1'), ('esn', 0, ('rep', 2))):
                    if pat == 15 and form not in ('nd', 'i16', 'es'):
                        continue
                    x.append((seed, sps, d, form, k, pat, nspec, None))
    x.sort(key=lambda c: (c[5], c[2], c[1]))
    cases += x
    short = [(seed, sps, n, form) for sps in (2, 4) for n in range(0, 127 * sps) for form in ('nd', 'es')]
    short += [(seed, sps, n, form) for sps in (1, 3) for n in range(0, 127 * sps) for form in ('nd', 'es', 'i16')]
    short += [(seed, 2, n, form) for n in range(0, 254) for form in ('esn', 'f32')]
    short += [(seed, sps, n, form, 9) for sps in (1, 2) for n in sorted(set(range(0, 511 * sps, 7)) | {1, 2, 511 * sps - 2, 511 * sps - 1})
              for form in ('nd', 'es', 'i16')]
    return cases, short


# ------------------------------------------------------------------ regression replays (minimal failing inputs)
REGRESS_SINGLE = [
    ('set_output_voltage', (5.0, 1)),         # DESIGN 8 #19: raw 5.0 V sent
    ('set_output_voltage', (0.0, 1)),         # #19: TypeError formatting the warning
    ('set_offset', (3.1, 1)),                 # #20: TypeError formatting the warning
]
REGRESS_DATA = [(0, 1025, 1, 1, 'str'), (0, 2048, 1, 1, 'str')]   # #21


def run(ctx):
    import time
    seed = ctx.seed
    tier = ctx.tier
    _pmap = ctx.pmap

    def timed_pmap(part, fn, cases, **kw):      # wall time per part goes to the log and the evidence file
        t0 = time.time()
        out = _pmap(part, fn, cases, **kw)
        if not part.startswith('bfs'):
            ctx.extra.setdefault('wall_s', {})[part] = round(time.time() - t0, 1)
            print(f'[C20] part {part}: {len(cases)} cases in {time.time() - t0:.1f} s', flush=True)
        return out
    ctx.pmap = timed_pmap
    ctx.assume('the instrument is simulated from the SCPI grammar the driver itself uses and the limits in the property text; '
               'real firmware responses are not available')
    ctx.assume('a zero-length read is answered with the empty block "#10" (most lenient instrument)')
    ctx.assume('numpy.random.RandomState(seed) produces the "seeded" bit fields and the N(0, 0.1) noise of SYNC')
    ctx.rule('every driver call is one transition executed on the real PPG3204 object with the simulated session attached as '
             'ppg.inst; a command monitor parses every emitted SCPI string (channel 1..4, value inside the documented limits, block '
             'header/size/address) and a caller-side reference model predicts the registers/memory after the call; '
             'single: full product value x channel alphabets incl. per-channel list forms, then the matching getter, then the '
             'same call in dry-run mode; agg: subsets of the 9 aggregate arguments x {in,out of range}; data: every length '
             '1..2100 + {3071,3072,3073,4096,10000} x 5 start addresses x 3 channel sets (+ end of memory); overlap: two '
             'overlapping writes then reads; bfs: breadth-first search over call sequences with canonical instrument state; '
             'sync: every delay d in [0,127*sps) x sps{2,4} x 3 input forms x noise fields; '
             'hardening pass: the same requests in every documented container and sample dtype (tuple, ndarray int8..int64 / '
             'float16..64 / bool, read-only arrays, numpy scalars, 0-d arrays), per-channel lists violating both limits, value '
             'lists shorter/longer than the channel list, mixed valid+invalid / empty / >4 channel lists; data in every '
             'spelling (separator strings, list/tuple/bool/int/float arrays, 2-D per-channel forms with one row more/less), '
             'header digit boundaries 9/10, 99/100, 999/1000, k*1024+-1 up to 10241, data ending one cell before / on / after the '
             'last memory cell; getsweep: reads of 1..3 blocks (+-1 bit) from every start-address class incl. out-of-range '
             'start/size; chain: returned arrays and numpy scalars fed to the next call; sync: one deviation at a time over '
             'every delay: sps {1,3,8}, record dtypes int8..int64/float16/float32/complex/bool, slot dtypes, library classes with '
             'a noise component, record lengths 2l-1/2l/2l+1/5l/l+d/l+d+1, amplitude scale 1e-9..1e6, offset 1e3/1e6, grid '
             'configured through (R,fs), PRBS9/11/15; '
             'strengthening after seeded wave 4: non-integral requests for the integer-valued parameters (pattern length, PRBS '
             'order, bit shift): anchors = both limits / interior / every supported order / unsupported and outside values, '
             'offsets 0 (whole-valued float), +-ulp, +-1e-9, +-1e-6, +.4, +-.5, +.97, as Python float, numpy float64/float32 scalar, '
             '0-d array, one-element list, per-channel list / tuple / float64 / float32 / float16 / read-only array, int+float '
             'mixed lists, +-inf / 1e300 / 2^62 / 1e19 in float containers and 10^19, 2^63, 2^64, 10^30 as Python int; the same in '
             'the aggregate call, in bfs sequences and as get_data size / start address; the value text of LENG / PLEN / BSH '
             'commands must spell a whole number (order: one of the supported list), it is never int()-truncated')
    for c in REGRESS_SINGLE:
        ctx.run_case('regress', single_case, c)
    for c in REGRESS_DATA:
        ctx.run_case('regress', data_case, c)

    def both(gen, *a):
        """the thorough tier is a superset of the quick tier: quick cases first, then what the thorough generator adds"""
        if tier != 'thorough':
            return gen('quick', *a)
        out, seen = [], set()
        for c in gen('quick', *a) + gen('thorough', *a):
            k = repr(c)
            if k not in seen:
                seen.add(k)
                out.append(c)
        return out

    sc = both(single_cases)
    ctx.pmap('single', single_case, sc, horizon=30)
    ac = both(agg_cases)
    ctx.pmap('agg', agg_case, ac, horizon=30)
    dc = both(data_cases, seed)
    ctx.pmap('data', data_case, dc, horizon=60, chunk=32)      # small chunks: the long transfers sit together at the end
    oc = both(overlap_cases, seed)
    ctx.pmap('overlap', overlap_case, oc, horizon=60)
    gc = both(getsweep_cases, seed)
    ctx.pmap('getsweep', getsweep_case, gc, horizon=60)
    cc = both(chain_cases, seed)
    ctx.pmap('chain', chain_case, cc, horizon=60)
    t0 = time.time()
    states, transitions, closed, depth = run_bfs(ctx)
    ctx.extra.setdefault('wall_s', {})['bfs'] = round(time.time() - t0, 1)
    print(f'[C20] part bfs: {time.time() - t0:.1f} s', flush=True)
    if not closed:
        ctx.rule(f'bfs is depth-bounded at {depth} (the state space is a product of register values; closure is not the goal)')
    yc = both(lambda t, s_: sync_cases(t, s_)[0], seed)
    ys = both(lambda t, s_: sync_cases(t, s_)[1], seed)
    ctx.pmap('sync', sync_case, yc, horizon=30, chunk=128)
    ctx.pmap('sync.short', sync_short_case, ys, horizon=30)

    tr_other = ctx.stats.get('transitions', 0) - transitions   # stats also counted the bfs transitions
    ctx.graph(states=states, transitions=ctx.stats.get('transitions', 0))
    ctx.extra['sizes'] = {'single': len(sc), 'agg': len(ac), 'data': len(dc), 'overlap': len(oc), 'getsweep': len(gc), 'chain': len(cc), 'sync': len(yc),
                          'sync_short': len(ys), 'bfs_states': states, 'bfs_transitions': transitions,
                          'non_bfs_transitions': tr_other}
