"""C03 - a noise-free link built from the library's blocks returns the transmitted bits.

Bounded-exhaustive words x deviation lattice of link configurations.  Every case chains the REAL
blocks  bits -> DAC -> MZM(CW carrier) -> [DM | FIBER(gamma=0)] -> PD('ase-only' on a noise-free
field) -> SAMPLER(sps//2) -> threshold midway between the two received level means  and compares
the decision with the transmitted word (exact equality).  The packaged routines (ook.DSP, ppm.DSP
soft / hard with estimated threshold, both BER_analizer('counter')) are run on the same links.

Parts
  link.words   all words of length 8 (thorough: 10) containing both symbols, at the baseline and at
               every single deviation of the configuration lattice
  link.lattice the fixed word set on every configuration differing from the baseline in <= 3 axes
               (quick: <= 2 when one of them is an "option deviation" = optional argument / alternative
               call form of a block: DM retH=True, FIBER defaults + show_progress, MZM pol='y' / BW,
               DAC BW / bias, PD T / Fn / i_dark)
  ook.dsp      ook.DSP + ook.BER_analizer on 32/64/127 slots of PRBS7 / seeded-random data x (k<=1
               configurations (thorough k<=2) + voltage / dispersive corners + EVERY PAIR of deviations
               among the eye-shaping axes sps, pulse, ER, PD bandwidth, channel (thorough: + every
               triple)) x KMeans seed alphabet; + ook.DSP(BW=.) on the k<=1 configurations
  ppm.dsp      PPM_ENCODER -> link -> ppm.DSP soft and hard(estimated threshold), M in {2,4,8,16}
               x data words (ramp, PRBS7, seeded; + "ragged" words whose length is not a multiple of
               log2 M) x the same configurations x seed alphabet, + ppm.BER_analizer with Tx = the data
               handed to the encoder (longer than Rx for the ragged words)
  ber.counter  both BER_analizer('counter') on plain sequences: every way of flipping k in {1,2,3}
               bits at positions from a small set -> exactly k/n, 0 flips -> exactly 0, all flipped
               -> exactly 1; Tx equal to Rx in length and Tx longer by 1..3 bits (n = compared bits);
               every pair of containers (binary_sequence, str, str with separators, list, tuple, ndarrays)
  ber.flips    both counters on LONG plain sequences (256 .. 70001 bits; thorough up to 2^24+2): the whole ladder of error
               counts k = 0, 1, 2, 3, 4, 7, 100, 127..129, 255..257, 300, 511..513, 1000, .., 65535..65537, n//2, n-1, n -> exactly
               k/n, wrong bits evenly spread / at the head / at the tail / at seeded positions; Tx longer than Rx; every pair of
               containers on 2047 bits.  The same ladder (as far as it fits) is asked on every decoded output of ook.dsp / ppm.dsp

Hardening pass (input classes, see notes/C03.md "Hardening pass"): three "notation" axes in the lattice -
`bits` (container in which the word is handed to DAC / PPM_ENCODER and later to the counter), `gv` (call form
of the grid configuration incl. non-integer fs/R, a reconfigured grid and - after seeded wave 6 - one-keyword calls
gv(R=.) / gv(sps=.) / gv(fs=.) as the last step of a two-step history, part link.gvhist), `num` (Python int / numpy scalar
form of every scalar argument); parts link.short (shortest legal records) and link.long (127..8193 slots);
records beyond GET_EYE's nslots for the packaged routines; ppm.DSP threshold= / decision spelling / ndarray
input / numpy M; structured PPM data words; zero-noise carriers, extreme launch powers, dispersion at 0.99 %.
"""
from __future__ import annotations
import itertools
import numpy as np

from mcx.core.kernel import res
from mcx.core.env import gv_reset, ScriptedRNG, scripted_rng

ID = 'C03'
LEVEL = 'exploration'
NONTRIVIAL = ('a link run whose word contains both symbols (so both received levels exist and the decision can fail '
              'either way); counted by distinct received sample vectors')

# ------------------------------------------------------------------ configuration lattice
# baseline value first on every axis
AXES = [
    ('sps', [16, 4, 5, 7, 8, 33, 64]),
    ('R', [1e9, 10e9]),
    ('pulse', ['nrz', 'gaussian']),
    ('Vpi', [5.0, 2.0]),
    ('loss', [0.0, 3.0]),
    ('ER', [26.0, 10.0, 40.0]),
    ('launch', [0.0, -20.0, 10.0, -50.0, 20.0]),          # dBm; the last two (10 nW, 100 mW) are "thin" values, see OPTION_VALUES
    ('r', [1.0, 0.5]),
    ('RL', [50.0, 1000.0]),
    ('bwf', [0.75, 0.7, 2.0]),          # PD bandwidth in units of the slot rate R
    # 1pol: one-polarisation carrier.  2pol: carrier power split over x and y, MZM keeps x (the block zeroes y).
    # 2pol-rot: as 2pol, then a lossless Jones rotation of the modulated field to the -45 degree linear state
    #           (Ex, Ey) = (E, -E)/sqrt(2) so that BOTH rows are populated at the PD (harness side, unitary).
    # 2pol-y: as 2pol, but the modulator is told to keep the y row (MZM(pol='y'), the block zeroes x).
    # 1pol-n0 / 2pol-n0: as 1pol / 2pol with an all-zero noise array attached to the carrier (noise "present" but switched off: the
    #           blocks then carry a noise field through the link and PD evaluates the signal-noise beat terms, all exactly zero)
    ('layout', ['1pol', '2pol', '2pol-rot', '2pol-y', '1pol-n0', '2pol-n0']),
    # accumulated |beta2*L| = 0.9 % of T_slot^2, both signs, as DM(D) or FIBER(L, beta2, alpha=0.2, gamma=0)
    # documented alternative call forms of the same channel (same field expected, the link oracle is unchanged):
    #   dmH    DM(m, D, retH=True) -> (field, H): the caller also asks for the frequency response and keeps the field
    #   fiberD FIBER(m, L, beta_2=.) with every other argument left at its default (alpha = 0, i.e. lossless) and
    #          show_progress=True (progress bar written to a discarded stderr)
    #   dmX    DM at the edge of the quantifier: |beta2*L| = 0.99 % of T_slot^2 (< 1 %)
    ('chan', ['none', 'dm+', 'dm-', 'fiber+', 'fiber-', 'dmH+', 'dmH-', 'fiberD+', 'fiberD-', 'dmX+', 'dmX-']),
    # optional arguments of the transmitter blocks that the plain link never passes:
    #   dac-bw   DAC(BW=.)  drive low-pass, min(2R, 0.4 fs)   (a legal Bessel design needs BW < fs/2)
    #   mzm-bw   MZM(BW=.)  optical band-pass of full width min(4R, 0.8 fs)  (the block designs a low-pass at BW/2 < fs/2)
    #   dac-bias the bias of the drive is given to DAC(bias=-Vpi) instead of MZM(bias=-Vpi), and 'nrz' is spelt 'rect'
    #            (documented as equivalent); the modulator sees the same voltage
    #   drive-nd the drive is handed to MZM as the plain ndarray of the DAC waveform (documented: converted to electrical_signal)
    ('txopt', ['std', 'dac-bw', 'mzm-bw', 'dac-bias', 'drive-nd']),
    # optional arguments of PD that cannot matter with the noise switched off: temperature and amplifier noise figure
    # (only enter the thermal variance), given non-default (T=77 K, Fn=6 dB); i_dark=0 removes the deterministic offset too
    #   case     include_noise='ASE-Only' (the block documents that it lower-cases the string)
    ('pdopt', ['std', 'alt', 'case']),
    # --- hardening pass: HOW the same link is written down (same bits, same grid, same numbers -> same oracle)
    # container in which the bit word is handed to DAC (every documented form: str, str with separators, list, tuple,
    # ndarray of several dtypes - passed write-protected -, binary_sequence).  In ook.dsp the SAME object is afterwards
    # the Tx of BER_analizer('counter'); in ppm.dsp it is the input of PPM_ENCODER and the Tx of the counter.
    ('bits', ['u8', 'str', 'str-sep', 'list', 'tuple', 'bs', 'bool', 'i8', 'i64', 'f32', 'f64']),
    # how the global grid is configured (see configure_gv): by (sps,R) | (sps,fs) | (R,fs) | R first, then fs alone |
    # (R,fs) with a NON-integer fs/R = sps+0.3 / sps-0.4 (the library rounds to sps; link parameters then respect the quantifier
    # for BOTH readings of the slot rate, gv.R and gv.fs/gv.sps) | after another grid had been configured, with N set and
    # wavelength 1310 nm |
    # (after seeded wave 6) a ONE-keyword call as the last step of a two-step history, no clean in between: another grid is in
    # force and only the slot rate / only sps / only fs is then changed ('R<' 'R>' 'sps<' 'sps>' 'fs<' 'fs>': the changed quantity
    # goes down / up; see GV_LAST, configure_gv).  Documented semantics of global_variables.__call__: R alone keeps sps and sets
    # fs = R*sps; sps alone keeps R and sets fs = R*sps; fs alone keeps R and sets sps = round(fs/R).  The link is then built for
    # the (sps, R) that is in force by these rules.  The six axis members take their first step from GV_FIRST in rotation; the part
    # link.gvhist runs the whole product first step x last step.
    ('gv', ['sps,R', 'sps,fs', 'R,fs', 'fs', 'R,fs+', 'R,fs-', 'hist', 'R<', 'R>', 'sps<', 'sps>', 'fs<', 'fs>']),
    # number form of every scalar argument: Python float | Python int where the value is integer-valued | np.float64 (+ np.int64
    # sps / sampling instant) | np.int64 where integer-valued and the block has no documented scalar-type test, else np.float64
    ('num', ['float', 'int', 'np', 'npint']),
]
NAMES = [a for a, _ in AXES]
BASE = tuple(v[0] for _, v in AXES)
DISP_FRACTION = 0.009
DISP_EDGE = 0.0099


def valid(cfg):
    d = dict(zip(NAMES, cfg))
    # Bessel design needs 0 < BW < fs/2  (fs = sps*R, BW = bwf*R)
    return d['bwf'] < d['sps'] / 2


def lattice(k):
    """all valid configurations that differ from BASE in at most k axes, ordered by number of deviations"""
    out = []
    for j in range(k + 1):
        for idx in itertools.combinations(range(len(AXES)), j):
            for vals in itertools.product(*[AXES[i][1][1:] for i in idx]):
                c = list(BASE)
                for i, v in zip(idx, vals):
                    c[i] = v
                c = tuple(c)
                if valid(c):
                    out.append(c)
    return out


# "option deviations": values that select an optional argument / alternative call form of one block (added after seeded
# wave 3).  The thorough tier combines them with up to two other deviations (full k<=3 lattice); the quick tier with up to one
# (k<=2), while the lattice over the remaining values stays at k<=3 in both tiers.
OPTION_VALUES = {('layout', '2pol-y'), ('chan', 'dmH+'), ('chan', 'dmH-'), ('chan', 'fiberD+'), ('chan', 'fiberD-'),
                 ('txopt', 'dac-bw'), ('txopt', 'mzm-bw'), ('txopt', 'dac-bias'), ('pdopt', 'alt')}
# hardening pass: further call forms (same rule: quick k<=2, thorough k<=3) and the three "notation" axes, all of whose values
# are option deviations
NOTATION_AXES = ('bits', 'gv', 'num')
OPTION_VALUES |= {('txopt', 'drive-nd'), ('pdopt', 'case'), ('layout', '1pol-n0'), ('layout', '2pol-n0')}
# "thin" values of ordinary axes, combined like option deviations (quick k<=2): extreme launch powers, dispersion at 0.99 %
OPTION_VALUES |= {('launch', -50.0), ('launch', 20.0), ('chan', 'dmX+'), ('chan', 'dmX-')}
OPTION_VALUES |= {(a, v) for a, vals in AXES if a in NOTATION_AXES for v in vals[1:]}


def is_notation(cfg):
    """the configuration deviates in one of the notation axes (bits container / gv call form / number form)"""
    return any(cfg[NAMES.index(a)] != BASE[NAMES.index(a)] for a in NOTATION_AXES)


def has_option(cfg):
    return any((a, v) in OPTION_VALUES for a, v in zip(NAMES, cfg))


def point(**dev):
    c = list(BASE)
    for k, v in dev.items():
        assert v in dict(AXES)[k], (k, v)
        c[NAMES.index(k)] = v
    return tuple(c)


# points beyond k<=1 added to the configuration set of the packaged (eye-based) routines in both tiers:
#  - the largest and the smallest received voltages the axes allow (the estimators must not depend on the unit of the signal)
#  - a dispersive channel combined with the finest time grid / the widest receiver bandwidth (least smoothing of the
#    dispersive overshoot, narrowest transition regions in the eye)
CORNERS = [
    point(launch=10.0, RL=1000.0),                                        # ~10 V on-level
    point(launch=10.0, RL=1000.0, ER=40.0, bwf=2.0),
    point(launch=-20.0, loss=3.0, r=0.5, layout='2pol', chan='fiber+'),   # ~6 uV on-level, next to the 0.5 uV dark offset
    point(sps=33, chan='dm+'),
    point(sps=64, chan='fiber-'),
    point(bwf=2.0, chan='dm-'),
    # coarsest time grids with the Gaussian pulse shape (fewest samples per slot: sampling-instant slips show here first)
    point(sps=4, pulse='gaussian'),
    point(sps=5, pulse='gaussian'),
    point(sps=7, pulse='gaussian', chan='dm+'),
]
# configurations on which the packaged routines see the long records in the quick tier (> 8192 slots costs ~1 CPU s per ook.DSP)
LONG_CFGS = [BASE, point(sps=4), point(sps=7, pulse='gaussian', chan='dm+'), point(layout='2pol-rot', bwf=2.0)]
K2_CORNERS = {point(launch=10.0, RL=1000.0), point(sps=33, chan='dm+'), point(sps=64, chan='fiber-'), point(bwf=2.0, chan='dm-'),
              point(sps=4, pulse='gaussian'), point(sps=5, pulse='gaussian')}

# The axes that change the SHAPE of the received eye (number of samples per slot, pulse, height of the off rail, receiver
# smoothing, dispersive overshoot).  The other axes only scale the eye (covered by the voltage corners above), choose the
# row the power sits in, or select a call form that yields the same field (asserted by the link parts).  The packaged
# eye-based routines are run on EVERY pair of deviations among these axes in the quick tier (the thorough tier runs the whole
# k<=2 lattice, and the triples among these axes for ook.DSP).
EYE_AXES = [
    ('sps', [4, 5, 7, 8, 33, 64]),
    ('pulse', ['gaussian']),
    ('ER', [10.0, 40.0]),
    ('bwf', [0.7, 2.0]),
    ('chan', ['dm+', 'dm-', 'fiber+', 'fiber-']),
]


def eye_tuples(k):
    """valid configurations deviating from BASE in exactly k of the eye-shaping axes (all value combinations)"""
    out = []
    for idx in itertools.combinations(range(len(EYE_AXES)), k):
        for vals in itertools.product(*[EYE_AXES[i][1] for i in idx]):
            c = point(**{EYE_AXES[i][0]: v for i, v in zip(idx, vals)})
            if valid(c):
                out.append(c)
    return out


def ndev(cfg):
    return sum(1 for a, b in zip(cfg, BASE) if a != b)


# ------------------------------------------------------------------ words
def prbs7(n):
    """x^7 + x^6 + 1 recurrence a[m] = a[m-7] ^ a[m-6], seed 1111111 (own generator, not the library's)"""
    a = [1] * 7
    while len(a) < n:
        a.append(a[-7] ^ a[-6])
    return ''.join(map(str, a[:n]))


def seeded(n, seed, tag):
    """seeded 'random field' member of the word alphabet (content selected by VERIF_SEED); both symbols guaranteed"""
    rs = np.random.RandomState((int(seed) * 1000003 + tag) % (2 ** 32))
    while True:
        w = rs.randint(0, 2, n)
        if 0 < w.sum() < n:
            return ''.join(map(str, w))


def fixed_words(seed):
    return [
        '0' * 8 + '1' * 8,
        '01' * 8,
        '0' * 7 + '1' + '0' * 8,
        '1' * 7 + '0' + '1' * 8,
        prbs7(16),
        seeded(16, seed, 1),
        seeded(16, seed, 2),
        prbs7(64),
    ]


def long_words(n, seed):
    """long records: seeded random, a single 1 in the last / first slot (record edges), a single 0 in the last slot"""
    return [seeded(n, seed, n), '0' * (n - 1) + '1', '1' + '0' * (n - 1), '1' * (n - 1) + '0']


def all_words(n):
    """all 2^n - 2 words of length n containing both symbols, in counting order"""
    return [format(i, f'0{n}b') for i in range(1, 2 ** n - 1)]


FLIP_POS = (0, 1, 'mid', -2, -1)


def flip_sets(n):
    pos = sorted({p % n if p != 'mid' else n // 2 for p in FLIP_POS})
    out = []
    for k in (1, 2, 3):
        out += list(itertools.combinations(pos, k))
    return out


# "k flipped bits" for k beyond a handful (added after seeded wave 4).  The statement says "k/n for a sequence with k flipped bits"
# without a bound on k; the flip sets above stop at k = 3.  Ladder of error counts: small, around every power of two at which a narrow
# integer or half-precision accumulator stops being exact (int8 127|128, uint8 255|256, float16 2048|2049, int16 32767|32768,
# uint16 65535|65536, float32 2^24|2^24+1), a few values in between, and half / all but one / all of the compared bits.
K_LADDER = (4, 7, 100, 127, 128, 129, 255, 256, 257, 300, 511, 512, 513, 1000, 1023, 1024, 1025, 2047, 2048, 2049, 4096, 10000,
            32767, 32768, 32769, 65535, 65536, 65537, 2 ** 24 - 1, 2 ** 24, 2 ** 24 + 1)
FLIP_PATTERNS = ('spread', 'head', 'tail', 'seeded')     # where the k wrong bits sit in the record


def flip_ladder(n):
    """the error counts k > 3 of the ladder that fit in a record of n bits, plus n//2, n-1, n"""
    return sorted(k for k in set(K_LADDER) | {n // 2, n - 1, n} if 3 < k <= n)


def flip_positions(n, k, pattern, seed=0):
    """k distinct positions in 0..n-1: evenly spread | the first k | the last k | drawn from an own RandomState (never the global
    generator, which the DSP cases own)"""
    if pattern == 'spread':
        return (np.arange(k, dtype=np.int64) * n) // k
    if pattern == 'head':
        return np.arange(k)
    if pattern == 'tail':
        return np.arange(n - k, n)
    assert pattern == 'seeded'
    return np.random.RandomState((int(seed) * 7919 + 31 * n + k) % (2 ** 32)).permutation(n)[:k]


# ------------------------------------------------------------------ the link (real blocks only)
class CallFormError(Exception):
    """a documented alternative call form did not return what its docstring says (reported as a violation, not a crash)"""


class Outside(Exception):
    """the library settled on a grid outside the quantifier (sps not in 4..64); only reachable from the non-integer fs/R forms"""


def numform(form):
    """(f, fd, fi): f puts a scalar argument into the number form of the `num` axis; fd is used for the arguments whose block has a
    documented isinstance(int, float) scalar test (DAC Vout/bias, PD r/T/R_load: numpy integers are answered with the documented
    TypeError there - owned by the properties of those blocks), fi for integer arguments (sps, sampling instant)"""
    def isint(x):
        return float(x).is_integer() and abs(x) < 2 ** 53
    if form == 'float':
        return (lambda x: x), (lambda x: x), int
    if form == 'int':
        g = lambda x: int(x) if isint(x) else x
        return g, g, int
    if form == 'np':
        return np.float64, np.float64, np.int64
    assert form == 'npint'
    return (lambda x: np.int64(x) if isint(x) else np.float64(x)), np.float64, np.int64


GV_FRACTIONAL = {'R,fs+': 0.3, 'R,fs-': -0.4}
# Two-step grid histories whose LAST step is a call with at most one of the keywords sps / R / fs (added after seeded wave 6).
#   last step  R<  R>    gv(R=R)       after the grid (sps, 16 R) / (sps, R/16) : the slot rate is changed down / up, sps is kept
#              sps< sps> gv(sps=sps)   after the grid (4 sps, R) / (sps//4, R)   : sps is changed down / up, the slot rate is kept
#              fs<  fs>  gv(fs=sps*R)  after the grid (4 sps, R) / (sps//4, R)   : the sampling rate is changed, the slot rate is kept
#              keep      gv()          after the grid (sps, R)                    : documented "previous values" (N=3 when the first
#                                                                                   step set N)
#   first step the previous grid written as (sps,R) | (sps,fs) | (R,fs), without / with N=10 (then t, w, dw exist and are rebuilt)
# The factors 16 (four steps of the SDH rate ladder) and 4 put the previous grid far enough from the new one that a quantity left
# over from it (fs, dt, sps, R) is off by more than the link tolerates; the previous grid itself is never used for a link.
GV_LAST = ('R<', 'R>', 'sps<', 'sps>', 'fs<', 'fs>', 'keep')
GV_FIRST = ('sps,R', 'sps,fs+N', 'R,fs', 'sps,R+N', 'sps,fs', 'R,fs+N')
GV_AXIS_FIRST = dict(zip(GV_LAST[:6], GV_FIRST))          # first step of the six members of the `gv` axis (every form once)
GV_HISTORIES = [f'{a};{b}' for b in GV_LAST for a in GV_FIRST]


def gv_key(form):
    """label of a `gv` form in violation keys: the last step for the two-step histories"""
    return form.split(';')[1] if ';' in form else form


def configure_gv(form, sps, R, f, fi):
    """Configure the global grid 'sps samples per slot at slot rate R' in the call form `form` of the `gv` axis.
    Returns (gv.sps as the library settled it, fs handed over / implied)."""
    import warnings
    from opticomlib.typing import gv
    fs = sps * R
    with warnings.catch_warnings():
        warnings.simplefilter('ignore')
        if form == 'sps,R':
            gv_reset(sps=fi(sps), R=f(R))
        elif form == 'sps,fs':
            gv_reset(sps=fi(sps), fs=f(fs))
        elif form == 'R,fs':
            gv_reset(R=f(R), fs=f(fs))
        elif form == 'fs':                       # the slot rate first (sps stays at its default), then the sampling rate alone
            gv_reset(R=f(R))
            gv(fs=f(fs))
        elif form in GV_FRACTIONAL:              # non-integer fs/R: the library rounds it to sps and keeps the fs it was given
            fs = (sps + GV_FRACTIONAL[form]) * R
            gv_reset(R=f(R), fs=f(fs))
        elif form in GV_AXIS_FIRST or ';' in form:
            first, last = form.split(';') if ';' in form else (GV_AXIS_FIRST[form], form)
            assert last in GV_LAST and first in GV_FIRST, form
            # the grid in force before the last call: differs from the target in exactly the quantity the last call changes
            sp, Rp = sps, R
            if last in ('R<', 'R>'):
                Rp = 16 * R if last == 'R<' else R / 16
            elif last != 'keep':
                sp = 4 * sps if last[-1] == '<' else sps // 4
            kw = {'N': 10} if first.endswith('+N') else {}
            how = first[:-2] if kw else first
            if how == 'sps,R':
                gv_reset(sps=fi(sp), R=f(Rp), **kw)
            elif how == 'sps,fs':
                gv_reset(sps=fi(sp), fs=f(sp * Rp), **kw)
            else:
                gv_reset(R=f(Rp), fs=f(sp * Rp), **kw)
            if last in ('R<', 'R>'):
                gv(R=f(R))
            elif last in ('sps<', 'sps>'):
                gv(sps=fi(sps))
            elif last in ('fs<', 'fs>'):
                gv(fs=f(fs))
            elif kw:
                gv(N=3)
            else:
                gv()
        else:                                    # a different grid was configured before (no clean in between); N set; 1310 nm
            assert form == 'hist'
            gv_reset(sps=4 if sps == 64 else 64, R=2.5e9, N=10)
            gv(sps=fi(sps), R=f(R), wavelength=1310e-9, N=3)
    return gv.sps, fs


def as_container(bits, form):
    """the bit word in the container `form` of the `bits` axis (ndarrays write-protected)"""
    from opticomlib.typing import binary_sequence
    if form == 'u8':
        return bits
    if form in ('str', 'str-sep'):
        w = (np.asarray(bits, dtype=np.uint8) + 48).tobytes().decode()
    if form == 'str':
        return w
    if form == 'str-sep':                        # groups of 4 (last one shorter), separated by ' ' and ', ' in turn
        g = [w[i:i + 4] for i in range(0, len(w), 4)]
        return ''.join(x + ('' if i == len(g) - 1 else (' ', ', ')[i % 2]) for i, x in enumerate(g))
    if form == 'list':
        return bits.tolist()
    if form == 'tuple':
        return tuple(bits.tolist())
    if form == 'bs':
        return binary_sequence(bits.copy())
    a = bits.astype({'bool': np.bool_, 'i8': np.int8, 'i64': np.int64, 'f32': np.float32, 'f64': np.float64}[form])
    a.flags.writeable = False
    return a


def run_link(cfg, bits):
    """bits: uint8 array.  Returns (PD output (electrical_signal), info) with info = dict(sps = gv.sps of the configured grid,
    instant = sps//2 in the number form of the case, tx = the object that was handed to DAC)."""
    import contextlib, io, math
    from opticomlib.devices import DAC, MZM, DM, FIBER, PD
    from opticomlib.typing import optical_signal
    d = dict(zip(NAMES, cfg))
    R = d['R']
    f, fd, fi = numform(d['num'])
    sps, fs = configure_gv(d['gv'], d['sps'], R, f, fi)
    if d['gv'] in GV_FRACTIONAL:
        # the statement does not say how a non-integer fs/R is rounded: either neighbour is accepted.  The simulated slot lasts
        # sps/fs, gv.R says 1/R: the link parameters below respect the quantifier for both (the higher rate for the PD bandwidth,
        # the shorter slot for the dispersion bound)
        ok = type(sps) is int and sps in (math.floor(fs / R), math.ceil(fs / R))
        if ok and not 4 <= sps <= 64:
            raise Outside(f'sps={sps}')
        Rq = max(R, fs / sps) if ok else R
    else:
        ok = type(sps) is int and sps == d['sps']
        Rq = R
    if not ok:
        raise CallFormError(f'grid configured in the form {d["gv"]!r} (sps={d["sps"]}, R={R:g}, fs={fs:g}): gv.sps = {sps!r}')
    n = bits.size * sps
    tx = d['txopt']
    txobj = as_container(bits, d['bits'])
    Vpi = d['Vpi']
    dac_kw = {}
    if tx == 'dac-bw':
        dac_kw['BW'] = f(min(2 * Rq, 0.4 * fs))
    if tx == 'dac-bias':
        v = DAC(txobj, bias=fd(-Vpi), Vout=fd(Vpi), pulse_shape='rect' if d['pulse'] == 'nrz' else d['pulse'])
    else:
        v = DAC(txobj, Vout=fd(Vpi), pulse_shape=d['pulse'], **dac_kw)
    P = 1e-3 * 10 ** (d['launch'] / 10)                       # launch power in W
    if d['layout'].startswith('1pol'):
        cw = np.full(n, P ** 0.5)
    else:
        a = (P / 2) ** 0.5
        cw = np.array([np.full(n, a), np.full(n, a)])
    cw = optical_signal(cw, np.zeros_like(cw)) if d['layout'].endswith('-n0') else optical_signal(cw)
    mzm_kw = {}
    if tx != 'dac-bias':
        mzm_kw['bias'] = f(-Vpi)
    if tx == 'mzm-bw':
        mzm_kw['BW'] = f(min(4 * Rq, 0.8 * fs))
    if d['layout'] == '2pol-y':
        mzm_kw['pol'] = 'y'
    drive = np.asarray(v.signal) if tx == 'drive-nd' else v
    m = MZM(cw, drive, Vpi=f(Vpi), loss_dB=f(d['loss']), ER_dB=f(d['ER']), **mzm_kw)
    if d['layout'] == '2pol-rot':
        e = np.array(m.signal[0])
        m = optical_signal(np.array([e / 2 ** 0.5, -e / 2 ** 0.5]))
    ch = d['chan']
    if ch != 'none':
        T2 = (1e12 / Rq) ** 2                                  # slot period squared, ps^2
        kind = ch.rstrip('+-')
        D = (DISP_EDGE if kind == 'dmX' else DISP_FRACTION) * T2 * (1 if ch.endswith('+') else -1)
        if kind in ('dm', 'dmX'):
            m = DM(m, f(D))
        elif kind == 'dmH':
            out = DM(m, f(D), retH=True)
            if not (isinstance(out, tuple) and len(out) == 2 and isinstance(out[0], optical_signal)
                    and np.shape(out[1])[-1:] == (n,)):
                raise CallFormError(f'DM(..., retH=True) returned {type(out).__name__}'
                                    + (f' of {[type(o).__name__ for o in out]}' if isinstance(out, tuple) else '')
                                    + f', documented: (optical_signal, H[{n}])')
            m = out[0]
        else:
            L = min(50.0, abs(D) / 20.0)                       # km ; beta2 = D/L  (20 ps^2/km unless that needs > 50 km)
            if kind == 'fiber':
                m = FIBER(m, length=f(L), alpha=f(0.2), beta_2=f(D / L), gamma=f(0.0))
            else:
                with contextlib.redirect_stderr(io.StringIO()):
                    m = FIBER(m, f(L), beta_2=f(D / L), show_progress=True)
    pd_kw = {}
    if d['pdopt'] == 'alt':
        pd_kw = dict(T=fd(77.0), Fn=f(6.0), i_dark=f(0.0))
    y = PD(m, BW=f(d['bwf'] * Rq), r=fd(d['r']), R_load=fd(d['RL']),
           include_noise='ASE-Only' if d['pdopt'] == 'case' else 'ase-only', **pd_kw)
    return y, dict(sps=sps, instant=fi(sps // 2), tx=txobj)


def try_link(cfg, bits, tag, stat):
    """run_link; a documented call form that misbehaves / a grid outside the quantifier become a finished case result"""
    try:
        return run_link(cfg, bits) + (None,)
    except CallFormError as e:
        return None, None, res(viol=[(f'link:call-form:{key_class(cfg)}', f'{tag}: {e}')], obs=('call-form', str(e)),
                               nontrivial=True, stats={stat: 1})
    except Outside as e:
        return None, None, res(viol=[], obs=('outside', str(e)), nontrivial=False, stats={stat: 1, 'outside_quantifier': 1})


def bits_of(word):
    return np.frombuffer(word.encode(), dtype=np.uint8) - 48


def key_class(cfg):
    """stage values that differ from the baseline stages (pulse shaper / polarisation layout / channel): a defect in one
    block shows up under the classes that contain that block, so different defects get different keys"""
    d = dict(zip(NAMES, cfg))
    dev = [v for v, b in ((d['pulse'], 'nrz'), (d['layout'], '1pol'), (d['chan'].rstrip('+-'), 'none'), (d['txopt'], 'std'),
                          ('pd-' + d['pdopt'], 'pd-std'), ('bits-' + d['bits'], 'bits-u8'), ('gv-' + gv_key(d['gv']), 'gv-sps,R'),
                          ('num-' + d['num'], 'num-float')) if v != b]
    return '+'.join(dev) if dev else 'base'


def total(x):
    return (x.signal + x.noise).real if x.noise is not None else np.asarray(x.signal).real


# ------------------------------------------------------------------ case: plain link + midway threshold
THRESHOLD_FORMS = ('float', 'np.float64', '0-d array', 'list of one', 'array of n', 'electrical_signal')


def threshold_form(thr, form, n):
    from opticomlib.typing import electrical_signal
    return {'float': lambda: float(thr), 'np.float64': lambda: np.float64(thr), '0-d array': lambda: np.array(thr),
            'list of one': lambda: [float(thr)], 'array of n': lambda: np.full(n, thr),
            'electrical_signal': lambda: electrical_signal(float(thr))}[form]()


def short(word, n=64):
    return word if len(word) <= n else f'{word[:n]}...({len(word)} bits)'


def link_case(case):
    cfg, word = case
    from opticomlib.devices import SAMPLER
    from opticomlib.typing import binary_sequence
    np.random.seed(0)
    bits = bits_of(word)
    kc = key_class(cfg)
    tag = f'cfg={dict(zip(NAMES, cfg))} word={short(word)}'
    # the link is run under the scripted RNG: a noise-free field through PD('ase-only') must not request a single draw
    with scripted_rng(ScriptedRNG()) as rng:
        y, info, early = try_link(cfg, bits, tag, 'link_runs')
    if early is not None:
        return early
    sps = info['sps']
    viol = []
    if rng.requests:
        viol.append(('link:random-draw-with-noise-off', f'{tag}: the noise-free link requested random numbers: {rng.requests[:2]}'))
    if y.len() != bits.size * sps:
        viol.append(('link:length', f'{tag}: PD output has {y.len()} samples, expected {bits.size*sps}'))
    s = SAMPLER(y, info['instant'])
    tot = total(s)
    if tot.size != bits.size:
        viol.append(('link:sample-count', f'{tag}: SAMPLER returned {tot.size} samples for {bits.size} slots'))
        return res(viol=viol, obs=('count', tot.size), nontrivial=True, stats={'link_runs': 1})
    if not np.all(np.isfinite(tot)):
        viol.append(('link:nonfinite', f'{tag}: non-finite received samples'))
        return res(viol=viol, obs=('nonfinite',), nontrivial=True, stats={'link_runs': 1})
    b = bits.astype(bool)
    m1, m0 = tot[b].mean(), tot[~b].mean()
    thr = (m1 + m0) / 2
    dec = tot > thr
    margin = None
    if not np.array_equal(dec, b):
        bad = np.flatnonzero(dec != b)
        viol.append((f'link:bits:{kc}', f'{tag}: decided {short("".join(map(str, dec.astype(int))))} '
                     f'(differs at slots {bad.tolist()[:8]}); levels m1={m1:.6g} m0={m0:.6g} thr={thr:.6g}'))
    else:
        margin = float(min(tot[b].min() - thr, thr - tot[~b].max()) / (m1 - m0))
        # the library's own comparison operator on the sampled signal must give the same decision, in whatever documented form
        # the threshold is written (scalar forms, one-element list, one threshold per sample, an electrical_signal)
        for form in THRESHOLD_FORMS:
            lib = s > threshold_form(thr, form, bits.size)
            ld = np.asarray(lib.data).astype(bool) if isinstance(lib, binary_sequence) else None
            if ld is None or not np.array_equal(ld, b):
                viol.append((f'link:gt-operator' + ('' if form == 'float' else ':threshold-form'),
                             f'{tag}: (SAMPLER(y) > thr), thr given as {form}, gave '
                             f'{None if ld is None else short("".join(map(str, ld.astype(int))))}, numpy comparison gives the word'))
                break
    return res(viol=viol, obs=(word, tot.tobytes()), nontrivial=True,
               stats={'link_runs': 1, 'slots': int(bits.size)}, payload=margin)


# ------------------------------------------------------------------ case: ook.DSP + ook.BER_analizer
SEQ_FORMS = ('bs', 'str', 'str-sep', 'list', 'tuple', 'bool', 'u8', 'i64', 'f64')     # containers of a bit sequence (as_container)


def is_bs(x):
    from opticomlib.typing import binary_sequence
    return isinstance(x, binary_sequence)


def check_counter(fn, name, tx_bits, rx_seq, viol, tag, tx_obj=None, rx_form='bs', rx0=None, patterns=None, seed=0):
    """BER_analizer('counter') must be exactly 0 for rx == tx[:n] and exactly k/n for every flip set, n = len(rx) = the number of
    compared bits (= the length of 'the sequence with k flipped bits' of the statement).  tx_bits may be longer than rx (the
    data handed to PPM_ENCODER when its length is not a multiple of log2 M; both counters cut Tx to the received length).
    tx_obj: the object passed as Tx (default: a binary_sequence of tx_bits) - e.g. the very container the user handed to DAC /
    PPM_ENCODER; rx_form: container of the flipped sequences (SEQ_FORMS); rx0: the unflipped received sequence if it is not to
    be passed as the binary_sequence rx_seq.  An exception of the counter is a violation
    `<name>.ber:raises:<mixed|raw|plain>-containers` (mixed = exactly one of Tx, Rx is a binary_sequence).
    After the flip sets (k = 1..3) every error count of flip_ladder(n) (4 .. n) is asked, key `<name>.ber:k/n:many-flips*`; the wrong
    bits sit where `patterns` says (default: 'spread', 'head', 'tail' in rotation over the ladder; the 'seeded' positions follow
    `seed`)."""
    from opticomlib.typing import binary_sequence
    n = int(np.asarray(rx_seq.data).size)
    tx = binary_sequence(tx_bits.copy()) if tx_obj is None else tx_obj
    ragged = '' if tx_bits.size == n else f' (Tx has {tx_bits.size} bits, Rx {n})'
    forms = '' if is_bs(tx) and rx_form == 'bs' else f' [Tx given as {type(tx).__name__}, flipped Rx as {rx_form}]'
    ksfx = ('' if tx_bits.size == n else ':tx-longer') + (':containers' if forms else '')
    cnt = 0

    def call(rx, what):
        nonlocal cnt
        cnt += 1
        try:
            return fn('counter', Tx=tx, Rx=rx)
        except Exception as e:
            cls = 'plain' if is_bs(tx) and is_bs(rx) else 'mixed' if is_bs(tx) or is_bs(rx) else 'raw'
            viol.append((f'{name}.ber:raises:{cls}-containers', f'{tag}: BER_analizer("counter", Tx=<{type(tx).__name__}>, Rx=<{type(rx).__name__}>) '
                         f'({what}{ragged}) raised {type(e).__name__}: {e}'))
            return None

    v = call(rx_seq if rx0 is None else rx0, 'decoded output')
    if v is None:
        return cnt
    if not (v == 0):
        viol.append((f'{name}.ber:zero{ksfx}', f'{tag}: BER_analizer(counter) of the decoded output{ragged}{forms} = {v!r}, expected exactly 0'))
    for fs in flip_sets(n):
        f = tx_bits[:n].copy()
        f[list(fs)] ^= 1
        v = call(as_container(f, rx_form), f'{len(fs)} flipped bits')
        if v is None:
            break
        if not (v == len(fs) / n):
            viol.append((f'{name}.ber:k/n{ksfx}', f'{tag}: {len(fs)} flipped bits at {fs} of n={n}{ragged}{forms}: BER_analizer(counter) = {v!r}, '
                         f'expected {len(fs)}/{n} = {len(fs)/n!r}'))
            break
    if v is None:
        return cnt
    pats = patterns or FLIP_PATTERNS[:3]
    for i, k in enumerate(flip_ladder(n)):
        pat = pats[i % len(pats)]
        f = tx_bits[:n].copy()
        f[flip_positions(n, k, pat, seed)] ^= 1
        v = call(as_container(f, rx_form), f'{k} flipped bits')
        if v is None:
            break
        if not (v == k / n):
            viol.append((f'{name}.ber:k/n:many-flips{ksfx}', f'{tag}: {k} flipped bits ({pat}) of n={n}{ragged}{forms}: BER_analizer(counter) = {v!r}, '
                         f'expected {k}/{n} = {k/n!r}'))
            break
    return cnt


BW_FORMS = ('float', 'int', 'np.float64', 'np.int64')


def ook_case(case):
    cfg, word, seed = case[:3]
    opt = case[3] if len(case) > 3 else {}
    dspbw = opt.get('dspbw')          # ook.DSP(y, BW=dspbw*R): the routine's optional receiver filter, BW written in the number form opt['bwform']
    from opticomlib import ook
    from opticomlib.typing import binary_sequence
    bits = bits_of(word)
    tag = f'cfg={dict(zip(NAMES, cfg))} n={bits.size} word={word[:40]} kmeans_seed={seed}' + (f' DSP(BW={dspbw}R as {opt.get("bwform", "float")})' if dspbw else '')
    np.random.seed(seed)            # own the global RNG for the whole case (the link itself must not draw from it)
    y, info, early = try_link(cfg, bits, tag, 'ook_dsp_runs')
    if early is not None:
        return early
    np.random.seed(seed)
    if dspbw is None:
        out = ook.DSP(y)
    else:
        BW = dspbw * cfg[NAMES.index('R')]        # integer-valued for every R of the lattice
        BW = {'float': float, 'int': int, 'np.float64': np.float64, 'np.int64': np.int64}[opt.get('bwform', 'float')](BW)
        out = ook.DSP(y, BW=BW)
    viol = []
    if not (isinstance(out, tuple) and len(out) == 3 and isinstance(out[0], binary_sequence)):
        viol.append(('ook.dsp:return-type', f'{tag}: DSP returned {type(out).__name__}'))
        return res(viol=viol, obs='type', nontrivial=True, stats={'ook_dsp_runs': 1})
    rx, eye_obj, rth = out
    d = np.asarray(rx.data).astype(np.uint8)
    nber = 0
    if d.size != bits.size or not np.array_equal(d, bits):
        bad = np.flatnonzero(d[:bits.size] != bits[:d.size]).tolist()[:8] if d.size else []
        viol.append((f'ook.dsp:bits:{key_class(cfg)}' + (':dsp-bw' if dspbw else '') + (':long' if bits.size > 127 else ''),
                     f'{tag}: DSP returned {d.size} bits, differing at {bad}; rth={rth!r} '
                     f'mu0={getattr(eye_obj, "mu0", None)!r} mu1={getattr(eye_obj, "mu1", None)!r}'))
    else:
        # Tx = the very object the user handed to DAC when the case deviates in the container axis (else a binary_sequence)
        tx_obj = info['tx'] if cfg[NAMES.index('bits')] != 'u8' else None
        nber = check_counter(ook.BER_analizer, 'ook', bits, rx, viol, tag, tx_obj=tx_obj)
    return res(viol=viol, obs=(word, d.tobytes(), repr(float(rth))), nontrivial=(cfg, word, dspbw, opt.get('bwform')),
               stats={'ook_dsp_runs': 1, 'ber_calls': nber})


# ------------------------------------------------------------------ case: PPM_ENCODER -> link -> ppm.DSP
def ppm_data(M, which, seed):
    k = int(np.log2(M))
    nsym = 16
    if which == 'ramp':            # every symbol value 0..M-1 (twice when M < 16), MSB first
        syms = [i % M for i in range(nsym)]
        return ''.join(format(s, f'0{k}b') for s in syms)
    if which == 'prbs':
        return prbs7(k * nsym)
    if which.startswith('ragged'):
        # data whose length is NOT a multiple of log2 M: 16 whole symbols + r in 1..log2(M)-1 further bits that the encoder
        # cannot send (it sends whole symbols only); the receiver must return the first k*16 bits.  r = 1 and r = log2(M)-1.
        r = 1 if which == 'ragged1' else k - 1
        assert 1 <= r < k
        return seeded(k * nsym + r, seed, 200 + M + 1000 * r)
    if which in STRUCTURED:
        # the structured words the quantifier names (alternating, a single 1 or 0, long runs) as PPM DATA: they put the pulses
        # of all / all but one symbol at the same position, e.g. '1010...' = symbol 2 throughout for M = 4
        nb = k * nsym
        return {'alt01': ('01' * nb)[:nb], 'alt10': ('10' * nb)[:nb], 'single1-start': '1' + '0' * (nb - 1),
                'single1-end': '0' * (nb - 1) + '1', 'single0': '1' * (nb // 2) + '0' + '1' * (nb - nb // 2 - 1),
                'runs': '0' * (nb // 2) + '1' * (nb // 2)}[which]
    if which.startswith('tiny'):
        # 1 / 3 symbols (soft decision only: the eye-based hard decision is given the same >= 32 slots as ook.DSP)
        return seeded(k * int(which[4:]), seed, 300 + M)
    if which == 'long':
        # more slots than GET_EYE looks at (ppm.DSP calls it with nslots=8192): 8192/M + 1 symbols
        return seeded(k * (8192 // M + 1), seed, 400 + M)
    return seeded(k * nsym, seed, 100 + M)


STRUCTURED = ('alt01', 'alt10', 'single1-start', 'single1-end', 'single0', 'runs')


def ppm_kinds(M):
    k = int(np.log2(M))
    return ['ramp', 'prbs', 'seeded'] + (['ragged1'] if k >= 2 else []) + (['raggedmax'] if k >= 3 else [])


def ref_ppm_slots(data, M):
    k = int(np.log2(M))
    out = []
    for i in range(0, len(data) - len(data) % k, k):
        s = int(data[i:i + k], 2)
        out += [1 if j == s else 0 for j in range(M)]
    return np.array(out, dtype=np.uint8)


M_FORMS = ('int', 'np.int64', 'np.int32', 'np.uint8', '0-d array')


def m_form(M, form):
    return {'int': int, 'np.int64': np.int64, 'np.int32': np.int32, 'np.uint8': np.uint8, '0-d array': np.array}[form](M)


def ppm_case(case):
    cfg, M, which, data, seed = case[:5]
    opt = case[5] if len(case) > 5 else {}
    mform = opt.get('mform', 'int')             # the order M written as a Python int / numpy integer (M_FORMS)
    from opticomlib import ppm
    from opticomlib.devices import SAMPLER
    from opticomlib.typing import binary_sequence
    np.random.seed(seed)
    dbits = bits_of(data)
    tag = f'cfg={dict(zip(NAMES, cfg))} M={M}' + (f' (as {mform})' if mform != 'int' else '') + f' data({which})={short(data)} seed={seed}'
    viol = []
    Mf = m_form(M, mform)
    form = cfg[NAMES.index('bits')]
    # the data word in the container of the `bits` axis (baseline: a binary_sequence); the same object is the Tx of the counter
    tx_obj = binary_sequence(dbits.copy()) if form == 'u8' else as_container(dbits, form)
    slots = ppm.PPM_ENCODER(tx_obj, Mf)
    sl = np.asarray(slots.data).astype(np.uint8)
    ref = ref_ppm_slots(data, M)
    if not np.array_equal(sl, ref):
        viol.append(('ppm.encoder:slots', f'{tag}: PPM_ENCODER(<{type(tx_obj).__name__}>) gave {short("".join(map(str, sl)))}, reference {short("".join(map(str, ref)))}'))
        return res(viol=viol, obs=('enc', sl.tobytes()), nontrivial=True, stats={'ppm_runs': 1})
    np.random.seed(seed)
    y, info, early = try_link(cfg, sl, tag, 'ppm_runs')
    if early is not None:
        return early
    k = int(np.log2(M))
    sent = dbits[:dbits.size - dbits.size % k]      # the whole symbols = what PPM_ENCODER transmitted (asserted above)
    # explicit threshold for the hard decision: midway between the received levels (the decision rule of the statement's first
    # sentence, executed by the packaged routine: SAMPLER(sps//2) -> '>' -> HDD (nothing to repair) -> PPM_DECODER)
    tot = total(SAMPLER(y, info['instant']))
    thr = None
    if tot.size == sl.size and np.all(np.isfinite(tot)):
        thr = (tot[sl == 1].mean() + tot[sl == 0].mean()) / 2
        thr = (float, np.float64, np.array)[seed % 3](thr)
    # (key label, decision string, input form, keyword arguments, variant)
    runs = [('soft', 'soft', 'pd', {}, ''), ('hard', 'hard', 'pd', {}, '')]
    if which.startswith('tiny'):
        runs = runs[:1]
    elif thr is not None:
        runs.append(('hard-thr', 'hard', 'pd', {'threshold': thr}, ''))
    if which == 'seeded':
        # thin slice of the spelling / input-container classes: the decision string in another letter case (the routine lower-cases
        # it; a ValueError would be accepted as "spelling rejected"), the received record as the plain ndarray signal+noise
        # (documented Array_Like input)
        runs += [('soft', 'Soft', 'pd', {}, ':spelling'), ('soft', 'soft', 'nd', {}, ':ndarray-input'),
                 ('soft', 'SOFT', 'nd', {}, ':spelling+ndarray-input'), ('hard', 'HARD', 'pd', {}, ':spelling')]
    elif which == 'prbs':
        runs += [('hard', 'hard', 'nd', {}, ':ndarray-input')]
    obs = [data, M]
    nber = 0
    for label, decision, yform, kw, variant in runs:
        np.random.seed(seed)
        yin = total(y) if yform == 'nd' else y
        try:
            rx = ppm.DSP(yin, Mf, decision=decision, **kw)
        except ValueError:
            if 'spelling' in variant:
                obs.append('spelling-rejected')
                continue
            raise
        if not isinstance(rx, binary_sequence):
            viol.append((f'ppm.dsp:return-type:{label}', f'{tag}: DSP(decision={decision!r}) returned {type(rx).__name__}'))
            continue
        d = np.asarray(rx.data).astype(np.uint8)
        obs.append(d.tobytes())
        if d.size != sent.size or not np.array_equal(d, sent):
            viol.append((f'ppm.dsp:{label}:bits:{which}-data{variant}' + (':M-form' if mform != 'int' else ''),
                         f'{tag}: ppm.DSP(<{"ndarray" if yform == "nd" else "PD output"}>, M, decision={decision!r}'
                         + (f', threshold={kw["threshold"]!r}' if kw else '') + f') returned {short("".join(map(str, d)))}'))
        elif not variant and not kw:
            # Tx = the data word the user handed to the encoder (longer than Rx for the ragged words)
            nber += check_counter(ppm.BER_analizer, 'ppm', dbits, rx, viol, tag + f' decision={decision}', tx_obj=tx_obj)
    return res(viol=viol, obs=tuple(obs), nontrivial=(cfg, M, data, mform), stats={'ppm_runs': 1, 'ber_calls': nber})


# ------------------------------------------------------------------ case: BER counters on plain sequences
TX_EXTRA = ('', '0', '1', '01', '110')     # bits of Tx beyond the end of Rx (Tx longer than Rx: the counters compare the first len(Rx) bits)


def ber_case(case):
    which, word, extra = case[:3]
    txform, rxform = case[3:5] if len(case) > 3 else ('bs', 'bs')      # containers of Tx and Rx (SEQ_FORMS)
    from opticomlib import ook, ppm
    from opticomlib.typing import binary_sequence
    fn = ook.BER_analizer if which == 'ook' else ppm.BER_analizer
    bits = bits_of(word)
    txb = np.concatenate([bits, bits_of(extra)]) if extra else bits
    viol = []
    tag = f'{which}.BER_analizer n={bits.size} word={word[:32]} tx-extra={extra!r} Tx as {txform}, Rx as {rxform}'
    tx_obj = as_container(txb.copy(), txform)
    n = check_counter(fn, which, txb, binary_sequence(bits.copy()), viol, tag, tx_obj=tx_obj, rx_form=rxform,
                      rx0=as_container(bits.copy(), rxform))
    if not viol:
        # complement: every compared bit wrong -> exactly 1
        v = fn('counter', Tx=tx_obj, Rx=as_container(1 - bits, rxform))
        if not (v == 1):
            viol.append((f'{which}.ber:k/n' + (':tx-longer' if extra else '') + ('' if (txform, rxform) == ('bs', 'bs') else ':containers'),
                         f'{tag}: all {bits.size} compared bits flipped (Tx has {txb.size} bits) -> {v!r}, expected 1'))
    # Rx LONGER than Tx: outside the statement ("k/n for a sequence with k flipped bits" presupposes a transmitted bit for every
    # received one); the library answers with its "must have the same length" AssertionError.  Recorded, not asserted.
    try:
        longer = repr(fn('counter', Tx=binary_sequence(bits.copy()), Rx=binary_sequence(np.concatenate([bits, [1]]).astype(np.uint8))))
    except Exception as e:
        longer = type(e).__name__
    return res(viol=viol, obs=(which, word, extra, txform, rxform, longer), nontrivial=True, stats={'ber_calls': n + 2})


# ------------------------------------------------------------------ case: BER counters, many flipped bits on long sequences
def long_bits(n, kind, seed):
    """a record of n bits: seeded random, or the PRBS7 period (own generator) repeated"""
    if kind == 'prbs':
        return np.resize(bits_of(prbs7(127)), n).astype(np.uint8)
    return np.random.RandomState((int(seed) * 1000003 + 500 + n) % (2 ** 32)).randint(0, 2, n).astype(np.uint8)


def flips_case(case):
    """(module, n, word kind, bits of Tx beyond Rx, Tx container, Rx container, flip pattern, VERIF_SEED): the whole ladder of error
    counts 0, 1, 2, 3 (flip sets), 4 .. n on one record of n bits, then the complement of the record (-> exactly 1)"""
    which, n, kind, extra, txform, rxform, pattern, seed = case
    from opticomlib import ook, ppm
    from opticomlib.typing import binary_sequence
    fn = ook.BER_analizer if which == 'ook' else ppm.BER_analizer
    bits = long_bits(n, kind, seed)
    txb = np.concatenate([bits, bits_of(extra)]) if extra else bits
    viol = []
    tag = f'{which}.BER_analizer n={n} word={kind} tx-extra={extra!r} Tx as {txform}, Rx as {rxform}'
    tx_obj = as_container(txb.copy(), txform)
    cnt = check_counter(fn, which, txb, binary_sequence(bits.copy()), viol, tag, tx_obj=tx_obj, rx_form=rxform,
                        rx0=as_container(bits.copy(), rxform), patterns=(pattern,), seed=seed)
    if not viol:
        v = fn('counter', Tx=tx_obj, Rx=as_container((1 - bits).astype(np.uint8), rxform))
        if not (v == 1):
            viol.append((f'{which}.ber:k/n:many-flips' + (':tx-longer' if extra else '') + ('' if (txform, rxform) == ('bs', 'bs') else ':containers'),
                         f'{tag}: the complement of the record as Rx (all {n} compared bits wrong, Tx has {txb.size} bits) -> {v!r}, expected 1'))
    return res(viol=viol, obs=(which, n, kind, extra, txform, rxform, pattern), nontrivial=True, stats={'ber_calls': cnt + 1})


# ------------------------------------------------------------------ driver
def run(ctx):
    quick = ctx.quick
    seed = ctx.seed
    k_lat = 3 if quick else 3
    nw = 8 if quick else 10
    short_lengths = (2, 3, 4, 5) if quick else (2, 3, 4, 5, 6, 7)
    long_lengths = (128, 129, 4097) if quick else (127, 128, 129, 1023, 1024, 1025, 4095, 4096, 4097, 8193)
    dsp_long_lengths = (128, 129, 4097, 8193) if quick else (128, 129, 255, 256, 4095, 4096, 4097, 8191, 8192, 8193, 8194, 10001)
    lat1 = lattice(1)
    latk = lattice(k_lat)
    if quick:
        latk = [c for c in latk if ndev(c) <= 2 or not has_option(c)]
    else:
        # thorough: the notation axes (same field by construction, they only change how the call is written down) are combined with
        # at most one other deviation here too; every other option deviation with up to two
        latk = [c for c in latk if ndev(c) <= 2 or not is_notation(c)]
    ctx.space('config.lattice.k<=1', len(lat1))
    ctx.space(f'config.lattice.k<={k_lat}' + ('(option deviations k<=2)' if quick else '(notation deviations k<=2)'), len(latk))
    ctx.rule(f'C03: real blocks chained DAC->MZM(CW)->[DM|FIBER gamma=0]->PD(ase-only, noise-free field)->SAMPLER(sps//2)->'
             f'threshold midway between the received level means; oracle = the transmitted word, exact equality. '
             f'Deviation lattice over {len(AXES)} axes ' + '; '.join(f'{a}{v}' for a, v in AXES) +
             f' (points with PD BW >= fs/2 dropped; |beta2*L| = {DISP_FRACTION*100:.1f}% of T_slot^2). '
             f'link.words: all {2**nw-2} words of length {nw} with both symbols x the {len(lat1)} configurations with <= 1 deviation. '
             f'link.lattice: 8 fixed words x the {len(latk)} configurations with <= {k_lat} deviations' +
             (f' (<= 2 when one is an option deviation {sorted(OPTION_VALUES, key=str)})' if quick else f' (<= 2 when one is on a notation axis {NOTATION_AXES})') + ('. ' if quick else '; link.words8.k=2: all 254 words of length 8 x the configurations with exactly 2 deviations. ') +
             f'ook.dsp (words of 32/64/127 slots, PRBS7 and seeded-random) and ppm.dsp (M in 2,4,8,16 x data words ramp/PRBS7/seeded of '
             f'16 symbols + ragged words of 16 symbols + r bits, r in {{1, log2(M)-1}}, soft and hard with estimated threshold): the '
             f'configurations with <= {1 if quick else 2} deviations (option deviations alone) plus '
             f'{len(CORNERS)} corner points (largest/smallest received voltage, dispersive channel x finest grid / widest PD bandwidth) '
             f'plus every pair of deviations among the eye-shaping axes {[a for a, _ in EYE_AXES]} ({len(eye_tuples(2))} points'
             + (', first KMeans seed, no ragged words' if quick else f'; ook.dsp also every triple, {len(eye_tuples(3))} points') + ') '
             f'x KMeans seed alphabet {(0, 1) if quick else (0, 1, 2)}; ook.DSP(BW=min(2R, 0.4fs)) on the k<=1 configurations; '
             f'hardening pass: link.short = every word of length {short_lengths} whose waveform exceeds the 16-sample padding, link.long = '
             f'seeded / single-1 / single-0 words of {long_lengths} slots, both on the k<=1 configurations; the notation axes '
             f'{NOTATION_AXES} (container of the bit word incl. write-protected ndarrays, gv call form incl. non-integer fs/R and '
             f'one-keyword calls gv(R=.) / gv(sps=.) / gv(fs=.) made while another grid is in force, number '
             f'form of every scalar) are option deviations; link.gvhist = the {len(GV_HISTORIES)} two-step grid histories (previous grid '
             f'written as {GV_FIRST}, last step {GV_LAST}: one keyword alone changing its quantity down / up by 16x (R) or 4x (sps, fs), '
             f'or no keyword) x every sps x every R' + ('' if quick else ' x both pulse shapes') + f' x {2 if quick else 8} fixed words, the link '
             f'built for the (sps, R) that the documented gv rules leave in force; the comparison operator is asked with the threshold written as '
             f'{THRESHOLD_FORMS}; ook.dsp additionally on records of {dsp_long_lengths} slots (GET_EYE nslots 4096 / 8192) and with '
             f'BW written as {BW_FORMS}; ppm.dsp additionally with hard decision at an explicit midway threshold, decision strings in '
             f'other letter case, the record as plain ndarray, M written as {M_FORMS}, the structured data words {STRUCTURED}, 1 and 3 '
             f'symbols (soft only) and 8192/M+1 symbols; Tx of the counters = the very object handed to DAC / PPM_ENCODER; '
             f'ber.counter also on every pair of containers {SEQ_FORMS} for (Tx, Rx) (Rx longer than Tx: recorded, not asserted). '
             f'On every decoded output both BER_analizer(counter) must give '
             f'exactly 0 and exactly k/n (n = len(Rx) = compared bits; Tx = the data handed to the encoder, longer than Rx for ragged '
             f'words) for every flip set of size 1..3 over positions {FLIP_POS}; ber.counter repeats that on plain '
             f'sequences of length 2..127 with Tx longer than Rx by {TX_EXTRA}. Many flipped bits: after the flip sets every counter '
             f'check also asks every error count k of the ladder {K_LADDER} and n//2, n-1, n with 3 < k <= n (wrong bits '
             f'{FLIP_PATTERNS[:3]} in rotation); ber.flips runs the ladder on seeded / PRBS7-periodic records of '
             f'{(256, 257, 2047, 2049, 65537, 70001) if quick else "255..131073 and 2^24+2"} bits x both counters x Tx longer by {TX_EXTRA} '
             f'x flip patterns {FLIP_PATTERNS}, and on 2047 bits for every pair of containers')
    ctx.assume('noise-free means: no noise attached to the optical field and PD(include_noise="ase-only"), which leaves only the '
               'deterministic dark-current offset; link.* cases run under the scripted RNG and report any random draw as a violation')
    ctx.assume('GET_EYE draws from numpy\'s global RNG through KMeans; owned by np.random.seed(s), s from a small seed alphabet, '
               'single-threaded workers')
    ctx.assume('VERIF_SEED selects only the content of the seeded-random words')

    # --- part 1: all short words at k<=1
    import time
    words = all_words(nw)
    cases = [(c, w) for c in lat1 for w in words]
    t0 = time.time()
    m1 = ctx.pmap('link.words', link_case, cases, horizon=30)
    print(f'[C03] link.words done in {time.time()-t0:.1f}s', flush=True); t0 = time.time()

    # --- part 1a: the shortest legal records: every word of length 2..5 (thorough ..7) whose waveform exceeds the 16-sample padding
    cases = [(c, w) for c in lat1 for n in short_lengths for w in all_words(n) if n * c[0] > 16]
    m1a = ctx.pmap('link.short', link_case, cases, horizon=30)
    # --- part 1b: long records around one PRBS7 period, the block size 1024, GET_EYE's default nslots 4096 and the 8192 of the DSPs
    cases = [(c, w) for c in lat1 for n in long_lengths for w in long_words(n, seed)]
    m1a += ctx.pmap('link.long', link_case, cases, horizon=120)
    print(f'[C03] link.short/long done in {time.time()-t0:.1f}s', flush=True); t0 = time.time()

    m1b = []
    if not quick:
        # thorough only: all 8-bit words on every configuration with exactly 2 deviations
        s1 = set(lat1)
        cases = [(c, w) for c in lattice(2) if c not in s1 for w in all_words(8)]
        m1b = ctx.pmap('link.words8.k=2', link_case, cases, horizon=30)
        print(f'[C03] link.words8.k=2 done in {time.time()-t0:.1f}s', flush=True); t0 = time.time()

    # --- part 2: fixed words on the k-lattice
    fw = fixed_words(seed)
    cases = [(c, w) for c in latk for w in fw]
    m2 = ctx.pmap('link.lattice', link_case, cases, horizon=30)
    print(f'[C03] link.lattice done in {time.time()-t0:.1f}s', flush=True); t0 = time.time()

    # --- part 2a (after seeded wave 6): two-step grid histories ending in a call with at most one of sps / R / fs.  The whole
    # product first step (3 call forms x N unset / set) x last step (R / sps / fs alone, each changing its quantity down and up, and
    # the keyword-less call) on every sps and slot rate of the lattice; thorough: all fixed words and both pulse shapes
    gi = NAMES.index('gv')
    hist_cfgs = []
    for h in GV_HISTORIES:
        for pulse in (('nrz',) if quick else ('nrz', 'gaussian')):
            for R in dict(AXES)['R']:
                for sps in dict(AXES)['sps']:
                    c = list(point(sps=sps, R=R, pulse=pulse))
                    c[gi] = h
                    hist_cfgs.append(tuple(c))
    ctx.space('config.gv-histories', len(GV_HISTORIES))
    hw = [fw[4], fw[5]] if quick else fw
    m2 += ctx.pmap('link.gvhist', link_case, [(c, w) for c in hist_cfgs for w in hw], horizon=30)
    print(f'[C03] link.gvhist done in {time.time()-t0:.1f}s', flush=True); t0 = time.time()
    ms = [m for m in (m1 + m1a + m1b + m2) if m is not None]
    if ms:
        ctx.extra['min_relative_decision_margin'] = round(min(ms), 4)   # (distance of the closest sample to the threshold)/(m1-m0); 0.5 = ideal
        print(f'[C03] smallest relative decision margin over {len(ms)} link runs: {min(ms):.4f} (0.5 = ideal levels)', flush=True)

    # --- part 3: ook.DSP
    seeds = (0, 1) if quick else (0, 1, 2)
    ook_words = [prbs7(32), seeded(32, seed, 32), prbs7(64), seeded(64, seed, 64), prbs7(127), seeded(127, seed, 127)]
    # option deviations give the same field as the plain call (asserted by the link parts up to k<=3): the packaged routines see
    # them alone (k<=1) in both tiers; the thorough tier adds every pair of the other deviations
    base_cfgs = lat1 if quick else [c for c in lattice(2) if ndev(c) <= 1 or not has_option(c)]
    have = set(base_cfgs)
    extra = []
    for c in CORNERS + eye_tuples(2):            # voltage / dispersive corners, then every pair of eye-shaping deviations
        if c not in have:
            have.add(c); extra.append(c)
    dsp_cfgs = base_cfgs + extra
    ctx.space('config.dsp', len(dsp_cfgs))
    ctx.space('config.dsp.eye-pairs', len(eye_tuples(2)))
    # KMeans seed alphabet: all seeds on the k<=1 (thorough k<=2) lattice and the corners; the quick tier runs the further
    # eye pairs and the notation deviations (same field as the baseline) with the first seed only
    pair_only = set(extra) - set(CORNERS) if quick else set()
    light = pair_only | ({c for c in dsp_cfgs if is_notation(c)} if quick else set())
    seeds_of = lambda c: seeds[:1] if c in light else seeds
    cases = [(c, w, s) for c in dsp_cfgs for w in ook_words for s in seeds_of(c)]
    # the routine's own optional argument: ook.DSP(y, BW=2R) (min(2R, 0.4 fs)) on the k<=1 configurations, first seed, the value
    # written as float / int / np.float64 / np.int64 (quick: one form per word in rotation; thorough: every form)
    for c in lat1:
        for i, w in enumerate(ook_words):
            for bf in ([BW_FORMS[i % len(BW_FORMS)]] if quick else BW_FORMS):
                cases.append((c, w, seeds[0], {'dspbw': min(2.0, 0.4 * c[0]), 'bwform': bf}))
    # long records: one more than a PRBS7 period, around GET_EYE's default nslots (4096) and around / beyond the nslots=8192 that
    # ook.DSP passes (the eye is estimated on the first 8192 slots, the decision must cover the whole record)
    long_cfgs = LONG_CFGS if quick else [c for c in lat1 if not is_notation(c)] + [c for c in LONG_CFGS if ndev(c) > 1]
    cases += [(c, seeded(n, seed, n), seeds[0]) for c in long_cfgs for n in dsp_long_lengths]
    if not quick:
        # thorough: every triple of eye-shaping deviations for ook.DSP
        cases += [(c, w, s) for c in eye_tuples(3) if c not in have for w in ook_words for s in seeds]
    ctx.pmap('ook.dsp', ook_case, cases, horizon=240)
    print(f'[C03] ook.dsp done in {time.time()-t0:.1f}s', flush=True); t0 = time.time()

    # --- part 4: ppm.DSP
    cases = []
    plain = [c for c in lat1 if not is_notation(c)] + CORNERS       # where the further data words are run
    for c in dsp_cfgs:
        for mi, M in enumerate((2, 4, 8, 16)):
            # the ragged data words test the length handling, not the eye: not repeated on the quick tier's extra eye pairs
            for ki, which in enumerate(ppm_kinds(M)[:3] if c in pair_only else ppm_kinds(M)):
                for si, s in enumerate(seeds_of(c)):
                    # the order M as a Python int with the first seed, as a numpy integer (rotating over M_FORMS) with the others
                    # (independent of the position of the configuration, so that the thorough tier contains the quick assignments)
                    opt = {} if si == 0 else {'mform': M_FORMS[1 + (mi + ki + si) % (len(M_FORMS) - 1)]}
                    cases.append((c, M, which, ppm_data(M, which, seed), s) + ((opt,) if opt else ()))
    for c in plain:
        for M in (2, 4, 8, 16):
            k = int(np.log2(M))
            # structured data words (alternating, single 1 / 0, runs), first seed
            for which in STRUCTURED:
                if not (M == 2 and which == 'alt01'):            # = the ramp word
                    cases.append((c, M, which, ppm_data(M, which, seed), seeds[0]))
            # 1 and 3 symbols (soft decision only), where the data has >= 2 bits and the waveform exceeds the padding
            for nsym in (1, 3):
                if k * nsym >= 2 and nsym * M * c[0] > 16:
                    cases.append((c, M, f'tiny{nsym}', ppm_data(M, f'tiny{nsym}', seed), seeds[0]))
    for c in long_cfgs:
        for M in (2, 4, 8, 16):
            cases.append((c, M, 'long', ppm_data(M, 'long', seed), seeds[0]))
    ctx.pmap('ppm.dsp', ppm_case, cases, horizon=240)
    print(f'[C03] ppm.dsp done in {time.time()-t0:.1f}s', flush=True); t0 = time.time()

    # --- part 5: counters on plain sequences
    bw = ['01', '10', '0110', prbs7(8), '0' * 7 + '1', prbs7(16), prbs7(32), prbs7(127), seeded(33, seed, 33)]
    if not quick:
        bw += all_words(6)
    cases = [(which, w, x) for x in TX_EXTRA for which in ('ook', 'ppm') for w in bw]
    # every pair of containers for (Tx, Rx) - binary_sequence, str, str with separators, list, tuple, ndarray bool/uint8/int64/
    # float64 -, equal lengths and Tx longer
    cw = [prbs7(8), seeded(33, seed, 33)] + ([] if quick else [prbs7(127)])
    cases += [(which, w, x, tf, rf) for x in ('', '01') for which in ('ook', 'ppm') for w in cw
              for tf in SEQ_FORMS for rf in SEQ_FORMS if (tf, rf) != ('bs', 'bs')]
    ctx.pmap('ber.counter', ber_case, cases, horizon=30)

    # --- part 6: counters, the whole ladder of error counts (0 .. 3, 4, 7, .., 255, 256, 257, .., n//2, n-1, n) on long records
    # record lengths: around 2^8, one PRBS11 period and 2^11, beyond 2^16 (thorough: more boundaries, and 2^24 + 2 bits once)
    flip_lengths = (256, 257, 2047, 2049, 65537, 70001) if quick else (255, 256, 257, 300, 512, 1000, 2047, 2048, 2049, 4097, 8193,
                                                                       32769, 65535, 65536, 65537, 70001, 131073)
    cases = [(which, n, kind, x, 'bs', 'bs', pat, seed) for which in ('ook', 'ppm') for n in flip_lengths for kind in ('seeded', 'prbs')
             for x in TX_EXTRA for pat in FLIP_PATTERNS]
    # every pair of containers for (Tx, Rx) on 2047 bits, equal lengths and Tx longer; the flip pattern rotates over the pairs in the
    # quick tier (independent of the tier's other choices, so that the thorough tier, which runs every pattern, contains them)
    for which in ('ook', 'ppm'):
        for x in ('', '01'):
            for ti, tf in enumerate(SEQ_FORMS):
                for ri, rf in enumerate(SEQ_FORMS):
                    if (tf, rf) != ('bs', 'bs'):
                        for pat in ([FLIP_PATTERNS[(ti + ri) % len(FLIP_PATTERNS)]] if quick else FLIP_PATTERNS):
                            cases.append((which, 2047, 'seeded', x, tf, rf, pat, seed))
    if not quick:
        # one record beyond 2^24 bits (a single-precision accumulator stops counting at 2^24), raw uint8 arrays
        cases += [(which, 2 ** 24 + 2, 'seeded', '', 'u8', 'u8', 'spread', seed) for which in ('ook', 'ppm')]
    ctx.pmap('ber.flips', flips_case, cases, horizon=120)
    print(f'[C03] ber.counter/flips done in {time.time()-t0:.1f}s', flush=True)
