"""C03 - a noise-free link built from the library's blocks returns the transmitted bits.

Bounded-exhaustive words x deviation lattice of link configurations.  Every case chains the REAL
blocks  bits -> DAC -> MZM(CW carrier) -> [DM | FIBER(gamma=0)] -> PD('ase-only' on a noise-free
field) -> SAMPLER(sps//2) -> threshold midway between the two received level means  and compares
the decision with the transmitted word (exact equality).  The packaged routines (ook.DSP, ppm.DSP
soft / hard with estimated threshold, both BER_analizer('counter')) are run on the same links.

Parts
  link.words   all words of length 8 (thorough: 10) containing both symbols, at the baseline and at
               every single deviation of the configuration lattice
  link.lattice the fixed word set on every configuration differing from the baseline in <= 3 axes
               (quick: <= 2 when one of them is an "option deviation" = optional argument / alternative
               call form of a block: DM retH=True, FIBER defaults + show_progress, MZM pol='y' / BW,
               DAC BW / bias, PD T / Fn / i_dark)
  ook.dsp      ook.DSP + ook.BER_analizer on 32/64/127 slots of PRBS7 / seeded-random data x (k<=1
               configurations (thorough k<=2) + voltage / dispersive corners + EVERY PAIR of deviations
               among the eye-shaping axes sps, pulse, ER, PD bandwidth, channel (thorough: + every
               triple)) x KMeans seed alphabet; + ook.DSP(BW=.) on the k<=1 configurations
  ppm.dsp      PPM_ENCODER -> link -> ppm.DSP soft and hard(estimated threshold), M in {2,4,8,16}
               x data words (ramp, PRBS7, seeded; + "ragged" words whose length is not a multiple of
               log2 M) x the same configurations x seed alphabet, + ppm.BER_analizer with Tx = the data
               handed to the encoder (longer than Rx for the ragged words)
  ber.counter  both BER_analizer('counter') on plain sequences: every way of flipping k in {1,2,3}
               bits at positions from a small set -> exactly k/n, 0 flips -> exactly 0, all flipped
               -> exactly 1; Tx equal to Rx in length and Tx longer by 1..3 bits (n = compared bits)
"""
from __future__ import annotations
import itertools
import numpy as np

from mcx.core.kernel import res
from mcx.core.env import gv_reset, ScriptedRNG, scripted_rng

ID = 'C03'
LEVEL = 'exploration'
NONTRIVIAL = ('a link run whose word contains both symbols (so both received levels exist and the decision can fail '
              'either way); counted by distinct received sample vectors')

# ------------------------------------------------------------------ configuration lattice
# baseline value first on every axis
AXES = [
    ('sps', [16, 4, 5, 7, 8, 33, 64]),
    ('R', [1e9, 10e9]),
    ('pulse', ['nrz', 'gaussian']),
    ('Vpi', [5.0, 2.0]),
    ('loss', [0.0, 3.0]),
    ('ER', [26.0, 10.0, 40.0]),
    ('launch', [0.0, -20.0, 10.0]),
    ('r', [1.0, 0.5]),
    ('RL', [50.0, 1000.0]),
    ('bwf', [0.75, 0.7, 2.0]),          # PD bandwidth in units of the slot rate R
    # 1pol: one-polarisation carrier.  2pol: carrier power split over x and y, MZM keeps x (the block zeroes y).
    # 2pol-rot: as 2pol, then a lossless Jones rotation of the modulated field to the -45 degree linear state
    #           (Ex, Ey) = (E, -E)/sqrt(2) so that BOTH rows are populated at the PD (harness side, unitary).
    # 2pol-y: as 2pol, but the modulator is told to keep the y row (MZM(pol='y'), the block zeroes x).
    ('layout', ['1pol', '2pol', '2pol-rot', '2pol-y']),
    # accumulated |beta2*L| = 0.9 % of T_slot^2, both signs, as DM(D) or FIBER(L, beta2, alpha=0.2, gamma=0)
    # documented alternative call forms of the same channel (same field expected, the link oracle is unchanged):
    #   dmH    DM(m, D, retH=True) -> (field, H): the caller also asks for the frequency response and keeps the field
    #   fiberD FIBER(m, L, beta_2=.) with every other argument left at its default (alpha = 0, i.e. lossless) and
    #          show_progress=True (progress bar written to a discarded stderr)
    ('chan', ['none', 'dm+', 'dm-', 'fiber+', 'fiber-', 'dmH+', 'dmH-', 'fiberD+', 'fiberD-']),
    # optional arguments of the transmitter blocks that the plain link never passes:
    #   dac-bw   DAC(BW=.)  drive low-pass, min(2R, 0.4 fs)   (a legal Bessel design needs BW < fs/2)
    #   mzm-bw   MZM(BW=.)  optical band-pass of full width min(4R, 0.8 fs)  (the block designs a low-pass at BW/2 < fs/2)
    #   dac-bias the bias of the drive is given to DAC(bias=-Vpi) instead of MZM(bias=-Vpi), and 'nrz' is spelt 'rect'
    #            (documented as equivalent); the modulator sees the same voltage
    ('txopt', ['std', 'dac-bw', 'mzm-bw', 'dac-bias']),
    # optional arguments of PD that cannot matter with the noise switched off: temperature and amplifier noise figure
    # (only enter the thermal variance), given non-default (T=77 K, Fn=6 dB); i_dark=0 removes the deterministic offset too
    ('pdopt', ['std', 'alt']),
]
NAMES = [a for a, _ in AXES]
BASE = tuple(v[0] for _, v in AXES)
DISP_FRACTION = 0.009


def valid(cfg):
    d = dict(zip(NAMES, cfg))
    # Bessel design needs 0 < BW < fs/2  (fs = sps*R, BW = bwf*R)
    return d['bwf'] < d['sps'] / 2


def lattice(k):
    """all valid configurations that differ from BASE in at most k axes, ordered by number of deviations"""
    out = []
    for j in range(k + 1):
        for idx in itertools.combinations(range(len(AXES)), j):
            for vals in itertools.product(*[AXES[i][1][1:] for i in idx]):
                c = list(BASE)
                for i, v in zip(idx, vals):
                    c[i] = v
                c = tuple(c)
                if valid(c):
                    out.append(c)
    return out


# "option deviations": values that select an optional argument / alternative call form of one block (added after seeded
# wave 3).  The thorough tier combines them with up to two other deviations (full k<=3 lattice); the quick tier with up to one
# (k<=2), while the lattice over the remaining values stays at k<=3 in both tiers.
OPTION_VALUES = {('layout', '2pol-y'), ('chan', 'dmH+'), ('chan', 'dmH-'), ('chan', 'fiberD+'), ('chan', 'fiberD-'),
                 ('txopt', 'dac-bw'), ('txopt', 'mzm-bw'), ('txopt', 'dac-bias'), ('pdopt', 'alt')}


def has_option(cfg):
    return any((a, v) in OPTION_VALUES for a, v in zip(NAMES, cfg))


def point(**dev):
    c = list(BASE)
    for k, v in dev.items():
        assert v in dict(AXES)[k], (k, v)
        c[NAMES.index(k)] = v
    return tuple(c)


# points beyond k<=1 added to the configuration set of the packaged (eye-based) routines in both tiers:
#  - the largest and the smallest received voltages the axes allow (the estimators must not depend on the unit of the signal)
#  - a dispersive channel combined with the finest time grid / the widest receiver bandwidth (least smoothing of the
#    dispersive overshoot, narrowest transition regions in the eye)
CORNERS = [
    point(launch=10.0, RL=1000.0),                                        # ~10 V on-level
    point(launch=10.0, RL=1000.0, ER=40.0, bwf=2.0),
    point(launch=-20.0, loss=3.0, r=0.5, layout='2pol', chan='fiber+'),   # ~6 uV on-level, next to the 0.5 uV dark offset
    point(sps=33, chan='dm+'),
    point(sps=64, chan='fiber-'),
    point(bwf=2.0, chan='dm-'),
    # coarsest time grids with the Gaussian pulse shape (fewest samples per slot: sampling-instant slips show here first)
    point(sps=4, pulse='gaussian'),
    point(sps=5, pulse='gaussian'),
    point(sps=7, pulse='gaussian', chan='dm+'),
]
K2_CORNERS = {point(launch=10.0, RL=1000.0), point(sps=33, chan='dm+'), point(sps=64, chan='fiber-'), point(bwf=2.0, chan='dm-'),
              point(sps=4, pulse='gaussian'), point(sps=5, pulse='gaussian')}

# The axes that change the SHAPE of the received eye (number of samples per slot, pulse, height of the off rail, receiver
# smoothing, dispersive overshoot).  The other axes only scale the eye (covered by the voltage corners above), choose the
# row the power sits in, or select a call form that yields the same field (asserted by the link parts).  The packaged
# eye-based routines are run on EVERY pair of deviations among these axes in the quick tier (the thorough tier runs the whole
# k<=2 lattice, and the triples among these axes for ook.DSP).
EYE_AXES = [
    ('sps', [4, 5, 7, 8, 33, 64]),
    ('pulse', ['gaussian']),
    ('ER', [10.0, 40.0]),
    ('bwf', [0.7, 2.0]),
    ('chan', ['dm+', 'dm-', 'fiber+', 'fiber-']),
]


def eye_tuples(k):
    """valid configurations deviating from BASE in exactly k of the eye-shaping axes (all value combinations)"""
    out = []
    for idx in itertools.combinations(range(len(EYE_AXES)), k):
        for vals in itertools.product(*[EYE_AXES[i][1] for i in idx]):
            c = point(**{EYE_AXES[i][0]: v for i, v in zip(idx, vals)})
            if valid(c):
                out.append(c)
    return out


def ndev(cfg):
    return sum(1 for a, b in zip(cfg, BASE) if a != b)


# ------------------------------------------------------------------ words
def prbs7(n):
    """x^7 + x^6 + 1 recurrence a[m] = a[m-7] ^ a[m-6], seed 1111111 (own generator, not the library's)"""
    a = [1] * 7
    while len(a) < n:
        a.append(a[-7] ^ a[-6])
    return ''.join(map(str, a[:n]))


def seeded(n, seed, tag):
    """seeded 'random field' member of the word alphabet (content selected by VERIF_SEED); both symbols guaranteed"""
    rs = np.random.RandomState((int(seed) * 1000003 + tag) % (2 ** 32))
    while True:
        w = rs.randint(0, 2, n)
        if 0 < w.sum() < n:
            return ''.join(map(str, w))


def fixed_words(seed):
    return [
        '0' * 8 + '1' * 8,
        '01' * 8,
        '0' * 7 + '1' + '0' * 8,
        '1' * 7 + '0' + '1' * 8,
        prbs7(16),
        seeded(16, seed, 1),
        seeded(16, seed, 2),
        prbs7(64),
    ]


def all_words(n):
    """all 2^n - 2 words of length n containing both symbols, in counting order"""
    return [format(i, f'0{n}b') for i in range(1, 2 ** n - 1)]


FLIP_POS = (0, 1, 'mid', -2, -1)


def flip_sets(n):
    pos = sorted({p % n if p != 'mid' else n // 2 for p in FLIP_POS})
    out = []
    for k in (1, 2, 3):
        out += list(itertools.combinations(pos, k))
    return out


# ------------------------------------------------------------------ the link (real blocks only)
class CallFormError(Exception):
    """a documented alternative call form did not return what its docstring says (reported as a violation, not a crash)"""


def run_link(cfg, bits):
    """bits: uint8 array.  Returns the PD output (electrical_signal)."""
    import contextlib, io
    from opticomlib.devices import DAC, MZM, DM, FIBER, PD
    from opticomlib.typing import optical_signal
    d = dict(zip(NAMES, cfg))
    sps, R = d['sps'], d['R']
    gv_reset(sps=sps, R=R)
    fs = sps * R
    n = bits.size * sps
    tx = d['txopt']
    dac_kw = {}
    if tx == 'dac-bw':
        dac_kw['BW'] = min(2 * R, 0.4 * fs)
    if tx == 'dac-bias':
        v = DAC(bits, bias=-d['Vpi'], Vout=d['Vpi'], pulse_shape='rect' if d['pulse'] == 'nrz' else d['pulse'])
    else:
        v = DAC(bits, Vout=d['Vpi'], pulse_shape=d['pulse'], **dac_kw)
    P = 1e-3 * 10 ** (d['launch'] / 10)                       # launch power in W
    if d['layout'] == '1pol':
        cw = optical_signal(np.full(n, P ** 0.5))
    else:
        a = (P / 2) ** 0.5
        cw = optical_signal(np.array([np.full(n, a), np.full(n, a)]))
    mzm_kw = {}
    if tx != 'dac-bias':
        mzm_kw['bias'] = -d['Vpi']
    if tx == 'mzm-bw':
        mzm_kw['BW'] = min(4 * R, 0.8 * fs)
    if d['layout'] == '2pol-y':
        mzm_kw['pol'] = 'y'
    m = MZM(cw, v, Vpi=d['Vpi'], loss_dB=d['loss'], ER_dB=d['ER'], **mzm_kw)
    if d['layout'] == '2pol-rot':
        e = np.array(m.signal[0])
        m = optical_signal(np.array([e / 2 ** 0.5, -e / 2 ** 0.5]))
    ch = d['chan']
    if ch != 'none':
        T2 = (1e12 / R) ** 2                                   # slot period squared, ps^2
        D = DISP_FRACTION * T2 * (1 if ch.endswith('+') else -1)
        kind = ch.rstrip('+-')
        if kind == 'dm':
            m = DM(m, D)
        elif kind == 'dmH':
            out = DM(m, D, retH=True)
            if not (isinstance(out, tuple) and len(out) == 2 and isinstance(out[0], optical_signal)
                    and np.shape(out[1])[-1:] == (n,)):
                raise CallFormError(f'DM(..., retH=True) returned {type(out).__name__}'
                                    + (f' of {[type(o).__name__ for o in out]}' if isinstance(out, tuple) else '')
                                    + f', documented: (optical_signal, H[{n}])')
            m = out[0]
        else:
            L = min(50.0, abs(D) / 20.0)                       # km ; beta2 = D/L  (20 ps^2/km unless that needs > 50 km)
            if kind == 'fiber':
                m = FIBER(m, length=L, alpha=0.2, beta_2=D / L, gamma=0.0)
            else:
                with contextlib.redirect_stderr(io.StringIO()):
                    m = FIBER(m, L, beta_2=D / L, show_progress=True)
    pd_kw = {}
    if d['pdopt'] == 'alt':
        pd_kw = dict(T=77.0, Fn=6.0, i_dark=0.0)
    y = PD(m, BW=d['bwf'] * R, r=d['r'], R_load=d['RL'], include_noise='ase-only', **pd_kw)
    return y


def bits_of(word):
    return np.frombuffer(word.encode(), dtype=np.uint8) - 48


def key_class(cfg):
    """stage values that differ from the baseline stages (pulse shaper / polarisation layout / channel): a defect in one
    block shows up under the classes that contain that block, so different defects get different keys"""
    d = dict(zip(NAMES, cfg))
    dev = [v for v, b in ((d['pulse'], 'nrz'), (d['layout'], '1pol'), (d['chan'].rstrip('+-'), 'none'), (d['txopt'], 'std'),
                          ('pd-' + d['pdopt'], 'pd-std')) if v != b]
    return '+'.join(dev) if dev else 'base'


def total(x):
    return (x.signal + x.noise).real if x.noise is not None else np.asarray(x.signal).real


# ------------------------------------------------------------------ case: plain link + midway threshold
def link_case(case):
    cfg, word = case
    from opticomlib.devices import SAMPLER
    from opticomlib.typing import binary_sequence
    np.random.seed(0)
    bits = bits_of(word)
    sps = cfg[0]
    kc = key_class(cfg)
    # the link is run under the scripted RNG: a noise-free field through PD('ase-only') must not request a single draw
    try:
        with scripted_rng(ScriptedRNG()) as rng:
            y = run_link(cfg, bits)
    except CallFormError as e:
        return res(viol=[(f'link:call-form:{kc}', f'cfg={dict(zip(NAMES, cfg))} word={word}: {e}')], obs=('call-form', str(e)),
                   nontrivial=True, stats={'link_runs': 1})
    viol = []
    if rng.requests:
        viol.append(('link:random-draw-with-noise-off', f'cfg={cfg} word={word}: the noise-free link requested random numbers: {rng.requests[:2]}'))
    if y.len() != bits.size * sps:
        viol.append(('link:length', f'cfg={cfg} word={word}: PD output has {y.len()} samples, expected {bits.size*sps}'))
    s = SAMPLER(y, sps // 2)
    tot = total(s)
    if tot.size != bits.size:
        viol.append(('link:sample-count', f'cfg={cfg} word={word}: SAMPLER returned {tot.size} samples for {bits.size} slots'))
        return res(viol=viol, obs=('count', tot.size), nontrivial=True, stats={'link_runs': 1})
    if not np.all(np.isfinite(tot)):
        viol.append(('link:nonfinite', f'cfg={cfg} word={word}: non-finite received samples'))
        return res(viol=viol, obs=('nonfinite',), nontrivial=True, stats={'link_runs': 1})
    b = bits.astype(bool)
    m1, m0 = tot[b].mean(), tot[~b].mean()
    thr = (m1 + m0) / 2
    dec = tot > thr
    margin = None
    if not np.array_equal(dec, b):
        bad = np.flatnonzero(dec != b)
        viol.append((f'link:bits:{kc}', f'cfg={dict(zip(NAMES, cfg))} word={word}: decided {"".join(map(str, dec.astype(int)))} '
                     f'(differs at slots {bad.tolist()[:8]}); levels m1={m1:.6g} m0={m0:.6g} thr={thr:.6g}'))
    else:
        margin = float(min(tot[b].min() - thr, thr - tot[~b].max()) / (m1 - m0))
        # the library's own comparison operator on the sampled signal must give the same decision
        lib = s > float(thr)
        ld = np.asarray(lib.data).astype(bool) if isinstance(lib, binary_sequence) else None
        if ld is None or not np.array_equal(ld, b):
            viol.append((f'link:gt-operator', f'cfg={dict(zip(NAMES, cfg))} word={word}: (SAMPLER(y) > thr) gave '
                         f'{None if ld is None else "".join(map(str, ld.astype(int)))}, numpy comparison gives the word'))
    return res(viol=viol, obs=(word, tot.tobytes()), nontrivial=True,
               stats={'link_runs': 1, 'slots': int(bits.size)}, payload=margin)


# ------------------------------------------------------------------ case: ook.DSP + ook.BER_analizer
def check_counter(fn, name, tx_bits, rx_seq, viol, tag):
    """BER_analizer('counter') must be exactly 0 for rx == tx[:n] and exactly k/n for every flip set, n = len(rx) = the number of
    compared bits (= the length of 'the sequence with k flipped bits' of the statement).  tx_bits may be longer than rx (the
    data handed to PPM_ENCODER when its length is not a multiple of log2 M; both counters cut Tx to the received length)."""
    from opticomlib.typing import binary_sequence
    n = int(np.asarray(rx_seq.data).size)
    tx = binary_sequence(tx_bits.copy())
    ragged = '' if tx_bits.size == n else f' (Tx has {tx_bits.size} bits, Rx {n})'
    ksfx = '' if tx_bits.size == n else ':tx-longer'
    v = fn('counter', Tx=tx, Rx=rx_seq)
    cnt = 1
    if not (v == 0):
        viol.append((f'{name}.ber:zero{ksfx}', f'{tag}: BER_analizer(counter) of the decoded output{ragged} = {v!r}, expected exactly 0'))
    for fs in flip_sets(n):
        f = tx_bits[:n].copy()
        f[list(fs)] ^= 1
        v = fn('counter', Tx=tx, Rx=binary_sequence(f))
        cnt += 1
        if not (v == len(fs) / n):
            viol.append((f'{name}.ber:k/n{ksfx}', f'{tag}: {len(fs)} flipped bits at {fs} of n={n}{ragged}: BER_analizer(counter) = {v!r}, '
                         f'expected {len(fs)}/{n} = {len(fs)/n!r}'))
            break
    return cnt


def ook_case(case):
    cfg, word, seed = case[:3]
    dspbw = case[3] if len(case) > 3 else None      # ook.DSP(y, BW=dspbw*R): the routine's optional receiver filter
    from opticomlib import ook
    from opticomlib.typing import binary_sequence
    bits = bits_of(word)
    tag = f'cfg={dict(zip(NAMES, cfg))} n={bits.size} word={word[:40]} kmeans_seed={seed}' + (f' DSP(BW={dspbw}R)' if dspbw else '')
    np.random.seed(seed)            # own the global RNG for the whole case (the link itself must not draw from it)
    try:
        y = run_link(cfg, bits)
    except CallFormError as e:
        return res(viol=[(f'link:call-form:{key_class(cfg)}', f'{tag}: {e}')], obs=('call-form', str(e)), nontrivial=True,
                   stats={'ook_dsp_runs': 1})
    np.random.seed(seed)
    out = ook.DSP(y) if dspbw is None else ook.DSP(y, BW=dspbw * cfg[NAMES.index('R')])
    viol = []
    if not (isinstance(out, tuple) and len(out) == 3 and isinstance(out[0], binary_sequence)):
        viol.append(('ook.dsp:return-type', f'{tag}: DSP returned {type(out).__name__}'))
        return res(viol=viol, obs='type', nontrivial=True, stats={'ook_dsp_runs': 1})
    rx, eye_obj, rth = out
    d = np.asarray(rx.data).astype(np.uint8)
    nber = 0
    if d.size != bits.size or not np.array_equal(d, bits):
        bad = np.flatnonzero(d[:bits.size] != bits[:d.size]).tolist()[:8] if d.size else []
        viol.append((f'ook.dsp:bits:{key_class(cfg)}' + (':dsp-bw' if dspbw else ''), f'{tag}: DSP returned {d.size} bits, differing at {bad}; rth={rth!r} '
                     f'mu0={getattr(eye_obj, "mu0", None)!r} mu1={getattr(eye_obj, "mu1", None)!r}'))
    else:
        nber = check_counter(ook.BER_analizer, 'ook', bits, rx, viol, tag)
    return res(viol=viol, obs=(word, d.tobytes(), repr(float(rth))), nontrivial=(cfg, word, dspbw),
               stats={'ook_dsp_runs': 1, 'ber_calls': nber})


# ------------------------------------------------------------------ case: PPM_ENCODER -> link -> ppm.DSP
def ppm_data(M, which, seed):
    k = int(np.log2(M))
    nsym = 16
    if which == 'ramp':            # every symbol value 0..M-1 (twice when M < 16), MSB first
        syms = [i % M for i in range(nsym)]
        return ''.join(format(s, f'0{k}b') for s in syms)
    if which == 'prbs':
        return prbs7(k * nsym)
    if which.startswith('ragged'):
        # data whose length is NOT a multiple of log2 M: 16 whole symbols + r in 1..log2(M)-1 further bits that the encoder
        # cannot send (it sends whole symbols only); the receiver must return the first k*16 bits.  r = 1 and r = log2(M)-1.
        r = 1 if which == 'ragged1' else k - 1
        assert 1 <= r < k
        return seeded(k * nsym + r, seed, 200 + M + 1000 * r)
    return seeded(k * nsym, seed, 100 + M)


def ppm_kinds(M):
    k = int(np.log2(M))
    return ['ramp', 'prbs', 'seeded'] + (['ragged1'] if k >= 2 else []) + (['raggedmax'] if k >= 3 else [])


def ref_ppm_slots(data, M):
    k = int(np.log2(M))
    out = []
    for i in range(0, len(data) - len(data) % k, k):
        s = int(data[i:i + k], 2)
        out += [1 if j == s else 0 for j in range(M)]
    return np.array(out, dtype=np.uint8)


def ppm_case(case):
    cfg, M, which, data, seed = case
    from opticomlib import ppm
    from opticomlib.typing import binary_sequence
    np.random.seed(seed)
    dbits = bits_of(data)
    tag = f'cfg={dict(zip(NAMES, cfg))} M={M} data({which})={data} seed={seed}'
    viol = []
    slots = ppm.PPM_ENCODER(binary_sequence(dbits.copy()), M)
    sl = np.asarray(slots.data).astype(np.uint8)
    ref = ref_ppm_slots(data, M)
    if not np.array_equal(sl, ref):
        viol.append(('ppm.encoder:slots', f'{tag}: PPM_ENCODER gave {"".join(map(str, sl))}, reference {"".join(map(str, ref))}'))
        return res(viol=viol, obs=('enc', sl.tobytes()), nontrivial=True, stats={'ppm_runs': 1})
    np.random.seed(seed)
    try:
        y = run_link(cfg, sl)
    except CallFormError as e:
        return res(viol=[(f'link:call-form:{key_class(cfg)}', f'{tag}: {e}')], obs=('call-form', str(e)), nontrivial=True,
                   stats={'ppm_runs': 1})
    k = int(np.log2(M))
    sent = dbits[:dbits.size - dbits.size % k]      # the whole symbols = what PPM_ENCODER transmitted (asserted above)
    obs = [data, M]
    nber = 0
    for decision in ('soft', 'hard'):
        np.random.seed(seed)
        rx = ppm.DSP(y, M, decision=decision)
        if not isinstance(rx, binary_sequence):
            viol.append((f'ppm.dsp:return-type:{decision}', f'{tag}: DSP returned {type(rx).__name__}'))
            continue
        d = np.asarray(rx.data).astype(np.uint8)
        obs.append(d.tobytes())
        if d.size != sent.size or not np.array_equal(d, sent):
            viol.append((f'ppm.dsp:{decision}:bits:{which}-data', f'{tag}: ppm.DSP({decision}) returned {"".join(map(str, d))}'))
        else:
            # Tx = the data word the user handed to the encoder (longer than Rx for the ragged words)
            nber += check_counter(ppm.BER_analizer, 'ppm', dbits, rx, viol, tag + f' decision={decision}')
    return res(viol=viol, obs=tuple(obs), nontrivial=(cfg, M, data), stats={'ppm_runs': 1, 'ber_calls': nber})


# ------------------------------------------------------------------ case: BER counters on plain sequences
TX_EXTRA = ('', '0', '1', '01', '110')     # bits of Tx beyond the end of Rx (Tx longer than Rx: the counters compare the first len(Rx) bits)


def ber_case(case):
    which, word, extra = case
    from opticomlib import ook, ppm
    from opticomlib.typing import binary_sequence
    fn = ook.BER_analizer if which == 'ook' else ppm.BER_analizer
    bits = bits_of(word)
    txb = np.concatenate([bits, bits_of(extra)]) if extra else bits
    viol = []
    n = check_counter(fn, which, txb, binary_sequence(bits.copy()), viol,
                      f'{which}.BER_analizer n={bits.size} word={word[:32]} tx-extra={extra!r}')
    # complement: every compared bit wrong -> exactly 1
    v = fn('counter', Tx=binary_sequence(txb.copy()), Rx=binary_sequence(1 - bits))
    if not (v == 1):
        viol.append((f'{which}.ber:k/n' + (':tx-longer' if extra else ''),
                     f'{which}.BER_analizer: all {bits.size} compared bits flipped (Tx has {txb.size} bits) -> {v!r}, expected 1'))
    return res(viol=viol, obs=(which, word, extra), nontrivial=True, stats={'ber_calls': n + 1})


# ------------------------------------------------------------------ driver
def run(ctx):
    quick = ctx.quick
    seed = ctx.seed
    k_lat = 3 if quick else 3
    nw = 8 if quick else 10
    lat1 = lattice(1)
    latk = lattice(k_lat)
    if quick:
        latk = [c for c in latk if ndev(c) <= 2 or not has_option(c)]
    ctx.space('config.lattice.k<=1', len(lat1))
    ctx.space(f'config.lattice.k<={k_lat}' + ('(option deviations k<=2)' if quick else ''), len(latk))
    ctx.rule(f'C03: real blocks chained DAC->MZM(CW)->[DM|FIBER gamma=0]->PD(ase-only, noise-free field)->SAMPLER(sps//2)->'
             f'threshold midway between the received level means; oracle = the transmitted word, exact equality. '
             f'Deviation lattice over {len(AXES)} axes ' + '; '.join(f'{a}{v}' for a, v in AXES) +
             f' (points with PD BW >= fs/2 dropped; |beta2*L| = {DISP_FRACTION*100:.1f}% of T_slot^2). '
             f'link.words: all {2**nw-2} words of length {nw} with both symbols x the {len(lat1)} configurations with <= 1 deviation. '
             f'link.lattice: 8 fixed words x the {len(latk)} configurations with <= {k_lat} deviations' +
             (f' (<= 2 when one is an option deviation {sorted(OPTION_VALUES)})' if quick else '') + ('. ' if quick else '; link.words8.k=2: all 254 words of length 8 x the configurations with exactly 2 deviations. ') +
             f'ook.dsp (words of 32/64/127 slots, PRBS7 and seeded-random) and ppm.dsp (M in 2,4,8,16 x data words ramp/PRBS7/seeded of '
             f'16 symbols + ragged words of 16 symbols + r bits, r in {{1, log2(M)-1}}, soft and hard with estimated threshold): the '
             f'configurations with <= {1 if quick else 2} deviations (option deviations alone) plus '
             f'{len(CORNERS)} corner points (largest/smallest received voltage, dispersive channel x finest grid / widest PD bandwidth) '
             f'plus every pair of deviations among the eye-shaping axes {[a for a, _ in EYE_AXES]} ({len(eye_tuples(2))} points'
             + (', first KMeans seed, no ragged words' if quick else f'; ook.dsp also every triple, {len(eye_tuples(3))} points') + ') '
             f'x KMeans seed alphabet {(0, 1) if quick else (0, 1, 2)}; ook.DSP(BW=min(2R, 0.4fs)) on the k<=1 configurations; '
             f'on every decoded output both BER_analizer(counter) must give '
             f'exactly 0 and exactly k/n (n = len(Rx) = compared bits; Tx = the data handed to the encoder, longer than Rx for ragged '
             f'words) for every flip set of size 1..3 over positions {FLIP_POS}; ber.counter repeats that on plain '
             f'sequences of length 2..127 with Tx longer than Rx by {TX_EXTRA}')
    ctx.assume('noise-free means: no noise attached to the optical field and PD(include_noise="ase-only"), which leaves only the '
               'deterministic dark-current offset; link.* cases run under the scripted RNG and report any random draw as a violation')
    ctx.assume('GET_EYE draws from numpy\'s global RNG through KMeans; owned by np.random.seed(s), s from a small seed alphabet, '
               'single-threaded workers')
    ctx.assume('VERIF_SEED selects only the content of the seeded-random words')

    # --- part 1: all short words at k<=1
    words = all_words(nw)
    cases = [(c, w) for c in lat1 for w in words]
    import time
    t0 = time.time()
    m1 = ctx.pmap('link.words', link_case, cases, horizon=30)
    print(f'[C03] link.words done in {time.time()-t0:.1f}s', flush=True); t0 = time.time()

    m1b = []
    if not quick:
        # thorough only: all 8-bit words on every configuration with exactly 2 deviations
        s1 = set(lat1)
        cases = [(c, w) for c in lattice(2) if c not in s1 for w in all_words(8)]
        m1b = ctx.pmap('link.words8.k=2', link_case, cases, horizon=30)
        print(f'[C03] link.words8.k=2 done in {time.time()-t0:.1f}s', flush=True); t0 = time.time()

    # --- part 2: fixed words on the k-lattice
    fw = fixed_words(seed)
    cases = [(c, w) for c in latk for w in fw]
    m2 = ctx.pmap('link.lattice', link_case, cases, horizon=30)
    print(f'[C03] link.lattice done in {time.time()-t0:.1f}s', flush=True); t0 = time.time()
    ms = [m for m in (m1 + m1b + m2) if m is not None]
    if ms:
        ctx.extra['min_relative_decision_margin'] = round(min(ms), 4)   # (distance of the closest sample to the threshold)/(m1-m0); 0.5 = ideal
        print(f'[C03] smallest relative decision margin over {len(ms)} link runs: {min(ms):.4f} (0.5 = ideal levels)', flush=True)

    # --- part 3: ook.DSP
    seeds = (0, 1) if quick else (0, 1, 2)
    ook_words = [prbs7(32), seeded(32, seed, 32), prbs7(64), seeded(64, seed, 64), prbs7(127), seeded(127, seed, 127)]
    # option deviations give the same field as the plain call (asserted by the link parts up to k<=3): the packaged routines see
    # them alone (k<=1) in both tiers; the thorough tier adds every pair of the other deviations
    base_cfgs = lat1 if quick else [c for c in lattice(2) if ndev(c) <= 1 or not has_option(c)]
    have = set(base_cfgs)
    extra = []
    for c in CORNERS + eye_tuples(2):            # voltage / dispersive corners, then every pair of eye-shaping deviations
        if c not in have:
            have.add(c); extra.append(c)
    dsp_cfgs = base_cfgs + extra
    ctx.space('config.dsp', len(dsp_cfgs))
    ctx.space('config.dsp.eye-pairs', len(eye_tuples(2)))
    # KMeans seed alphabet: all seeds on the k<=1 (thorough k<=2) lattice and the corners; the quick tier runs the further
    # eye pairs with the first seed only
    pair_only = set(extra) - set(CORNERS) if quick else set()
    seeds_of = lambda c: seeds[:1] if c in pair_only else seeds
    cases = [(c, w, s) for c in dsp_cfgs for w in ook_words for s in seeds_of(c)]
    # the routine's own optional argument: ook.DSP(y, BW=2R) (min(2R, 0.4 fs)) on the k<=1 configurations, first seed
    cases += [(c, w, seeds[0], min(2.0, 0.4 * c[0])) for c in lat1 for w in ook_words]
    if not quick:
        # thorough: every triple of eye-shaping deviations for ook.DSP
        cases += [(c, w, s) for c in eye_tuples(3) if c not in have for w in ook_words for s in seeds]
    ctx.pmap('ook.dsp', ook_case, cases, horizon=120)
    print(f'[C03] ook.dsp done in {time.time()-t0:.1f}s', flush=True); t0 = time.time()

    # --- part 4: ppm.DSP
    cases = []
    for c in dsp_cfgs:
        for M in (2, 4, 8, 16):
            # the ragged data words test the length handling, not the eye: not repeated on the quick tier's extra eye pairs
            for which in (ppm_kinds(M)[:3] if c in pair_only else ppm_kinds(M)):
                for s in seeds_of(c):
                    cases.append((c, M, which, ppm_data(M, which, seed), s))
    ctx.pmap('ppm.dsp', ppm_case, cases, horizon=120)
    print(f'[C03] ppm.dsp done in {time.time()-t0:.1f}s', flush=True); t0 = time.time()

    # --- part 5: counters on plain sequences
    bw = ['01', '10', '0110', prbs7(8), '0' * 7 + '1', prbs7(16), prbs7(32), prbs7(127), seeded(33, seed, 33)]
    if not quick:
        bw += all_words(6)
    cases = [(which, w, x) for x in TX_EXTRA for which in ('ook', 'ppm') for w in bw]
    ctx.pmap('ber.counter', ber_case, cases, horizon=30)
