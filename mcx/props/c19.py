"""C19 - unit conversions, Q, gaus, rcos, dec2bin, str2array and si of opticomlib.utils are
self-consistent (bounded-exhaustive exploration, DESIGN.md 5/C19).

Every family enumerates a stated finite input space completely and compares each result of the
REAL function with a boring oracle (identities of the statement, `format(v,'b')`, the array
that was rendered into the text, exact rational arithmetic for the SI mantissa).  Cheap cases
are batched: one `case_fn` call handles one decade / one digit count / one array shape; the
number of individual library results compared ("items") is what is reported as `evaluations`,
and distinct non-trivial items / distinct outcomes are counted per item (64-bit hashes returned
in the payload and merged in `run`).

Violation keys  (<family>:<clause>[:<input class>]):
  db:*  dbm:*  idb:*  idbm:*       inverse pairs, homomorphism, +30, negative -> ValueError
  Q:*  gaus:*                      symmetry, monotone, Q(0), tail of the Gaussian, integral one
  rcos:<clause>:<scalar|float-array|int-array>   clause in range, even, half-value, vanish, shape
  dec2bin:expansion|length|no-ValueError
  str2array:<clause>:<alphabet>    clause in value, kind, shape, dtype, ValueError-on-valid,
                                   invalid-char-accepted[:<class>], invalid-char-raises-<Type>[:<class>]
                                   (class of the inserted / substituted character: none for printable ASCII, control,
                                   unicode-decimal-digit, unicode-numeric, look-alike, format-char, unicode-letter,
                                   unicode-punctuation, unicode-symbol, combining-mark)
  si:<format|roundtrip|mantissa-range>:<femto..tera>
"""
from __future__ import annotations

import hashlib
import itertools
import math
import re
import warnings
from fractions import Fraction

import numpy as np

from mcx.core.kernel import res

ID = 'C19'
LEVEL = 'exploration'
NONTRIVIAL = ('an item (one library result compared with the oracle) is non-trivial when: db family x != 1 / d != 0; '
              'Q,gaus x != 0; rcos point in the roll-off band or on a corner; dec2bin v >= 1 or the ValueError cases; '
              'str2array text with >= 2 tokens or a sign/dot/imaginary unit or an explicit dtype or an inserted bad '
              'character; si x outside [1,1000) (a prefix is needed).  Distinct items are counted by a 64-bit hash '
              'of (family, input)')

EPS = 2.0 ** -52


# ===================================================================== accounting helpers
def _h(*parts):
    return int.from_bytes(hashlib.blake2b(repr(parts).encode(), digest_size=8).digest(), 'little')


class Acc:
    """collects violations and per-item hashes of one batch"""
    MAXV = 40

    def __init__(self, fam):
        self.fam = fam
        self.viol = []
        self.perkey = {}
        self.nt = []
        self.out = []
        self.items = 0
        self.stats = {}
        self.hh = hashlib.sha256()

    def v(self, key, msg):
        n = self.perkey.get(key, 0)
        self.perkey[key] = n + 1
        if n < self.MAXV:
            self.viol.append((key, msg))
        else:
            self.stat('violations-not-listed')

    def stat(self, k, n=1):
        self.stats[k] = self.stats.get(k, 0) + n

    def item(self, ident, outcome, nontrivial=True):
        """one library result compared with the oracle"""
        self.items += 1
        oh = _h(self.fam, outcome)
        self.out.append(oh)
        self.hh.update(oh.to_bytes(8, 'little'))
        if nontrivial:
            self.nt.append(_h(self.fam, ident))

    def done(self):
        self.stat(f'items.{self.fam}', self.items)
        return res(viol=self.viol, obs=self.hh.hexdigest(), stats=self.stats,
                   payload={'nt': np.array(self.nt, dtype=np.uint64).tobytes(),
                            'out': np.array(self.out, dtype=np.uint64).tobytes(),
                            'items': self.items})


def arr_key(a):
    a = np.asarray(a)
    return (a.dtype.str, a.shape, a.tobytes())


def call(fn, *a, **kw):
    """('ok', value) | ('exc', exception) ; harness never lets a library exception escape a batch"""
    try:
        return 'ok', fn(*a, **kw)
    except Exception as e:  # noqa
        return 'exc', e


# ===================================================================== db / dbm / idb / idbm
MANT = [1, 1.5, 2, 3.14159, 5, 9.999]
DECADES = list(range(-15, 15))                      # 30 decades
ALLPOS = [float(f'{m}e{e}') for e in DECADES for m in MANT]   # 180 positives, correctly rounded decimals
DBVALS = sorted({k / 2 for k in range(-600, 601)}, key=lambda d: (abs(d), d < 0))   # 1201 values, simplest first
RT_INV = 1e-12     # inverse pairs: rounding bound ~ (|log10 x| ln10 + 2) eps ~ 1e-14 relative (100x margin)
AT_DB = 1e-12      # db(idb(d)) - d: bound ~ 7e-14 absolute for |d| <= 300
AT_HOM = 1e-11     # db(x*y)-(db(x)+db(y)), dbm(x)-(db(x)+30): three log10 roundings of size <= 3.3e-14 each


def _rel_ok(got, want, rt):
    got = np.asarray(got, dtype=float)
    want = np.asarray(want, dtype=float)
    return got.shape == want.shape and bool(np.all(np.abs(got - want) <= rt * np.abs(want)))


def _abs_ok(got, want, at):
    got = np.asarray(got, dtype=float)
    want = np.asarray(want, dtype=float)
    return got.shape == want.shape and bool(np.all(np.abs(got - want) <= at))


def _forms(vals):
    """scalar and container forms of a list of floats: (name, object, reference ndarray)"""
    out = []
    for x in vals:
        out.append(('float', x, np.float64(x)))
        out.append(('np.float64', np.float64(x), np.float64(x)))
        if float(x).is_integer() and abs(x) < 2 ** 62:
            out.append(('int', int(x), np.float64(x)))
    a = np.array(vals, dtype=float)
    out.append(('list', list(vals), a))
    out.append(('tuple', tuple(vals), a))
    out.append(('array', a.copy(), a))
    out.append(('array2d', np.array([vals, vals[::-1]], dtype=float), np.array([vals, vals[::-1]], dtype=float)))
    if all(float(x).is_integer() and abs(x) < 2 ** 62 for x in vals):
        out.append(('int-array', np.array([int(x) for x in vals], dtype=np.int64), a))
    return out


def _neg(obj):
    if isinstance(obj, np.ndarray):
        return -obj
    if isinstance(obj, list):
        return [-v for v in obj]
    if isinstance(obj, tuple):
        return tuple(-v for v in obj)
    return -obj


def fam_db(case):
    from opticomlib.utils import db, dbm, idb, idbm
    _, e = case
    A = Acc('db')
    xs = [float(f'{m}e{e}') for m in MANT]
    allpos = np.array(ALLPOS)
    for name, obj, ref in _forms(xs):
        tag = f'{name}:{obj!r}'[:120]
        # inverse pairs
        for fwd, inv, key in ((db, idb, 'db:idb(db(x))!=x'), (dbm, idbm, 'dbm:idbm(dbm(x))!=x')):
            st, y = call(fwd, obj)
            if st == 'exc':
                A.v(f'{key.split(":")[0]}:raises-{type(y).__name__}', f'{fwd.__name__}({tag}) raised {y!r}')
                continue
            st, z = call(inv, y)
            if st == 'exc':
                A.v(f'{inv.__name__}:raises-{type(z).__name__}', f'{inv.__name__}({y!r}) raised {z!r}')
                continue
            A.item((fwd.__name__, name, repr(obj)), arr_key(y), nontrivial=bool(np.any(ref != 1)))
            if not _rel_ok(z, ref, RT_INV):
                A.v(key, f'{inv.__name__}({fwd.__name__}({tag})) = {z!r}, expected {ref!r} (rtol {RT_INV})')
        # dbm = db + 30
        s1, a = call(db, obj)
        s2, b = call(dbm, obj)
        if s1 == 'ok' and s2 == 'ok':
            A.item(('dbm-db', name, repr(obj)), arr_key(np.asarray(b) - np.asarray(a)), nontrivial=bool(np.any(ref != 1)))
            if not _abs_ok(b, np.asarray(a, dtype=float) + 30, AT_HOM):
                A.v('dbm:dbm(x)!=db(x)+30', f'dbm({tag}) = {b!r}, db+30 = {np.asarray(a) + 30!r}')
        # negative inputs raise ValueError
        for fn in (db, dbm):
            st, y = call(fn, _neg(obj))
            A.item((fn.__name__, 'neg', name, repr(obj)), ('exc', type(y).__name__) if st == 'exc' else arr_key(y))
            if st == 'ok':
                A.v(f'{fn.__name__}:negative-accepted', f'{fn.__name__}({_neg(obj)!r}) returned {y!r}, ValueError required')
            elif not isinstance(y, ValueError):
                A.v(f'{fn.__name__}:negative-raises-{type(y).__name__}', f'{fn.__name__}({_neg(obj)!r}) raised {y!r}, ValueError required')
    # one negative entry among positives, at every position
    for pos in range(len(xs)):
        mixed = list(xs)
        mixed[pos] = -mixed[pos]
        for cont in (list, tuple, np.array):
            for fn in (db, dbm):
                st, y = call(fn, cont(mixed))
                A.item((fn.__name__, 'mixed', cont.__name__, pos, e), ('exc', type(y).__name__) if st == 'exc' else arr_key(y))
                if st == 'ok' or not isinstance(y, ValueError):
                    A.v(f'{fn.__name__}:negative-accepted', f'{fn.__name__}({cont(mixed)!r}) -> {y!r}, ValueError required')
    # homomorphism against all 180 positives: array calls and scalar calls
    st0, dball = call(db, allpos)
    dby = [call(db, y) for y in ALLPOS]                  # scalar db(y), once per y
    for x in xs:
        st1, dx = call(db, x)
        st2, dxy = call(db, x * allpos)
        if 'exc' in (st0, st1, st2):
            A.v('db:raises', f'db raised on positives: {dball!r} {dx!r} {dxy!r}'[:300])
            continue
        A.item(('hom-array', x), arr_key(dxy))
        bad = np.abs(np.asarray(dxy) - (dx + np.asarray(dball))) > AT_HOM
        if bad.any():
            j = int(np.argmax(bad))
            A.v('db:db(x*y)!=db(x)+db(y)', f'x={x!r} y={ALLPOS[j]!r}: db(x*y)={dxy[j]!r}, db(x)+db(y)={dx + dball[j]!r} (array call)')
        for j, y in enumerate(ALLPOS):
            s, dxy1 = call(db, x * y)
            s3, dy = dby[j]
            if s == 'exc' or s3 == 'exc':
                A.v('db:raises', f'db({x * y!r}) or db({y!r}) raised')
                continue
            A.item(('hom', x, y), float(dxy1).hex())
            if not abs(float(dxy1) - (float(dx) + float(dy))) <= AT_HOM:
                A.v('db:db(x*y)!=db(x)+db(y)', f'x={x!r} y={y!r}: db(x*y)={dxy1!r}, db(x)+db(y)={float(dx) + float(dy)!r}')
    return A.done()


def fam_dbv(case):
    from opticomlib.utils import db, dbm, idb, idbm
    _, lo, hi = case
    ds = DBVALS[lo:hi]
    A = Acc('dbv')
    for name, obj, ref in _forms(ds):
        tag = f'{name}:{obj!r}'[:120]
        for inv, fwd, key in ((idb, db, 'idb:db(idb(d))!=d'), (idbm, dbm, 'idbm:dbm(idbm(d))!=d')):
            st, y = call(inv, obj)
            if st == 'exc':
                A.v(f'{inv.__name__}:raises-{type(y).__name__}', f'{inv.__name__}({tag}) raised {y!r}')
                continue
            st, z = call(fwd, y)
            if st == 'exc':
                A.v(f'{fwd.__name__}:raises-{type(z).__name__}', f'{fwd.__name__}({inv.__name__}({tag})) raised {z!r}')
                continue
            A.item((inv.__name__, name, repr(obj)), arr_key(y), nontrivial=bool(np.any(ref != 0)))
            if not _abs_ok(z, ref, AT_DB):
                A.v(key, f'{fwd.__name__}({inv.__name__}({tag})) = {z!r}, expected {ref!r} (atol {AT_DB})')
    return A.done()


# ===================================================================== Q / gaus
QGRID = [k / 16 for k in range(-128, 129)]     # [-8, 8] step 1/16, exact dyadics
GAUS_PAR = [(mu, sd) for mu in (0, -2, 3.5) for sd in (1, 0.1, 7)] + [(None, None), (None, 0.1), (3.5, None)]


def fam_q(case):
    from opticomlib.utils import Q, gaus
    from scipy.stats import norm
    from scipy.integrate import quad
    _, form = case
    A = Acc('Q')
    x = np.array(QGRID)
    ref = norm.sf(x)
    if form == 'array':
        st, q = call(Q, x)
        st2, qm = call(Q, -x)
    elif form == 'list':
        st, q = call(Q, list(QGRID))
        st2, qm = call(Q, [-t for t in QGRID])
    elif form == 'tuple2d':
        st, q = call(Q, (tuple(QGRID), tuple(QGRID)))
        st2, qm = call(Q, (tuple(-t for t in QGRID), tuple(-t for t in QGRID)))
        if st == 'ok' and st2 == 'ok':
            q, qm = np.asarray(q)[1], np.asarray(qm)[0]
    else:   # python scalars: floats ('scalar') or ints where the grid point is integral ('scalar-mixed')
        vals, valsm = [], []
        st = st2 = 'ok'
        for t in QGRID:
            tt = int(t) if (form == 'scalar-mixed' and float(t).is_integer()) else t
            s, v = call(Q, tt)
            s2, vm = call(Q, -tt)
            if s == 'exc' or s2 == 'exc':
                st = 'exc'
                break
            vals.append(float(v))
            valsm.append(float(vm))
        if st == 'ok':
            q, qm = np.array(vals, dtype=float), np.array(valsm, dtype=float)
    if st == 'exc' or st2 == 'exc':
        A.v('Q:raises', f'Q raised on the grid ({form})')
        return A.done()
    q = np.asarray(q, dtype=float)
    qm = np.asarray(qm, dtype=float)
    if q.shape != x.shape:
        A.v('Q:shape', f'Q({form}) has shape {q.shape}, expected {x.shape}')
        return A.done()
    for i, t in enumerate(QGRID):
        A.item((form, t), float(q[i]).hex(), nontrivial=(t != 0))
        if not abs(q[i] + qm[i] - 1) <= 1e-14:        # two erfc values of relative accuracy ~eps, sum <= 2
            A.v('Q:Q(x)+Q(-x)!=1', f'x={t}: Q(x)={q[i]!r} Q(-x)={qm[i]!r} sum-1={q[i] + qm[i] - 1:.3e} ({form})')
        if not abs(q[i] - ref[i]) <= 1e-12 * ref[i]:  # erfc(x/sqrt2): argument rounding gives x^2 eps <= 64 eps relative
            A.v('Q:not-the-gaussian-tail', f'x={t}: Q(x)={q[i]!r}, standard normal tail = {ref[i]!r} ({form})')
        if i and not q[i] <= q[i - 1]:
            A.v('Q:not-decreasing', f'Q({QGRID[i - 1]})={q[i - 1]!r} < Q({t})={q[i]!r} ({form})')
        if i and ref[i - 1] - ref[i] > 1e-14 and not q[i] < q[i - 1]:
            A.v('Q:not-decreasing', f'Q({QGRID[i - 1]})={q[i - 1]!r} == Q({t})={q[i]!r} (strict decrease expected, {form})')
    i0 = QGRID.index(0.0)
    if not abs(q[i0] - 0.5) <= 1e-15:
        A.v('Q:Q(0)!=1/2', f'Q(0) = {q[i0]!r} ({form})')
    if form.startswith('scalar'):
        # self-consistency with gaus: Q(a) is the integral of gaus over [a, inf)  (quad epsabs 1.5e-8)
        for a in range(-8, 9):
            val, err = quad(lambda t: float(gaus(t)), a, np.inf)
            A.item(('tail', a), round(val, 9))
            if not abs(val - q[QGRID.index(float(a))]) <= 1e-7:
                A.v('Q:not-the-integral-of-gaus', f'Q({a})={q[QGRID.index(float(a))]!r}, integral of gaus over [{a},inf) = {val!r}')
    return A.done()


def fam_gaus(case):
    from opticomlib.utils import gaus
    _, mu, sd = case
    A = Acc('gaus')
    m = 0 if mu is None else mu
    s = 1 if sd is None else sd
    kk = np.arange(-192, 193)                # mu +- 12 sigma, step sigma/16: trapezoid is spectrally exact here
    t = m + s * kk / 16.0                    # (aliasing error exp(-2 pi^2 256), truncation erfc(12/sqrt2) ~ 4e-33)
    h = s / 16.0
    kw = {}
    if mu is not None:
        kw['mu'] = mu
    if sd is not None:
        kw['std'] = sd
    for form in ('array', 'list', 'scalar', 'positional'):
        if form == 'array':
            st, g = call(gaus, t, **kw)
        elif form == 'list':
            st, g = call(gaus, list(t), **kw)
        elif form == 'positional':
            st, g = call(gaus, t, mu, sd)
        else:
            gl = []
            st = 'ok'
            for v in t:
                st, gv_ = call(gaus, float(v), **kw)
                if st == 'exc':
                    g = gv_
                    break
                gl.append(float(gv_))
            if st == 'ok':
                g = np.array(gl)
        if st == 'exc':
            A.v(f'gaus:raises-{type(g).__name__}', f'gaus(..., {kw}) raised {g!r} ({form})')
            continue
        g = np.asarray(g, dtype=float)
        if g.shape != t.shape:
            A.v('gaus:shape', f'shape {g.shape} for input shape {t.shape}')
            continue
        integral = float(np.sum(g) * h - 0.5 * h * (g[0] + g[-1]))
        A.item((form, mu, sd), arr_key(g))
        if not abs(integral - 1) <= 1e-12:    # 385 terms, each relative error few eps -> < 1e-13
            A.v('gaus:integral!=1', f'mu={mu} std={sd}: trapezoid integral over mu+-12 std = {integral!r} ({form})')
        if np.any(g < 0):
            A.v('gaus:negative', f'mu={mu} std={sd}: negative density ({form})')
    return A.done()


# ===================================================================== rcos
def rcos_points(alpha, T):
    lim = 1.5 / T
    n = int(math.floor(lim * 64))
    pts = {k / 64 for k in range(0, n + 1)}
    corners = [(1 - alpha) / (2 * T), 1 / (2 * T), (1 + alpha) / (2 * T)]
    for c in corners:
        pts.update([c, float(np.nextafter(c, np.inf)), float(np.nextafter(c, 0))] if c > 0 else [c])
    pts.update([lim, lim + 1, 10 / T, 1e6])
    pts = sorted(p for p in pts if p >= 0)
    return [-p for p in reversed(pts) if p > 0] + pts       # symmetric, sorted


def rcos_ints(T):
    m = int(math.ceil(1.5 / T)) + 1
    return list(range(-m, m + 1))


RCOS_FORMS = ['scalar', 'np.float64', 'array', 'list', 'tuple', 'array2d',
              'int-scalar', 'int-array', 'int32-array', 'int-list', 'int-tuple']


def fam_rcos(case):
    from opticomlib.utils import rcos
    _, alpha, T, form = case
    A = Acc('rcos')
    ints = form.startswith('int')
    xs = rcos_ints(T) if ints else rcos_points(alpha, T)
    n = len(xs)
    kind = 'scalar' if form in ('scalar', 'np.float64', 'int-scalar') else ('int-array' if ints else 'float-array')
    if kind == 'scalar':
        conv = {'scalar': float, 'np.float64': np.float64, 'int-scalar': int}[form]
        H = []
        for x in xs:
            st, v = call(rcos, conv(x), alpha, T)
            if st == 'exc':
                A.v(f'rcos:raises-{type(v).__name__}:{kind}', f'rcos({conv(x)!r},{alpha},{T}) raised {v!r}')
                return A.done()
            if np.ndim(v) != 0:
                A.v(f'rcos:shape:{kind}', f'rcos({conv(x)!r},{alpha},{T}) returned {v!r}')
                return A.done()
            H.append(float(v))
        H = np.array(H)
    else:
        if form == 'array':
            obj = np.array(xs, dtype=float)
        elif form == 'list':
            obj = [float(x) for x in xs]
        elif form == 'tuple':
            obj = tuple(float(x) for x in xs)
        elif form == 'array2d':
            obj = np.array([xs, xs[::-1]], dtype=float)
        elif form == 'int-array':
            obj = np.array(xs, dtype=np.int64)
        elif form == 'int32-array':
            obj = np.array(xs, dtype=np.int32)
        elif form == 'int-list':
            obj = [int(x) for x in xs]
        else:
            obj = tuple(int(x) for x in xs)
        st, v = call(rcos, obj, alpha, T)
        if st == 'exc':
            A.v(f'rcos:raises-{type(v).__name__}:{kind}', f'rcos({form} of {n} points,{alpha},{T}) raised {v!r}')
            return A.done()
        v = np.asarray(v)
        if v.shape != np.shape(obj):
            A.v(f'rcos:shape:{kind}', f'rcos({form}) has shape {v.shape}, input shape {np.shape(obj)}')
            return A.done()
        if form == 'array2d':
            if not np.array_equal(v[0], v[1][::-1]):
                A.v(f'rcos:even:{kind}', 'rows of a 2-D input (x and reversed x) give different values')
            v = v[0]
        H = v.astype(float)
    half = 1 / (2 * T)
    cut = (1 + alpha) / (2 * T)
    flat = (1 - alpha) / (2 * T)
    true_cut = (1 + Fraction(alpha)) / (2 * Fraction(T))
    # 'beyond (1+alpha)/(2T)': decided exactly when the corner is a representable number (dyadic alpha, T);
    # otherwise a 4 eps guard band around the corner is not judged (any implementation rounds the corner somehow)
    guard = 0 if (Fraction(cut) == true_cut and Fraction(1 + alpha) == 1 + Fraction(alpha)) else 4 * Fraction(EPS)
    for i, x in enumerate(xs):
        ax = abs(x)
        band = flat < ax <= cut
        A.item((alpha, T, form, x), (kind, float(H[i]).hex()), nontrivial=bool(band or ax in (flat, half, cut)))
        where = f'rcos(x={x!r}, alpha={alpha}, T={T}) as {form}'
        if not (-4 * EPS <= H[i] <= 1 + 4 * EPS):
            A.v(f'rcos:range:{kind}', f'{where} = {H[i]!r} outside [0,1]')
        if not abs(H[i] - H[n - 1 - i]) <= 4 * EPS:
            A.v(f'rcos:even:{kind}', f'{where} = {H[i]!r} but at -x: {H[n - 1 - i]!r}')
        if alpha > 0 and ax == half and not abs(H[i] - 0.5) <= 1e-12:
            A.v(f'rcos:half-value:{kind}', f'{where} = {H[i]!r}, expected 1/2 at |x| = 1/(2T) = {half}')
        if Fraction(ax) > true_cut * (1 + guard) and not abs(H[i]) <= 1e-15:
            A.v(f'rcos:vanish:{kind}', f'{where} = {H[i]!r}, expected 0 beyond (1+alpha)/(2T) = {cut}')
    return A.done()


# ===================================================================== dec2bin
def fam_d2b(case):
    from opticomlib.utils import dec2bin
    _, d, lo, hi = case
    A = Acc('dec2bin')
    shifts = np.arange(d - 1, -1, -1)
    for v in range(lo, hi):
        st, b = call(dec2bin, v, d)
        if st == 'exc':
            A.v(f'dec2bin:raises-{type(b).__name__}', f'dec2bin({v},{d}) raised {b!r}')
            continue
        b = np.asarray(b)
        A.item((v, d), (d, b.tobytes()), nontrivial=v >= 1)
        if b.shape != (d,):
            A.v('dec2bin:length', f'dec2bin({v},{d}) has shape {b.shape}')
            continue
        want = (v >> shifts) & 1
        if not np.array_equal(b.astype(np.int64), want):
            A.v('dec2bin:expansion', f'dec2bin({v},{d}) = {b.tolist()}, expected {format(v, f"0{d}b")}')
    if hi == 2 ** d:
        for v in (2 ** d, 2 ** d + 1):
            st, b = call(dec2bin, v, d)
            A.item((v, d), ('exc', type(b).__name__) if st == 'exc' else arr_key(b))
            if st == 'ok':
                A.v('dec2bin:no-ValueError', f'dec2bin({v},{d}) returned {np.asarray(b).tolist()}, ValueError required')
            elif not isinstance(b, ValueError):
                A.v(f'dec2bin:raises-{type(b).__name__}', f'dec2bin({v},{d}) raised {b!r}, ValueError required')
    return A.done()


# ===================================================================== si
SI_PREFIX = {'f': -15, 'p': -12, 'n': -9, 'u': -6, 'μ': -6, 'µ': -6, 'm': -3, '': 0, 'k': 3, 'M': 6, 'G': 9, 'T': 12}
SI_NAME = {-15: 'femto', -12: 'pico', -9: 'nano', -6: 'micro', -3: 'milli', 0: 'unit', 3: 'kilo', 6: 'mega', 9: 'giga', 12: 'tera'}
SI_MANT = ['1', '1.0000001', '2.5', '9.99', '999.9', '999.96']
SI_RE = re.compile(r'^(\d+(?:\.(\d+))?) (.*)$')
F10 = Fraction(10)


def si_inputs(e):
    """x values of exponent group e (a list of (label, x))"""
    out = []
    for m in SI_MANT:
        out.append((f'{m}e{e}', float(f'{m}e{e}')))                 # correctly rounded decimal literal
        out.append((f'{m}*10.0**{e}', float(m) * 10.0 ** e))        # product as a user would compute it
    b = float(f'1e{e}')
    out.append((f'nextafter(1e{e},inf)', float(np.nextafter(b, np.inf))))
    if e > -15:
        out.append((f'nextafter(1e{e},0)', float(np.nextafter(b, 0))))
    if e >= 0:
        for m in (1, 2, 25, 999):
            out.append((f'int {m}*10**{e}', m * 10 ** e))
    seen, uniq = set(), []
    for lab, x in out:
        k = (type(x).__name__, x)
        if x >= 1e-15 and k not in seen:          # the statement speaks of x >= 1e-15 only
            seen.add(k)
            uniq.append((lab, x))
    return uniq


def si_decade(x):
    """decade of x with the thresholds read as the doubles 1e-15, 1e-12, ... (python compares int/float exactly)"""
    for p in range(12, -16, -3):
        if x >= float(f'1e{p}'):
            return p
    return None


def si_check(A, lab, x, unit, k):
    from opticomlib.utils import si
    p_exp = si_decade(x)
    name = SI_NAME[p_exp]
    st, s = call(si, x, unit, k)
    where = f'si({lab} = {x!r}, {unit!r}, k={k})'
    A.item((repr(x), unit, k), s if st == 'ok' else ('exc', type(s).__name__), nontrivial=not (1 <= x < 1000))
    if st == 'exc':
        A.v(f'si:raises-{type(s).__name__}:{name}', f'{where} raised {s!r}')
        return
    m = SI_RE.match(s) if isinstance(s, str) else None
    if not m or not m.group(3).endswith(unit) or m.group(3)[:len(m.group(3)) - len(unit)] not in SI_PREFIX:
        A.v(f'si:format:{name}', f'{where} = {s!r}: not "<mantissa> <prefix>{unit}" with a prefix of f,p,n,u,m,none,k,M,G,T')
        return
    p = SI_PREFIX[m.group(3)[:len(m.group(3)) - len(unit)]]
    ndec = len(m.group(2) or '')
    fx = Fraction(x)
    printed = Fraction(m.group(1)) * F10 ** p
    # printed precision: half a unit of the last printed digit, plus the rounding of the one float product
    # x*1e(-p) that any implementation needs before formatting (2 ulp of x)
    tol = Fraction(1, 2) * F10 ** (p - ndec) + 4 * Fraction(EPS) * fx
    if abs(printed - fx) > tol:
        A.v(f'si:roundtrip:{name}', f'{where} = {s!r}: {m.group(1)} x 1e{p} = {float(printed)!r} differs from x by {float(abs(printed - fx)):.3e} '
                                     f'(printed precision {float(tol):.3e})')
    if x < 1e15:
        # unrounded mantissa x/10^p in [1,1000): thresholds read as the doubles 1e<p>, 1e<p+3> (what the literals of the
        # statement denote) or as exact powers of ten - either reading is accepted, no numeric slack is needed
        float_rule = float(f'1e{p}') <= x < float(f'1e{p + 3}')
        exact_rule = F10 ** p <= fx < F10 ** (p + 3)
        if not (float_rule or exact_rule):
            A.v(f'si:mantissa-range:{name}', f'{where} = {s!r}: unrounded mantissa x/1e{p} = {float(fx / F10 ** p)!r} not in [1,1000)')


def fam_si(case):
    _, e = case
    A = Acc('si')
    for lab, x in si_inputs(e):
        for k in (0, 1, 3):
            for unit in ('s', 'Hz'):
                si_check(A, lab, x, unit, k)
    return A.done()


# ===================================================================== str2array
S2A_VAL = {'int': [0, 1, -2, 10], 'float': [0.5, -0.25, 3.0, 10.125], 'complex': [1 + 2j, -1.5 - 0.5j, 2j, 3 + 0j]}
S2A_TOK = {'int': ['0', '1', '-2', '10'], 'float': ['0.5', '-0.25', '3.0', '10.125'],
           'complex': ['1+2{u}', '-1.5-0.5{u}', '2{u}', '3']}
# alternative fixed-point spellings of the same complex values (thorough tier)
S2A_VAL['complex-full'] = S2A_VAL['complex']
S2A_TOK['complex-full'] = ['1.0+2.0{u}', '-1.5-0.5{u}', '0+2{u}', '3+0{u}']
ELEM_SEPS = [' ', ',', ', ']
ROW_SEPS = [';', '; ']
DTYPES = [None, int, float, complex, bool]
DTNAME = {None: 'None', int: 'int', float: 'float', complex: 'complex', bool: 'bool'}
ONLY01 = set('01,; ')
GRAMMAR = set('0123456789,;.+- ij')
BADCHARS = [chr(c) for c in range(0x21, 0x7f) if chr(c) not in GRAMMAR]     # 77 printable ASCII characters


def s2a_expect(text, vals, r, c):
    """oracle: dict dtype -> spec, for the text that renders the r x c value matrix `vals` (complex numbers).
    spec = ('bits', array) | ('exact', array) | ('lossy', dtype) | ('ragged',)"""
    shape = (c,) if r == 1 else (r, c)
    base = np.array(vals, dtype=complex).reshape(shape)
    out = {}
    if set(text) <= ONLY01:
        rows = [''.join(ch for ch in row if ch in '01') for row in text.split(';')]
        if len({len(x) for x in rows}) > 1:
            bits = None
        else:
            bits = np.array([[int(ch) for ch in row] for row in rows], dtype=np.int64)
            if r == 1:
                bits = bits[0]
        for dt in DTYPES:
            if dt in (None, bool):
                out[dt] = ('ragged',) if bits is None else ('bits', bits)
            else:
                out[dt] = ('exact', base.real.astype(dt) if dt is not complex else base)
        return out
    if 'i' in text or 'j' in text:
        nat = base
    elif '.' in text:
        nat = base.real.astype(float)
    else:
        nat = base.real.astype(np.int64)
    for dt in DTYPES:
        if dt is None:
            out[dt] = ('exact', nat)
            continue
        with np.errstate(all='ignore'):
            with warnings.catch_warnings():
                warnings.simplefilter('ignore')
                cast = nat.astype(dt)
        if np.array_equal(cast.astype(complex), nat.astype(complex)):
            out[dt] = ('exact', cast)
        else:
            out[dt] = ('lossy', np.dtype(dt), cast.shape)
    return out


def s2a_one(A, alph, text, exp, nontrivial=True):
    from opticomlib.utils import str2array
    for dt in DTYPES:
        spec = exp[dt]
        st, a = call(str2array, text) if dt is None else call(str2array, text, dtype=dt)
        where = f'str2array({text!r}' + ('' if dt is None else f', dtype={DTNAME[dt]}') + ')'
        A.item((text, DTNAME[dt]), ('exc', type(a).__name__) if st == 'exc' else arr_key(a),
               nontrivial=nontrivial or dt is not None)
        if spec[0] == 'ragged':
            A.stat('ragged-bit-pattern(any behaviour accepted)')
            continue
        if st == 'exc':
            if spec[0] == 'lossy' and isinstance(a, (ValueError, TypeError)):
                A.stat('lossy-cast-refused(accepted)')
                continue
            k = 'ValueError-on-valid' if isinstance(a, ValueError) else f'raises-{type(a).__name__}'
            A.v(f'str2array:{k}:{alph}', f'{where} raised {a!r}')
            continue
        if not isinstance(a, np.ndarray):
            A.v(f'str2array:shape:{alph}', f'{where} returned {type(a).__name__}, ndarray expected')
            continue
        if spec[0] == 'lossy':
            A.stat('lossy-cast(only dtype and shape compared)')
            if a.dtype != spec[1]:
                A.v(f'str2array:dtype:{alph}', f'{where} has dtype {a.dtype}, explicit dtype {spec[1]} not honoured')
            if a.shape != spec[2]:
                A.v(f'str2array:shape:{alph}', f'{where} has shape {a.shape}, expected {spec[2]}')
            continue
        want = spec[1]
        if a.shape != want.shape:
            A.v(f'str2array:shape:{alph}', f'{where} has shape {a.shape}, expected {want.shape}: {a.tolist()!r}')
            continue
        if spec[0] == 'bits':
            if a.dtype.kind not in 'biu':
                A.v(f'str2array:kind:{alph}', f'{where} has dtype {a.dtype}; a bit pattern (bool/int) expected')
            elif dt is bool and a.dtype != np.dtype(bool):
                A.v(f'str2array:dtype:{alph}', f'{where} has dtype {a.dtype}, explicit dtype bool not honoured')
            elif not np.array_equal(a.astype(np.int64), want):
                A.v(f'str2array:value:{alph}', f'{where} = {a.astype(int).tolist()!r}, bit pattern {want.tolist()!r} expected')
            continue
        if dt is None:
            if a.dtype.kind != want.dtype.kind:
                A.v(f'str2array:kind:{alph}', f'{where} has dtype {a.dtype}; the text is the fixed-point form of a {want.dtype} array')
                continue
        elif a.dtype != np.dtype(dt):
            A.v(f'str2array:dtype:{alph}', f'{where} has dtype {a.dtype}, explicit dtype {np.dtype(dt)} not honoured')
            continue
        if not np.array_equal(a, want):
            A.v(f'str2array:value:{alph}', f'{where} = {a.tolist()!r}, expected {want.tolist()!r}')


def s2a_render(A, alph, idx, r, c):
    vals = [S2A_VAL[alph][i] for i in idx]
    units = ('i', 'j') if alph.startswith('complex') else ('',)
    eseps = ELEM_SEPS if c > 1 else ELEM_SEPS[:1]
    rseps = ROW_SEPS if r > 1 else ROW_SEPS[:1]
    seen = set()
    for u in units:
        toks = [S2A_TOK[alph][i].format(u=u) for i in idx]
        rows = [toks[k * c:(k + 1) * c] for k in range(r)]
        for es in eseps:
            rowtxt = [es.join(row) for row in rows]
            for rs in rseps:
                text = rs.join(rowtxt)
                if text in seen:          # e.g. no imaginary unit present: 'i' and 'j' renderings coincide
                    continue
                seen.add(text)
                s2a_one(A, alph, text, s2a_expect(text, vals, r, c), nontrivial=(r * c > 1 or not text.isdigit()))
                A.stat('texts')


def s2a_dev_arrays(n, base, k):
    """all index vectors differing from `base` in at most k positions (k=0 first)"""
    yield tuple(base)
    for kk in range(1, k + 1):
        for pos in itertools.combinations(range(n), kk):
            alts = [[v for v in range(4) if v != base[p]] for p in pos]
            for repl in itertools.product(*alts):
                idx = list(base)
                for p, v in zip(pos, repl):
                    idx[p] = v
                yield tuple(idx)


def fam_s2a(case):
    """case = ('s2a', alph, r, c, mode, arg): mode 'full' (arg = (first index or None)) | 'dev' (arg = (baseline, k))"""
    _, alph, r, c, mode, arg = case
    A = Acc('str2array')
    n = r * c
    if mode == 'full':
        if arg is None:
            it = itertools.product(range(4), repeat=n)
        else:
            it = ((arg,) + t for t in itertools.product(range(4), repeat=n - 1))
    else:
        bl, k = arg
        base = [0] * n if bl == 'const' else [(i // c + i % c) % 4 for i in range(n)]
        it = s2a_dev_arrays(n, base, k)
    for idx in it:
        s2a_render(A, alph, idx, r, c)
        A.stat('arrays')
    return A.done()


def _split_tokens(bits, mask):
    toks, cur = [], bits[0]
    for i in range(1, len(bits)):
        if mask >> (i - 1) & 1:
            toks.append(cur)
            cur = bits[i]
        else:
            cur += bits[i]
    toks.append(cur)
    return toks


def _canon_int(tok):
    return tok == '0' or not tok.startswith('0')


def fam_bits(case):
    """0/1-only texts.  case = ('bits', L, first, rows): every bit string of length L (starting with the prefix `first`),
    cut into tokens in every possible way (2^(L-1) masks), every element separator; rows=2: two such rows."""
    _, L, first, rows = case
    A = Acc('str2array')
    alph = 'bits'
    strings = [first + ''.join(t) for t in itertools.product('01', repeat=L - len(first))]
    if rows == 1:
        for bits in strings:
            for mask in range(2 ** (L - 1)):
                toks = _split_tokens(bits, mask)
                for es in (ELEM_SEPS if len(toks) > 1 else ELEM_SEPS[:1]):
                    text = es.join(toks)
                    want_bits = np.array([int(ch) for ch in bits], dtype=np.int64)
                    exp = {None: ('bits', want_bits), bool: ('bits', want_bits)}
                    numeric = all(_canon_int(t) for t in toks)
                    for dt in (int, float, complex):
                        exp[dt] = ('exact', np.array([int(t) for t in toks]).astype(dt)) if numeric else None
                    _bits_one(A, alph, text, exp)
    else:
        allrows = [(b, _split_tokens(b, m)) for b in [x + ''.join(t) for x in '01' for t in itertools.product('01', repeat=L - 1)]
                   for m in range(2 ** (L - 1))]
        for b1 in strings:
            for m1 in range(2 ** (L - 1)):
                t1 = _split_tokens(b1, m1)
                for b2, t2 in allrows:
                    want_bits = np.array([[int(ch) for ch in b1], [int(ch) for ch in b2]], dtype=np.int64)
                    numeric = len(t1) == len(t2) and all(_canon_int(t) for t in t1 + t2)
                    for es in (ELEM_SEPS if max(len(t1), len(t2)) > 1 else ELEM_SEPS[:1]):
                        for rs in ROW_SEPS:
                            text = rs.join([es.join(t1), es.join(t2)])
                            exp = {None: ('bits', want_bits), bool: ('bits', want_bits)}
                            for dt in (int, float, complex):
                                exp[dt] = ('exact', np.array([[int(t) for t in t1], [int(t) for t in t2]]).astype(dt)) if numeric else None
                            _bits_one(A, alph, text, exp)
    return A.done()


def _bits_one(A, alph, text, exp):
    full = {dt: (exp[dt] if exp[dt] is not None else ('ragged',)) for dt in DTYPES}
    if any(exp[dt] is None for dt in DTYPES):
        A.stat('non-canonical-numeric-reading-skipped')
    s2a_one(A, alph, text, full, nontrivial=len(text) > 1)
    A.stat('texts')


BAD_BASES = ['101', '1 0 1', '1 -2 10', '10;01', '0.5,-0.25; 3.0,10.125', '1+2j -1.5-0.5i', '2i, 3; 1+2j, 3', '']
# '' : the text that consists of the invalid character alone


# --------------------------------------------------------------------- the "any other character" alphabets
# Grammar of the statement: digits 0-9, comma / space between elements, ';' between rows, i or j, and the sign and dot
# of the fixed-point form.  WHITESPACE: the statement says "comma/space separated", the library documents "comma or
# whitespace" - U+0020 is a separator for certain, for every other white-space character (tab, newline, U+001C..1F,
# NEL, NBSP, the U+2000.. spaces, line/paragraph separator, ideographic space: everything `str.isspace` or the regex
# class \s knows) the statement does not say whether it is a separator or "another character", so such characters are
# NOT judged (they are left out of the alphabets; 28 characters).  Everything else that is not in GRAMMAR must raise
# ValueError, whatever Unicode thinks of it (decimal digit, minus sign, full-width comma, invisible format character).
def _is_ws(ch):
    return ch.isspace() or re.match(r'\s', ch) is not None


# look-alikes that Unicode normalisation does not map onto the grammar character: minus/plus signs, soft hyphen, middle
# dot, Arabic decimal/thousands separators and comma/semicolon, ideographic comma/full stop, low-9 quote, reversed
# semicolon, dotless / Cyrillic / Greek i and j, Cyrillic and Greek O, palochka, divides
_LOOKALIKE = {0x2212: '-', 0x207B: '-', 0x208B: '-', 0x2796: '-', 0x02D7: '-', 0x00AD: '-', 0x2795: '+', 0x00B7: '.',
              0x066B: '.', 0x066C: ',', 0x060C: ',', 0x3001: ',', 0x201A: ',', 0x061B: ';', 0x204F: ';', 0x3002: '.',
              0x0131: 'i', 0x0237: 'j', 0x0456: 'i', 0x0458: 'j', 0x03B9: 'i', 0x03F3: 'j',
              0x041E: '0', 0x039F: '0', 0x043E: '0', 0x03BF: '0', 0x04CF: '1', 0x04C0: '1', 0x2223: '1'}


def char_class(ch):
    """input class of an out-of-grammar character (used in the violation key)"""
    import unicodedata as ud
    o = ord(ch)
    cat = ud.category(ch)
    if 0x21 <= o < 0x7f:
        return 'ascii'
    if cat == 'Cc':
        return 'control'
    if cat == 'Nd':
        return 'unicode-decimal-digit'
    if cat in ('Nl', 'No') or ch.isnumeric():
        return 'unicode-numeric'
    if lookalike_of(ch):
        return 'look-alike'
    if cat == 'Cf':
        return 'format-char'
    return {'L': 'unicode-letter', 'P': 'unicode-punctuation', 'S': 'unicode-symbol', 'M': 'combining-mark'}.get(cat[0], 'other-' + cat)


def lookalike_of(ch):
    """the grammar character(s) `ch` stands for under Unicode compatibility normalisation / digit value / the explicit
    table of minus, plus, dot, comma, semicolon, i, j, 0, 1 look-alikes; '' if none"""
    import unicodedata as ud
    if ch in GRAMMAR:
        return ''
    if ord(ch) in _LOOKALIKE:
        return _LOOKALIKE[ord(ch)]
    if ud.category(ch) == 'Pd':
        return '-'
    d = ud.digit(ch, None)
    if d is not None:
        return str(d)
    n = ud.normalize('NFKC', ch)
    if n and set(n) <= GRAMMAR and n.strip():
        return n
    return ''


_BLOCKS = [(0x00, 0x20), (0x7F, 0x100), (0x370, 0x530), (0x2000, 0x20A0), (0x2100, 0x2150), (0xFE50, 0xFE70), (0xFF00, 0xFFF0)]


def _candidate(ch, cat):
    """assigned, not private use / surrogate, not white space, not a grammar character"""
    return cat not in ('Cn', 'Co', 'Cs') and ch not in GRAMMAR and not _is_ws(ch)


_ALPH_DOC = """the invalid-character alphabets.
    'ascii': the 77 printable ASCII characters outside the grammar.
    'uni' (quick and thorough): every non-white-space control character below U+00A0; EVERY character of the whole Unicode
       range that is numeric (categories Nd, Nl, No or str.isnumeric: 1902 characters, 670 decimal digits of all scripts
       among them) or that stands for a grammar character (`lookalike_of`: full-width / small / super- and subscript /
       mathematical forms of digits , ; . + - i j, every dash, the explicit table); every format character (Cf),
       currency sign (Sc) and enclosing mark (Me); the whole blocks Latin-1 supplement, Greek, Cyrillic, General
       Punctuation, Super/Subscripts, Letterlike symbols, Small Form Variants, Halfwidth/Fullwidth forms; and, as a
       spread over all scripts, the first character of every 256-code-point row of the BMP and of every
       4096-code-point row of the other planes.
    'uni2' (thorough only): every other BMP character of the categories Sm, Po, Ps, Pe, Pi, Pf, Pc, Sk, Mn.
    'all' (thorough only, used at two positions only): every assigned, non-surrogate, non-private-use code point.
    White-space characters (see above) and grammar characters are never members."""

_ALPH_CACHE = {}


def all_range(lo, hi):
    """members of 'all' with lo <= code point <= hi (cheap: computed in the worker from the range in the case)"""
    import unicodedata as ud
    return [chr(c) for c in range(lo, hi + 1) if _candidate(chr(c), ud.category(chr(c)))]


def bad_alphabet(name):
    """one linear pass over the code space, in the coordinating process only: the cases carry the characters themselves
    ('ascii', 'uni', 'uni2') or a code point range ('all')"""
    if name in _ALPH_CACHE:
        return _ALPH_CACHE[name]
    import unicodedata as ud
    if name == 'ascii':
        out = list(BADCHARS)
    elif name == 'all':
        out = all_range(0, 0x10FFFF)
    else:
        uni, uni2, rows = [], [], set()
        for ch in bad_alphabet('all'):
            o = ord(ch)
            row = o >> 8 if o < 0x10000 else 0x1000 + (o >> 12)
            first = row not in rows
            rows.add(row)
            if 0x21 <= o < 0x7f:
                continue
            cat = ud.category(ch)
            if (cat in ('Nd', 'Nl', 'No', 'Pd', 'Cf', 'Sc', 'Me') or (first and o >= 0x100) or any(lo <= o < hi for lo, hi in _BLOCKS)
                    or ch.isnumeric() or lookalike_of(ch)):
                uni.append(ch)
            elif 0x80 <= o < 0x10000 and cat in ('Sm', 'Po', 'Ps', 'Pe', 'Pi', 'Pf', 'Pc', 'Sk', 'Mn'):
                uni2.append(ch)
        _ALPH_CACHE['uni'], _ALPH_CACHE['uni2'] = uni, uni2
        return _ALPH_CACHE[name]
    _ALPH_CACHE[name] = out
    return out


def _bad_one(A, text, ch, how):
    from opticomlib.utils import str2array
    cls = char_class(ch)
    sfx = '' if cls == 'ascii' else ':' + cls
    shown = f'{ch!r} (U+{ord(ch):04X})'
    for dt in DTYPES:
        st, a = call(str2array, text) if dt is None else call(str2array, text, dtype=dt)
        A.item(('bad', text, DTNAME[dt]), ('exc', type(a).__name__) if st == 'exc' else arr_key(a))
        where = f'str2array({text!r}' + ('' if dt is None else f', dtype={DTNAME[dt]}') + ')'
        if st == 'ok':
            A.v(f'str2array:invalid-char-accepted{sfx}', f'{where} returned {np.asarray(a).tolist()!r}; character {shown} ({how}) must raise ValueError')
        elif not isinstance(a, ValueError):
            A.v(f'str2array:invalid-char-raises-{type(a).__name__}{sfx}', f'{where} raised {a!r}; character {shown} ({how}): ValueError required')


def fam_bad(case):
    """('bad', alphabet, base index, chars, mode): every character of the string `chars` (alphabet 'all': of the code
    point range chars = (lo, hi)), all of them outside the grammar and not white space,
    mode 'insert': inserted once at every position of the base text (for the base '' the character alone);
    mode 'ends'  : inserted at the middle position only and, for the base '', alone (alphabet 'all');
    mode 'subst' : a look-alike of a grammar character written INSTEAD of that character, at every occurrence, one at a
                   time and all occurrences at once.
    Every dtype argument each time -> ValueError"""
    _, alph, bi, chars, mode = case
    base = BAD_BASES[bi]
    A = Acc('str2array')
    for ch in (all_range(*chars) if alph == 'all' else chars):
        if mode == 'subst':
            g = lookalike_of(ch)
            if len(g) != 1 or g not in base:
                continue
            occ = [i for i, b in enumerate(base) if b == g]
            texts = [base[:i] + ch + base[i + 1:] for i in occ]
            if len(occ) > 1:
                texts.append(base.replace(g, ch))
            for text in texts:
                _bad_one(A, text, ch, f'written for {g!r}')
            continue
        positions = range(len(base) + 1) if mode == 'insert' else [len(base) // 2]
        for pos in positions:
            _bad_one(A, base[:pos] + ch + base[pos:], ch, f'inserted at position {pos} of {base!r}')
    return A.done()


# ===================================================================== single-case replays (regression / minimal)
def fam_one(case):
    """('one', 'si', x, unit, k) | ('one', 'rcos', xs, alpha, T)  - minimal cases of known defects"""
    if case[1] == 'si':
        A = Acc('si')
        _, _, x, unit, k = case
        si_check(A, repr(x), x, unit, k)
        return A.done()
    from opticomlib.utils import rcos
    A = Acc('rcos')
    _, _, xs, alpha, T = case
    st, H = call(rcos, np.array(xs), alpha, T)
    if st == 'exc':
        A.v(f'rcos:raises-{type(H).__name__}:int-array', f'rcos(np.array({xs}),{alpha},{T}) raised {H!r}')
        return A.done()
    for x, h in zip(xs, np.asarray(H, dtype=float)):
        A.item((alpha, T, 'one', x), float(h).hex())
        if alpha > 0 and abs(x) == 1 / (2 * T) and not abs(h - 0.5) <= 1e-12:
            A.v('rcos:half-value:int-array', f'rcos(np.array({xs}), alpha={alpha}, T={T}) = {np.asarray(H).tolist()}: value at x={x} is {h!r}, '
                                             f'expected 1/2 at |x| = 1/(2T) (the scalar call gives {rcos(float(x), alpha, T)!r})')
    return A.done()


# ===================================================================== repeated calls (added by the coordinator)
FRESH_TEXTS = [('3 -2 17 5', None), ('3 -2 17 5', float), ('1.5, -0.25; 3.0, 10.125', None), ('1+2j 0.5j 3', None),
               ('1+2i, -1.5-0.5i; 2i, 3', complex), ('1011', None), ('10 100 1000', int), ('0 1; 1 0', None)]


def fam_fresh(case):
    """('fresh', index): every call of a conversion/parsing function returns its OWN result: the caller may overwrite what
    it got (in place) and the next call with the same arguments must still return the written values."""
    from opticomlib import utils as U
    A = Acc('fresh')
    text, dt = FRESH_TEXTS[case[1]]
    calls = [('str2array', lambda: U.str2array(text, dt) if dt is not None else U.str2array(text)),
             ('dec2bin', lambda: U.dec2bin(37 + case[1], 9)),
             ('idb', lambda: U.idb([0.0, 3.0, float(case[1])])),
             ('db', lambda: U.db([1.0, 2.0, 10.0 + case[1]])),
             ('Q', lambda: U.Q(np.array([0.0, 1.0, 2.5]))),
             ('rcos', lambda: U.rcos(np.array([0.0, 0.4, 0.8]), 0.5, 1.0))]
    for name, f in calls:
        r1 = np.asarray(f())
        want = r1.copy()
        try:
            if r1.flags.writeable and r1.size:
                r1[...] = (r1 * 0 + 1).astype(r1.dtype) if r1.dtype != bool else ~r1
        except Exception:
            pass
        r2 = np.asarray(f())
        A.item((name, case[1]), arr_key(r2))
        if r2.shape != want.shape or r2.dtype != want.dtype or not np.array_equal(r2, want):
            A.v(f'{name}:repeated-call:stale-result', f'{name} (case {case[1]}: {text!r}, dtype={dt}) returned {want.tolist()!r}; after the caller overwrote that '
                                                      f'array in place, the same call returns {r2.tolist()!r}')
    return A.done()


FAMILIES = {'db': fam_db, 'dbv': fam_dbv, 'q': fam_q, 'gaus': fam_gaus, 'rcos': fam_rcos, 'd2b': fam_d2b,
            'si': fam_si, 's2a': fam_s2a, 'bits': fam_bits, 'bad': fam_bad, 'one': fam_one, 'fresh': fam_fresh}


def case_fn(case):
    return FAMILIES[case[0]](case)


# ===================================================================== driver
REGRESS = [
    ('one', 'si', 2e12, 'Hz', 1),            # DESIGN 8 #17: '2000.0 THz'
    ('one', 'rcos', [0, 1], 1, 0.5),         # DESIGN 8 #18: [1, 0] instead of [1, 0.5]
]


def _merge(ctx, payloads, nt_all, out_all):
    for p in payloads:
        if not p:
            continue
        ctx.evaluations += p['items'] - 1        # the kernel counted the batch as one evaluation
        nt_all.append(np.frombuffer(p['nt'], dtype=np.uint64))
        out_all.append(np.frombuffer(p['out'], dtype=np.uint64))


def run(ctx):
    quick = ctx.quick
    nt_all, out_all = [], []

    ctx.rule('C19: bounded-exhaustive enumeration, simplest first, batched (one case_fn call = one decade / digit count / '
             'array shape); evaluations = individual library results compared with the oracle. '
             'db/dbm/idb/idbm: 30 decades x 6 mantissas as float, np.float64, int, list, tuple, 1-D, 2-D and int arrays, '
             'all 180x180 products, every negated form and every single-negative position; every integer and half-integer dB '
             'in [-300,300]. Q on [-8,8] step 1/16 (array, list, nested tuple, scalars); gaus for 12 (mu,std) settings. '
             'rcos: alpha x T x 11 input forms on a 1/64 grid of +-1.5/T plus corners and their float neighbours; integer grids. '
             'dec2bin: every (v,d), 1<=d<=16, 0<=v<2^d, plus 2^d and 2^d+1. str2array: every r x c array (r<=2,c<=3) over 4-value '
             'alphabets per dtype, deviation lattices (<=2 entries) around two baselines for shapes up to 3x6, every element/row '
             'separator style, both imaginary units, every explicit dtype; every 0/1 string up to the stated length in every '
             'tokenisation; every out-of-grammar printable ASCII character and 3445 non-ASCII / control characters (every Unicode '
             'numeric character incl. the 670 decimal digits of all scripts, every compatibility form and look-alike of a grammar '
             'character, dashes, format characters, whole Latin-1/Greek/Cyrillic/punctuation/full-width blocks, one character per '
             '256-code-point row) at every position of 7 base texts and alone, and written instead of the grammar character they '
             'resemble; thorough: 2488 more symbols/punctuation/marks at every position and every assigned code point at one position '
             'of 2 base texts and alone; white-space characters other than U+0020 are not judged. '
             'si: 30 exponent groups x (6 mantissas as decimal literal and as product, decade constants and both float '
             'neighbours, integers) x k in {0,1,3} x units {s,Hz}')
    ctx.assume('numpy/scipy reference functions (log10 rounding, scipy.stats.norm.sf, quad) are correct; python Fraction arithmetic is exact')
    ctx.assume('continuum quantifiers (all positive reals, all real dB values) are covered at the listed grid points only')
    ctx.assume('where the statement is silent the oracle is silent: lossy explicit casts (complex->real, fractional->int, ->bool) are '
               'checked for dtype and shape only; ragged bit patterns, leading-zero tokens under a numeric dtype, x < 1e-15 and '
               'non-(int,float) scalar types are not judged; both u and the Greek mu are accepted for micro; str2array: the statement '
               'names comma and space as separators, the library documents "whitespace": white-space characters other than U+0020 '
               '(tab, newline, U+001C-1F, NEL, NBSP, U+1680, U+2000-200A, U+2028/2029/202F/205F/3000) are neither required to '
               'separate nor required to raise and are left out of the invalid-character alphabets')

    ctx.sample({'family': 'si', 'item': "si(2.5e-07, 's', k=1) -> '250.0 ns': 250.0 x 1e-9 == x within 0.05e-9; x/1e-9 in [1,1000)"})
    ctx.sample({'family': 'str2array', 'item': "str2array('1+2i, -1.5-0.5i; 2i, 3', dtype=None) == [[1+2j,-1.5-0.5j],[2j,3]] (complex)"})
    ctx.sample({'family': 'str2array', 'item': "str2array('1 -2 1\\u0663 0', dtype=float) raises ValueError (ARABIC-INDIC DIGIT THREE is not a grammar character)"})
    ctx.sample({'family': 'dec2bin', 'item': 'dec2bin(37, 9) == [0,0,0,1,0,0,1,0,1]; dec2bin(512, 9) raises ValueError'})
    ctx.sample({'family': 'rcos', 'item': 'rcos(np.array([-2,-1,0,1,2]), alpha=0.5, T=0.5)[3] == 1/2'})

    # -- regression replays of the known minimal cases first
    for c in REGRESS:
        r = ctx.run_case('regress', case_fn, c)
        _merge(ctx, [r.get('payload')], nt_all, out_all)

    per_part = ctx.extra.setdefault('items_per_part', {})

    def part(name, cases, horizon=120):
        payloads = ctx.pmap(name, case_fn, cases, horizon=horizon, chunk=1, recheck=2)
        _merge(ctx, payloads, nt_all, out_all)
        per_part[name] = sum(p['items'] for p in payloads if p)

    # -- conversions
    part('db.decades', [('db', e) for e in sorted(DECADES, key=lambda e: (abs(e), e < 0))])
    step = 76
    part('db.dBvalues', [('dbv', lo, min(lo + step, len(DBVALS))) for lo in range(0, len(DBVALS), step)])

    # -- Q, gaus
    part('Q', [('q', f) for f in ('scalar', 'scalar-mixed', 'array', 'list', 'tuple2d')])
    part('gaus', [('gaus', mu, sd) for mu, sd in GAUS_PAR])

    # -- rcos
    alphas = [0, 0.25, 0.5, 1]
    Ts = [1, 0.5, 2, 0.25]
    if not quick:
        alphas += [0.3, 0.75]
        Ts += [0.3, 4]
    part('rcos', [('rcos', a, T, f) for f in RCOS_FORMS for T in Ts for a in alphas])

    # -- dec2bin: every (v, d)
    d2b = []
    for d in range(1, 17):
        n = 2 ** d
        blk = 4096
        for lo in range(0, n, blk):
            d2b.append(('d2b', d, lo, min(lo + blk, n)))
    part('dec2bin', d2b)

    # -- si
    part('si', [('si', e) for e in sorted(range(-15, 15), key=lambda e: (abs(e), e < 0))] + [('si', 15)])

    # -- str2array
    alphs = ['int', 'float', 'complex'] + ([] if quick else ['complex-full'])
    full = []
    for r, c in [(1, 1), (1, 2), (2, 1), (1, 3), (2, 2), (2, 3)]:
        for al in alphs:
            if r * c >= 6:
                full += [('s2a', al, r, c, 'full', first) for first in range(4)]
            else:
                full.append(('s2a', al, r, c, 'full', None))
    part('str2array.full', full)
    kdev = 2
    dev = []
    for r in (1, 2, 3):
        for c in range(1, 7):
            if r <= 2 and c <= 3:
                continue
            for al in alphs:
                for bl in ('const', 'cyc'):
                    dev.append(('s2a', al, r, c, 'dev', (bl, kdev)))
    dev.sort(key=lambda t: t[2] * t[3])
    part('str2array.deviations', dev)
    Lmax1, Lmax2 = (7, 3) if quick else (9, 4)
    def prefixes(L):
        n = 1 if L < 8 else 3
        return [''.join(t) for t in itertools.product('01', repeat=n)]
    bits = [('bits', L, first, 1) for L in range(1, Lmax1 + 1) for first in prefixes(L)] + \
           [('bits', L, first, 2) for L in range(1, Lmax2 + 1) for first in '01']
    part('str2array.bit-patterns', bits)
    def bad_cases(alph, mode, step, bases=None):
        al = bad_alphabet(alph)
        chunks = [al[lo:lo + step] for lo in range(0, len(al), step)]
        chunks = [(ord(c[0]), ord(c[-1])) if alph == 'all' else ''.join(c) for c in chunks]
        return [('bad', alph, bi, c, mode) for bi in (range(len(BAD_BASES)) if bases is None else bases) for c in chunks]
    nbases = len(BAD_BASES)
    part('str2array.invalid-characters', bad_cases('ascii', 'insert', 20))
    part('str2array.invalid-characters.unicode', bad_cases('uni', 'insert', 400))
    part('str2array.invalid-characters.look-alike-substitution', bad_cases('uni', 'subst', 4000, bases=range(nbases - 1)))
    if not quick:
        part('str2array.invalid-characters.unicode-more', bad_cases('uni2', 'insert', 400))
        part('str2array.invalid-characters.every-code-point', bad_cases('all', 'ends', 8000, bases=[2, 5, nbases - 1]))

    # -- repeated calls return fresh results
    part('repeated-calls', [('fresh', i) for i in range(len(FRESH_TEXTS))])

    # -- per-item distinct counts
    nt = np.unique(np.concatenate(nt_all)) if nt_all else np.array([], dtype=np.uint64)
    out = np.unique(np.concatenate(out_all)) if out_all else np.array([], dtype=np.uint64)
    ctx.nt_tags = set(nt.tolist())
    ctx.outcomes = set(out.tolist())
    ctx.extra['bounds'] = {'dB': '[-300,300] step 0.5', 'decades': '1e-15..1e14 x 6 mantissas', 'dec2bin_digits': 16,
                           'str2array_full_shape': '2x3', 'str2array_deviation_shape': '3x6', 'str2array_deviations': kdev,
                           'bit_string_length_1row': Lmax1, 'bit_string_length_2rows': Lmax2,
                           'invalid_characters': len(BADCHARS),
                           'invalid_characters_unicode': len(bad_alphabet('uni')),
                           'invalid_characters_thorough': None if quick else len(bad_alphabet('uni2')) + len(bad_alphabet('all')), 'si_exponents': '[-15,14] + 1e15',
                           'rcos_alpha': alphas, 'rcos_T': Ts}
    print(f'[C19] items={ctx.evaluations} distinct_nontrivial={len(ctx.nt_tags)} distinct_outcomes={len(ctx.outcomes)}', flush=True)
