"""C19 - unit conversions, Q, gaus, rcos, dec2bin, str2array and si of opticomlib.utils are
self-consistent (bounded-exhaustive exploration, DESIGN.md 5/C19).

Every family enumerates a stated finite input space completely and compares each result of the
REAL function with a boring oracle (identities of the statement, `format(v,'b')`, the array
that was rendered into the text, exact rational arithmetic for the SI mantissa).  Cheap cases
are batched: one `case_fn` call handles one decade / one digit count / one array shape; the
number of individual library results compared ("items") is what is reported as `evaluations`,
and distinct non-trivial items / distinct outcomes are counted per item (64-bit hashes returned
in the payload and merged in `run`).

Violation keys  (<family>:<clause>[:<input class>]):
  db:*  dbm:*  idb:*  idbm:*       inverse pairs, homomorphism, +30, negative -> ValueError
  Q:*  gaus:*                      symmetry, monotone, Q(0), tail of the Gaussian, integral one
  rcos:<clause>:<scalar|float-array|int-array>   clause in range, even, half-value, vanish, shape
  dec2bin:expansion|length|no-ValueError
  str2array:<clause>:<alphabet>    clause in value, kind, shape, dtype, ValueError-on-valid,
                                   invalid-char-accepted[:<class>], invalid-char-raises-<Type>[:<class>]
                                   (class of the inserted / substituted character: none for printable ASCII, control,
                                   unicode-decimal-digit, unicode-numeric, look-alike, format-char, unicode-letter,
                                   unicode-punctuation, unicode-symbol, combining-mark)
  si:<format|roundtrip|mantissa-range>:<femto..tera>
Input-class suffixes added by the hardening pass (mcx/props/c19_hard.py holds the new families):
  :narrow-float (float32 / float16 samples)  :int-dtype (numpy integer / bool samples)  :int-params (integer mu, std)
  :extreme (outside the 30 central decades / |dB| > 300)  :big-python-int (python int >= 2^62)  :int-min (most negative value of
  an integer type; no longer enumerated)  :numpy-int (dec2bin with numpy integer v or d)  rcos:differs-from-scalar-call:<kind>  <fn>:input-modified
  <fn>:shared-input:*  str2array:*:<alphabet>-numpy-print | -spelling | -long | dtype-spelling | python-numeral
"""
from __future__ import annotations

import hashlib
import itertools
import math
import re
import warnings
from fractions import Fraction

import numpy as np

from mcx.core.kernel import res

ID = 'C19'
LEVEL = 'exploration'
NONTRIVIAL = ('an item (one library result compared with the oracle) is non-trivial when: db family x != 1 / d != 0; '
              'Q,gaus x != 0; rcos point in the roll-off band or on a corner; dec2bin v >= 1 or the ValueError cases; '
              'str2array text with >= 2 tokens or a sign/dot/imaginary unit or an explicit dtype or an inserted bad '
              'character; si x outside [1,1000) (a prefix is needed).  Distinct items are counted by a 64-bit hash '
              'of (family, input)')

EPS = 2.0 ** -52


# ===================================================================== accounting helpers
def _h(*parts):
    return int.from_bytes(hashlib.blake2b(repr(parts).encode(), digest_size=8).digest(), 'little')


class Acc:
    """collects violations and per-item hashes of one batch"""
    MAXV = 40

    def __init__(self, fam):
        self.fam = fam
        self.viol = []
        self.perkey = {}
        self.nt = []
        self.out = []
        self.items = 0
        self.stats = {}
        self.hh = hashlib.sha256()

    def v(self, key, msg):
        n = self.perkey.get(key, 0)
        self.perkey[key] = n + 1
        if n < self.MAXV:
            self.viol.append((key, msg))
        else:
            self.stat('violations-not-listed')

    def stat(self, k, n=1):
        self.stats[k] = self.stats.get(k, 0) + n

    def item(self, ident, outcome, nontrivial=True):
        """one library result compared with the oracle"""
        self.items += 1
        oh = _h(self.fam, outcome)
        self.out.append(oh)
        self.hh.update(oh.to_bytes(8, 'little'))
        if nontrivial:
            self.nt.append(_h(self.fam, ident))

    def done(self):
        self.stat(f'items.{self.fam}', self.items)
        return res(viol=self.viol, obs=self.hh.hexdigest(), stats=self.stats,
                   payload={'nt': np.array(self.nt, dtype=np.uint64).tobytes(),
                            'out': np.array(self.out, dtype=np.uint64).tobytes(),
                            'items': self.items})


def arr_key(a):
    a = np.asarray(a)
    return (a.dtype.str, a.shape, a.tobytes())


def call(fn, *a, **kw):
    """('ok', value) | ('exc', exception) ; harness never lets a library exception escape a batch"""
    try:
        return 'ok', fn(*a, **kw)
    except Exception as e:  # noqa
        return 'exc', e


# ===================================================================== db / dbm / idb / idbm
MANT = [1, 1.5, 2, 3.14159, 5, 9.999]
DECADES = list(range(-15, 15))                      # 30 decades
ALLPOS = [float(f'{m}e{e}') for e in DECADES for m in MANT]   # 180 positives, correctly rounded decimals
DBVALS = sorted({k / 2 for k in range(-600, 601)}, key=lambda d: (abs(d), d < 0))   # 1201 values, simplest first
RT_INV = 1e-12     # inverse pairs: rounding bound ~ (|log10 x| ln10 + 2) eps ~ 1e-14 relative (100x margin)
AT_DB = 1e-12      # db(idb(d)) - d: bound ~ 7e-14 absolute for |d| <= 300
AT_HOM = 1e-11     # db(x*y)-(db(x)+db(y)), dbm(x)-(db(x)+30): three log10 roundings of size <= 3.3e-14 each


def _rel_ok(got, want, rt):
    got = np.asarray(got, dtype=float)
    want = np.asarray(want, dtype=float)
    return got.shape == want.shape and bool(np.all(np.abs(got - want) <= rt * np.abs(want)))


def _abs_ok(got, want, at):
    got = np.asarray(got, dtype=float)
    want = np.asarray(want, dtype=float)
    return got.shape == want.shape and bool(np.all(np.abs(got - want) <= at))


# --------------------------------------------------------------------- sample types (hardening pass, checklist 1)
# The identities are asserted to the precision of the arithmetic the caller selects with the sample type: numpy
# evaluates log10 / power of float16, bool, int8, uint8 samples in float16, of float32, int16, uint16 samples in
# float32 and of everything else (python numbers, int32, int64, uint32, uint64, float64) in float64.  `work_eps` asks
# numpy itself, so nothing is hard-coded.
INT_DTYPES = [np.int8, np.uint8, np.int16, np.uint16, np.int32, np.uint32, np.int64, np.uint64]
NPINT_SCALARS = [np.int8, np.uint8, np.int32, np.int64]
def F16_X(x):                # float16 samples are kept inside the normal range of the type
    return 1e-4 <= abs(x) <= 6e4


def F16_DB(d):               # and float16 dB values where idb, idbm and 1e3*idbm stay inside it
    return -10 <= d <= 45


def work_eps(dt):
    return float(np.finfo(np.log10(np.ones(1, dtype=dt)).dtype).eps)


def rt_inv(x, eps):
    """relative tolerance of idb(db(x)) = x evaluated with rounding unit eps: log10 (1.5 ulp of |log10 x|), the
    division by ten (0.5 ulp) and the power (exponent error times ln 10, + 1 ulp) give (6 |log10 x| + 2) eps;
    float64: the documented 1e-12 inside the 30 decades (>= 100 x the bound), 16 x the bound outside; narrower types: 4 x"""
    x = np.abs(np.asarray(x, dtype=float))
    with np.errstate(all='ignore'):
        b = (6 * np.abs(np.log10(np.where(x > 0, x, 1.0))) + 2) * eps
    return np.maximum(RT_INV, 16 * b) if eps == EPS else 4 * b


def at_db(d, eps, base):
    """absolute tolerance of a dB figure of size |d| that went through k roundings of size |d| eps: the documented
    float64 tolerance `base` (valid up to |d| = 300) or 30 (|d| + 10) eps, whichever is larger; narrower types: 8 (|d|+40) eps"""
    d = np.abs(np.asarray(d, dtype=float))
    return np.maximum(base, 30 * (d + 10) * eps) if eps == EPS else 8 * (d + 40) * eps


def _fits(v, dt):
    ii = np.iinfo(dt)
    return float(v).is_integer() and ii.min <= int(v) <= ii.max


def _forms(vals, f16=F16_X):
    """scalar and container forms of a list of floats: (name, class suffix of the violation key, object, reference
    ndarray, rounding unit, lenient).  lenient: numpy scalar types other than np.float64 - the library documents
    TypeError for db/dbm when x is not a (python) number, list, tuple or ndarray, so a TypeError/ValueError is accepted there,
    a returned value is judged like any other."""
    out = []
    e32, e16 = work_eps(np.float32), work_eps(np.float16)
    tiny32 = float(np.finfo(np.float32).tiny)

    def ok32(x):
        with np.errstate(all='ignore'):
            f = float(np.float32(x))
        return x == 0 or (np.isfinite(f) and abs(f) >= tiny32)

    for x in vals:
        out.append(('float', '', x, np.float64(x), EPS, False))
        out.append(('np.float64', '', np.float64(x), np.float64(x), EPS, False))
        out.append(('0-d array', '', np.array(x, dtype=float), np.float64(x), EPS, False))
        if float(x).is_integer() and abs(x) < 2 ** 62:
            out.append(('int', '', int(x), np.float64(x), EPS, False))
            for dt in NPINT_SCALARS:
                if _fits(x, dt):
                    out.append((f'np.{dt.__name__}', ':int-dtype', dt(int(x)), np.float64(x), work_eps(dt), True))
        if x in (0, 1):
            out.append(('bool', ':int-dtype', bool(x), np.float64(x), EPS, False))
            out.append(('np.bool_', ':int-dtype', np.bool_(x), np.float64(x), e16, True))
        if ok32(x):
            out.append(('np.float32', ':narrow-float', np.float32(x), np.float64(np.float32(x)), e32, True))
    a = np.array(vals, dtype=float)
    out.append(('list', '', list(vals), a, EPS, False))
    out.append(('tuple', '', tuple(vals), a, EPS, False))
    out.append(('array', '', a.copy(), a, EPS, False))
    a2 = np.array([vals, vals[::-1]], dtype=float)
    out.append(('array2d', '', a2.copy(), a2, EPS, False))
    out.append(('nested-list', '', [list(vals), list(vals[::-1])], a2, EPS, False))
    out.append(('nested-tuple', '', (tuple(vals), tuple(vals[::-1])), a2, EPS, False))
    out.append(('list1', '', [vals[0]], a[:1], EPS, False))
    out.append(('array1', '', a[:1].copy(), a[:1], EPS, False))
    out.append(('array(1,1)', '', a[:1].reshape(1, 1).copy(), a[:1].reshape(1, 1), EPS, False))
    out.append(('empty-list', '', [], np.zeros(0), EPS, False))
    out.append(('strided-view', '', np.repeat(a, 2)[::2], a, EPS, False))
    v32 = [x for x in vals if ok32(x)]
    if v32:
        a32 = np.array(v32, dtype=np.float32)
        out.append(('float32-array', ':narrow-float', a32, a32.astype(float), e32, False))
    v16 = [x for x in vals if f16(x)]
    if v16:
        a16 = np.array(v16, dtype=np.float16)
        out.append(('float16-array', ':narrow-float', a16, a16.astype(float), e16, False))
    ints = [x for x in vals if float(x).is_integer() and abs(x) < 2 ** 64]
    if ints:
        out.append(('int-list', '', [int(x) for x in ints if abs(x) < 2 ** 62], np.array([x for x in ints if abs(x) < 2 ** 62], dtype=float), EPS, False))
        for dt in INT_DTYPES:
            sub = [int(x) for x in ints if _fits(x, dt)]
            if sub:
                out.append((f'{dt.__name__}-array', '' if dt is np.int64 else ':int-dtype', np.array(sub, dtype=dt), np.array(sub, dtype=float), work_eps(dt), False))
        b = [x for x in ints if x in (0, 1)]
        if b:
            out.append(('bool-array', ':int-dtype', np.array(b, dtype=bool), np.array(b, dtype=float), work_eps(bool), False))
    return [f for f in out if not (isinstance(f[2], list) and f[0] == 'int-list' and not f[2])]


def _neg(obj):
    """the negated input, or None where the type has no negative values (unsigned, bool, empty)"""
    if isinstance(obj, (bool, np.bool_)):
        return None
    if isinstance(obj, np.generic):
        return None if obj.dtype.kind == 'u' else -obj
    if isinstance(obj, np.ndarray):
        return None if (obj.dtype.kind in 'ub' or obj.size == 0) else -obj
    if isinstance(obj, (list, tuple)):
        if len(obj) == 0:
            return None
        return type(obj)(_neg(v) if isinstance(v, (list, tuple)) else -v for v in obj)
    return -obj


def _snap(obj):
    """write-protect an ndarray argument and return a byte snapshot of any argument (checklist 9)"""
    if isinstance(obj, np.ndarray):
        obj.setflags(write=False)
        return arr_key(obj)
    return repr(obj)


def _refused(A, lenient, exc):
    """a numpy scalar type the library does not take as a number (documented TypeError of db/dbm): accepted, counted"""
    if lenient and isinstance(exc, (TypeError, ValueError)):
        A.stat('numpy-scalar-type-refused(accepted)')
        return True
    return False


def fam_db(case):
    from opticomlib.utils import db, dbm, idb, idbm
    _, e = case
    A = Acc('db')
    xs = [float(f'{m}e{e}') for m in MANT]
    allpos = np.array(ALLPOS)
    for name, cls, obj, ref, eps, lenient in _forms(xs):
        tag = f'{name}:{obj!r}'[:120]
        snap = _snap(obj)
        nt = bool(np.any(ref != 1))
        # inverse pairs
        for fwd, inv, key in ((db, idb, 'db:idb(db(x))!=x'), (dbm, idbm, 'dbm:idbm(dbm(x))!=x')):
            st, y = call(fwd, obj)
            if st == 'exc':
                if not _refused(A, lenient, y):
                    A.v(f'{key.split(":")[0]}:raises-{type(y).__name__}{cls}', f'{fwd.__name__}({tag}) raised {y!r}')
                continue
            st, z = call(inv, y)
            if st == 'exc':
                A.v(f'{inv.__name__}:raises-{type(z).__name__}{cls}', f'{inv.__name__}({y!r}) raised {z!r}')
                continue
            A.item((fwd.__name__, name, repr(obj)), arr_key(y), nontrivial=nt)
            if np.shape(y) != np.shape(ref):
                A.v(f'{fwd.__name__}:shape{cls}', f'{fwd.__name__}({tag}) has shape {np.shape(y)}, input shape {np.shape(ref)}')
            elif not _rel_ok(z, ref, rt_inv(ref, eps)):
                A.v(key + cls, f'{inv.__name__}({fwd.__name__}({tag})) = {z!r}, expected {ref!r} (rtol {np.max(rt_inv(ref, eps)) if np.size(ref) else 0:.1e})')
        # dbm = db + 30
        s1, a = call(db, obj)
        s2, b = call(dbm, obj)
        if s1 == 'ok' and s2 == 'ok':
            A.item(('dbm-db', name, repr(obj)), arr_key(np.asarray(b) - np.asarray(a)), nontrivial=nt)
            if not _abs_ok(b, np.asarray(a, dtype=float) + 30, at_db(np.asarray(a, dtype=float), eps, AT_HOM)):
                A.v('dbm:dbm(x)!=db(x)+30' + cls, f'dbm({tag}) = {b!r}, db+30 = {np.asarray(a) + 30!r}')
        # negative inputs raise ValueError
        nobj = _neg(obj)
        for fn in (db, dbm):
            if nobj is None:
                continue
            st, y = call(fn, nobj)
            A.item((fn.__name__, 'neg', name, repr(obj)), ('exc', type(y).__name__) if st == 'exc' else arr_key(y))
            if st == 'ok':
                A.v(f'{fn.__name__}:negative-accepted{cls}', f'{fn.__name__}({nobj!r}) returned {y!r}, ValueError required')
            elif not isinstance(y, ValueError) and not _refused(A, lenient, y):
                A.v(f'{fn.__name__}:negative-raises-{type(y).__name__}{cls}', f'{fn.__name__}({nobj!r}) raised {y!r}, ValueError required')
        if _snap(obj) != snap:
            A.v(f'db:input-modified{cls}', f'db/dbm/idb/idbm changed their argument {tag}')
    # one negative entry among positives, at every position
    for pos in range(len(xs)):
        mixed = list(xs)
        mixed[pos] = -mixed[pos]
        for cont in (list, tuple, np.array):
            for fn in (db, dbm):
                st, y = call(fn, cont(mixed))
                A.item((fn.__name__, 'mixed', cont.__name__, pos, e), ('exc', type(y).__name__) if st == 'exc' else arr_key(y))
                if st == 'ok' or not isinstance(y, ValueError):
                    A.v(f'{fn.__name__}:negative-accepted', f'{fn.__name__}({cont(mixed)!r}) -> {y!r}, ValueError required')
    # homomorphism against all 180 positives: array calls and scalar calls
    st0, dball = call(db, allpos)
    dby = [call(db, y) for y in ALLPOS]                  # scalar db(y), once per y
    for x in xs:
        st1, dx = call(db, x)
        st2, dxy = call(db, x * allpos)
        if 'exc' in (st0, st1, st2):
            A.v('db:raises', f'db raised on positives: {dball!r} {dx!r} {dxy!r}'[:300])
            continue
        A.item(('hom-array', x), arr_key(dxy))
        bad = np.abs(np.asarray(dxy) - (dx + np.asarray(dball))) > AT_HOM
        if bad.any():
            j = int(np.argmax(bad))
            A.v('db:db(x*y)!=db(x)+db(y)', f'x={x!r} y={ALLPOS[j]!r}: db(x*y)={dxy[j]!r}, db(x)+db(y)={dx + dball[j]!r} (array call)')
        for j, y in enumerate(ALLPOS):
            s, dxy1 = call(db, x * y)
            s3, dy = dby[j]
            if s == 'exc' or s3 == 'exc':
                A.v('db:raises', f'db({x * y!r}) or db({y!r}) raised')
                continue
            A.item(('hom', x, y), float(dxy1).hex())
            if not abs(float(dxy1) - (float(dx) + float(dy))) <= AT_HOM:
                A.v('db:db(x*y)!=db(x)+db(y)', f'x={x!r} y={y!r}: db(x*y)={dxy1!r}, db(x)+db(y)={float(dx) + float(dy)!r}')
    return A.done()


def fam_dbv(case):
    from opticomlib.utils import db, dbm, idb, idbm
    _, lo, hi = case
    ds = DBVALS[lo:hi]
    A = Acc('dbv')
    for name, cls, obj, ref, eps, lenient in _forms(ds, f16=F16_DB):
        tag = f'{name}:{obj!r}'[:120]
        snap = _snap(obj)
        for inv, fwd, key in ((idb, db, 'idb:db(idb(d))!=d'), (idbm, dbm, 'idbm:dbm(idbm(d))!=d')):
            st, y = call(inv, obj)
            if st == 'exc':
                if not _refused(A, lenient, y):
                    A.v(f'{inv.__name__}:raises-{type(y).__name__}{cls}', f'{inv.__name__}({tag}) raised {y!r}')
                continue
            st, z = call(fwd, y)           # chained call: what idb returned (numpy scalar / array) goes into db
            if st == 'exc':
                if not (isinstance(y, np.generic) and not isinstance(y, float) and _refused(A, True, z)):
                    A.v(f'{fwd.__name__}:raises-{type(z).__name__}{cls}', f'{fwd.__name__}({inv.__name__}({tag})) raised {z!r}')
                continue
            A.item((inv.__name__, name, repr(obj)), arr_key(y), nontrivial=bool(np.any(ref != 0)))
            if np.shape(y) != np.shape(ref):
                A.v(f'{inv.__name__}:shape{cls}', f'{inv.__name__}({tag}) has shape {np.shape(y)}, input shape {np.shape(ref)}')
            elif not _abs_ok(z, ref, at_db(ref, eps, AT_DB)):
                A.v(key + cls, f'{fwd.__name__}({inv.__name__}({tag})) = {z!r}, expected {ref!r} (atol {AT_DB})')
        if _snap(obj) != snap:
            A.v(f'idb:input-modified{cls}', f'idb/idbm/db/dbm changed their argument {tag}')
    return A.done()


# ===================================================================== Q / gaus
QGRID = [k / 16 for k in range(-128, 129)]     # [-8, 8] step 1/16, exact dyadics (also exact in float32 and float16)
QINTS = [float(k) for k in range(-8, 9)]
QFAR = [9.0, 10.0, 20.0, 26.0, 37.0, 38.0, 39.0, 40.0, 100.0, 1e3, 1e6, 1e15, 1e100, 1e300, 1.7976931348623157e308]
QFAR = [-v for v in reversed(QFAR)] + [0.0] + QFAR
GAUS_PAR = [(mu, sd) for mu in (0, -2, 3.5) for sd in (1, 0.1, 7)] + [(None, None), (None, 0.1), (3.5, None)]
# scale and offset (checklist 5): picosecond ... terahertz widths, a mean of 3 sigma at each scale, a large offset with a small width
GAUS_SCALE = [(0, 1e-12), (0, 1e-9), (0, 1e-6), (0, 1e6), (0, 1e12), (3e-12, 1e-12), (3e-9, 1e-9), (-3e6, 1e6), (3e12, 1e12),
              (1e6, 1.0), (-1e3, 1e-3), (193.1e12, 12.5e9)]
# forms of Q: name -> (points, how the argument is built, sample dtype that fixes the working precision, lenient)
Q_FORMS = ['scalar', 'scalar-mixed', 'array', 'list', 'tuple2d',
           'np.float64-scalar', '0-d array', 'np.float32-scalar', 'np.int64-scalar', 'np.int8-scalar', 'bool-scalar',
           'array2d', 'len1-arrays', 'strided-view', 'int-list', 'float32-array', 'float16-array',
           'int8-array', 'int16-array', 'int32-array', 'int64-array', 'uint8-array', 'uint16-array', 'uint32-array', 'uint64-array',
           'bool-array', 'far-array', 'far-scalar']


def _q_eval(Q, form):
    """-> (points, Q(points), Q(-points), rounding unit, lenient) or ('exc', exception, lenient)"""
    scal = {'scalar': float, 'np.float64-scalar': np.float64, '0-d array': lambda t: np.array(t), 'np.float32-scalar': np.float32,
            'np.int64-scalar': lambda t: np.int64(int(t)), 'np.int8-scalar': lambda t: np.int8(int(t)), 'far-scalar': float,
            'len1-arrays': lambda t: np.array([t])}
    if form in scal or form in ('scalar-mixed', 'bool-scalar'):
        pts = QINTS if form in ('np.int64-scalar', 'np.int8-scalar') else QFAR if form == 'far-scalar' else [0.0, 1.0] if form == 'bool-scalar' else QGRID
        eps = work_eps(np.float32) if form == 'np.float32-scalar' else EPS
        lenient = form in ('np.float32-scalar', 'np.int64-scalar', 'np.int8-scalar')
        vals, valsm = [], []
        for t in pts:
            if form == 'scalar-mixed':
                tt, tm = (int(t), -int(t)) if float(t).is_integer() else (t, -t)
            elif form == 'bool-scalar':
                tt, tm = bool(t), -int(t)
            else:
                tt, tm = scal[form](t), scal[form](-t)
            s, v = call(Q, tt)
            s2, vm = call(Q, tm)
            if s == 'exc' or s2 == 'exc':
                return 'exc', (v if s == 'exc' else vm), lenient
            if np.size(v) != 1 or np.size(vm) != 1:
                return 'exc', ValueError(f'Q({tt!r}) returned {v!r}'), False
            vals.append(float(np.asarray(v).reshape(())))
            valsm.append(float(np.asarray(vm).reshape(())))
        return pts, np.array(vals), np.array(valsm), eps, lenient
    pts, dt, wrap = QGRID, float, (lambda a: a)
    if form == 'list':
        wrap = lambda a: [float(t) for t in a]
    elif form == 'int-list':
        pts, wrap = QINTS, (lambda a: [int(t) for t in a])
    elif form == 'tuple2d':
        wrap = lambda a: (tuple(float(t) for t in a), tuple(float(t) for t in a))
    elif form == 'array2d':
        wrap = lambda a: np.array([a, a])
    elif form == 'strided-view':
        wrap = lambda a: np.repeat(a, 3)[::3]
    elif form == 'far-array':
        pts = QFAR
    elif form == 'bool-array':
        pts, dt = [0.0, 1.0], bool
    elif form.endswith('-array') and form != 'array':
        dt = getattr(np, form[:-6])
        pts = QGRID if dt in (np.float32, np.float16) else [t for t in QINTS if t >= 0] if np.dtype(dt).kind == 'u' else QINTS
    x = np.array(pts, dtype=dt)
    # the mirrored argument: unsigned and bool samples have no negatives, -x is supplied as a signed array of the same width or wider
    xm = -x if np.dtype(dt).kind in 'fi' else -np.array(pts, dtype=np.int64)
    eps = EPS if np.dtype(dt).kind in 'iub' else float(np.finfo(dt).eps)
    snap = (_snap(x), _snap(xm))
    s, q = call(Q, wrap(x))
    s2, qm = call(Q, wrap(xm))
    if s == 'exc' or s2 == 'exc':
        return 'exc', (q if s == 'exc' else qm), False
    if (_snap(x), _snap(xm)) != snap:
        return 'exc', ValueError('Q changed its argument'), False
    q, qm = np.asarray(q), np.asarray(qm)
    if form in ('tuple2d', 'array2d'):
        if q.shape != (2, len(pts)) or qm.shape != (2, len(pts)) or not np.array_equal(q[0], q[1]):
            return 'exc', ValueError(f'Q of a 2-row input has shape {q.shape} / differing rows'), False
        q, qm = q[1], qm[0]
    return pts, q.astype(float) if q.shape == (len(pts),) else q, qm.astype(float) if qm.shape == (len(pts),) else qm, eps, False


def fam_q(case):
    from opticomlib.utils import Q, gaus
    from scipy.stats import norm
    from scipy.integrate import quad
    _, form = case
    A = Acc('Q')
    cls = ':narrow-float' if 'float32' in form or 'float16' in form else ':int-dtype' if ('int' in form and form != 'int-list') or 'bool' in form else \
        ':far' if form.startswith('far') else ''
    r = _q_eval(Q, form)
    if r[0] == 'exc':
        if not _refused(A, r[2], r[1]):
            A.v(f'Q:raises{cls}', f'Q raised on the grid ({form}): {r[1]!r}')
        return A.done()
    pts, q, qm, eps, _ = r
    x = np.array(pts, dtype=float)
    ref = norm.sf(x)
    if q.shape != x.shape or qm.shape != x.shape:
        A.v(f'Q:shape{cls}', f'Q({form}) has shape {q.shape}, expected {x.shape}')
        return A.done()
    sym_tol = 1e-14 if eps == EPS else 8 * eps           # two erfc values of relative accuracy ~eps, sum <= 2
    for i, t in enumerate(pts):
        A.item((form, t), float(q[i]).hex(), nontrivial=(t != 0))
        # erfc(x/sqrt2): argument rounding gives x^2 eps relative (<= 64 eps on the grid): 1e-12 in float64 there, 16 x the bound elsewhere
        rtol = max(1e-12 if eps == EPS else 0.0, 16 * (min(t * t, 1e6) + 4) * eps)
        if not abs(q[i] + qm[i] - 1) <= sym_tol:
            A.v(f'Q:Q(x)+Q(-x)!=1{cls}', f'x={t}: Q(x)={q[i]!r} Q(-x)={qm[i]!r} sum-1={q[i] + qm[i] - 1:.3e} ({form})')
        if not abs(q[i] - ref[i]) <= rtol * ref[i] + 1e-300:
            A.v(f'Q:not-the-gaussian-tail{cls}', f'x={t}: Q(x)={q[i]!r}, standard normal tail = {ref[i]!r} ({form})')
        if i and not q[i] <= q[i - 1] + (0 if eps == EPS else 4 * eps):
            A.v(f'Q:not-decreasing{cls}', f'Q({pts[i - 1]})={q[i - 1]!r} < Q({t})={q[i]!r} ({form})')
        if i and ref[i - 1] - ref[i] > max(1e-14, 4 * rtol * ref[i - 1]) and not q[i] < q[i - 1]:
            A.v(f'Q:not-decreasing{cls}', f'Q({pts[i - 1]})={q[i - 1]!r} == Q({t})={q[i]!r} (strict decrease expected, {form})')
    i0 = pts.index(0.0)
    if not abs(q[i0] - 0.5) <= (1e-15 if eps == EPS else 2 * eps):
        A.v(f'Q:Q(0)!=1/2{cls}', f'Q(0) = {q[i0]!r} ({form})')
    if form in ('scalar', 'scalar-mixed'):
        # self-consistency with gaus: Q(a) is the integral of gaus over [a, inf)  (quad epsabs 1.5e-8)
        for a in range(-8, 9):
            val, err = quad(lambda t: float(gaus(t)), a, np.inf)
            A.item(('tail', a), round(val, 9))
            if not abs(val - q[QGRID.index(float(a))]) <= 1e-7:
                A.v('Q:not-the-integral-of-gaus', f'Q({a})={q[QGRID.index(float(a))]!r}, integral of gaus over [{a},inf) = {val!r}')
    return A.done()


GAUS_FORMS = ['array', 'list', 'scalar', 'positional', 'array2d', 'strided-view', 'np.float64-scalar', '0-d array', 'float32-array',
              'np.float64-params', 'float-params', 'int-params', 'np.int64-params']


def fam_gaus(case):
    from opticomlib.utils import gaus
    _, mu, sd = case
    A = Acc('gaus')
    m = 0 if mu is None else mu
    s = 1 if sd is None else sd
    kk = np.arange(-192, 193)                # mu +- 12 sigma, step sigma/16: trapezoid is spectrally exact here
    t = m + s * kk / 16.0                    # (aliasing error exp(-2 pi^2 256), truncation erfc(12/sqrt2) ~ 4e-33)
    h = s / 16.0
    kw = {}
    if mu is not None:
        kw['mu'] = mu
    if sd is not None:
        kw['std'] = sd
    moderate = (mu, sd) in GAUS_PAR
    for form in GAUS_FORMS:
        eps, tt, kw2, cls = EPS, t, kw, (':int-params' if form in ('int-params', 'np.int64-params') else '')
        if form == 'float32-array':
            if not moderate:
                continue
            tt, eps, cls = t.astype(np.float32), float(np.finfo(np.float32).eps), ':narrow-float'
        elif form.endswith('-params'):
            conv = {'np.float64-params': np.float64, 'float-params': float, 'int-params': int, 'np.int64-params': np.int64}[form]
            if not kw or (conv in (int, np.int64) and not all(float(v).is_integer() for v in kw.values())):
                continue
            kw2 = {k: conv(v) for k, v in kw.items()}
        snap = _snap(tt) if form != 'list' else None
        if form in ('array', 'float32-array') or form.endswith('-params'):
            st, g = call(gaus, tt, **kw2)
        elif form == 'list':
            st, g = call(gaus, list(t), **kw)
        elif form == 'positional':
            st, g = call(gaus, t, mu, sd)
        elif form == 'array2d':
            st, g = call(gaus, np.array([t, t[::-1]]), **kw)
            if st == 'ok' and np.shape(g) == (2, t.size):
                if not np.array_equal(np.asarray(g)[0], np.asarray(g)[1][::-1]):
                    A.v('gaus:shape', f'mu={mu} std={sd}: rows of a 2-D input (x and reversed x) give different values')
                g = np.asarray(g)[0]
        elif form == 'strided-view':
            st, g = call(gaus, np.repeat(t, 2)[::2], **kw)
        else:
            conv = {'scalar': float, 'np.float64-scalar': np.float64, '0-d array': lambda v: np.array(v)}[form]
            gl = []
            st = 'ok'
            for v in t:
                st, gv_ = call(gaus, conv(v), **kw)
                if st == 'exc' or np.size(gv_) != 1:
                    st, g = 'exc', (gv_ if st == 'exc' else ValueError(f'gaus of a scalar returned {gv_!r}'))
                    break
                gl.append(float(gv_))
            if st == 'ok':
                g = np.array(gl)
        if st == 'exc':
            A.v(f'gaus:raises-{type(g).__name__}{cls}', f'gaus(..., {kw2}) raised {g!r} ({form})')
            continue
        if snap is not None and _snap(tt) != snap:
            A.v(f'gaus:input-modified{cls}', f'gaus changed its argument ({form})')
        g = np.asarray(g, dtype=float)
        if g.shape != t.shape:
            A.v(f'gaus:shape{cls}', f'shape {g.shape} for input shape {t.shape} ({form})')
            continue
        tf = np.asarray(tt, dtype=float)
        integral = float(np.sum(0.5 * (g[1:] + g[:-1]) * np.diff(tf))) if form == 'float32-array' else float(np.sum(g) * h - 0.5 * h * (g[0] + g[-1]))
        A.item((form, mu, sd), arr_key(g))
        # 385 terms, each relative error few eps -> < 1e-13 (float64); the nodes mu + k sigma/16 are rounded to ulp(|mu|+12 sigma),
        # which moves each value by z ulp/sigma relative: 8 eps (|mu|+12 sigma)/sigma covers it 20 times (only matters for |mu| >> sigma)
        tol = 1e-12 * (eps / EPS) + 8 * eps * (abs(m) + 12 * s) / s
        if not abs(integral - 1) <= tol:
            A.v(f'gaus:integral!=1{cls}', f'mu={mu} std={sd}: trapezoid integral over mu+-12 std = {integral!r} ({form}, tolerance {tol:.1e})')
        if np.any(g < 0):
            A.v(f'gaus:negative{cls}', f'mu={mu} std={sd}: negative density ({form})')
    return A.done()


# ===================================================================== rcos
def rcos_points(alpha, T, dt=np.float64):
    """symmetric sorted grid of sample points, all exactly representable in the floating type dt: the 1/64 grid of
    +-1.5/T (for T outside [1/8, 8]: 96 steps of 1/(64 T)), the three corners (1-alpha)/(2T), 1/(2T), (1+alpha)/(2T) with
    their two neighbours IN dt, and far points"""
    lim = 1.5 / T
    if 0.125 <= T <= 8:
        pts = {k / 64 for k in range(0, int(math.floor(lim * 64)) + 1)}
    else:
        pts = {k / (64 * T) for k in range(0, 97)}
    corners = [(1 - alpha) / (2 * T), 1 / (2 * T), (1 + alpha) / (2 * T)]
    for c in corners:
        cd = dt(c)
        pts.update([float(cd), float(np.nextafter(cd, dt(np.inf))), float(np.nextafter(cd, dt(0)))] if c > 0 else [c])
    pts.update([lim, lim + 1 / T, 10 / T, 1e6 / T] if dt is not np.float16 else [lim, lim + 1 / T, 10 / T])
    with np.errstate(all='ignore'):
        pts = sorted({float(dt(p)) for p in pts if p >= 0 and np.isfinite(dt(p))})
    return [-p for p in reversed(pts) if p > 0] + pts       # symmetric, sorted


def rcos_ints(T, dt=None):
    """integer sample points: every integer up to ceil(1.5/T)+1 and (extreme but legal) the largest value of the type and its
    negative.  The most negative value of a signed type (whose |x| does not exist in the type) is outside the statements by
    the policy of HARDEN_BRIEF and is not enumerated (observation in notes/C19.md)"""
    m = int(math.ceil(1.5 / T)) + 1
    if m > 1000:                      # a symbol period far below one: 0, +-1, +-2 and the extremes
        m = 2
    pts = set(range(-m, m + 1))
    ii = np.iinfo(dt if dt is not None else np.int64)
    pts.update([ii.max, -ii.max] if ii.min < 0 else [ii.max])
    return sorted(p for p in pts if ii.min <= p <= ii.max)


# form -> (kind of the violation key, sample type, container)
RCOS_SCALARS = {'scalar': float, 'np.float64': np.float64, '0-d array': lambda v: np.array(float(v)), 'int-scalar': int,
                'np.float32-scalar': np.float32, 'np.int64-scalar': np.int64, 'np.int8-scalar': np.int8, 'bool-scalar': bool,
                'len1-arrays': lambda v: np.array([float(v)]), 'len1-int-lists': lambda v: [int(v)]}
RCOS_LENIENT = ('np.float32-scalar', 'np.int64-scalar', 'np.int8-scalar')    # rcos documents ValueError for x that is neither a number nor array_like
RCOS_ARRAYS = {'array': np.float64, 'list': np.float64, 'tuple': np.float64, 'array2d': np.float64, 'strided-view': np.float64,
               'float32-array': np.float32, 'float16-array': np.float16,
               'int-array': np.int64, 'int32-array': np.int32, 'int8-array': np.int8, 'int16-array': np.int16, 'uint8-array': np.uint8,
               'uint16-array': np.uint16, 'uint32-array': np.uint32, 'uint64-array': np.uint64, 'bool-array': bool,
               'int-list': np.int64, 'int-tuple': np.int64}
RCOS_FORMS = list(RCOS_SCALARS) + list(RCOS_ARRAYS)
RCOS_PTYPES = ['float', 'np.float64', 'np.int64', 'keywords']        # spellings of alpha and T other than the plain literal


def _rcos_kind(form):
    if form in RCOS_SCALARS and not form.startswith('len1'):
        return 'scalar'
    dt = RCOS_ARRAYS.get(form, np.int64 if 'int' in form else np.float64)
    return 'narrow-float-array' if dt in (np.float32, np.float16) else 'float-array' if dt is np.float64 else 'int-array'


def fam_rcos(case):
    from opticomlib.utils import rcos
    _, alpha, T, form = case[:4]
    ptype = case[4] if len(case) > 4 else 'literal'
    A = Acc('rcos')
    kind = _rcos_kind(form)
    al, TT = alpha, T
    if ptype in ('float', 'np.float64', 'np.int64'):
        conv = {'float': float, 'np.float64': np.float64, 'np.int64': np.int64}[ptype]
        al, TT = conv(alpha), conv(T)
    fn = (lambda x: rcos(x=x, alpha=al, T=TT)) if ptype == 'keywords' else (lambda x: rcos(x, al, TT))
    sdt = RCOS_ARRAYS.get(form, {'np.float32-scalar': np.float32, 'np.int64-scalar': np.int64, 'np.int8-scalar': np.int8,
                                 'int-scalar': np.int64, 'len1-int-lists': np.int64, 'bool-scalar': bool}.get(form, np.float64))
    k = np.dtype(sdt).kind
    eps = float(np.finfo(sdt).eps) if k == 'f' else EPS
    if k == 'f':
        xs = rcos_points(alpha, T, sdt)
    elif k == 'b':
        xs = [0, 1]
    else:
        xs = rcos_ints(T, sdt)
        if form == 'int-scalar':
            xs = sorted(set(xs) | {-2 ** 63 - 1, 2 ** 63 + 1, -10 ** 30, 10 ** 30})  # python ints are unbounded (-2**63 itself: see rcos_ints)
    n = len(xs)
    lenient = form in RCOS_LENIENT
    if form in RCOS_SCALARS:
        conv = RCOS_SCALARS[form]
        H = []
        for x in xs:
            arg = conv(x)
            st, v = call(fn, arg)
            if st == 'exc':
                if not (lenient and isinstance(v, (ValueError, TypeError)) and A.stat('numpy-scalar-type-refused(accepted)') is None):
                    A.v(f'rcos:raises-{type(v).__name__}:{kind}', f'rcos({arg!r},{al!r},{TT!r}) raised {v!r}')
                return A.done()
            if np.size(v) != 1 or (np.ndim(v) != 0 and not form.startswith('len1')):
                A.v(f'rcos:shape:{kind}', f'rcos({arg!r},{al!r},{TT!r}) returned {v!r}')
                return A.done()
            H.append(float(np.asarray(v).reshape(())))
        H = np.array(H)
    else:
        base = np.array(xs, dtype=sdt)
        if form == 'list':
            obj = [float(x) for x in xs]
        elif form == 'tuple':
            obj = tuple(float(x) for x in xs)
        elif form == 'array2d':
            obj = np.array([xs, xs[::-1]], dtype=float)
        elif form == 'strided-view':
            obj = np.repeat(base, 2)[::2]
        elif form == 'int-list':
            obj = [int(x) for x in xs]
        elif form == 'int-tuple':
            obj = tuple(int(x) for x in xs)
        else:
            obj = base
        snap = _snap(obj)
        st, v = call(fn, obj)
        if st == 'exc':
            A.v(f'rcos:raises-{type(v).__name__}:{kind}', f'rcos({form} of {n} points,{al!r},{TT!r}) raised {v!r}')
            return A.done()
        if _snap(obj) != snap:
            A.v(f'rcos:input-modified:{kind}', f'rcos({form},{al!r},{TT!r}) changed its argument')
        v = np.asarray(v)
        if v.shape != np.shape(obj):
            A.v(f'rcos:shape:{kind}', f'rcos({form}) has shape {v.shape}, input shape {np.shape(obj)}')
            return A.done()
        if form == 'array2d':
            if not np.array_equal(v[0], v[1][::-1]):
                A.v(f'rcos:even:{kind}', 'rows of a 2-D input (x and reversed x) give different values')
            v = v[0]
        H = v.astype(float)
    half = 1 / (2 * T)
    cut = (1 + alpha) / (2 * T)
    flat = (1 - alpha) / (2 * T)
    true_cut = (1 + Fraction(alpha)) / (2 * Fraction(T))
    true_flat = (1 - Fraction(alpha)) / (2 * Fraction(T))
    # 'beyond (1+alpha)/(2T)': decided exactly when the corner is a representable number (dyadic alpha, T; also in the sample type);
    # otherwise a 4 eps guard band around the corner is not judged (any implementation rounds the corner somehow)
    exact = Fraction(cut) == true_cut and Fraction(1 + alpha) == 1 + Fraction(alpha) and (k != 'f' or float(sdt(cut)) == cut)
    guard = 0 if exact else 4 * Fraction(eps)
    exact_flat = Fraction(flat) == true_flat and (k != 'f' or float(sdt(flat)) == flat)
    # one function, whatever the container: every form must agree with the plain float scalar call at the same x.
    # H = (1+cos(theta))/2, theta = pi T/alpha (|x| - flat): evaluating theta in the sample type costs <= pi (1+alpha)/alpha eps
    # + 2 pi eps, i.e. |dH| <= 2 (1 + 1/alpha) eps + 4 eps; 16 (1 + 1/alpha) eps is asserted (alpha = 0: values are 0 or 1)
    agree_tol = 16 * (1 + (1 / alpha if alpha > 0 else 1)) * eps
    index = {x: i for i, x in enumerate(xs)}
    for i, x in enumerate(xs):
        ax = abs(x)
        band = flat < ax <= cut
        A.item((alpha, T, form, ptype, x), (kind, float(H[i]).hex()), nontrivial=bool(band or ax in (flat, half, cut)))
        where = f'rcos(x={x!r}, alpha={al!r}, T={TT!r}) as {form}'
        if not (-4 * eps <= H[i] <= 1 + 4 * eps):
            A.v(f'rcos:range:{kind}', f'{where} = {H[i]!r} outside [0,1]')
        j = index.get(-x)
        if j is not None and not abs(H[i] - H[j]) <= 4 * eps:
            A.v(f'rcos:even:{kind}', f'{where} = {H[i]!r} but at -x: {H[j]!r}')
        if alpha > 0 and ax == half and not abs(H[i] - 0.5) <= max(1e-12, agree_tol):
            A.v(f'rcos:half-value:{kind}', f'{where} = {H[i]!r}, expected 1/2 at |x| = 1/(2T) = {half}')
        beyond = Fraction(ax) > true_cut * (1 + guard)
        if beyond and not abs(H[i]) <= 1e-15:
            A.v(f'rcos:vanish:{kind}', f'{where} = {H[i]!r}, expected 0 beyond (1+alpha)/(2T) = {cut}')
        if form != 'scalar' and abs(x) < 2 ** 1023:
            near_cut = not exact and abs(Fraction(ax) - true_cut) <= 4 * Fraction(eps) * true_cut
            near_flat = not exact_flat and abs(Fraction(ax) - true_flat) <= 4 * Fraction(eps) * true_flat
            if not (near_cut or near_flat):
                st, h0 = call(rcos, float(x), alpha, T)
                if st == 'ok' and not abs(H[i] - float(h0)) <= agree_tol:
                    A.v(f'rcos:differs-from-scalar-call:{kind}', f'{where} = {H[i]!r}, but rcos({float(x)!r}, {alpha}, {T}) = {h0!r}')
    return A.done()


# ===================================================================== dec2bin
# v and d are scalar parameters: python int / bool, np.int32, np.int64 and 0-d arrays of those (policy of HARDEN_BRIEF; unsigned and
# 8/16-bit numpy scalars are outside the statement - they happen to work except a np.uint64 digit count, see notes/C19.md)
D2B_TYPES = {'int': int, 'bool': bool, 'int32': np.int32, 'int64': np.int64, 'arr0d-int64': lambda v: np.array(v, dtype=np.int64),
             'arr0d-int32': lambda v: np.array(v, dtype=np.int32)}
_D2B_RANGE = {'int32': np.int32, 'int64': np.int64, 'arr0d-int64': np.int64, 'arr0d-int32': np.int32}


def _d2b_fits(v, tname):
    if tname == 'int':
        return True
    if tname == 'bool':
        return v in (0, 1)
    ii = np.iinfo(_D2B_RANGE[tname])
    return ii.min <= v <= ii.max


def fam_d2b(case):
    """('d2b', d, lo, hi[, type of v, type of d, call form]): every lo <= v < hi with d digits; at the end of the range of d also
    the too-large values.  Types: python int (default) or a numpy integer type / bool for v and for d - values that do not
    fit the type are skipped.  The statement does not say what a digit count of type np.uint64 means for numpy's
    uint64-with-int arithmetic (it promotes to float64): that type is not used for d.
    call form: 'pos' dec2bin(v, d) | 'kw' dec2bin(num=v, digits=d) | 'default' dec2bin(v) with d = 8"""
    from opticomlib.utils import dec2bin
    _, d, lo, hi = case[:4]
    vt, dtn, cform = (case[4:] + ('int', 'int', 'pos')[len(case) - 4:]) if len(case) > 4 else ('int', 'int', 'pos')
    A = Acc('dec2bin')
    cls = '' if (vt, dtn) == ('int', 'int') else ':numpy-int'
    if not _d2b_fits(d, dtn):
        return A.done()
    dd = D2B_TYPES[dtn](d)
    f = {'pos': lambda v: dec2bin(v, dd), 'kw': lambda v: dec2bin(num=v, digits=dd), 'default': lambda v: dec2bin(v)}[cform]
    shifts = np.arange(d - 1, -1, -1)
    for v in range(lo, hi):
        if not _d2b_fits(v, vt):
            continue
        vv = D2B_TYPES[vt](v)
        st, b = call(f, vv)
        if st == 'exc':
            A.v(f'dec2bin:raises-{type(b).__name__}{cls}', f'dec2bin({vv!r},{dd!r}) raised {b!r}')
            continue
        b = np.asarray(b)
        A.item((v, d, vt, dtn, cform), (d, b.tobytes()), nontrivial=v >= 1)
        if b.shape != (d,):
            A.v(f'dec2bin:length{cls}', f'dec2bin({vv!r},{dd!r}) has shape {b.shape}')
            continue
        want = (v >> shifts) & 1
        if not np.array_equal(b.astype(np.int64), want):
            A.v(f'dec2bin:expansion{cls}', f'dec2bin({vv!r},{dd!r}) = {b.tolist()}, expected {format(v, f"0{d}b") if d else "no digits"}')
    if lo == 0 and (vt, dtn) == ('int', 'int'):
        # negative v: the statement speaks of 0 <= v < 2^d and of too-large v only - recorded, not judged
        for v in (-1, -2 ** d):
            st, b = call(f, v)
            A.item((v, d, 'neg', cform), ('exc', type(b).__name__) if st == 'exc' else arr_key(b), nontrivial=False)
            A.stat('negative-v(not judged)')
    if hi == 2 ** d:
        # too large: the first values beyond the range, the next power of two and its neighbours, far values
        big = sorted({2 ** d, 2 ** d + 1, 2 ** d + 2 ** max(d - 1, 0), 2 ** (d + 1) - 1, 2 ** (d + 1), 2 ** (d + 1) + 1, 3 * 2 ** d,
                      2 ** (2 * d + 1), 2 ** 31 - 1, 2 ** 31, 2 ** 32, 2 ** 63 - 1, 2 ** 63, 2 ** 64 - 1, 2 ** 64, 2 ** 64 + 1, 10 ** 30} - set(range(2 ** d)))
        for v in big:
            if not _d2b_fits(v, vt):
                continue
            vv = D2B_TYPES[vt](v)
            st, b = call(f, vv)
            A.item((v, d, vt, dtn, cform), ('exc', type(b).__name__) if st == 'exc' else arr_key(b))
            if st == 'ok':
                A.v(f'dec2bin:no-ValueError{cls}', f'dec2bin({vv!r},{dd!r}) returned {np.asarray(b).tolist()}, ValueError required')
            elif not isinstance(b, ValueError):
                A.v(f'dec2bin:raises-{type(b).__name__}{cls}', f'dec2bin({vv!r},{dd!r}) raised {b!r}, ValueError required')
    return A.done()


# ===================================================================== si
SI_PREFIX = {'f': -15, 'p': -12, 'n': -9, 'u': -6, 'μ': -6, 'µ': -6, 'm': -3, '': 0, 'k': 3, 'M': 6, 'G': 9, 'T': 12}
SI_NAME = {-15: 'femto', -12: 'pico', -9: 'nano', -6: 'micro', -3: 'milli', 0: 'unit', 3: 'kilo', 6: 'mega', 9: 'giga', 12: 'tera'}
SI_MANT = ['1', '1.0000001', '2.5', '9.99', '999.9', '999.96']
SI_RE = re.compile(r'^(\d+(?:\.(\d+))?) (.*)$')
F10 = Fraction(10)


def si_inputs(e):
    """x values of exponent group e (a list of (label, x)): python floats and ints, and the same numbers as numpy scalars
    (np.float64, np.float32 with the float32 neighbours of the decade constant, np.float16 where it has the range, 0-d array,
    np.int64 / np.int32 / np.uint8 where the integer fits)"""
    out = []
    for m in SI_MANT:
        try:
            out.append((f'{m}e{e}', float(f'{m}e{e}')))                 # correctly rounded decimal literal
            out.append((f'{m}*10.0**{e}', float(m) * 10.0 ** e))        # product as a user would compute it
        except OverflowError:
            pass
    b = float(f'1e{e}')
    out.append((f'nextafter(1e{e},inf)', float(np.nextafter(b, np.inf))))
    if e > -15:
        out.append((f'nextafter(1e{e},0)', float(np.nextafter(b, 0))))
    if e >= 0:
        for m in (1, 2, 25, 999):
            out.append((f'int {m}*10**{e}', m * 10 ** e))
    for lab, x in list(out):
        if isinstance(x, int):
            for dt in (np.int64, np.int32, np.uint8):
                if _fits(x, dt) if abs(x) < 2 ** 64 else False:
                    out.append((f'np.{dt.__name__}({lab})', dt(x)))
            continue
        out.append((f'np.float64({lab})', np.float64(x)))
        out.append((f'np.array({lab})', np.array(x)))
        with np.errstate(all='ignore'):
            for dt in (np.float32, np.float16):
                if abs(e) <= (37 if dt is np.float32 else 4):
                    f = dt(x)
                    out.append((f'np.{dt.__name__}({lab})', f))
                    if lab.startswith('1e'):
                        out.append((f'nextafter(np.{dt.__name__}({lab}),inf)', np.nextafter(f, dt(np.inf))))
                        out.append((f'nextafter(np.{dt.__name__}({lab}),0)', np.nextafter(f, dt(0))))
    seen, uniq = set(), []
    for lab, x in out:
        k = (type(x).__name__, float(x) if not isinstance(x, (int, np.integer)) else int(x))
        if isinstance(x, int) and x >= 2 ** 1023:
            continue
        if x >= 1e-15 and np.isfinite(float(x)) and k not in seen:          # the statement speaks of x >= 1e-15 only
            seen.add(k)
            uniq.append((lab, x))
    return uniq


def si_decade(x):
    """decade of x with the thresholds read as the doubles 1e-15, 1e-12, ... (python compares int/float exactly)"""
    for p in range(12, -16, -3):
        if x >= float(f'1e{p}'):
            return p
    return None


def si_check(A, lab, x, unit, k, form='pos'):
    """form: 'pos' si(x, unit, k) | 'default' si(x) (unit 's', k = 1) | 'kw' si(x, unit=unit, k=k) | 'kw-k' si(x, k=k) (unit 's')"""
    from opticomlib.utils import si
    xv = int(x) if isinstance(x, (int, np.integer)) else float(np.asarray(x))        # the number itself, exactly
    narrow = type(x) if isinstance(x, (np.float32, np.float16)) else None
    eps = float(np.finfo(narrow).eps) if narrow else EPS
    p_exp = si_decade(xv)
    name = SI_NAME[p_exp]
    st, s = call(*{'pos': (si, x, unit, k), 'default': (si, x), 'kw': (lambda: si(x, unit=unit, k=k),), 'kw-k': (lambda: si(x, k=k),)}[form])
    where = f'si({lab} = {x!r}, {unit!r}, k={k!r})' + ('' if form == 'pos' else f' [{form} call]')
    A.item((type(x).__name__, repr(xv), unit, int(k), type(k).__name__, form), s if st == 'ok' else ('exc', type(s).__name__), nontrivial=not (1 <= xv < 1000))
    if st == 'exc':
        A.v(f'si:raises-{type(s).__name__}:{name}', f'{where} raised {s!r}')
        return
    m = SI_RE.match(s) if isinstance(s, str) else None
    if not m or not m.group(3).endswith(unit) or m.group(3)[:len(m.group(3)) - len(unit)] not in SI_PREFIX:
        A.v(f'si:format:{name}', f'{where} = {s!r}: not "<mantissa> <prefix>{unit}" with a prefix of f,p,n,u,m,none,k,M,G,T')
        return
    p = SI_PREFIX[m.group(3)[:len(m.group(3)) - len(unit)]]
    ndec = len(m.group(2) or '')
    fx = Fraction(xv)
    printed = Fraction(m.group(1)) * F10 ** p
    # printed precision: half a unit of the last printed digit, plus the rounding of the one float product
    # x*1e(-p) that any implementation needs before formatting (2 ulp of x, in the floating type of x)
    tol = Fraction(1, 2) * F10 ** (p - ndec) + 4 * Fraction(eps) * fx
    if abs(printed - fx) > tol:
        A.v(f'si:roundtrip:{name}', f'{where} = {s!r}: {m.group(1)} x 1e{p} = {float(printed)!r} differs from x by {float(abs(printed - fx)):.3e} '
                                     f'(printed precision {float(tol):.3e})')
    if xv < 1e15:
        # unrounded mantissa x/10^p in [1,1000): thresholds read as the doubles 1e<p>, 1e<p+3> (what the literals of the
        # statement denote) or as exact powers of ten (or, for a float32/float16 x, as those constants rounded to the type of x,
        # which is how numpy >= 2 compares) - any of these readings is accepted, no numeric slack is needed
        float_rule = float(f'1e{p}') <= xv < float(f'1e{p + 3}')
        exact_rule = F10 ** p <= fx < F10 ** (p + 3)
        with np.errstate(all='ignore'):
            type_rule = narrow is not None and float(narrow(f'1e{p}')) <= xv < float(narrow(f'1e{p + 3}'))
        if not (float_rule or exact_rule or type_rule):
            A.v(f'si:mantissa-range:{name}', f'{where} = {s!r}: unrounded mantissa x/1e{p} = {float(fx / F10 ** p)!r} not in [1,1000)')


SI_EXTRA = [('s', 2, 'pos'), ('Hz', 6, 'pos'), ('s', np.int64(1), 'pos'), ('m', 1, 'pos'), ('Ohm', 1, 'pos'), ('', 1, 'pos'), ('mm', 0, 'pos'),
            ('s', 1, 'default'), ('Hz', 3, 'kw'), ('s', 0, 'kw-k')]      # other k, units (also the ambiguous 'm'), call forms


def fam_si(case):
    _, e = case
    A = Acc('si')
    for lab, x in si_inputs(e):
        for k in (0, 1, 3):
            for unit in ('s', 'Hz'):
                si_check(A, lab, x, unit, k)
        for unit, k, form in SI_EXTRA:
            si_check(A, lab, x, unit, k, form)
    return A.done()


# ===================================================================== str2array
S2A_VAL = {'int': [0, 1, -2, 10], 'float': [0.5, -0.25, 3.0, 10.125], 'complex': [1 + 2j, -1.5 - 0.5j, 2j, 3 + 0j]}
S2A_TOK = {'int': ['0', '1', '-2', '10'], 'float': ['0.5', '-0.25', '3.0', '10.125'],
           'complex': ['1+2{u}', '-1.5-0.5{u}', '2{u}', '3']}
# alternative fixed-point spellings of the same complex values (thorough tier)
S2A_VAL['complex-full'] = S2A_VAL['complex']
S2A_TOK['complex-full'] = ['1.0+2.0{u}', '-1.5-0.5{u}', '0+2{u}', '3+0{u}']
ELEM_SEPS = [' ', ',', ', ']
ROW_SEPS = [';', '; ']
DTYPES = [None, int, float, complex, bool]
DTNAME = {None: 'None', int: 'int', float: 'float', complex: 'complex', bool: 'bool'}
ONLY01 = set('01,; ')
GRAMMAR = set('0123456789,;.+- ij')
BADCHARS = [chr(c) for c in range(0x21, 0x7f) if chr(c) not in GRAMMAR]     # 77 printable ASCII characters


def s2a_expect(text, vals, r, c):
    """oracle: dict dtype -> spec, for the text that renders the r x c value matrix `vals` (complex numbers).
    spec = ('bits', array) | ('exact', array) | ('lossy', dtype) | ('ragged',)"""
    shape = (c,) if r == 1 else (r, c)
    base = np.array(vals, dtype=complex).reshape(shape)
    out = {}
    if set(text) <= ONLY01:
        rows = [''.join(ch for ch in row if ch in '01') for row in text.split(';')]
        if len({len(x) for x in rows}) > 1:
            bits = None
        else:
            bits = np.array([[int(ch) for ch in row] for row in rows], dtype=np.int64)
            if r == 1:
                bits = bits[0]
        for dt in DTYPES:
            if dt in (None, bool):
                out[dt] = ('ragged',) if bits is None else ('bits', bits)
            else:
                out[dt] = ('exact', base.real.astype(dt) if dt is not complex else base)
        return out
    if 'i' in text or 'j' in text:
        nat = base
    elif '.' in text:
        nat = base.real.astype(float)
    else:
        nat = base.real.astype(np.int64)
    for dt in DTYPES:
        if dt is None:
            out[dt] = ('exact', nat)
            continue
        with np.errstate(all='ignore'):
            with warnings.catch_warnings():
                warnings.simplefilter('ignore')
                cast = nat.astype(dt)
        if np.array_equal(cast.astype(complex), nat.astype(complex)):
            out[dt] = ('exact', cast)
        else:
            out[dt] = ('lossy', np.dtype(dt), cast.shape)
    return out


def s2a_one(A, alph, text, exp, nontrivial=True, lenient=False):
    """lenient: a spelling the statement does not explicitly list (but that has one reading only): ValueError is accepted,
    a returned array is judged like any other"""
    from opticomlib.utils import str2array
    for dt in DTYPES:
        spec = exp[dt]
        st, a = call(str2array, text) if dt is None else call(str2array, text, dtype=dt)
        where = f'str2array({text!r}' + ('' if dt is None else f', dtype={DTNAME[dt]}') + ')'
        A.item((text, DTNAME[dt]), ('exc', type(a).__name__) if st == 'exc' else arr_key(a),
               nontrivial=nontrivial or dt is not None)
        if spec[0] == 'ragged':
            A.stat('ragged-bit-pattern(any behaviour accepted)')
            continue
        if st == 'exc':
            if spec[0] == 'lossy' and isinstance(a, (ValueError, TypeError)):
                A.stat('lossy-cast-refused(accepted)')
                continue
            if lenient and isinstance(a, ValueError):
                A.stat('unlisted-spelling-refused(accepted)')
                continue
            k = 'ValueError-on-valid' if isinstance(a, ValueError) else f'raises-{type(a).__name__}'
            A.v(f'str2array:{k}:{alph}', f'{where} raised {a!r}')
            continue
        if not isinstance(a, np.ndarray):
            A.v(f'str2array:shape:{alph}', f'{where} returned {type(a).__name__}, ndarray expected')
            continue
        if spec[0] == 'lossy':
            A.stat('lossy-cast(only dtype and shape compared)')
            if a.dtype != spec[1]:
                A.v(f'str2array:dtype:{alph}', f'{where} has dtype {a.dtype}, explicit dtype {spec[1]} not honoured')
            if a.shape != spec[2]:
                A.v(f'str2array:shape:{alph}', f'{where} has shape {a.shape}, expected {spec[2]}')
            continue
        want = spec[1]
        if a.shape != want.shape:
            A.v(f'str2array:shape:{alph}', f'{where} has shape {a.shape}, expected {want.shape}: {a.tolist()!r}')
            continue
        if spec[0] == 'bits':
            if a.dtype.kind not in 'biu':
                A.v(f'str2array:kind:{alph}', f'{where} has dtype {a.dtype}; a bit pattern (bool/int) expected')
            elif dt is bool and a.dtype != np.dtype(bool):
                A.v(f'str2array:dtype:{alph}', f'{where} has dtype {a.dtype}, explicit dtype bool not honoured')
            elif not np.array_equal(a.astype(np.int64), want):
                A.v(f'str2array:value:{alph}', f'{where} = {a.astype(int).tolist()!r}, bit pattern {want.tolist()!r} expected')
            continue
        if dt is None:
            if a.dtype.kind != want.dtype.kind:
                A.v(f'str2array:kind:{alph}', f'{where} has dtype {a.dtype}; the text is the fixed-point form of a {want.dtype} array')
                continue
        elif a.dtype != np.dtype(dt):
            A.v(f'str2array:dtype:{alph}', f'{where} has dtype {a.dtype}, explicit dtype {np.dtype(dt)} not honoured')
            continue
        if not np.array_equal(a, want):
            A.v(f'str2array:value:{alph}', f'{where} = {a.tolist()!r}, expected {want.tolist()!r}')


def s2a_render(A, alph, idx, r, c):
    vals = [S2A_VAL[alph][i] for i in idx]
    units = ('i', 'j') if alph.startswith('complex') else ('',)
    eseps = ELEM_SEPS if c > 1 else ELEM_SEPS[:1]
    rseps = ROW_SEPS if r > 1 else ROW_SEPS[:1]
    seen = set()
    for u in units:
        toks = [S2A_TOK[alph][i].format(u=u) for i in idx]
        rows = [toks[k * c:(k + 1) * c] for k in range(r)]
        for es in eseps:
            rowtxt = [es.join(row) for row in rows]
            for rs in rseps:
                text = rs.join(rowtxt)
                if text in seen:          # e.g. no imaginary unit present: 'i' and 'j' renderings coincide
                    continue
                seen.add(text)
                s2a_one(A, alph, text, s2a_expect(text, vals, r, c), nontrivial=(r * c > 1 or not text.isdigit()))
                A.stat('texts')


def s2a_dev_arrays(n, base, k):
    """all index vectors differing from `base` in at most k positions (k=0 first)"""
    yield tuple(base)
    for kk in range(1, k + 1):
        for pos in itertools.combinations(range(n), kk):
            alts = [[v for v in range(4) if v != base[p]] for p in pos]
            for repl in itertools.product(*alts):
                idx = list(base)
                for p, v in zip(pos, repl):
                    idx[p] = v
                yield tuple(idx)


def fam_s2a(case):
    """case = ('s2a', alph, r, c, mode, arg): mode 'full' (arg = (first index or None)) | 'dev' (arg = (baseline, k))"""
    _, alph, r, c, mode, arg = case
    A = Acc('str2array')
    n = r * c
    if mode == 'full':
        if arg is None:
            it = itertools.product(range(4), repeat=n)
        else:
            it = ((arg,) + t for t in itertools.product(range(4), repeat=n - 1))
    else:
        bl, k = arg
        base = [0] * n if bl == 'const' else [(i // c + i % c) % 4 for i in range(n)]
        it = s2a_dev_arrays(n, base, k)
    for idx in it:
        s2a_render(A, alph, idx, r, c)
        A.stat('arrays')
    return A.done()


def _split_tokens(bits, mask):
    toks, cur = [], bits[0]
    for i in range(1, len(bits)):
        if mask >> (i - 1) & 1:
            toks.append(cur)
            cur = bits[i]
        else:
            cur += bits[i]
    toks.append(cur)
    return toks


def _canon_int(tok):
    return tok == '0' or not tok.startswith('0')


def fam_bits(case):
    """0/1-only texts.  case = ('bits', L, first, rows): every bit string of length L (starting with the prefix `first`),
    cut into tokens in every possible way (2^(L-1) masks), every element separator; rows=2: two such rows."""
    _, L, first, rows = case
    A = Acc('str2array')
    alph = 'bits'
    strings = [first + ''.join(t) for t in itertools.product('01', repeat=L - len(first))]
    if rows == 1:
        for bits in strings:
            for mask in range(2 ** (L - 1)):
                toks = _split_tokens(bits, mask)
                for es in (ELEM_SEPS if len(toks) > 1 else ELEM_SEPS[:1]):
                    text = es.join(toks)
                    want_bits = np.array([int(ch) for ch in bits], dtype=np.int64)
                    exp = {None: ('bits', want_bits), bool: ('bits', want_bits)}
                    numeric = all(_canon_int(t) for t in toks)
                    for dt in (int, float, complex):
                        exp[dt] = ('exact', np.array([int(t) for t in toks]).astype(dt)) if numeric else None
                    _bits_one(A, alph, text, exp)
    elif rows == 3:
        # three rows of L digits each, every tokenisation of every row (first row starts with the prefix `first`)
        allrows = [(b, _split_tokens(b, m)) for b in [''.join(t) for t in itertools.product('01', repeat=L)] for m in range(2 ** (L - 1))]
        for (b1, t1), (b2, t2), (b3, t3) in itertools.product([x for x in allrows if x[0].startswith(first)], allrows, allrows):
            want_bits = np.array([[int(ch) for ch in b] for b in (b1, b2, b3)], dtype=np.int64)
            numeric = len(t1) == len(t2) == len(t3) and all(_canon_int(t) for t in t1 + t2 + t3)
            for es in (ELEM_SEPS if max(len(t1), len(t2), len(t3)) > 1 else ELEM_SEPS[:1]):
                for rs in ROW_SEPS:
                    text = rs.join([es.join(t1), es.join(t2), es.join(t3)])
                    exp = {None: ('bits', want_bits), bool: ('bits', want_bits)}
                    for dt in (int, float, complex):
                        exp[dt] = ('exact', np.array([[int(t) for t in tt] for tt in (t1, t2, t3)]).astype(dt)) if numeric else None
                    _bits_one(A, alph, text, exp)
    else:
        allrows = [(b, _split_tokens(b, m)) for b in [x + ''.join(t) for x in '01' for t in itertools.product('01', repeat=L - 1)]
                   for m in range(2 ** (L - 1))]
        for b1 in strings:
            for m1 in range(2 ** (L - 1)):
                t1 = _split_tokens(b1, m1)
                for b2, t2 in allrows:
                    want_bits = np.array([[int(ch) for ch in b1], [int(ch) for ch in b2]], dtype=np.int64)
                    numeric = len(t1) == len(t2) and all(_canon_int(t) for t in t1 + t2)
                    for es in (ELEM_SEPS if max(len(t1), len(t2)) > 1 else ELEM_SEPS[:1]):
                        for rs in ROW_SEPS:
                            text = rs.join([es.join(t1), es.join(t2)])
                            exp = {None: ('bits', want_bits), bool: ('bits', want_bits)}
                            for dt in (int, float, complex):
                                exp[dt] = ('exact', np.array([[int(t) for t in t1], [int(t) for t in t2]]).astype(dt)) if numeric else None
                            _bits_one(A, alph, text, exp)
    return A.done()


def _bits_one(A, alph, text, exp):
    full = {dt: (exp[dt] if exp[dt] is not None else ('ragged',)) for dt in DTYPES}
    if any(exp[dt] is None for dt in DTYPES):
        A.stat('non-canonical-numeric-reading-skipped')
    s2a_one(A, alph, text, full, nontrivial=len(text) > 1)
    A.stat('texts')


BAD_BASES = ['101', '1 0 1', '1 -2 10', '10;01', '0.5,-0.25; 3.0,10.125', '1+2j -1.5-0.5i', '2i, 3; 1+2j, 3', '']
# '' : the text that consists of the invalid character alone


# --------------------------------------------------------------------- the "any other character" alphabets
# Grammar of the statement: digits 0-9, comma / space between elements, ';' between rows, i or j, and the sign and dot
# of the fixed-point form.  WHITESPACE: the statement says "comma/space separated", the library documents "comma or
# whitespace" - U+0020 is a separator for certain, for every other white-space character (tab, newline, U+001C..1F,
# NEL, NBSP, the U+2000.. spaces, line/paragraph separator, ideographic space: everything `str.isspace` or the regex
# class \s knows) the statement does not say whether it is a separator or "another character", so such characters are
# NOT judged (they are left out of the alphabets; 28 characters).  Everything else that is not in GRAMMAR must raise
# ValueError, whatever Unicode thinks of it (decimal digit, minus sign, full-width comma, invisible format character).
def _is_ws(ch):
    return ch.isspace() or re.match(r'\s', ch) is not None


# look-alikes that Unicode normalisation does not map onto the grammar character: minus/plus signs, soft hyphen, middle
# dot, Arabic decimal/thousands separators and comma/semicolon, ideographic comma/full stop, low-9 quote, reversed
# semicolon, dotless / Cyrillic / Greek i and j, Cyrillic and Greek O, palochka, divides
_LOOKALIKE = {0x2212: '-', 0x207B: '-', 0x208B: '-', 0x2796: '-', 0x02D7: '-', 0x00AD: '-', 0x2795: '+', 0x00B7: '.',
              0x066B: '.', 0x066C: ',', 0x060C: ',', 0x3001: ',', 0x201A: ',', 0x061B: ';', 0x204F: ';', 0x3002: '.',
              0x0131: 'i', 0x0237: 'j', 0x0456: 'i', 0x0458: 'j', 0x03B9: 'i', 0x03F3: 'j',
              0x041E: '0', 0x039F: '0', 0x043E: '0', 0x03BF: '0', 0x04CF: '1', 0x04C0: '1', 0x2223: '1'}


def char_class(ch):
    """input class of an out-of-grammar character (used in the violation key)"""
    import unicodedata as ud
    o = ord(ch)
    cat = ud.category(ch)
    if 0x21 <= o < 0x7f:
        return 'ascii'
    if cat == 'Cc':
        return 'control'
    if cat == 'Nd':
        return 'unicode-decimal-digit'
    if cat in ('Nl', 'No') or ch.isnumeric():
        return 'unicode-numeric'
    if lookalike_of(ch):
        return 'look-alike'
    if cat == 'Cf':
        return 'format-char'
    return {'L': 'unicode-letter', 'P': 'unicode-punctuation', 'S': 'unicode-symbol', 'M': 'combining-mark'}.get(cat[0], 'other-' + cat)


def lookalike_of(ch):
    """the grammar character(s) `ch` stands for under Unicode compatibility normalisation / digit value / the explicit
    table of minus, plus, dot, comma, semicolon, i, j, 0, 1 look-alikes; '' if none"""
    import unicodedata as ud
    if ch in GRAMMAR:
        return ''
    if ord(ch) in _LOOKALIKE:
        return _LOOKALIKE[ord(ch)]
    if ud.category(ch) == 'Pd':
        return '-'
    d = ud.digit(ch, None)
    if d is not None:
        return str(d)
    n = ud.normalize('NFKC', ch)
    if n and set(n) <= GRAMMAR and n.strip():
        return n
    return ''


_BLOCKS = [(0x00, 0x20), (0x7F, 0x100), (0x370, 0x530), (0x2000, 0x20A0), (0x2100, 0x2150), (0xFE50, 0xFE70), (0xFF00, 0xFFF0)]


def _candidate(ch, cat):
    """assigned, not private use / surrogate, not white space, not a grammar character"""
    return cat not in ('Cn', 'Co', 'Cs') and ch not in GRAMMAR and not _is_ws(ch)


_ALPH_DOC = """the invalid-character alphabets.
    'ascii': the 77 printable ASCII characters outside the grammar.
    'uni' (quick and thorough): every non-white-space control character below U+00A0; EVERY character of the whole Unicode
       range that is numeric (categories Nd, Nl, No or str.isnumeric: 1902 characters, 670 decimal digits of all scripts
       among them) or that stands for a grammar character (`lookalike_of`: full-width / small / super- and subscript /
       mathematical forms of digits , ; . + - i j, every dash, the explicit table); every format character (Cf),
       currency sign (Sc) and enclosing mark (Me); the whole blocks Latin-1 supplement, Greek, Cyrillic, General
       Punctuation, Super/Subscripts, Letterlike symbols, Small Form Variants, Halfwidth/Fullwidth forms; and, as a
       spread over all scripts, the first character of every 256-code-point row of the BMP and of every
       4096-code-point row of the other planes.
    'uni2' (thorough only): every other BMP character of the categories Sm, Po, Ps, Pe, Pi, Pf, Pc, Sk, Mn.
    'all' (thorough only, used at two positions only): every assigned, non-surrogate, non-private-use code point.
    White-space characters (see above) and grammar characters are never members."""

_ALPH_CACHE = {}


def all_range(lo, hi):
    """members of 'all' with lo <= code point <= hi (cheap: computed in the worker from the range in the case)"""
    import unicodedata as ud
    return [chr(c) for c in range(lo, hi + 1) if _candidate(chr(c), ud.category(chr(c)))]


def bad_alphabet(name):
    """one linear pass over the code space, in the coordinating process only: the cases carry the characters themselves
    ('ascii', 'uni', 'uni2') or a code point range ('all')"""
    if name in _ALPH_CACHE:
        return _ALPH_CACHE[name]
    import unicodedata as ud
    if name == 'ascii':
        out = list(BADCHARS)
    elif name == 'all':
        out = all_range(0, 0x10FFFF)
    else:
        uni, uni2, rows = [], [], set()
        for ch in bad_alphabet('all'):
            o = ord(ch)
            row = o >> 8 if o < 0x10000 else 0x1000 + (o >> 12)
            first = row not in rows
            rows.add(row)
            if 0x21 <= o < 0x7f:
                continue
            cat = ud.category(ch)
            if (cat in ('Nd', 'Nl', 'No', 'Pd', 'Cf', 'Sc', 'Me') or (first and o >= 0x100) or any(lo <= o < hi for lo, hi in _BLOCKS)
                    or ch.isnumeric() or lookalike_of(ch)):
                uni.append(ch)
            elif 0x80 <= o < 0x10000 and cat in ('Sm', 'Po', 'Ps', 'Pe', 'Pi', 'Pf', 'Pc', 'Sk', 'Mn'):
                uni2.append(ch)
        _ALPH_CACHE['uni'], _ALPH_CACHE['uni2'] = uni, uni2
        return _ALPH_CACHE[name]
    _ALPH_CACHE[name] = out
    return out


def _bad_one(A, text, ch, how):
    from opticomlib.utils import str2array
    cls = char_class(ch)
    sfx = '' if cls == 'ascii' else ':' + cls
    shown = f'{ch!r} (U+{ord(ch):04X})'
    for dt in DTYPES:
        st, a = call(str2array, text) if dt is None else call(str2array, text, dtype=dt)
        A.item(('bad', text, DTNAME[dt]), ('exc', type(a).__name__) if st == 'exc' else arr_key(a))
        where = f'str2array({text!r}' + ('' if dt is None else f', dtype={DTNAME[dt]}') + ')'
        if st == 'ok':
            A.v(f'str2array:invalid-char-accepted{sfx}', f'{where} returned {np.asarray(a).tolist()!r}; character {shown} ({how}) must raise ValueError')
        elif not isinstance(a, ValueError):
            A.v(f'str2array:invalid-char-raises-{type(a).__name__}{sfx}', f'{where} raised {a!r}; character {shown} ({how}): ValueError required')


def fam_bad(case):
    """('bad', alphabet, base index, chars, mode): every character of the string `chars` (alphabet 'all': of the code
    point range chars = (lo, hi)), all of them outside the grammar and not white space,
    mode 'insert': inserted once at every position of the base text (for the base '' the character alone);
    mode 'ends'  : inserted at the middle position only and, for the base '', alone (alphabet 'all');
    mode 'subst' : a look-alike of a grammar character written INSTEAD of that character, at every occurrence, one at a
                   time and all occurrences at once.
    Every dtype argument each time -> ValueError"""
    _, alph, bi, chars, mode = case
    base = BAD_BASES[bi]
    A = Acc('str2array')
    for ch in (all_range(*chars) if alph == 'all' else chars):
        if mode == 'subst':
            g = lookalike_of(ch)
            if len(g) != 1 or g not in base:
                continue
            occ = [i for i, b in enumerate(base) if b == g]
            texts = [base[:i] + ch + base[i + 1:] for i in occ]
            if len(occ) > 1:
                texts.append(base.replace(g, ch))
            for text in texts:
                _bad_one(A, text, ch, f'written for {g!r}')
            continue
        positions = range(len(base) + 1) if mode == 'insert' else [len(base) // 2]
        for pos in positions:
            _bad_one(A, base[:pos] + ch + base[pos:], ch, f'inserted at position {pos} of {base!r}')
    return A.done()


# ===================================================================== single-case replays (regression / minimal)
def fam_one(case):
    """('one', 'si', x, unit, k) | ('one', 'rcos', xs, alpha, T)  - minimal cases of known defects"""
    if case[1] == 'si':
        A = Acc('si')
        _, _, x, unit, k = case
        si_check(A, repr(x), x, unit, k)
        return A.done()
    from opticomlib.utils import rcos
    A = Acc('rcos')
    _, _, xs, alpha, T = case
    st, H = call(rcos, np.array(xs), alpha, T)
    if st == 'exc':
        A.v(f'rcos:raises-{type(H).__name__}:int-array', f'rcos(np.array({xs}),{alpha},{T}) raised {H!r}')
        return A.done()
    for x, h in zip(xs, np.asarray(H, dtype=float)):
        A.item((alpha, T, 'one', x), float(h).hex())
        if alpha > 0 and abs(x) == 1 / (2 * T) and not abs(h - 0.5) <= 1e-12:
            A.v('rcos:half-value:int-array', f'rcos(np.array({xs}), alpha={alpha}, T={T}) = {np.asarray(H).tolist()}: value at x={x} is {h!r}, '
                                             f'expected 1/2 at |x| = 1/(2T) (the scalar call gives {rcos(float(x), alpha, T)!r})')
    return A.done()


# ===================================================================== repeated calls (added by the coordinator)
FRESH_TEXTS = [('3 -2 17 5', None), ('3 -2 17 5', float), ('1.5, -0.25; 3.0, 10.125', None), ('1+2j 0.5j 3', None),
               ('1+2i, -1.5-0.5i; 2i, 3', complex), ('1011', None), ('10 100 1000', int), ('0 1; 1 0', None)]


def fam_fresh(case):
    """('fresh', index): every call of a conversion/parsing function returns its OWN result: the caller may overwrite what
    it got (in place) and the next call with the same arguments must still return the written values."""
    from opticomlib import utils as U
    A = Acc('fresh')
    text, dt = FRESH_TEXTS[case[1]]
    calls = [('str2array', lambda: U.str2array(text, dt) if dt is not None else U.str2array(text)),
             ('dec2bin', lambda: U.dec2bin(37 + case[1], 9)),
             ('idb', lambda: U.idb([0.0, 3.0, float(case[1])])),
             ('db', lambda: U.db([1.0, 2.0, 10.0 + case[1]])),
             ('Q', lambda: U.Q(np.array([0.0, 1.0, 2.5]))),
             ('rcos', lambda: U.rcos(np.array([0.0, 0.4, 0.8]), 0.5, 1.0))]
    for name, f in calls:
        r1 = np.asarray(f())
        want = r1.copy()
        try:
            if r1.flags.writeable and r1.size:
                r1[...] = (r1 * 0 + 1).astype(r1.dtype) if r1.dtype != bool else ~r1
        except Exception:
            pass
        r2 = np.asarray(f())
        A.item((name, case[1]), arr_key(r2))
        if r2.shape != want.shape or r2.dtype != want.dtype or not np.array_equal(r2, want):
            A.v(f'{name}:repeated-call:stale-result', f'{name} (case {case[1]}: {text!r}, dtype={dt}) returned {want.tolist()!r}; after the caller overwrote that '
                                                      f'array in place, the same call returns {r2.tolist()!r}')
    return A.done()


FAMILIES = {'db': fam_db, 'dbv': fam_dbv, 'q': fam_q, 'gaus': fam_gaus, 'rcos': fam_rcos, 'd2b': fam_d2b,
            'si': fam_si, 's2a': fam_s2a, 'bits': fam_bits, 'bad': fam_bad, 'one': fam_one, 'fresh': fam_fresh}


def _hard():
    from mcx.props import c19_hard          # imported lazily: c19_hard imports this module
    return c19_hard


def case_fn(case):
    f = FAMILIES.get(case[0])
    return (f or _hard().FAMILIES[case[0]])(case)


# ===================================================================== driver
REGRESS = [
    ('one', 'si', 2e12, 'Hz', 1),            # DESIGN 8 #17: '2000.0 THz'
    ('one', 'rcos', [0, 1], 1, 0.5),         # DESIGN 8 #18: [1, 0] instead of [1, 0.5]
]


def _merge(ctx, payloads, nt_all, out_all):
    for p in payloads:
        if not p:
            continue
        ctx.evaluations += p['items'] - 1        # the kernel counted the batch as one evaluation
        nt_all.append(np.frombuffer(p['nt'], dtype=np.uint64))
        out_all.append(np.frombuffer(p['out'], dtype=np.uint64))


def run(ctx):
    quick = ctx.quick
    nt_all, out_all = [], []

    ctx.rule('C19: bounded-exhaustive enumeration, simplest first, batched (one case_fn call = one decade / digit count / '
             'array shape); evaluations = individual library results compared with the oracle. '
             'db/dbm/idb/idbm: 30 decades x 6 mantissas as float, np.float64, int, list, tuple, 1-D, 2-D and int arrays, '
             'all 180x180 products, every negated form and every single-negative position; every integer and half-integer dB '
             'in [-300,300]. Q on [-8,8] step 1/16 (array, list, nested tuple, scalars); gaus for 12 (mu,std) settings. '
             'rcos: alpha x T x 11 input forms on a 1/64 grid of +-1.5/T plus corners and their float neighbours; integer grids. '
             'dec2bin: every (v,d), 1<=d<=16, 0<=v<2^d, plus 2^d and 2^d+1. str2array: every r x c array (r<=2,c<=3) over 4-value '
             'alphabets per dtype, deviation lattices (<=2 entries) around two baselines for shapes up to 3x6, every element/row '
             'separator style, both imaginary units, every explicit dtype; every 0/1 string up to the stated length in every '
             'tokenisation; every out-of-grammar printable ASCII character and 3445 non-ASCII / control characters (every Unicode '
             'numeric character incl. the 670 decimal digits of all scripts, every compatibility form and look-alike of a grammar '
             'character, dashes, format characters, whole Latin-1/Greek/Cyrillic/punctuation/full-width blocks, one character per '
             '256-code-point row) at every position of 7 base texts and alone, and written instead of the grammar character they '
             'resemble; thorough: 2488 more symbols/punctuation/marks at every position and every assigned code point at one position '
             'of 2 base texts and alone; white-space characters other than U+0020 are not judged. '
             'si: 30 exponent groups x (6 mantissas as decimal literal and as product, decade constants and both float '
             'neighbours, integers) x k in {0,1,3} x units {s,Hz}. '
             'HARDENING PASS: every family additionally runs over the sample types bool, int8..uint64, float16, float32, 0-d arrays, numpy '
             'scalars, nested / length-1 / empty / strided containers, write-protected arguments (compared byte for byte afterwards); db '
             'family over every decade of the double range (denormals .. 1.8e308), python ints up to 1e300, |dB| up to 3000; Q out to '
             '+-1.8e308; gaus at 12 scaled / offset (mu, std), integer sample grids of every integer type and integer mu/std; rcos with '
             '28 input forms, float32/float16 grids with their own corner neighbours, type extremes of every integer type, alpha/T as '
             'float / numpy scalars / keywords, T = 1e-9, 1e9 (thorough 1e-12, 2.5e-11, 1e6), agreement of every form with the scalar call; '
             'dec2bin with d = 0, default and keyword digits, every numpy integer type for v and d, 17 too-large values per d; si with '
             'numpy scalars (float64/32/16, int64/32, uint8, 0-d), k in {2, 6, np.int64(1)}, units m, Ohm, none, default/keyword calls, '
             'x up to 1e308; str2array: numpy print forms (padding, runs of blanks, "3."), 17 further spellings (value or ValueError), '
             '3-row bit patterns, rows of 13..4097 elements, python numerals outside the grammar, numpy dtype spellings, positional dtype; '
             'one shared writable sample array through a whole parameter sweep')
    ctx.assume('numpy/scipy reference functions (log10 rounding, scipy.stats.norm.sf, quad) are correct; python Fraction arithmetic is exact')
    ctx.assume('continuum quantifiers (all positive reals, all real dB values) are covered at the listed grid points only')
    ctx.assume('where the statement is silent the oracle is silent: lossy explicit casts (complex->real, fractional->int, ->bool) are '
               'checked for dtype and shape only; ragged bit patterns, leading-zero tokens under a numeric dtype, x < 1e-15 and '
               'non-(int,float) scalar types are not judged; both u and the Greek mu are accepted for micro; str2array: the statement '
               'names comma and space as separators, the library documents "whitespace": white-space characters other than U+0020 '
               '(tab, newline, U+001C-1F, NEL, NBSP, U+1680, U+2000-200A, U+2028/2029/202F/205F/3000) are neither required to '
               'separate nor required to raise and are left out of the invalid-character alphabets')

    ctx.assume('sample types: identities are asserted to the precision of the floating type numpy evaluates the samples in (float16 for '
               'float16/bool/int8/uint8, float32 for float32/int16/uint16, float64 otherwise); numpy scalar types other than np.float64 may be '
               'refused with TypeError/ValueError (documented for db/dbm and rcos), a returned value is judged; x = 0, negative v of dec2bin, '
               'np.uint64 digit counts, empty rows / leading or trailing semicolons, newlines and numpy dtype spellings on 0/1-only texts are '
               'not judged; spellings the statement does not list (padding other than numpy print, doubled / mixed separators, plus signs, '
               '".5", leading or trailing comma, TAB) may be refused with ValueError but must not yield a different array')

    ctx.sample({'family': 'si', 'item': "si(2.5e-07, 's', k=1) -> '250.0 ns': 250.0 x 1e-9 == x within 0.05e-9; x/1e-9 in [1,1000)"})
    ctx.sample({'family': 'str2array', 'item': "str2array('1+2i, -1.5-0.5i; 2i, 3', dtype=None) == [[1+2j,-1.5-0.5j],[2j,3]] (complex)"})
    ctx.sample({'family': 'str2array', 'item': "str2array('1 -2 1\\u0663 0', dtype=float) raises ValueError (ARABIC-INDIC DIGIT THREE is not a grammar character)"})
    ctx.sample({'family': 'dec2bin', 'item': 'dec2bin(37, 9) == [0,0,0,1,0,0,1,0,1]; dec2bin(512, 9) raises ValueError'})
    ctx.sample({'family': 'rcos', 'item': 'rcos(np.array([-2,-1,0,1,2]), alpha=0.5, T=0.5)[3] == 1/2'})

    # -- regression replays of the known minimal cases first
    for c in REGRESS:
        r = ctx.run_case('regress', case_fn, c)
        _merge(ctx, [r.get('payload')], nt_all, out_all)

    per_part = ctx.extra.setdefault('items_per_part', {})

    def part(name, cases, horizon=120):
        payloads = ctx.pmap(name, case_fn, cases, horizon=horizon, chunk=1, recheck=2)
        _merge(ctx, payloads, nt_all, out_all)
        per_part[name] = sum(p['items'] for p in payloads if p)

    # -- conversions
    part('db.decades', [('db', e) for e in sorted(DECADES, key=lambda e: (abs(e), e < 0))])
    step = 76
    part('db.dBvalues', [('dbv', lo, min(lo + step, len(DBVALS))) for lo in range(0, len(DBVALS), step)])

    # -- Q, gaus
    part('Q', [('q', f) for f in Q_FORMS])
    part('gaus', [('gaus', mu, sd) for mu, sd in GAUS_PAR + GAUS_SCALE])

    # -- rcos
    alphas = [0, 0.25, 0.5, 1]
    Ts = [1, 0.5, 2, 0.25]
    if not quick:
        alphas += [0.3, 0.75]
        Ts += [0.3, 4, 0.125]
    rc = [('rcos', a, T, f) for f in RCOS_FORMS for T in Ts for a in alphas]
    # spellings of alpha and T (float / numpy scalars / keywords) for one scalar, one float-array and one integer-array form
    rc += [('rcos', a, T, f, pt) for pt in RCOS_PTYPES for f in ('scalar', 'array', 'int-array') for T in Ts for a in alphas
           if pt != 'np.int64' or (float(a).is_integer() and float(T).is_integer())]
    # scale: nanosecond / picosecond symbol periods (x in GHz / THz) and a period of 1e9
    Tscale = [1e-9, 1e9] + ([] if quick else [1e-12, 2.5e-11, 1e6])
    rc += [('rcos', a, T, f) for f in RCOS_FORMS for T in Tscale for a in ([0, 0.5, 1] if quick else alphas)
           if not f.startswith('bool') and f != 'float16-array']
    part('rcos', rc)

    # -- dec2bin: every (v, d), d = 0 included; numpy integer types for v and d; keyword and default-digits calls
    d2b = [('d2b', 0, 0, 1)]
    for d in range(1, 17):
        n = 2 ** d
        blk = 4096
        for lo in range(0, n, blk):
            d2b.append(('d2b', d, lo, min(lo + blk, n)))
    d2b += [('d2b', 8, 0, 256, 'int', 'int', 'default')] + [('d2b', d, 0, 2 ** d, 'int', 'int', 'kw') for d in (0, 1, 5, 8)]
    d2b += [('d2b', d, 0, 2 ** d, 'bool', 'int', 'pos') for d in (0, 1, 2)]
    nptypes = [t for t in D2B_TYPES if t not in ('int', 'bool')]
    for vt in nptypes + ['int']:
        for dtn in ['int'] + nptypes:
            if (vt, dtn) == ('int', 'int'):
                continue
            # quick: every (v, d) with d <= 10 in every type pairing (0-d arrays: d <= 8, their arithmetic is slow), d = 16 for the
            # numpy scalar types; thorough: d <= 16 (0-d arrays 12)
            slow = 'arr0d' in vt or 'arr0d' in dtn
            dmax_np = (8 if slow else 10) if quick else (12 if slow else 16)
            for d in list(range(0, dmax_np + 1)) + ([16] if quick and not slow else []):
                n = 2 ** d
                for lo in range(0, n, 8192):
                    d2b.append(('d2b', d, lo, min(lo + 8192, n), vt, dtn, 'pos'))
    part('dec2bin', d2b)

    # -- si
    part('si', [('si', e) for e in sorted(range(-15, 15), key=lambda e: (abs(e), e < 0))] + [('si', e) for e in (15, 16, 18, 21, 30, 100, 300, 308)])

    # -- str2array
    alphs = ['int', 'float', 'complex'] + ([] if quick else ['complex-full'])
    full = []
    for r, c in [(1, 1), (1, 2), (2, 1), (1, 3), (2, 2), (2, 3)]:
        for al in alphs:
            if r * c >= 6:
                full += [('s2a', al, r, c, 'full', first) for first in range(4)]
            else:
                full.append(('s2a', al, r, c, 'full', None))
    part('str2array.full', full)
    kdev = 2
    dev = []
    for r in (1, 2, 3):
        for c in range(1, 7):
            if r <= 2 and c <= 3:
                continue
            for al in alphs:
                for bl in ('const', 'cyc'):
                    dev.append(('s2a', al, r, c, 'dev', (bl, kdev)))
    dev.sort(key=lambda t: t[2] * t[3])
    part('str2array.deviations', dev)
    Lmax1, Lmax2 = (7, 3) if quick else (9, 4)
    def prefixes(L):
        n = 1 if L < 8 else 3
        return [''.join(t) for t in itertools.product('01', repeat=n)]
    bits = [('bits', L, first, 1) for L in range(1, Lmax1 + 1) for first in prefixes(L)] + \
           [('bits', L, first, 2) for L in range(1, Lmax2 + 1) for first in '01'] + \
           [('bits', L, first, 3) for L in range(1, (2 if quick else 3) + 1) for first in '01']
    part('str2array.bit-patterns', bits)
    def bad_cases(alph, mode, step, bases=None):
        al = bad_alphabet(alph)
        chunks = [al[lo:lo + step] for lo in range(0, len(al), step)]
        chunks = [(ord(c[0]), ord(c[-1])) if alph == 'all' else ''.join(c) for c in chunks]
        return [('bad', alph, bi, c, mode) for bi in (range(len(BAD_BASES)) if bases is None else bases) for c in chunks]
    nbases = len(BAD_BASES)
    part('str2array.invalid-characters', bad_cases('ascii', 'insert', 20))
    part('str2array.invalid-characters.unicode', bad_cases('uni', 'insert', 400))
    part('str2array.invalid-characters.look-alike-substitution', bad_cases('uni', 'subst', 4000, bases=range(nbases - 1)))
    if not quick:
        part('str2array.invalid-characters.unicode-more', bad_cases('uni2', 'insert', 400))
        part('str2array.invalid-characters.every-code-point', bad_cases('all', 'ends', 8000, bases=[2, 5, nbases - 1]))

    # -- hardening pass: extreme magnitudes, integer sample grids, other spellings, shared-input sweeps (mcx/props/c19_hard.py)
    for name, cs in _hard().cases(quick):
        part(name, cs)

    # -- repeated calls return fresh results
    part('repeated-calls', [('fresh', i) for i in range(len(FRESH_TEXTS))])

    # -- per-item distinct counts
    nt = np.unique(np.concatenate(nt_all)) if nt_all else np.array([], dtype=np.uint64)
    out = np.unique(np.concatenate(out_all)) if out_all else np.array([], dtype=np.uint64)
    ctx.nt_tags = set(nt.tolist())
    ctx.outcomes = set(out.tolist())
    ctx.extra['bounds'] = {'dB': '[-300,300] step 0.5', 'decades': '1e-15..1e14 x 6 mantissas', 'dec2bin_digits': 16,
                           'str2array_full_shape': '2x3', 'str2array_deviation_shape': '3x6', 'str2array_deviations': kdev,
                           'bit_string_length_1row': Lmax1, 'bit_string_length_2rows': Lmax2,
                           'invalid_characters': len(BADCHARS),
                           'invalid_characters_unicode': len(bad_alphabet('uni')),
                           'invalid_characters_thorough': None if quick else len(bad_alphabet('uni2')) + len(bad_alphabet('all')), 'si_exponents': '[-15,14] + 1e15',
                           'rcos_alpha': alphas, 'rcos_T': Ts}
    print(f'[C19] items={ctx.evaluations} distinct_nontrivial={len(ctx.nt_tags)} distinct_outcomes={len(ctx.outcomes)}', flush=True)
