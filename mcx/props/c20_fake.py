"""C20 helpers: the simulated PPG3204 (wire side: parses SCPI strings, keeps registers and per-channel
pattern memory, monitors every command) and the reference model (caller side: predicts from the
ARGUMENTS of a driver call which registers may hold which values afterwards).  The two never share code
beyond the limits table, which is copied from the property text (not from the driver's constants)."""
from __future__ import annotations
import hashlib
import re
import traceback
import numpy as np

# ---------------------------------------------------------------- limits (property text)
FREQ = (1.5e9, 32e9)
AMPL = (0.3, 2.0)
OFFS = (-2.0, 3.0)
SKEW = (-25e-12, 25e-12)
PLEN = (2, 2 ** 21)
ORDERS = (7, 9, 11, 15, 23, 31)
NCH = 4
MEM = 2 ** 21
BLOCK = 1024


def bg(ch, addr):
    """background content of the pattern memory before anything is written (a fixed pseudo-random field, so
    that a write to a wrong address or channel is visible and a read of a wrong address returns wrong bits)"""
    x = (addr * 2654435761 + ch * 40503 + 12345) & 0xFFFFFFFF
    x ^= x >> 13
    x = (x * 1274126177) & 0xFFFFFFFF
    return (x >> 11) & 1


def bgv(ch, addr, n):
    """bg() for addresses addr..addr+n-1 as a uint8 array"""
    a = np.arange(addr, addr + n, dtype=np.uint64)
    x = (a * np.uint64(2654435761) + np.uint64(ch * 40503 + 12345)) & np.uint64(0xFFFFFFFF)
    x ^= x >> np.uint64(13)
    x = (x * np.uint64(1274126177)) & np.uint64(0xFFFFFFFF)
    return ((x >> np.uint64(11)) & np.uint64(1)).astype(np.uint8)


DEFAULTS = {'leng': 2, 'type': 'DATA', 'plen': 7, 'bsh': 0, 'skew': 0.0, 'volt': 1.0, 'offs': 0.0, 'outp': 0}

NUM = r'[-+]?(?:\d+\.?\d*|\.\d+)(?:[eE][-+]?\d+)?'
INT = r'[-+]?\d+'
CH = r'(-?\d+)'
_P = [
    ('rst', r'\*RST'),
    ('idn?', r'\*IDN\?'),
    ('freq', rf':FREQ ({NUM})'),
    ('freq?', r':FREQ\?'),
    ('leng', rf':DIG{CH}:PATT:LENG ({NUM})'),      # integer-valued parameters: the value TEXT is validated (see int_value)
    ('leng?', rf':DIG{CH}:PATT:LENG\?'),
    ('type', rf':DIG{CH}:PATT:TYPE (DATA|PRBS)'),
    ('type?', rf':DIG{CH}:PATT:TYPE\?'),
    ('plen', rf':DIG{CH}:PATT:PLEN ({NUM})'),
    ('plen?', rf':DIG{CH}:PATT:PLEN\?'),
    ('bsh', rf':DIG{CH}:PATT:BSH ({NUM})'),
    ('bsh?', rf':DIG{CH}:PATT:BSH\?'),
    ('data', rf':DIG{CH}:PATT:DATA ({INT}),({INT}),#(.*)'),
    ('data?', rf':DIG{CH}:PATT:DATA\? ({INT}),({INT})'),
    ('outp', rf':OUTP{CH} (ON|OFF)'),
    ('skew', rf':SKEW{CH} ({NUM})'),
    ('skew?', rf':SKEW{CH}\?'),
    ('volt', rf':VOLT{CH}:POS ({NUM})[vV]?'),
    ('volt?', rf':VOLT{CH}:POS\?'),
    ('offs', rf':VOLT{CH}:(?:NEG|POS):OFFS ({NUM})[vV]?'),
    ('offs?', rf':VOLT{CH}:OFFS\?'),
]
PATS = [(k, re.compile(p + r'\Z', re.S)) for k, p in _P]

def int_value(txt):
    """value text of an integer-valued parameter (pattern length, PRBS order, bit shift) -> (x, whole, n):
    x = the number the text spells (IEEE-488.2 <NRf>: '7', '7.0', '1e3' all spell whole numbers), whole = x is a whole
    number, n = what an instrument register holds after the <NRf> -> <NR1> rounding (nearest integer).  The text is never
    int()-truncated: '9.97' is NOT order 9 and '1000.5' is NOT a length of 1000 bits."""
    x = float(txt)
    if x != x or x in (float('inf'), float('-inf')):
        return x, False, 0
    if re.fullmatch(INT, txt):
        return int(txt), True, int(txt)
    whole = x == np.floor(x)
    return x, bool(whole), int(np.floor(x + 0.5))


RANGE = {'freq': FREQ, 'leng': PLEN, 'skew': SKEW, 'volt': AMPL, 'offs': OFFS}
REGNAME = {'freq': 'frequency', 'leng': 'pattern-length', 'skew': 'skew', 'volt': 'amplitude', 'offs': 'offset',
           'plen': 'prbs-order'}


class FakeBug(Exception):
    """the simulated instrument itself failed (harness error, never a violation)"""


class Fake:
    """dict-backed VISA session.  query(cmd) -> '\\n' for writes, '<value>\\n' for queries, '\\n\\n' for a
    command it cannot parse or that addresses a non-existing channel (what the driver treats as invalid)."""

    def __init__(self):
        self.freq = 1e10
        self.reg = {c: dict(DEFAULTS) for c in range(1, NCH + 1)}
        self.mem = {c: [] for c in range(1, NCH + 1)}      # write log [(addr, uint8 array)] overlaid on bg()
        self.log = []          # every command string, in order
        self.parsed = []       # (kind, ch, fields) for every command
        self.issues = []       # (key, msg) found by the command monitor
        self.stats = {'cmds': 0, 'zero_len_reads': 0, 'blocks': 0, 'reads': 0}
        self.crash = None
        self.timeout = None

    # pyvisa surface used by the driver
    def clear(self):
        pass

    def close(self):
        pass

    def clone(self):
        f = Fake()
        f.freq = self.freq
        f.reg = {c: dict(r) for c, r in self.reg.items()}
        f.mem = {c: list(m) for c, m in self.mem.items()}
        return f

    def content(self, ch, addr, n):
        """effective memory content of addresses addr..addr+n-1 (uint8 array)"""
        a = bgv(ch, addr, n)
        for p, seg in self.mem[ch]:
            lo, hi = max(p, addr), min(p + seg.size, addr + n)
            if lo < hi:
                a[lo - addr:hi - addr] = seg[lo - p:hi - p]
        return a

    def extent(self, ch):
        m = self.mem[ch]
        if not m:
            return None
        return min(p for p, _ in m), max(p + s.size for p, s in m)

    def writes(self):
        return sum(len(m) for m in self.mem.values())

    def memkey(self, ch):
        """canonical form of the memory: the addresses whose content differs from the background"""
        e = self.extent(ch)
        if e is None:
            return b''
        lo, hi = e
        d = np.nonzero(self.content(ch, lo, hi - lo) != bgv(ch, lo, hi - lo))[0] + lo
        return d.astype(np.int64).tobytes()

    def state(self):
        regs = tuple((c,) + tuple(sorted(self.reg[c].items())) for c in sorted(self.reg))
        mem = tuple(hashlib.sha256(self.memkey(c)).hexdigest()[:20] for c in sorted(self.mem))
        return (repr(self.freq), regs, mem)

    def flag(self, key, msg):
        self.issues.append((key, msg))

    def query(self, cmd):
        try:
            return self._query(cmd)
        except Exception:      # must not leak (the driver swallows AttributeError as "dry run")
            self.crash = traceback.format_exc()
            raise FakeBug(self.crash) from None

    def _query(self, cmd):
        self.log.append(cmd)
        self.stats['cmds'] += 1
        short = cmd if len(cmd) < 80 else cmd[:60] + f'...({len(cmd)} chars)'
        if not isinstance(cmd, str):
            self.flag('cmd:unparsable', f'non-string command {cmd!r}')
            return '\n\n'
        for kind, pat in PATS:
            m = pat.match(cmd)
            if m:
                break
        else:
            self.flag('cmd:unparsable', f'command {short!r} does not parse against the SCPI subset')
            self.parsed.append(('?', None, cmd))
            return '\n\n'
        g = m.groups()
        if kind == 'rst':
            self.freq = 1e10
            self.reg = {c: dict(DEFAULTS) for c in range(1, NCH + 1)}
            self.parsed.append((kind, None, ()))
            return '\n'
        if kind == 'idn?':
            self.parsed.append((kind, None, ()))
            return 'TEKTRONIX,PPG3204,SIMULATED,0.0\n'
        if kind == 'freq':
            v = float(g[0])
            self.parsed.append((kind, None, (v,)))
            if not (FREQ[0] <= v <= FREQ[1]):
                self.flag('cmd:out-of-range:frequency', f'{short!r}: {v} outside {FREQ}')
            self.freq = v
            return '\n'
        if kind == 'freq?':
            self.parsed.append((kind, None, ()))
            return repr(self.freq) + '\n'
        ch = int(g[0])
        if not (1 <= ch <= NCH):
            self.flag('cmd:channel-out-of-range', f'{short!r} addresses channel {ch}')
            self.parsed.append((kind, ch, g[1:]))
            return '\n\n'
        r = self.reg[ch]
        if kind.endswith('?') and kind != 'data?':
            self.parsed.append((kind, ch, ()))
            v = r[kind[:-1]]
            return (v if isinstance(v, str) else repr(v)) + '\n'
        if kind in ('leng', 'bsh', 'plen'):
            x, whole, v = int_value(g[1])
            self.parsed.append((kind, ch, (v,)))
            if not whole:
                self.stats['non_integral_' + kind] = self.stats.get('non_integral_' + kind, 0) + 1
            if kind == 'leng':
                if not (PLEN[0] <= x <= PLEN[1]):
                    self.flag('cmd:out-of-range:pattern-length', f'{short!r}: {x} outside {PLEN}')
                elif not whole:
                    # the documented values are whole numbers of bits (2..2^21, resolution 1 bit)
                    self.flag('cmd:non-integral:pattern-length', f'{short!r}: {g[1]} is not a whole number of bits in {PLEN[0]}..{PLEN[1]}')
            if kind == 'plen' and not (whole and v in ORDERS):
                self.flag('cmd:out-of-range:prbs-order', f'{short!r}: {g[1]} not in {ORDERS}')
            # kind == 'bsh': the statement lists no limit for the bit shift; a non-integral shift is only counted
            r[kind] = v
            return '\n'
        if kind in ('skew', 'volt', 'offs'):
            v = float(g[1])
            self.parsed.append((kind, ch, (v,)))
            lo, hi = RANGE[kind]
            if not (lo <= v <= hi):
                # a value beyond a limit by no more than 1e-6 of it is the rounding of a narrower float type that reached the
                # wire unformatted: still outside the documented limits, reported under its own key
                near = min(abs(v - lo), abs(v - hi)) <= 1e-6 * max(abs(lo), abs(hi))
                self.flag(f'cmd:out-of-range:{REGNAME[kind]}' + (':by-rounding' if near else ''), f'{short!r}: {v!r} outside ({lo}, {hi})')
            r[kind] = v
            return '\n'
        if kind == 'type':
            self.parsed.append((kind, ch, (g[1],)))
            r['type'] = g[1]
            return '\n'
        if kind == 'outp':
            self.parsed.append((kind, ch, (g[1],)))
            r['outp'] = 1 if g[1] == 'ON' else 0
            return '\n'
        if kind == 'data':
            p, n, rest = int(g[1]), int(g[2]), g[3]
            self.stats['blocks'] += 1
            ok = True
            k = int(rest[0]) if rest[:1].isdigit() else -1
            digits = rest[1:1 + k] if k > 0 else ''
            payload = rest[1 + k:] if k > 0 else ''
            if k <= 0 or len(digits) != k or not digits.isdigit():
                self.flag('set_data:block-header', f'{short!r}: malformed IEEE-488.2 header "#{rest[:8]}"')
                ok = False
            else:
                n2 = int(digits)
                if n2 != n or len(payload) != n2 or k != len(str(n2)):
                    self.flag('set_data:block-header',
                              f'{short!r}: header "#{k}{digits}" announces {n2} bytes, count field {n}, payload {len(payload)} bytes, '
                              f'digit count {k} (minimal {len(str(n2))})')
                    ok = False
                if set(payload) - {'0', '1'}:
                    self.flag('set_data:block-payload', f'{short!r}: payload has characters other than 0/1')
                    ok = False
            self.parsed.append((kind, ch, (p, n, k, len(payload))))
            if not (1 <= n <= BLOCK):
                self.flag('set_data:block-size', f'{short!r}: block of {n} bits (allowed 1..{BLOCK})')
            if p < 1 or p + max(n, 1) - 1 > MEM:
                self.flag('set_data:address-out-of-memory', f'{short!r}: addresses {p}..{p + n - 1} outside 1..{MEM}')
                ok = False
            if ok and payload:
                self.mem[ch].append((p, np.frombuffer(payload.encode(), dtype=np.uint8) - 48))
            return '\n'
        if kind == 'data?':
            p, n = int(g[1]), int(g[2])
            self.stats['reads'] += 1
            self.parsed.append((kind, ch, (p, n)))
            if n == 0:
                self.stats['zero_len_reads'] += 1
                return '#10\n'
            if n < 0 or p < 1 or p + n - 1 > MEM:
                self.flag('get_data:address-out-of-memory', f'{short!r}: addresses {p}..{p + n - 1} outside 1..{MEM}')
                return '\n\n'
            s = (self.content(ch, p, n) + 48).astype(np.uint8).tobytes().decode()
            return f'#{len(str(n))}{n}{s}\n'
        raise RuntimeError(kind)


# ---------------------------------------------------------------- caller-side reference model
def clamp(v, lo, hi):
    return lo if v < lo else hi if v > hi else v


def chan_list(chs):
    """-> (requested list, any-out-of-range)"""
    if chs is None:
        return list(range(1, NCH + 1)), False
    if isinstance(chs, (int, np.integer)):
        chs = [chs]
    chs = [int(c) for c in chs]
    return chs, (any(c < 1 or c > NCH for c in chs) or len(chs) > NCH)


def order_ok(req, got):
    """acceptable PRBS orders for a request: itself if supported; the nearest limit outside 7..31; one of the two
    neighbouring supported orders in between"""
    if req in ORDERS:
        return got == req
    if req < ORDERS[0]:
        return got == ORDERS[0]
    if req > ORDERS[-1]:
        return got == ORDERS[-1]
    lo = max(o for o in ORDERS if o < req)
    hi = min(o for o in ORDERS if o > req)
    return got in (lo, hi)


# register name, limits, tolerance of the driver's number format (half a unit of the last printed digit)
SETTERS = {
    'set_patt_len': ('leng', PLEN, 0.0, 0.0),
    'set_output_voltage': ('volt', AMPL, 0.05 * (1 + 1e-9), 0.0),     # ':VOLTn:POS 1.5v' one decimal
    'set_offset': ('offs', OFFS, 0.05 * (1 + 1e-9), 0.0),             # ':VOLTn:POS:OFFS 0.5v' one decimal
    'set_skew': ('skew', SKEW, 0.05e-12, 0.0),                        # documented resolution 0.1 ps
    'set_bits_shift': ('bsh', None, 0.0, 0.0),
    'set_prbs_order': ('plen', 'orders', 0.0, 0.0),
}
FREQ_RTOL = 5.0e-6 * (1 + 1e-9)    # ':FREQ 1.00000e+10' six significant digits

INT_REGS = ('leng', 'bsh', 'plen')      # registers that hold whole numbers

GETTERS = {'get_patt_len': 'leng', 'get_output_voltage': 'volt', 'get_offset': 'offs', 'get_skew': 'skew',
           'get_bits_shift': 'bsh', 'get_prbs_order': 'plen', 'get_mode': 'type'}


def expect_setter(op, val, chs, before: Fake):
    """-> dict(oor=bool, allowed={ch: [predicate descriptions]}, check=function(fake)->[(key,msg)])"""
    reg, lim, atol, _ = SETTERS[op]
    req, ch_oor = chan_list(chs)
    clipped = [clamp(c, 1, NCH) for c in req]
    vals = list(val) if isinstance(val, (list, tuple)) else [val] * len(req)
    used = min(len(clipped), len(vals), NCH)
    if lim is None:
        v_oor = False
    elif lim == 'orders':
        v_oor = any(vals[j] not in ORDERS for j in range(used))
    else:
        v_oor = any(not (lim[0] <= vals[j] <= lim[1]) for j in range(used))
    cand = {c: [] for c in range(1, NCH + 1)}
    must = {c: False for c in range(1, NCH + 1)}
    for j in range(min(len(clipped), len(vals))):
        cand[clipped[j]].append(vals[j])
        if j < NCH:
            must[clipped[j]] = True

    def check(fake: Fake):
        out = []
        for c in range(1, NCH + 1):
            got = fake.reg[c][reg]
            prev = before.reg[c][reg]
            oks = []
            for v in cand[c]:
                if lim == 'orders':
                    oks.append(order_ok(v, got))
                elif reg in INT_REGS and isinstance(v, float) and np.isfinite(v) and v != np.floor(v):
                    # a non-integral request for a whole number of bits: either neighbouring whole number of the clamped
                    # request (the statement does not say which way it is rounded)
                    w = v if lim is None else clamp(v, lim[0], lim[1])
                    oks.append(got in (int(np.floor(w)), int(np.ceil(w))))
                elif lim is None:
                    oks.append(got == v)
                else:
                    oks.append(abs(got - clamp(v, lim[0], lim[1])) <= atol)
            if not must[c]:
                oks.append(got == prev)
            if not any(oks):
                want = [v if lim in (None, 'orders') else clamp(v, lim[0], lim[1]) for v in cand[c]] or [prev]
                out.append((f'{op}:register-not-clamped-request',
                            f'{op}({val!r}, {chs!r}): CH{c} {REGNAME.get(reg, reg)} register = {got!r}, expected {want!r}'
                            f'{"" if must[c] else " or unchanged"} (tol {atol})'))
            for k in fake.reg[c]:
                if k != reg and fake.reg[c][k] != before.reg[c][k]:
                    out.append((f'{op}:touches-other-register', f'{op}({val!r}, {chs!r}) changed CH{c} {k}'))
        if fake.freq != before.freq:
            out.append((f'{op}:touches-other-register', f'{op} changed the frequency'))
        return out
    return {'oor': ch_oor or v_oor, 'check': check, 'clipped': clipped}
