"""C05 - DAC waveforms are slot-exact and SAMPLER inverts them.

Bounded-exhaustive exploration on the real `opticomlib.devices.DAC` / `SAMPLER`:

* part `rect`     : EVERY bit word of length 1..8 (quick: 1..6) x every container form x sps alphabet (even and
                    odd) x amplitude pairs x the five spellings of the rectangular shapes; the whole waveform is
                    compared slot by slot with a hand-built reference, then `SAMPLER` is applied at EVERY instant
                    k in [0, sps) to the waveform carrying an index-coded noise vector and compared with
                    explicitly indexed samples of signal AND noise; the sampled values are thresholded (sign-aware)
                    against bias+Vout/2 and must give the word back (any k for NRZ, k < sps//2 for RZ).
* part `gauss.iso`: sps in {8,9,16,17,32,64,128} x EVERY integer T in [ceil(sps/2), 2*sps] x m in {1,2,3,4} on the
                    isolated one `0001000`: peak position / peak value / half-maximum width.
* part `gauss.inv`: every word x T in [ceil(sps/2), sps] x m: sampling at k = sps//2 returns the word.
* part `sampler`  : SAMPLER on generic (real / complex, with / without noise, length not a multiple of sps) records.
* part `valid`    : documented TypeError / ValueError, and acceptance of in-range boundary values.
"""
from __future__ import annotations
import hashlib
import itertools
import math
import numpy as np

from mcx.core.kernel import res
from mcx.core.env import gv_reset

ID = 'C05'
LEVEL = 'exploration'
NONTRIVIAL = ('the word contains both symbols (at least one slot transition), or - Gaussian - an isolated/mixed word; '
              'validation: the rejected argument is the only wrong one')

EPS = float(np.finfo(float).eps)

SPS_RECT = [2, 3, 4, 5, 8, 16, 17, 128]
SPS_RECT_THOROUGH_EXTRA = [7, 9, 31, 32, 64, 127]
SPS_GAUSS = [8, 9, 16, 17, 32, 64, 128]
AMPS = [(1, 0), (5, 1), (-3, -2), (47.9, -47.9), (0.5, 0), (None, None)]
AMPS_QUICK = [(1, 0), (-3, -2), (None, None)]
NRZ_NAMES = ['nrz', 'rect', 'NRZ']
RZ_NAMES = ['rz', 'RZ']
FORMS = ['str', 'str_spaced', 'list', 'tuple', 'ndarray_int', 'ndarray_bool', 'binary_sequence']


# ------------------------------------------------------------------ helpers
def words(L):
    return [''.join(w) for w in itertools.product('01', repeat=L)]


def make_form(word, form):
    from opticomlib.typing import binary_sequence
    bits = [int(c) for c in word]
    if form == 'str':
        return word
    if form == 'str_spaced':
        return ' '.join(word)
    if form == 'list':
        return list(bits)
    if form == 'tuple':
        return tuple(bits)
    if form == 'ndarray_int':
        return np.array(bits, dtype=np.int64)
    if form == 'ndarray_bool':
        return np.array(bits, dtype=bool)
    if form == 'binary_sequence':
        return binary_sequence(word)
    raise KeyError(form)


def eff(Vout, bias):
    """None means 'do not scale' / 'do not shift' (devices.py:311, 320)"""
    return (1.0 if Vout is None else float(Vout)), (0.0 if bias is None else float(bias))


def par(sps):
    return 'odd-sps' if sps % 2 else 'even-sps'


def reference_rect(bits, sps, V, b, rz):
    """bias+Vout*bits[k] in every sample of slot k (NRZ) / in the first sps//2 samples, bias elsewhere (RZ)"""
    L = len(bits)
    ref = np.empty(L * sps)
    on = sps // 2 if rz else sps
    for k, bit in enumerate(bits):
        ref[k * sps:(k + 1) * sps] = b
        ref[k * sps:k * sps + on] = b + V * bit
    return ref


def threshold_bits(samples, V, b):
    """sign-aware decision against bias+Vout/2"""
    thr = b + V / 2
    s = np.real(samples)
    return (s > thr) if V > 0 else (s < thr)


def coded_noise(n, seed):
    """index-coded noise: every sample is identifiable; the seed only shifts the content"""
    return (np.arange(1, n + 1) * 1e-3 + 0.25 * ((seed % 7) + 1)) * np.where(np.arange(n) % 2, -1.0, 1.0)


# ------------------------------------------------------------------ part rect
def rect_case(case):
    """case = (shape_name, sps, Vout, bias, word, seed, sweep); sweep='all': SAMPLER sweep over every instant for every
    container form, 'first': for the first container form only (the waveforms of the other forms are still checked)"""
    from opticomlib.devices import DAC, SAMPLER
    from opticomlib.typing import electrical_signal
    shape, sps, Vout, bias, word, seed, sweep = case
    gv_reset(sps=sps, R=1e9)
    rz = shape in RZ_NAMES
    cls = 'rz' if rz else 'nrz'
    V, b = eff(Vout, bias)
    bits = np.array([int(c) for c in word])
    L = len(bits)
    ref = reference_rect(bits, sps, V, b, rz)
    tol = 4 * EPS * (abs(V) + abs(b))          # two correctly rounded float operations on |Vout|,|bias|-sized numbers
    idx0 = sps * np.arange(L)
    viol = []
    st = {'dac_calls': 0, 'sampler_calls': 0, 'bit_exact_waveforms': 0, 'inversions': 0}
    h = hashlib.sha256()
    for fi, form in enumerate(FORMS):
        arg = make_form(word, form)
        x = DAC(arg, bias=bias, Vout=Vout, pulse_shape=shape)
        st['dac_calls'] += 1
        sig = np.asarray(x.signal)
        if fi == 0:
            h.update(repr((sig.shape, sig.dtype.str)).encode())
            h.update(sig.tobytes())
        if sig.ndim != 1 or sig.shape[0] != L * sps:
            viol.append((f'len:{cls}:{par(sps)}', f'{shape} sps={sps} word={word!r} form={form}: {sig.shape[0] if sig.ndim else sig.shape} '
                                                   f'samples, expected len*sps={L * sps}'))
            continue
        if x.len() != L * sps:
            viol.append((f'len:{cls}:{par(sps)}', f'{shape} sps={sps} word={word!r}: .len()={x.len()} != {L * sps}'))
        err = np.abs(sig - ref)
        if not np.all(err <= tol):
            i = int(np.argmax(err > tol))
            k, j = divmod(i, sps)
            if not rz:
                key = f'slot:nrz:{par(sps)}'
            else:
                key = f'slot:rz:{"pulse-part" if j < sps // 2 else "rest-part"}:{par(sps)}'
            viol.append((key, f'{shape} sps={sps} Vout={Vout} bias={bias} word={word!r} form={form}: slot {k} sample {j} '
                              f'is {sig[i]!r}, expected {ref[i]!r}'))
            continue
        if np.array_equal(sig, ref):
            st['bit_exact_waveforms'] += 1
        # ---- SAMPLER at every instant, on the waveform with a noise vector attached
        if sweep == 'first' and fi > 0:
            continue
        noise = coded_noise(L * sps, seed + fi)
        carriers = [(electrical_signal(sig, noise), noise)]
        if fi == 0:
            carriers.append((x, None))            # the DAC output itself (no noise)
        bits_b = bits.astype(bool)
        bits_bytes = bits_b.tobytes()
        n_inside = sps // 2 if rz else sps
        for z, nz in carriers:
            for k in range(sps):
                y = SAMPLER(z, k)
                st['sampler_calls'] += 1
                ys = np.asarray(y.signal)
                want = sig[idx0 + k]
                if ys.shape != want.shape:
                    viol.append((f'sampler:len', f'sps={sps} k={k} len(word)={L}: {ys.shape[0] if ys.ndim else ys.shape} samples, expected {L}'))
                    continue
                if not _same(ys, want):
                    viol.append(('sampler:signal', f'sps={sps} k={k} word={word!r} {shape}: signal {ys.tolist()[:8]} != samples k,k+sps,.. '
                                                   f'{want.tolist()[:8]}'))
                yn = y.noise
                if nz is not None:
                    wn = nz[idx0 + k]
                    if yn is None or not _same(np.asarray(yn), wn):
                        viol.append(('sampler:noise', f'sps={sps} k={k} word={word!r}: noise {None if yn is None else np.asarray(yn).tolist()[:6]} '
                                                      f'!= noise samples k,k+sps,.. {wn.tolist()[:6]}'))
                elif yn is not None and np.any(np.asarray(yn) != 0):
                    viol.append(('sampler:noise', f'sps={sps} k={k}: noise appeared from a noise-free input: {np.asarray(yn).tolist()[:6]}'))
                if k < n_inside:
                    st['inversions'] += 1
                    got = threshold_bits(ys, V, b)
                    if got.tobytes() != bits_bytes:
                        viol.append((f'inverse:{cls}:{par(sps)}', f'{shape} sps={sps} Vout={Vout} bias={bias} word={word!r} k={k}: '
                                                                  f'threshold decision {got.astype(int).tolist()} != bits'))
    mixed = ('0' in word) and ('1' in word)
    return res(viol=_dedup(viol), obs=h.hexdigest(), nontrivial=mixed, stats=st)


def _same(a, want):
    """element-wise equality; byte comparison first (a strided copy must be byte-identical), numpy comparison to decide"""
    if a.dtype == want.dtype and a.shape == want.shape and a.tobytes() == want.tobytes():
        return True
    return a.shape == want.shape and bool(np.array_equal(a, want))


def _dedup(viol, per_key=3):
    out, cnt = [], {}
    for k, m in viol:
        cnt[k] = cnt.get(k, 0) + 1
        if cnt[k] <= per_key:
            out.append((k, m))
    return out


# ------------------------------------------------------------------ Gaussian measurements
def plateau_mid(y, tol):
    """position of the maximum: midpoint of the samples that are indistinguishable from the maximum (within tol).
    A flat-topped super-Gaussian has many samples equal to the maximum up to FFT rounding; the raw argmax of such
    a plateau is decided by rounding noise, its midpoint is not."""
    mx = float(np.max(y))
    idx = np.nonzero(y >= mx - tol)[0]
    return (idx[0] + idx[-1]) / 2.0, mx, len(idx)


def half_crossings(y, half):
    """first crossing of `half` on each side of the maximum, linear interpolation between samples"""
    i = int(np.argmax(y))
    l = i
    while l > 0 and y[l] > half:
        l -= 1
    r = i
    while r < len(y) - 1 and y[r] > half:
        r += 1
    if not (y[l] <= half < y[l + 1]) or not (y[r] <= half < y[r - 1]):
        return None
    xl = l + (half - y[l]) / (y[l + 1] - y[l])
    xr = (r - 1) + (y[r - 1] - half) / (y[r - 1] - y[r])
    return xl, xr


ISO = '0001000'


def gauss_iso_case(case):
    """case = (sps, T, m, Vout, bias)"""
    from opticomlib.devices import DAC
    sps, T, m, Vout, bias = case
    gv_reset(sps=sps, R=1e9)
    V, b = eff(Vout, bias)
    x = DAC(ISO, bias=bias, Vout=Vout, pulse_shape='gaussian', T=T, m=m)
    sig = np.asarray(x.signal)
    viol = []
    L = len(ISO)
    tag = f'sps={sps} T={T} m={m} Vout={Vout} bias={bias}'
    if sig.ndim != 1 or sig.shape[0] != L * sps:
        viol.append((f'len:gauss:{par(sps)}', f'{tag}: {sig.shape} samples, expected {L * sps}'))
        return res(viol=viol, obs=('LEN', sig.shape), nontrivial=True)
    y = (np.real(sig) - b) / V                   # normalised pulse: 0 = bias level, 1 = bias+Vout
    pos, mx, plat = plateau_mid(y, 1e-9)
    slot = 3
    centre = slot * sps + (sps - 1) / 2.0        # centre of the slot = mean index of its samples 3*sps .. 4*sps-1
    if abs(pos - centre) > 1.0:
        viol.append((f'gauss:peak-position:{par(sps)}', f'{tag}: peak at sample {pos} ({pos - slot * sps} in the slot), slot centre '
                                                        f'{centre} ({(sps - 1) / 2.0} in the slot): off by {pos - centre:+.2f} samples'))
    if abs(mx - 1.0) > 0.05:
        viol.append(('gauss:peak-value', f'{tag}: peak-bias = {mx:.4f}*Vout, more than 5 % from Vout'))
    hc = half_crossings(y, mx / 2)
    width = None
    if hc is None:
        viol.append(('gauss:fwhm', f'{tag}: no half-maximum crossing on both sides of the peak'))
    else:
        width = hc[1] - hc[0]
        if abs(width - T) > 1.0:
            viol.append(('gauss:fwhm', f'{tag}: half-maximum width {width:.3f} samples, T={T}: off by {width - T:+.3f}'))
    obs = (sps, T, m, Vout, bias, round(pos, 3), round(mx, 9), None if width is None else round(width, 6))
    return res(viol=viol, obs=obs, nontrivial=(sps, T, m, Vout, bias),
               stats={'dac_calls': 1}, payload=(abs(pos - centre), abs(mx - 1.0), None if width is None else abs(width - T)))


def gauss_inv_case(case):
    """case = (sps, T, m, Vout, bias, L): every word of length L, sampled at k = sps//2"""
    from opticomlib.devices import DAC, SAMPLER
    sps, T, m, Vout, bias, L = case
    gv_reset(sps=sps, R=1e9)
    V, b = eff(Vout, bias)
    viol = []
    h = hashlib.sha256()
    st = {'dac_calls': 0, 'sampler_calls': 0, 'inversions': 0}
    k = sps // 2
    margin = math.inf
    for wi, word in enumerate(words(L)):
        form = FORMS[wi % len(FORMS)]
        bits = np.array([int(c) for c in word])
        x = DAC(make_form(word, form), bias=bias, Vout=Vout, pulse_shape='gaussian', T=T, m=m)
        st['dac_calls'] += 1
        sig = np.asarray(x.signal)
        tag = f'sps={sps} T={T} m={m} Vout={Vout} bias={bias} word={word!r} form={form}'
        if sig.ndim != 1 or sig.shape[0] != L * sps:
            viol.append((f'len:gauss:{par(sps)}', f'{tag}: {sig.shape} samples, expected {L * sps}'))
            continue
        y = SAMPLER(x, k)
        st['sampler_calls'] += 1
        ys = np.asarray(y.signal)
        want = sig[k + sps * np.arange(L)]
        if ys.shape != want.shape or not np.array_equal(ys, want):
            viol.append(('sampler:signal', f'{tag} k={k}: SAMPLER output differs from samples k,k+sps,..'))
            continue
        got = threshold_bits(ys, V, b)
        st['inversions'] += 1
        if not np.array_equal(got, bits.astype(bool)):
            viol.append((f'inverse:gauss:{par(sps)}', f'{tag} k={k}: threshold decision {got.astype(int).tolist()} != bits '
                                                      f'(normalised samples {np.round((np.real(ys) - b) / V, 3).tolist()})'))
        yn = (np.real(ys) - b) / V
        margin = min(margin, float(np.min(np.abs(yn - 0.5))))
        h.update(np.round(yn, 9).tobytes())
    return res(viol=_dedup(viol), obs=(case, h.hexdigest()), nontrivial=(L >= 2), stats=st, payload=margin)


# ------------------------------------------------------------------ part sampler (generic records)
def sampler_case(case):
    """case = (sps, n, kind, seed): SAMPLER at every instant on a generic record of n samples"""
    from opticomlib.devices import SAMPLER
    from opticomlib.typing import electrical_signal
    sps, n, kind, seed = case
    gv_reset(sps=sps, R=1e9)
    rs = np.random.RandomState(seed * 1000003 % (2 ** 31) + n)
    base = np.arange(n) * 1.0 + 0.5
    if kind == 'real':
        sig, noi = base, -base / 8
    elif kind == 'complex':
        sig, noi = base + 1j * (base + 100), (base / 4) - 1j * base
    elif kind == 'nonoise':
        sig, noi = base, None
    elif kind == 'zero-sum-noise':
        noi = np.where(np.arange(n) % 2, -1.0, 1.0) * (1 + np.arange(n) // 2)
        if n % 2:
            noi[-1] = 0.0
        sig = base
    elif kind == 'seeded':
        sig, noi = rs.standard_normal(n), rs.standard_normal(n)
    else:
        raise KeyError(kind)
    z = electrical_signal(sig, noi)
    sig0 = np.array(z.signal)
    noi0 = None if z.noise is None else np.array(z.noise)
    viol = []
    h = hashlib.sha256()
    for k in range(sps):
        want_idx = list(range(k, n, sps))
        if not want_idx:
            continue                              # the record is shorter than the instant: nothing is claimed
        y = SAMPLER(z, k)
        ys = np.asarray(y.signal)
        ws = np.array([sig0[i] for i in want_idx])
        if ys.shape != ws.shape:
            viol.append(('sampler:len', f'sps={sps} n={n} k={k}: {ys.shape} samples, expected {len(want_idx)}'))
            continue
        if not np.array_equal(ys, ws):
            viol.append(('sampler:signal', f'sps={sps} n={n} k={k} {kind}: {ys.tolist()[:6]} != {ws.tolist()[:6]}'))
        if noi0 is not None:
            wn = np.array([noi0[i] for i in want_idx])
            yn = y.noise
            if yn is None or np.asarray(yn).shape != wn.shape or not np.array_equal(np.asarray(yn), wn):
                viol.append(('sampler:noise', f'sps={sps} n={n} k={k} {kind}: noise '
                                              f'{None if yn is None else np.asarray(yn).tolist()[:6]} != {wn.tolist()[:6]}'))
        elif y.noise is not None and np.any(np.asarray(y.noise) != 0):
            viol.append(('sampler:noise', f'sps={sps} n={n} k={k}: noise appeared from a noise-free input'))
        h.update(ys.tobytes())
        if y.noise is not None:
            h.update(np.asarray(y.noise).tobytes())
    if not np.array_equal(np.asarray(z.signal), sig0):
        viol.append(('sampler:input-changed', f'sps={sps} n={n} {kind}: the input signal was modified'))
    return res(viol=_dedup(viol), obs=(case[:3], h.hexdigest()), nontrivial=(n > sps), stats={'sampler_calls': sps})


# ------------------------------------------------------------------ part valid
def _bad_scalars():
    """(label, value, expected exception name | 'boundary')"""
    return [
        ('50', 50, 'ValueError'), ('-50', -50, 'ValueError'), ('48.000001', 48.000001, 'ValueError'),
        ('-48.000001', -48.000001, 'ValueError'), ('1e6', 1e6, 'ValueError'), ('inf', math.inf, 'ValueError'),
        ('-inf', -math.inf, 'ValueError'),
        ('48', 48, 'boundary'), ('-48', -48, 'boundary'), ('48.0', 48.0, 'boundary'),
        ("'5'", '5', 'TypeError'), ('1+1j', 1 + 1j, 'TypeError'), ('[1.0]', [1.0], 'TypeError'),
        ('(1,)', (1,), 'TypeError'), ('array([1.,2.])', 'ARRAY', 'TypeError'), ('{}', {}, 'TypeError'),
    ]


def valid_cases():
    cases = []
    for sps in [2, 8, 17]:
        for word in ['1', '010', '000']:
            for shape in ['nrz', 'rz', 'gaussian']:
                for label, val, exp in _bad_scalars():
                    cases.append(('Vout', sps, word, shape, {'Vout': val}, label, exp))
                    cases.append(('bias', sps, word, shape, {'bias': val}, label, exp))
            for label, val, exp in [('0', 0, 'ValueError'), ('-1', -1, 'ValueError'), ('2sps+1', 2 * sps + 1, 'ValueError'),
                                    ('10sps', 10 * sps, 'ValueError'), ('8.5', 8.5, 'TypeError'), ("'8'", '8', 'TypeError'),
                                    ('[4]', [4], 'TypeError'), ('1j', 1j, 'TypeError')]:
                cases.append(('T', sps, word, 'gaussian', {'T': val}, label, exp))
            for label, val, exp in [('0', 0, 'ValueError'), ('-1', -1, 'ValueError'), ('-4', -4, 'ValueError'),
                                    ('1.5', 1.5, 'TypeError'), ("'2'", '2', 'TypeError'), ('[1]', [1], 'TypeError'),
                                    ('1j', 1j, 'TypeError')]:
                cases.append(('m', sps, word, 'gaussian', {'m': val}, label, exp))
            for label, val, exp in [('1j', 1j, 'TypeError'), ("'0'", '0', 'TypeError'), ('[0.0]', [0.0], 'TypeError'),
                                    ('1+0j', 1 + 0j, 'TypeError')]:
                cases.append(('c', sps, word, 'gaussian', {'c': val}, label, exp))
            for name in ['triangle', 'gauss', 'sinc', 'raised-cosine', '']:
                cases.append(('shape', sps, word, name, {}, repr(name), 'ValueError'))
            # in-range boundary values must be accepted
            for kw, label in [({'Vout': 47.999}, 'Vout=47.999'), ({'Vout': -47.999}, 'Vout=-47.999'), ({'bias': 47.999}, 'bias=47.999'),
                              ({'bias': -47.999}, 'bias=-47.999'), ({'Vout': 0}, 'Vout=0'), ({'Vout': 3}, 'Vout=int'),
                              ({'bias': -2}, 'bias=int')]:
                for shape in ['nrz', 'rz', 'gaussian']:
                    cases.append(('accept', sps, word, shape, kw, label, 'ok'))
            for kw, label in [({'T': 2 * sps}, 'T=2sps'), ({'T': 1}, 'T=1'), ({'T': sps}, 'T=sps'), ({'m': 1}, 'm=1'), ({'m': 4}, 'm=4'),
                              ({'c': 0.5}, 'c=0.5'), ({'c': -2}, 'c=-2'), ({'c': 0}, 'c=0')]:
                cases.append(('accept', sps, word, 'gaussian', kw, label, 'ok'))
    return cases


def valid_case(case):
    from opticomlib.devices import DAC
    what, sps, word, shape, kw, label, exp = case
    gv_reset(sps=sps, R=1e9)
    kw = {k: (np.array([1.0, 2.0]) if isinstance(v, str) and v == 'ARRAY' else v) for k, v in kw.items()}
    tag = f'DAC({word!r}, pulse_shape={shape!r}, {", ".join(f"{k}={v!r}" for k, v in kw.items())}) sps={sps}'
    viol = []
    try:
        x = DAC(word, pulse_shape=shape, **kw)
        got = 'ok'
        n = int(np.asarray(x.signal).shape[0])
    except (TypeError, ValueError) as e:
        got = type(e).__name__
        n = None
        tag += f' [{got}: {str(e)[:80]}]'
    klass = 'range' if exp == 'ValueError' else 'type'
    if exp in ('ValueError', 'TypeError'):
        if got == 'ok':
            viol.append((f'valid:{what}:{klass}:accepted', f'{tag}: no exception, documented {exp}'))
        elif got != exp:
            viol.append((f'valid:{what}:{klass}:wrong-exception', f'{tag}: raised {got}, documented {exp}'))
    elif exp == 'boundary':
        # |value| == 48: the statement quantifies over the open interval and calls 48 neither valid nor invalid
        if got == 'TypeError':
            viol.append((f'valid:{what}:boundary:wrong-exception', f'{tag}: raised TypeError for a float/int scalar'))
        elif got == 'ok' and n != len(word) * sps:
            viol.append((f'len:{shape}:{par(sps)}', f'{tag}: {n} samples'))
    else:
        if got != 'ok':
            viol.append((f'valid:{what}:rejected-valid', f'{tag}: raised {got} for an in-range, correctly typed value'))
        elif n != len(word) * sps:
            viol.append((f'len:{shape}:{par(sps)}', f'{tag}: {n} samples, expected {len(word) * sps}'))
    return res(viol=viol, obs=(what, sps, word, shape, label, got, n), nontrivial=(what, shape, label, exp))


# ------------------------------------------------------------------ driver
def run(ctx):
    quick = ctx.quick
    maxlen = 6 if quick else 8
    amps = AMPS_QUICK if quick else AMPS
    sps_rect = SPS_RECT if quick else sorted(SPS_RECT + SPS_RECT_THOROUGH_EXTRA)
    allwords = [w for L in range(1, maxlen + 1) for w in words(L)]
    ctx.space('words', len(allwords))
    ctx.space('container_forms', len(FORMS))
    ctx.rule(f'rect: EVERY bit word of length 1..{maxlen} ({len(allwords)}) x container forms {FORMS} x sps {sps_rect} x '
             f'(Vout,bias) {amps} x shape spellings {NRZ_NAMES + RZ_NAMES}; whole waveform compared with a slot-by-slot reference; '
             f'SAMPLER applied at EVERY instant k in [0,sps) to the waveform with index-coded noise attached (and to the noise-free DAC '
             f'output) and compared with explicitly indexed samples of signal and noise; sign-aware threshold at bias+Vout/2 must give '
             f'the word for every k (NRZ) / every k < sps//2 (RZ)')
    ctx.assume('numpy indexing, comparison and sha256 are trusted; the reference waveform is built by slice assignment per slot')
    ctx.assume('Vout=None / bias=None mean "no scaling" / "no offset" (devices.py:311,320), i.e. Vout=1, bias=0')
    ctx.assume('tolerance of the slot values: 4*eps*(|Vout|+|bias|) (two correctly rounded operations); SAMPLER outputs are compared bit-exactly')
    # simplest first: short words, small sps, plain amplitudes, canonical names
    cases = []
    for word in allwords:
        for sps in sps_rect:
            for (Vout, bias) in amps:
                for shape in NRZ_NAMES + RZ_NAMES:
                    cases.append((shape, sps, Vout, bias, word, ctx.seed, 'all' if sps in SPS_RECT else 'first'))
    cases.sort(key=lambda c: (len(c[4]), c[1], amps.index((c[2], c[3])), (NRZ_NAMES + RZ_NAMES).index(c[0]), c[4]))
    ctx.pmap('rect', rect_case, cases, horizon=120, chunk=64)

    # ---- Gaussian, isolated one
    g_amps = [(1, 0), (-3, -2)] if quick else AMPS
    iso = []
    for (Vout, bias) in g_amps:
        for sps in SPS_GAUSS:
            for T in range(math.ceil(sps / 2), 2 * sps + 1):
                for m in (1, 2, 3, 4):
                    iso.append((sps, T, m, Vout, bias))
    ctx.rule(f'gauss.iso: isolated one {ISO!r}, sps {SPS_GAUSS} x EVERY integer T in [ceil(sps/2), 2*sps] x m in 1..4 x (Vout,bias) {g_amps}: '
             f'peak position = midpoint of the samples within 1e-9*Vout of the maximum, must lie within 1.0 sample of the slot centre '
             f'3*sps+(sps-1)/2; |peak-bias-Vout| <= 0.05*|Vout|; half-maximum width (linear interpolation, half of the measured peak '
             f'above bias) within 1.0 sample of T')
    ctx.assume('slot centre = mean index of the sps samples of the slot, (sps-1)/2 (the centroid of the NRZ pulse of the same slot; the '
               'palindromic word 0001000 is mirror-symmetric about exactly this point); the 1e-9 plateau rule only removes the '
               'FFT-rounding ambiguity of flat-topped super-Gaussians')
    pay = ctx.pmap('gauss.iso', gauss_iso_case, iso, horizon=60)
    pay = [p for p in pay if p]
    if pay:
        ctx.extra['gauss_iso_worst'] = {
            'peak_position_error_samples': round(max(p[0] for p in pay), 4),
            'peak_value_error_rel': round(max(p[1] for p in pay), 5),
            'fwhm_error_samples': round(max(p[2] for p in pay if p[2] is not None), 4)}
        print(f"[C05] gauss.iso worst: {ctx.extra['gauss_iso_worst']}", flush=True)

    # ---- Gaussian, inversion at k = sps//2 for T <= sps
    i_amps = [(1, 0)] if quick else [(1, 0), (-3, -2), (47.9, -47.9)]
    inv = []
    for L in range(1, maxlen + 1):
        for (Vout, bias) in i_amps:
            for sps in SPS_GAUSS:
                for T in range(math.ceil(sps / 2), sps + 1):
                    for m in (1, 2, 3, 4):
                        inv.append((sps, T, m, Vout, bias, L))
    ctx.rule(f'gauss.inv: EVERY word of length 1..{maxlen} (container form rotating with the word index) x sps {SPS_GAUSS} x EVERY integer T in '
             f'[ceil(sps/2), sps] x m in 1..4 x (Vout,bias) {i_amps}: SAMPLER at k=sps//2 equals the indexed samples and the sign-aware '
             f'threshold decision equals the word (T > sps excluded: two neighbouring ones legitimately lift a zero above Vout/2)')
    mg = ctx.pmap('gauss.inv', gauss_inv_case, inv, horizon=120)
    mg = [x for x in mg if x is not None]
    if mg:
        ctx.extra['gauss_inv_min_decision_margin_rel_Vout'] = round(min(mg), 4)
        print(f'[C05] gauss.inv smallest |sample-threshold|/|Vout| = {min(mg):.4f}', flush=True)

    # ---- SAMPLER on generic records
    sc = []
    for sps in ([2, 3, 4, 5, 8, 16, 17] if quick else [2, 3, 4, 5, 7, 8, 9, 16, 17, 31, 32, 64, 127, 128]):
        for n in sorted({1, 2, sps - 1, sps, sps + 1, 2 * sps, 2 * sps + 1, 3 * sps - 1, 8 * sps, 8 * sps + sps // 2}):
            if n < 1:
                continue
            for kind in ['real', 'complex', 'nonoise', 'zero-sum-noise', 'seeded']:
                sc.append((sps, n, kind, ctx.seed))
    ctx.rule('sampler: records of n samples (n below, at, above and not a multiple of sps), real / complex / noise-free / zero-sum-noise / '
             'seeded content, EVERY instant k in [0,sps) with k < n: signal and noise equal the explicitly indexed samples k,k+sps,...')
    ctx.pmap('sampler', sampler_case, sc, horizon=60)

    # ---- validation
    vc = valid_cases()
    ctx.rule('valid: each wrong value alone (Vout, bias in every shape; T, m, c in the Gaussian shape; unknown shape names) on sps {2,8,17} x '
             'words {1,010,000}: documented exception type; |value|==48 may be rejected (ValueError) or accepted; in-range boundary values '
             'must be accepted and give len*sps samples')
    ctx.assume('numpy scalar types, bool, None and integer-valued floats for T/m are outside the alphabet (the statement is silent on them)')
    ctx.pmap('valid', valid_case, vc, horizon=30)
