"""C05 - DAC waveforms are slot-exact and SAMPLER inverts them.

Bounded-exhaustive exploration on the real `opticomlib.devices.DAC` / `SAMPLER`:

* part `rect`     : EVERY bit word of length 1..8 (quick: 1..6) x every container form / sample dtype of the bits x sps
                    alphabet (even and odd) x amplitude pairs x the spellings of the rectangular shapes; the whole
                    waveform is compared slot by slot with a hand-built reference, then `SAMPLER` is applied at EVERY
                    instant k in [0, sps) (Python and numpy integer k) to the waveform carrying an index-coded noise
                    vector and compared with explicitly indexed samples of signal AND noise; the sampled values are
                    thresholded (sign-aware) against bias+Vout/2 and must give the word back (any k for NRZ,
                    k < sps//2 for RZ); the decided bits are fed to DAC again. A second, thin lattice runs the short
                    words over the edge amplitudes (numpy scalars, just inside +-48, 1e-12..1e-3 scales, big offset).
* part `gauss.iso`: sps in {8,9,16,17,32,64,128} x EVERY integer T in [ceil(sps/2), 2*sps] x m in {1,2,3,4} on isolated
                    ones (single-slot word, first / last / inner slot, two ones in one word): peak position / peak value
                    / half-maximum width; EVERY sps in 8..128 at the limits of T and m; defaults of T, m, c.
* part `gauss.mix`: words that hold BOTH an isolated one and runs of 2, 3, ... adjacent ones elsewhere (either order, between two
                    runs, at the record edges) x the same full (sps, T, m) lattice: the clauses of every isolated one do not
                    depend on what is sent in far-away slots; inverse at k = sps//2 for T <= sps.  `rect.mix`: the same
                    words in NRZ / RZ against the slot reference.
* part `gauss.inv`: every word x T in [ceil(sps/2), sps] x m: sampling at k = sps//2 returns the word.
* part `long`     : structured words of length 7..4097 (primes, 2^n, 2^n+-1) in NRZ / RZ / Gaussian shape.
* part `sampler`  : SAMPLER on generic records (every sample dtype, with / without / zero / mixed-dtype noise, scales
                    1e-12..1e6, lengths around sps, 1024, 4096, primes; write-protected; result fed to SAMPLER again).
* part `grid`     : EVERY sps in 2..128 reached through every call form of `gv` ((sps), (sps,R), (sps,fs), (R,fs) with
                    integer and non-integer ratio, fs alone, positional, float / numpy sps, N, wavelength).
* part `reconf`   : the same calls after the grid was reconfigured (a -> b -> a).
* part `valid`    : documented TypeError / ValueError, and acceptance of in-range boundary values.
"""
from __future__ import annotations
import hashlib
import itertools
import math
import os
import warnings
import numpy as np

from mcx.core.kernel import res
from mcx.core.env import gv_reset, freeze, unchanged

ID = 'C05'
LEVEL = 'exploration'
NONTRIVIAL = ('the word contains both symbols (at least one slot transition), or - Gaussian - an isolated/mixed word; '
              'validation: the rejected argument is the only wrong one')

EPS = float(np.finfo(float).eps)
IN48 = float(np.nextafter(48.0, 0.0))        # largest float inside (-48, 48)
OUT48 = float(np.nextafter(48.0, 100.0))     # smallest float outside [-48, 48]

SPS_RECT = [2, 3, 4, 5, 8, 16, 17, 128]
SPS_RECT_THOROUGH_EXTRA = [7, 9, 31, 32, 64, 127]
SPS_GAUSS = [8, 9, 16, 17, 32, 64, 128]
AMPS = [(1, 0), (5, 1), (-3, -2), (47.9, -47.9), (0.5, 0), (None, None)]
AMPS_QUICK = [(1, 0), (-3, -2), (None, None)]
# edge amplitudes (value specs, see mk()): non-integer, numpy float64 scalars, just inside the limits (the bias cancels
# Vout exactly), tiny scales, a large offset with a small variation, None for exactly one of the two
AMPS_EDGE = [(0.5, 0.25), (('@np', 'float64', 2.5), ('@np', 'float64', -1.5)), (IN48, -IN48), (-IN48, IN48),
             (1e-9, 0), (-1e-12, 0.0), (1e-6, -1e-6), (1e-3, 47.5), (-1e-3, -47.5), (None, 2.0), (3.0, None), (-0.5, 0)]
NRZ_NAMES = ['nrz', 'rect', 'NRZ']
RZ_NAMES = ['rz', 'RZ']
NPSTR_NAMES = [('@npstr', 'nrz'), ('@npstr', 'rz')]      # str subclasses that compare equal to a documented name
# container forms / sample dtypes of the bit argument; the every-instant SAMPLER sweep runs on the first 7
FORMS = ['str', 'str_spaced', 'list', 'tuple', 'ndarray_int', 'ndarray_bool', 'binary_sequence']
FORMS_EXT = ['str_commas', 'str_comma_space', 'list_bool', 'list_float', 'list_npint', 'ndarray_uint8', 'ndarray_int8',
             'ndarray_int16', 'ndarray_int32', 'ndarray_float64', 'ndarray_float32', 'ndarray_float16', 'binary_sequence_twice']
N_SWEEP_FORMS = len(FORMS)
# the instant k is passed as a Python int and as the numpy integers that index computations return (np.argmax, an eye: int64 /
# intp / int32).  Narrow and unsigned numpy integers are left out: an implementation that computes k + j*sps in the type of k
# would overflow on them, and the statement does not say that it must not
KTYPES = ['int', 'int64', 'int32', 'intp']


# ------------------------------------------------------------------ helpers
def words(L):
    return [''.join(w) for w in itertools.product('01', repeat=L)]


def mk(v):
    """value specs (plain picklable data) -> the real argument; ('@np','int64',5) -> np.int64(5) etc."""
    if isinstance(v, tuple) and v and isinstance(v[0], str) and v[0].startswith('@'):
        tag = v[0]
        if tag == '@np':
            return getattr(np, v[1])(v[2])
        if tag == '@arr':                      # 0-d array for a scalar, 1-d array for a list
            return np.array(v[1])
        if tag == '@npstr':
            return np.str_(v[1])
        if tag == '@bytes':
            return v[1].encode()
        if tag == '@set':
            return set(v[1])
        if tag == '@frac':
            from fractions import Fraction
            return Fraction(v[1], v[2])
        if tag == '@chain-max':                # a numpy scalar returned by the library itself: max of a DAC waveform
            from opticomlib.devices import DAC
            return DAC('01', Vout=v[1], bias=0.0).signal.max()
        raise KeyError(tag)
    return v


def make_form(word, form):
    """the bit argument in one container form / sample dtype; every numpy buffer is handed over WRITE-PROTECTED"""
    from opticomlib.typing import binary_sequence
    bits = [int(c) for c in word]
    if form == 'str':
        return word
    if form == 'str_spaced':
        return ' '.join(word)
    if form == 'str_commas':
        return ','.join(word)
    if form == 'str_comma_space':
        return ', '.join(word)
    if form == 'list':
        return list(bits)
    if form == 'list_bool':
        return [bool(b) for b in bits]
    if form == 'list_float':
        return [float(b) for b in bits]
    if form == 'list_npint':
        return [np.int64(b) for b in bits]
    if form == 'tuple':
        return tuple(bits)
    if form.startswith('ndarray_'):
        dt = {'int': np.int64, 'bool': bool}.get(form[8:]) or getattr(np, form[8:])
        a = np.array(bits, dtype=dt)
        a.flags.writeable = False
        return a
    if form in ('binary_sequence', 'binary_sequence_twice'):
        b = binary_sequence(word)
        b.data.flags.writeable = False
        return b
    raise KeyError(form)


def form_intact(arg, word):
    """the bit argument still holds the word after the call"""
    bits = [int(c) for c in word]
    if isinstance(arg, str):
        return True
    data = getattr(arg, 'data', arg) if not isinstance(arg, (list, tuple, np.ndarray)) else arg
    try:
        return [int(x) for x in data] == bits
    except Exception:
        return False


def eff(Vout, bias):
    """None means 'do not scale' / 'do not shift' (devices.py:311, 320)"""
    return (1.0 if Vout is None else float(Vout)), (0.0 if bias is None else float(bias))


def kval(k, i):
    """instant k as the i-th integer type of KTYPES"""
    t = KTYPES[i % len(KTYPES)]
    return int(k) if t == 'int' else getattr(np, t)(k)


def par(sps):
    return 'odd-sps' if sps % 2 else 'even-sps'


def reference_rect(bits, sps, V, b, rz):
    """bias+Vout*bits[k] in every sample of slot k (NRZ) / in the first sps//2 samples, bias elsewhere (RZ)"""
    L = len(bits)
    ref = np.empty(L * sps)
    on = sps // 2 if rz else sps
    for k, bit in enumerate(bits):
        ref[k * sps:(k + 1) * sps] = b
        ref[k * sps:k * sps + on] = b + V * bit
    return ref


def threshold_bits(samples, V, b):
    """sign-aware decision against bias+Vout/2"""
    thr = b + V / 2
    s = np.real(samples)
    return (s > thr) if V > 0 else (s < thr)


def coded_noise(n, seed):
    """index-coded noise: every sample is identifiable; the seed only shifts the content"""
    return (np.arange(1, n + 1) * 1e-3 + 0.25 * ((seed % 7) + 1)) * np.where(np.arange(n) % 2, -1.0, 1.0)


# ------------------------------------------------------------------ part rect
def sampler_sweep(z, nz, sig, sps, L, ks, ktype_i, viol, st, tag, inverse=None):
    """SAMPLER(z, k) for every k of ks against the explicitly indexed samples of `sig` (and of the noise vector `nz`);
    inverse = (bits, V, b, n_inside, key) adds the threshold decision for k < n_inside"""
    from opticomlib.devices import SAMPLER
    idx0 = sps * np.arange(L)
    for k in ks:
        kk = kval(k, ktype_i)
        y = SAMPLER(z, kk)
        st['sampler_calls'] = st.get('sampler_calls', 0) + 1
        ys = np.asarray(y.signal)
        want = sig[idx0 + k]
        if ys.shape != want.shape:
            viol.append(('sampler:len', f'{tag} k={kk!r} slots={L}: {ys.shape[0] if ys.ndim else ys.shape} samples, expected {L}'))
            continue
        if not _same(ys, want):
            viol.append(('sampler:signal', f'{tag} k={kk!r}: signal {ys.tolist()[:8]} != samples k,k+sps,.. {want.tolist()[:8]}'))
        yn = y.noise
        if nz is not None:
            wn = nz[idx0 + k]
            if yn is None or not _same(np.asarray(yn), wn):
                viol.append(('sampler:noise', f'{tag} k={kk!r}: noise {None if yn is None else np.asarray(yn).tolist()[:6]} '
                                              f'!= noise samples k,k+sps,.. {wn.tolist()[:6]}'))
        elif yn is not None and np.any(np.asarray(yn) != 0):
            viol.append(('sampler:noise', f'{tag} k={kk!r}: noise appeared from a noise-free input: {np.asarray(yn).tolist()[:6]}'))
        if inverse is not None and k < inverse[3]:
            bits, V, b, _, key = inverse
            st['inversions'] = st.get('inversions', 0) + 1
            got = threshold_bits(ys, V, b)
            if got.shape != bits.shape or got.tobytes() != bits.astype(bool).tobytes():
                viol.append((key, f'{tag} k={kk!r}: threshold decision {got.astype(int).tolist()[:16]} != bits'))


def rect_case(case):
    """case = (shape, sps, Vout, bias, word, seed, sweep); Vout / bias / shape are value specs (mk); sweep='all': SAMPLER
    sweep over every instant for the 7 basic container forms, 'first': for the first form only (the waveforms of all
    the forms, the extended ones included, are still checked)"""
    from opticomlib.devices import DAC
    from opticomlib.typing import electrical_signal
    shape_s, sps, Vout_s, bias_s, word, seed, sweep = case
    gv_reset(sps=sps, R=1e9)
    shape, Vout, bias = mk(shape_s), mk(Vout_s), mk(bias_s)
    rz = str(shape) in RZ_NAMES
    cls = 'rz' if rz else 'nrz'
    V, b = eff(Vout, bias)
    bits = np.array([int(c) for c in word])
    L = len(bits)
    ref = reference_rect(bits, sps, V, b, rz)
    tol = 4 * EPS * (abs(V) + abs(b))          # two correctly rounded float operations on |Vout|,|bias|-sized numbers
    viol = []
    st = {'dac_calls': 0, 'sampler_calls': 0, 'bit_exact_waveforms': 0, 'inversions': 0}
    h = hashlib.sha256()
    n_inside = sps // 2 if rz else sps
    # the extended container forms / bit dtypes run with the two canonical names (the aliases share the code path behind the name test)
    calls = [(fi, form, False) for fi, form in enumerate(FORMS + (FORMS_EXT if shape_s in ('nrz', 'rz') else []))]
    if (Vout_s, bias_s, shape_s) == (1, 0, 'nrz'):
        calls.append((len(calls), 'str', True))                 # DAC(bits) with every default
    for fi, form, defaults in calls:
        arg = make_form(word, form)
        tag = f'{shape!r} sps={sps} Vout={Vout!r} bias={bias!r} word={word!r} form={form}' + (' (all defaults)' if defaults else '')
        x = DAC(arg) if defaults else DAC(arg, bias=bias, Vout=Vout, pulse_shape=shape)
        if form == 'binary_sequence_twice':                      # the same object a second time
            x = DAC(arg, bias=bias, Vout=Vout, pulse_shape=shape)
            st['dac_calls'] += 1
        st['dac_calls'] += 1
        sig = np.asarray(x.signal)
        if fi == 0:
            h.update(repr((sig.shape, sig.dtype.str)).encode())
            h.update(sig.tobytes())
        if not form_intact(arg, word):
            viol.append(('dac:input-changed', f'{tag}: the bit argument was modified by the call'))
        if sig.ndim != 1 or sig.shape[0] != L * sps:
            viol.append((f'len:{cls}:{par(sps)}', f'{tag}: {sig.shape[0] if sig.ndim else sig.shape} samples, expected len*sps={L * sps}'))
            continue
        if x.len() != L * sps:
            viol.append((f'len:{cls}:{par(sps)}', f'{tag}: .len()={x.len()} != {L * sps}'))
        err = np.abs(sig - ref)
        if not np.all(err <= tol):
            i = int(np.argmax(~(err <= tol)))
            k, j = divmod(i, sps)
            if not rz:
                key = f'slot:nrz:{par(sps)}'
            else:
                key = f'slot:rz:{"pulse-part" if j < sps // 2 else "rest-part"}:{par(sps)}'
            viol.append((key, f'{tag}: slot {k} sample {j} is {sig[i]!r}, expected {ref[i]!r}'))
            continue
        if np.array_equal(sig, ref):
            st['bit_exact_waveforms'] += 1
        # ---- SAMPLER at every instant, on the waveform with a noise vector attached
        if fi >= N_SWEEP_FORMS or (sweep == 'first' and fi > 0):
            continue
        noise = coded_noise(L * sps, seed + fi)
        z = electrical_signal(sig, noise)
        snap = freeze(z)
        inv = (bits, V, b, n_inside, f'inverse:{cls}:{par(sps)}')
        sampler_sweep(z, noise, sig, sps, L, range(sps), fi, viol, st, tag, inv)
        if not unchanged(z, snap):
            viol.append(('sampler:input-changed', f'{tag}: the sampled object was modified'))
        if fi == 0:
            sampler_sweep(x, None, sig, sps, L, range(sps), fi + 1, viol, st, tag + ' (DAC output, no noise)', inv)
            # chain: the decided bits (a numpy bool array) are fed to DAC again
            from opticomlib.devices import SAMPLER
            again = DAC(threshold_bits(np.asarray(SAMPLER(x, 0).signal), V, b), bias=bias, Vout=Vout, pulse_shape=shape)
            st['dac_calls'] += 1
            if not _same(np.asarray(again.signal), sig):
                viol.append(('chain:dac-sampler-dac', f'{tag}: DAC(decision(SAMPLER(DAC(bits),0))) differs from DAC(bits)'))
    mixed = ('0' in word) and ('1' in word)
    return res(viol=_dedup(viol), obs=h.hexdigest(), nontrivial=mixed, stats=st)


def _same(a, want):
    """element-wise equality; byte comparison first (a strided copy must be byte-identical), numpy comparison to decide"""
    if a.dtype == want.dtype and a.shape == want.shape and a.tobytes() == want.tobytes():
        return True
    return a.shape == want.shape and bool(np.array_equal(a, want))


def _dedup(viol, per_key=3):
    out, cnt = [], {}
    for k, m in viol:
        cnt[k] = cnt.get(k, 0) + 1
        if cnt[k] <= per_key:
            out.append((k, m))
    return out


# ------------------------------------------------------------------ Gaussian measurements
def plateau_mid(y, tol):
    """position of the maximum: midpoint of the samples that are indistinguishable from the maximum (within tol).
    A flat-topped super-Gaussian has many samples equal to the maximum up to FFT rounding; the raw argmax of such
    a plateau is decided by rounding noise, its midpoint is not."""
    mx = float(np.max(y))
    idx = np.nonzero(y >= mx - tol)[0]
    return (idx[0] + idx[-1]) / 2.0, mx, len(idx)


def half_crossings(y, half):
    """first crossing of `half` on each side of the maximum, linear interpolation between samples"""
    i = int(np.argmax(y))
    l = i
    while l > 0 and y[l] > half:
        l -= 1
    r = i
    while r < len(y) - 1 and y[r] > half:
        r += 1
    if not (y[l] <= half < y[l + 1]) or not (y[r] <= half < y[r - 1]):
        return None
    xl = l + (half - y[l]) / (y[l + 1] - y[l])
    xr = (r - 1) + (y[r - 1] - half) / (y[r - 1] - y[r])
    return xl, xr


ISO = '0001000'
# isolated ones: (word, slots of the ones).  A single-slot word, a one in the first / last slot (the pulse is cut by the
# record edge: position and peak are still claimed, the width only where both half-maximum points lie inside the record),
# inner slots of short and longer words, two isolated ones in one word (>= 6 empty slots apart)
ISO_WORDS = [ISO, '010', '00100', '1', '10', '01', '0100', '0010', '0000000100000', '00010000001000',
             '0' + '1' + '0' * 14, '0' * 14 + '1' + '0', '0' * 48 + '1' + '0' * 48, '0' * 63 + '1' + '0' * 63]


def measure_iso(y, slot, sps, T, n_slots):
    """normalised waveform y, an isolated one in `slot`: (position error, peak error, width error | None | 'missing')
    measured in the window of 3 slots on each side of the one"""
    lo, hi = max(0, slot - 3) * sps, min(n_slots, slot + 4) * sps
    w = y[lo:hi]
    pos, mx, _ = plateau_mid(w, 1e-9)
    pos += lo
    centre = slot * sps + (sps - 1) / 2.0        # centre of the slot = mean index of its samples slot*sps .. (slot+1)*sps-1
    hc = half_crossings(w, mx / 2) if len(w) >= 2 else None
    if hc is None:
        # both half-maximum points are expected inside the record (one sample of margin): the width must be measurable
        inside = (centre - T / 2.0 - 1 >= 0) and (centre + T / 2.0 + 1 <= n_slots * sps - 1)
        width = 'missing' if inside else None
    else:
        width = hc[1] - hc[0]
    return pos, centre, mx, width


def gauss_iso_case(case):
    """case = (sps, T, m, Vout, bias, word, opts): T / m None = argument omitted (documented defaults sps / 1);
    opts = tuple of (name, value spec): extra keyword arguments (c, BW, pulse_shape spelling) or ('form', container form)"""
    from opticomlib.devices import DAC
    sps, T, m, Vout_s, bias_s, word, opts = case
    gv_reset(sps=sps, R=1e9)
    Vout, bias = mk(Vout_s), mk(bias_s)
    V, b = eff(Vout, bias)
    kw = {'pulse_shape': 'gaussian'}
    if T is not None:
        kw['T'] = T
    if m is not None:
        kw['m'] = m
    form = 'str'
    for name, val in opts:
        if name == 'form':
            form = val
        else:
            kw[name] = mk(val)
    x = DAC(make_form(word, form), bias=bias, Vout=Vout, **kw)
    sig = np.asarray(x.signal)
    viol = []
    L = len(word)
    Te = sps if T is None else T
    wl = word if L < 20 else f'<{L} slots, ones at {[i for i, c in enumerate(word) if c == "1"][:4]}>'
    tag = f'sps={sps} T={T} m={m} Vout={Vout!r} bias={bias!r} word={wl!r} {dict(opts) if opts else ""}'
    if sig.ndim != 1 or sig.shape[0] != L * sps:
        viol.append((f'len:gauss:{par(sps)}', f'{tag}: {sig.shape} samples, expected {L * sps}'))
        return res(viol=viol, obs=('LEN', sig.shape), nontrivial=True)
    y = (np.real(sig) - b) / V                   # normalised pulse: 0 = bias level, 1 = bias+Vout
    obs, pay = [], [0.0, 0.0, None]
    for slot in [i for i, c in enumerate(word) if c == '1']:
        pos, centre, mx, width = measure_iso(y, slot, sps, Te, L)
        where = f'one in slot {slot} of {L}'
        if not abs(pos - centre) <= 1.0:
            viol.append((f'gauss:peak-position:{par(sps)}', f'{tag} {where}: peak at sample {pos} ({pos - slot * sps} in the slot), slot centre '
                                                            f'{centre} ({(sps - 1) / 2.0} in the slot): off by {pos - centre:+.2f} samples'))
        if not abs(mx - 1.0) <= 0.05:
            viol.append(('gauss:peak-value', f'{tag} {where}: peak-bias = {mx:.4f}*Vout, more than 5 % from Vout'))
        if width == 'missing':
            viol.append(('gauss:fwhm', f'{tag} {where}: no half-maximum crossing on both sides of the peak'))
        elif width is not None and not abs(width - Te) <= 1.0:
            viol.append(('gauss:fwhm', f'{tag} {where}: half-maximum width {width:.3f} samples, T={Te}: off by {width - Te:+.3f}'))
        obs.append((slot, round(pos, 3), round(mx, 9), width if not isinstance(width, float) else round(width, 6)))
        pay[0], pay[1] = max(pay[0], abs(pos - centre)), max(pay[1], abs(mx - 1.0))
        if isinstance(width, float):
            pay[2] = max(pay[2] or 0.0, abs(width - Te))
    return res(viol=_dedup(viol), obs=(sps, T, m, repr(Vout), repr(bias), word, repr(opts), tuple(obs)),
               nontrivial=(sps, T, m, repr(Vout), repr(bias), word, repr(opts)), stats={'dac_calls': 1, 'isolated_ones': len(obs)},
               payload=tuple(pay))

# ------------------------------------------------------------------ mixed words: an isolated one AND runs of ones elsewhere
ISO_GAP = 6      # "isolated" in the sense of ISO_WORDS: at least 6 empty slots (or the record edge) on each side of the one


def isolated_ones(bits, gap=ISO_GAP):
    """slots of the ones that have no other one within `gap` slots on either side (the record edge may be nearer)"""
    bits = np.asarray(bits).astype(int)
    L = len(bits)
    c = np.concatenate([[0], np.cumsum(bits)])
    i = np.nonzero(bits)[0]
    inside = c[np.minimum(L, i + gap + 1)] - c[np.maximum(0, i - gap)]
    return i[inside == 1].tolist()


def mix_words(runs, gaps=(ISO_GAP,)):
    """words that contain BOTH an isolated one and other, overlapping content `gap` empty slots away: a run of r adjacent
    ones after / before the isolated one (every r of `runs`), the isolated one between two different runs, two isolated
    ones around a run, isolated ones in the first and the last slot, runs that touch both record edges, ones one slot apart"""
    Z = lambda n: '0' * n
    out = []
    for g in gaps:
        for r in runs:
            R = '1' * r
            out += [Z(3) + '1' + Z(g) + R + Z(3), Z(3) + R + Z(g) + '1' + Z(3)]
        out += [Z(2) + '11' + Z(g) + '1' + Z(g) + '111' + Z(2), Z(3) + '1' + Z(g) + '1111' + Z(g) + '1' + Z(3),
                '1' + Z(g) + '111' + Z(g) + '1', '11' + Z(g) + '1' + Z(g) + '11111',
                Z(3) + '1' + Z(g) + '1011' + Z(3), Z(3) + '101' + Z(g) + '1' + Z(3)]
    return list(dict.fromkeys(out))


MIX_WORDS = {'quick': mix_words(range(2, 6)), 'thorough': mix_words(range(2, 9), (6, 7, 9))}
MIX_WORDS['thin'] = [MIX_WORDS['quick'][i] for i in (2, 1, 8, 10)]     # 1..111, 11..1, 11..1..111, 1..111..1 (record edges)


def iso_clauses(y, bits, sps, Te, tag, viol, pay=None):
    """the three Gaussian clauses on EVERY isolated one of the word (y: normalised waveform); returns the measurements"""
    L, obs = len(bits), []
    for slot in isolated_ones(bits):
        pos, centre, mx, width = measure_iso(y, slot, sps, Te, L)
        where = f'isolated one in slot {slot} of {L}'
        if not abs(pos - centre) <= 1.0:
            viol.append((f'gauss:peak-position:{par(sps)}', f'{tag} {where}: peak at sample {pos}, slot centre {centre}: off by {pos - centre:+.2f} samples'))
        if not abs(mx - 1.0) <= 0.05:
            viol.append(('gauss:peak-value', f'{tag} {where}: peak-bias = {mx:.4f}*Vout, more than 5 % from Vout'))
        if width == 'missing':
            viol.append(('gauss:fwhm', f'{tag} {where}: no half-maximum crossing on both sides of the peak'))
        elif width is not None and not abs(width - Te) <= 1.0:
            viol.append(('gauss:fwhm', f'{tag} {where}: half-maximum width {width:.3f} samples, T={Te}: off by {width - Te:+.3f}'))
        obs.append((slot, round(pos, 3), round(mx, 9), width if not isinstance(width, float) else round(width, 6)))
        if pay is not None:
            pay[0], pay[1] = max(pay[0], abs(pos - centre)), max(pay[1], abs(mx - 1.0))
            if isinstance(width, float):
                pay[2] = max(pay[2] or 0.0, abs(width - Te))
    return obs


def gauss_mix_case(case):
    """case = (sps, T, m, Vout, bias, word set): every mixed word of the set at one (sps, T, m) point (T / m None = omitted).
    The isolated ones of a mixed word carry the same three clauses as a one that is alone in its record - what is sent
    `ISO_GAP` or more slots away (beyond the measuring window and, for T <= 2*sps, beyond every resolved tail) does not
    enter the statement; the inverse at k = sps//2 is claimed for T <= sps on the whole word"""
    from opticomlib.devices import DAC, SAMPLER
    sps, T, m, Vout_s, bias_s, wset = case
    gv_reset(sps=sps, R=1e9)
    Vout, bias = mk(Vout_s), mk(bias_s)
    V, b = eff(Vout, bias)
    kw = {'pulse_shape': 'gaussian'}
    if T is not None:
        kw['T'] = T
    if m is not None:
        kw['m'] = m
    Te = sps if T is None else T
    viol, obs, pay = [], [], [0.0, 0.0, None]
    st = {'dac_calls': 0, 'sampler_calls': 0, 'inversions': 0, 'isolated_ones': 0}
    forms = FORMS + FORMS_EXT
    for wi, word in enumerate(MIX_WORDS[wset]):
        form = forms[(wi + sps + Te) % len(forms)]
        bits = np.array([int(c) for c in word])
        L = len(bits)
        x = DAC(make_form(word, form), bias=bias, Vout=Vout, **kw)
        st['dac_calls'] += 1
        sig = np.asarray(x.signal)
        tag = f'sps={sps} T={T} m={m} Vout={Vout!r} bias={bias!r} mixed word={word!r} form={form}'
        if sig.ndim != 1 or sig.shape[0] != L * sps:
            viol.append((f'len:gauss:{par(sps)}', f'{tag}: {sig.shape} samples, expected {L * sps}'))
            continue
        y = (np.real(sig) - b) / V
        o = iso_clauses(y, bits, sps, Te, tag, viol, pay)
        st['isolated_ones'] += len(o)
        obs.append((word, tuple(o)))
        if Te <= sps:
            k = sps // 2
            ys = np.asarray(SAMPLER(x, k).signal)
            st['sampler_calls'] += 1
            want = sig[k + sps * np.arange(L)]
            if ys.shape != want.shape or not np.array_equal(ys, want):
                viol.append(('sampler:signal', f'{tag} k={k}: SAMPLER output differs from samples k,k+sps,..'))
                continue
            st['inversions'] += 1
            got = threshold_bits(ys, V, b)
            if not np.array_equal(got, bits.astype(bool)):
                viol.append((f'inverse:gauss:{par(sps)}', f'{tag} k={k}: threshold decision {got.astype(int).tolist()} != bits'))
    return res(viol=_dedup(viol), obs=(case, tuple(obs)), nontrivial=case, stats=st, payload=tuple(pay))


def gauss_inv_case(case):
    """case = (sps, T, m, Vout, bias, L): every word of length L, sampled at k = sps//2"""
    from opticomlib.devices import DAC, SAMPLER
    sps, T, m, Vout, bias, L = case
    gv_reset(sps=sps, R=1e9)
    Vout, bias = mk(Vout), mk(bias)
    V, b = eff(Vout, bias)
    viol = []
    h = hashlib.sha256()
    st = {'dac_calls': 0, 'sampler_calls': 0, 'inversions': 0}
    k = sps // 2
    margin = math.inf
    for wi, word in enumerate(words(L)):
        form = (FORMS + FORMS_EXT)[wi % len(FORMS + FORMS_EXT)]
        bits = np.array([int(c) for c in word])
        x = DAC(make_form(word, form), bias=bias, Vout=Vout, pulse_shape='gaussian', T=T, m=m)
        st['dac_calls'] += 1
        sig = np.asarray(x.signal)
        tag = f'sps={sps} T={T} m={m} Vout={Vout} bias={bias} word={word!r} form={form}'
        if sig.ndim != 1 or sig.shape[0] != L * sps:
            viol.append((f'len:gauss:{par(sps)}', f'{tag}: {sig.shape} samples, expected {L * sps}'))
            continue
        y = SAMPLER(x, k)
        st['sampler_calls'] += 1
        ys = np.asarray(y.signal)
        want = sig[k + sps * np.arange(L)]
        if ys.shape != want.shape or not np.array_equal(ys, want):
            viol.append(('sampler:signal', f'{tag} k={k}: SAMPLER output differs from samples k,k+sps,..'))
            continue
        got = threshold_bits(ys, V, b)
        st['inversions'] += 1
        if not np.array_equal(got, bits.astype(bool)):
            viol.append((f'inverse:gauss:{par(sps)}', f'{tag} k={k}: threshold decision {got.astype(int).tolist()} != bits '
                                                      f'(normalised samples {np.round((np.real(ys) - b) / V, 3).tolist()})'))
        yn = (np.real(ys) - b) / V
        margin = min(margin, float(np.min(np.abs(yn - 0.5))))
        h.update(np.round(yn, 9).tobytes())
    return res(viol=_dedup(viol), obs=(case, h.hexdigest()), nontrivial=(L >= 2), stats=st, payload=margin)


# ------------------------------------------------------------------ part long (structured long words)
LONG_PATTERNS = ['zeros', 'ones', 'alt01', 'alt10', 'first', 'last', 'mid', 'sparse8', 'lfsr7', 'seeded', 'mixed']
LONG_FORMS = ['str', 'list', 'ndarray_uint8', 'ndarray_bool', 'binary_sequence', 'ndarray_int', 'tuple', 'str_spaced', 'ndarray_float64']


def long_word(L, pattern, seed):
    """bits (int array) of a structured word; 'sparse8': an isolated one every 8 slots (from slot 3); 'mixed': isolated ones
    alternating with runs of 2, 3, .. 7 adjacent ones, 6 empty slots between the groups (cut at L slots)"""
    i = np.arange(L)
    if pattern == 'zeros':
        return np.zeros(L, dtype=int)
    if pattern == 'ones':
        return np.ones(L, dtype=int)
    if pattern == 'alt01':
        return i % 2
    if pattern == 'alt10':
        return 1 - i % 2
    if pattern in ('first', 'last', 'mid'):
        w = np.zeros(L, dtype=int)
        w[{'first': 0, 'last': L - 1, 'mid': L // 2}[pattern]] = 1
        return w
    if pattern == 'sparse8':
        return (i % 8 == 3).astype(int)
    if pattern == 'lfsr7':                       # x^7+x^6+1, period 127 (own shift register, not the library's PRBS)
        reg, out = 0x5A & 0x7F or 1, []
        for _ in range(L):
            bit = ((reg >> 6) ^ (reg >> 5)) & 1
            out.append(reg & 1)
            reg = ((reg << 1) | bit) & 0x7F
        return np.array(out, dtype=int)
    if pattern == 'seeded':
        return np.random.RandomState((seed * 7919 + L) % (2 ** 31)).randint(0, 2, L)
    if pattern == 'mixed':
        w, b = '000', 0
        while len(w) < L:
            w += '1' + '0' * ISO_GAP + '1' * (2 + b % 6) + '0' * ISO_GAP
            b += 1
        return np.array([int(c) for c in w[:L]], dtype=int)
    raise KeyError(pattern)


def reference_rect_vec(bits, sps, V, b, rz):
    """the same reference as reference_rect, built from index arithmetic (for long words)"""
    n = len(bits) * sps
    slot, j = np.divmod(np.arange(n), sps)
    on = (j < sps // 2) if rz else np.ones(n, dtype=bool)
    return np.where(on, b + V * bits[slot], float(b))


def instants(sps):
    """first / second / last-but-one / last instant and both sides of the middle"""
    return sorted({k for k in (0, 1, sps // 2 - 1, sps // 2, sps - 2, sps - 1) if 0 <= k < sps})


def long_case(case):
    """case = (shape, sps, L, pattern, Vout, bias, T, m, seed, form_i)"""
    from opticomlib.devices import DAC
    from opticomlib.typing import electrical_signal
    shape, sps, L, pattern, Vout, bias, T, m, seed, form_i = case
    gv_reset(sps=sps, R=1e9)
    V, b = eff(Vout, bias)
    bits = long_word(L, pattern, seed)
    word = ''.join('1' if x else '0' for x in bits)
    form = LONG_FORMS[form_i % len(LONG_FORMS)]
    tag = f'{shape} sps={sps} Vout={Vout} bias={bias} {L} slots pattern={pattern} form={form}' + (f' T={T} m={m}' if shape == 'gaussian' else '')
    viol, st = [], {'dac_calls': 1}
    arg = make_form(word, form)
    kw = {'T': T, 'm': m} if shape == 'gaussian' else {}
    x = DAC(arg, bias=bias, Vout=Vout, pulse_shape=shape, **kw)
    sig = np.asarray(x.signal)
    cls = {'nrz': 'nrz', 'rz': 'rz', 'gaussian': 'gauss'}[shape]
    if not form_intact(arg, word):
        viol.append(('dac:input-changed', f'{tag}: the bit argument was modified by the call'))
    if sig.ndim != 1 or sig.shape[0] != L * sps or x.len() != L * sps:
        viol.append((f'len:{cls}:{par(sps)}', f'{tag}: {sig.shape} samples, expected len*sps={L * sps}'))
        return res(viol=viol, obs=('LEN', case[:4], sig.shape), nontrivial=True, stats=st)
    h = hashlib.sha256(sig.tobytes())
    noise = coded_noise(L * sps, seed + form_i)
    if shape in ('nrz', 'rz'):
        rz = shape == 'rz'
        ref = reference_rect_vec(bits, sps, V, b, rz)
        bad = ~(np.abs(sig - ref) <= 4 * EPS * (abs(V) + abs(b)))
        if bad.any():
            i = int(np.argmax(bad))
            k, j = divmod(i, sps)
            key = f'slot:nrz:{par(sps)}' if not rz else f'slot:rz:{"pulse-part" if j < sps // 2 else "rest-part"}:{par(sps)}'
            viol.append((key, f'{tag}: slot {k} sample {j} is {sig[i]!r}, expected {ref[i]!r} ({int(bad.sum())} samples differ)'))
        inv = (bits, V, b, sps // 2 if rz else sps, f'inverse:{cls}:{par(sps)}')
        ks = instants(sps)
    else:
        real = np.real(sig)
        y = (real - b) / V
        # every isolated one of the word (no other one within ISO_GAP slots), whatever else the word holds: the Gaussian clauses
        iso = isolated_ones(bits)
        if pattern in ('first', 'last', 'mid', 'sparse8') and len(iso) != int(bits.sum()):
            raise AssertionError(f'{pattern}: every one of this pattern is meant to be isolated')
        if iso:
            for slot in iso:
                pos, centre, mx, width = measure_iso(y, slot, sps, T, L)
                where = f'one in slot {slot}'
                if not abs(pos - centre) <= 1.0:
                    viol.append((f'gauss:peak-position:{par(sps)}', f'{tag} {where}: peak at sample {pos}, slot centre {centre}'))
                if not abs(mx - 1.0) <= 0.05:
                    viol.append(('gauss:peak-value', f'{tag} {where}: peak-bias = {mx:.4f}*Vout'))
                if width == 'missing':
                    viol.append(('gauss:fwhm', f'{tag} {where}: no half-maximum crossing on both sides of the peak'))
                elif width is not None and not abs(width - T) <= 1.0:
                    viol.append(('gauss:fwhm', f'{tag} {where}: half-maximum width {width:.3f} samples, T={T}'))
            st['isolated_ones'] = len(iso)
        # the inverse is claimed at k = sps//2 (checked for T <= sps, see gauss.inv); the other instants: sampling only
        inv = (bits, V, b, sps, f'inverse:gauss:{par(sps)}') if T <= sps else None
        ks = [sps // 2]
        sampler_sweep(electrical_signal(sig, noise), noise, sig, sps, L, [k for k in instants(sps) if k != sps // 2], form_i, viol, st, tag, None)
    z = electrical_signal(sig, noise)
    snap = freeze(z)
    sampler_sweep(z, noise, sig, sps, L, ks, form_i, viol, st, tag, inv)
    if not unchanged(z, snap):
        viol.append(('sampler:input-changed', f'{tag}: the sampled object was modified'))
    return res(viol=_dedup(viol), obs=(case[:8], h.hexdigest()), nontrivial=(shape, sps, L, pattern, T, m) if 0 < bits.sum() < L else False, stats=st)


# ------------------------------------------------------------------ parts grid / reconf (the global grid reached in other ways)
GRID_FORMS = ['sps', 'sps,R=10G', 'sps,R=622.08M', 'sps,fs=64G', 'sps,fs=pi', 'R,fs integer ratio', 'R,fs ratio+0.3', 'R,fs ratio-0.4',
              'R=1G/3,fs', 'fs alone', 'fs alone +0.2', 'positional', 'sps float', 'sps numpy int', 'N=64', 'wavelength', 'fs,N,wavelength,custom']


def grid_call(form, s):
    """one configuration call of the global grid that makes sps == s"""
    from opticomlib.typing import gv
    kw, pos = None, ()
    if form == 'sps':
        kw = dict(sps=s)
    elif form == 'sps,R=10G':
        kw = dict(sps=s, R=10e9)
    elif form == 'sps,R=622.08M':
        kw = dict(sps=s, R=622.08e6)
    elif form == 'sps,fs=64G':
        kw = dict(sps=s, fs=64e9)
    elif form == 'sps,fs=pi':
        kw = dict(sps=s, fs=math.pi * 1e10)
    elif form == 'R,fs integer ratio':
        kw = dict(R=2.5e9, fs=2.5e9 * s)
    elif form == 'R,fs ratio+0.3':
        kw = dict(R=1e9, fs=(s + 0.3) * 1e9)
    elif form == 'R,fs ratio-0.4':
        kw = dict(R=1e9, fs=(s - 0.4) * 1e9)
    elif form == 'R=1G/3,fs':
        kw = dict(R=1e9 / 3, fs=s * (1e9 / 3))
    elif form == 'fs alone':
        kw = dict(fs=s * float(gv.R))
    elif form == 'fs alone +0.2':
        kw = dict(fs=(s + 0.2) * float(gv.R))
    elif form == 'positional':
        kw, pos = {}, (s, 40e9)
    elif form == 'sps float':
        kw = dict(sps=float(s), R=1e9)
    elif form == 'sps numpy int':
        kw = dict(sps=np.int64(s), R=1e9)
    elif form == 'N=64':
        kw = dict(sps=s, R=1e9, N=64)
    elif form == 'wavelength':
        kw = dict(sps=s, R=1e9, wavelength=1310e-9)
    elif form == 'fs,N,wavelength,custom':
        kw = dict(sps=s, fs=40e9, N=128, wavelength=1310e-9, alpha=0.2)
    else:
        raise KeyError(form)
    with warnings.catch_warnings():
        warnings.simplefilter('ignore')
        gv(*pos, **kw)
    return int(gv.sps)


THIN_CALLS = [('nrz', 'DEFAULTS', None), ('rz', -3, -2), ('nrz', 0.5, 0.25), ('rz', 1, 0)]


def thin_check(sps, seed, tag0, viol, st, gauss=True):
    """a thin slice of every clause on the CURRENT grid: words 1 / 0110 in NRZ (all defaults) and RZ, first / middle / last
    instants with noise, the Gaussian default pulse for sps >= 8"""
    from opticomlib.devices import DAC
    from opticomlib.typing import electrical_signal
    h = hashlib.sha256()
    for wi, word in enumerate(['1', '0110']):
        bits = np.array([int(c) for c in word])
        L = len(bits)
        for ci, (shape, Vout, bias) in enumerate(THIN_CALLS):
            form = (FORMS + FORMS_EXT)[(wi * 4 + ci + sps) % len(FORMS + FORMS_EXT)]
            arg = make_form(word, form)
            if Vout == 'DEFAULTS':
                x, Vout, bias = DAC(arg), 1.0, 0.0
            else:
                x = DAC(arg, bias=bias, Vout=Vout, pulse_shape=shape)
            st['dac_calls'] = st.get('dac_calls', 0) + 1
            V, b = eff(Vout, bias)
            rz = shape == 'rz'
            tag = f'{tag0}: {shape} Vout={Vout} bias={bias} word={word!r} form={form}'
            sig = np.asarray(x.signal)
            h.update(sig.tobytes())
            if sig.ndim != 1 or sig.shape[0] != L * sps:
                viol.append((f'len:{shape}:{par(sps)}', f'{tag}: {sig.shape} samples, expected len*sps={L * sps}'))
                continue
            ref = reference_rect(bits, sps, V, b, rz)
            bad = ~(np.abs(sig - ref) <= 4 * EPS * (abs(V) + abs(b)))
            if bad.any():
                i = int(np.argmax(bad))
                k, j = divmod(i, sps)
                key = f'slot:nrz:{par(sps)}' if not rz else f'slot:rz:{"pulse-part" if j < sps // 2 else "rest-part"}:{par(sps)}'
                viol.append((key, f'{tag}: slot {k} sample {j} is {sig[i]!r}, expected {ref[i]!r}'))
                continue
            noise = coded_noise(L * sps, seed + ci)
            sampler_sweep(electrical_signal(sig, noise), noise, sig, sps, L, instants(sps), ci + wi, viol, st, tag,
                          (bits, V, b, sps // 2 if rz else sps, f'inverse:{shape}:{par(sps)}'))
    if gauss and sps >= 8:
        word = '00100'
        x = DAC(word, pulse_shape='gaussian')                    # T, m, c, Vout, bias: documented defaults sps, 1, 0, 1, 0
        st['dac_calls'] = st.get('dac_calls', 0) + 1
        sig = np.asarray(x.signal)
        tag = f'{tag0}: gaussian (defaults) word={word!r}'
        if sig.ndim != 1 or sig.shape[0] != 5 * sps:
            viol.append((f'len:gauss:{par(sps)}', f'{tag}: {sig.shape} samples, expected {5 * sps}'))
        else:
            y = np.real(sig)
            pos, centre, mx, width = measure_iso(y, 2, sps, sps, 5)
            if not abs(pos - centre) <= 1.0:
                viol.append((f'gauss:peak-position:{par(sps)}', f'{tag}: peak at sample {pos}, slot centre {centre}'))
            if not abs(mx - 1.0) <= 0.05:
                viol.append(('gauss:peak-value', f'{tag}: peak = {mx:.4f}*Vout'))
            if width == 'missing' or (width is not None and not abs(width - sps) <= 1.0):
                viol.append(('gauss:fwhm', f'{tag}: half-maximum width {width}, default T = sps = {sps}'))
            sampler_sweep(x, None, sig, sps, 5, [sps // 2], sps, viol, st, tag, (np.array([0, 0, 1, 0, 0]), 1.0, 0.0, sps, f'inverse:gauss:{par(sps)}'))
            h.update(np.round(y, 9).tobytes())
    return h


def grid_case(case):
    """case = (s, form, seed): clean grid, ONE configuration call in the given form, thin slice of every clause"""
    from opticomlib.typing import gv
    s, form, seed = case
    gv.clean()
    sps = grid_call(form, s)
    viol, st = [], {}
    if not 2 <= sps <= 128:
        return res(viol=[], obs=('outside', s, form, sps), nontrivial=False)      # the statement quantifies over sps in 2..128
    h = thin_check(sps, seed, f'gv[{form}] -> sps={sps}', viol, st)
    st['grid_sps_not_as_requested'] = int(sps != s)
    return res(viol=_dedup(viol), obs=(s, form, sps, h.hexdigest()), nontrivial=(s, form), stats=st)


def reconf_case(case):
    """case = (a, form_a, b, form_b, seed): grid a, a waveform, grid b WITHOUT clean(), every clause on grid b (and the old
    waveform sampled on the new grid, the T limit of the new grid), back to grid a, every clause again"""
    from opticomlib.devices import DAC
    from opticomlib.typing import gv, electrical_signal
    a, fa, b_, fb, seed = case
    gv.clean()
    viol, st = [], {}
    sa = grid_call(fa, a)
    xa = np.asarray(DAC('0110', Vout=-3, bias=-2, pulse_shape='rz').signal).copy()
    na = coded_noise(len(xa), seed)
    sb = grid_call(fb, b_)
    hs = []
    if 2 <= sb <= 128:
        hs.append(thin_check(sb, seed, f'gv[{fa}: sps={sa}] then gv[{fb}: sps={sb}]', viol, st).hexdigest())
        # the OLD waveform on the NEW grid: SAMPLER takes samples k, k+sps, ... with the current sps
        z = electrical_signal(xa, na)
        from opticomlib.devices import SAMPLER
        for k in instants(sb):
            if k >= len(xa):
                continue
            y = SAMPLER(z, k)
            st['sampler_calls'] = st.get('sampler_calls', 0) + 1
            ix = np.arange(k, len(xa), sb)
            if not _same(np.asarray(y.signal), xa[ix]) or y.noise is None or not _same(np.asarray(y.noise), na[ix]):
                viol.append(('sampler:after-reconfiguration', f'waveform made at sps={sa}, grid now sps={sb}, k={k}: '
                                                              f'{np.asarray(y.signal).tolist()[:6]} != samples k, k+{sb}, ...'))
        # the T limit follows the new grid
        for T, exp in [(2 * sb, 'ok'), (2 * sb + 1, 'ValueError')]:
            try:
                n = len(np.asarray(DAC('010', pulse_shape='gaussian', T=T).signal))
                got = 'ok'
            except (TypeError, ValueError) as e:
                got, n = type(e).__name__, None
            if got != exp:
                viol.append((f'valid:T:after-reconfiguration', f'grid sps={sa} then sps={sb}: DAC(T={T}) -> {got}, expected {exp} (limit 2*sps={2 * sb})'))
            elif got == 'ok' and n != 3 * sb:
                viol.append((f'len:gauss:{par(sb)}', f'grid sps={sa} then sps={sb}: T={T}: {n} samples, expected {3 * sb}'))
    sa2 = grid_call(fa, a)
    if 2 <= sa2 <= 128:
        hs.append(thin_check(sa2, seed, f'gv[{fa}: sps={sa}], gv[{fb}: sps={sb}], back to gv[{fa}: sps={sa2}]', viol, st).hexdigest())
    return res(viol=_dedup(viol), obs=(case[:4], sa, sb, sa2, tuple(hs)), nontrivial=(a, fa, b_, fb) if sa != sb else False, stats=st)


# ------------------------------------------------------------------ part sampler (generic records)
DTYPES = ['bool', 'int8', 'uint8', 'int16', 'int32', 'int64', 'float16', 'float32', 'float64', 'complex64', 'complex128']
SAMPLER_KINDS = (['real', 'complex', 'nonoise', 'zero-sum-noise', 'seeded', 'zero-noise', 'int-valued-float', 'real+complex-noise',
                  'complex+real-noise', 'int16+float32-noise', 'float32+int8-noise', 'dc-offset']
                 + [f'dtype:{d}' for d in DTYPES] + [f'dtype-nonoise:{d}' for d in ('bool', 'uint8', 'int64', 'float32', 'complex64')]
                 + [f'scale:{e}' for e in ('1e-12', '1e-09', '1e-06', '1e+06')])


def sampler_record(n, kind, seed):
    """(signal, noise | None) of a generic record"""
    rs = np.random.RandomState(seed * 1000003 % (2 ** 31) + n)
    i = np.arange(n)
    base = i * 1.0 + 0.5
    if kind == 'real':
        return base, -base / 8
    if kind == 'complex':
        return base + 1j * (base + 100), (base / 4) - 1j * base
    if kind == 'nonoise':
        return base, None
    if kind == 'zero-sum-noise':
        noi = np.where(i % 2, -1.0, 1.0) * (1 + i // 2)
        if n % 2:
            noi[-1] = 0.0
        return base, noi
    if kind == 'seeded':
        return rs.standard_normal(n), rs.standard_normal(n)
    if kind == 'zero-noise':
        return base, np.zeros(n)
    if kind == 'int-valued-float':
        return np.floor(base), np.floor(base / 3)
    if kind == 'real+complex-noise':
        return base, (base / 4) - 1j * base
    if kind == 'complex+real-noise':
        return base + 1j * (base + 100), -base / 8
    if kind == 'int16+float32-noise':
        return (i % 1000 + 1).astype(np.int16), (base / 4).astype(np.float32)
    if kind == 'float32+int8-noise':
        return base.astype(np.float32), ((i * 7) % 11 - 5).astype(np.int8)
    if kind == 'dc-offset':                       # a large offset with a small variation
        return 1e6 + 1e-6 * rs.standard_normal(n), 1e-6 * rs.standard_normal(n)
    if kind.startswith('dtype'):
        dt = np.dtype(kind.split(':')[1])
        if dt == bool:
            sig, noi = (i % 3 == 0), (i % 5 == 1)
        elif dt.kind == 'c':
            sig, noi = ((i % 100) + 1 + 1j * (i % 7)).astype(dt), ((i * 7) % 11 - 1j * (i % 3)).astype(dt)
        else:
            sig, noi = ((i % 100) + 1).astype(dt), ((i * 7) % 11).astype(dt)
        return sig, (None if kind.startswith('dtype-nonoise') else noi)
    if kind.startswith('scale:'):
        f = float(kind.split(':')[1])
        return f * rs.standard_normal(n), f * rs.standard_normal(n)
    raise KeyError(kind)


def sampler_case(case):
    """case = (sps, n, kind, seed): SAMPLER at every instant on a generic, write-protected record of n samples"""
    from opticomlib.devices import SAMPLER
    from opticomlib.typing import electrical_signal
    sps, n, kind, seed = case
    gv_reset(sps=sps, R=1e9)
    sig, noi = sampler_record(n, kind, seed)
    z = electrical_signal(sig, noi)
    snap = freeze(z)
    sig0 = np.array(z.signal)
    noi0 = None if z.noise is None else np.array(z.noise)
    zero_noise = noi0 is not None and not np.any(noi0 != 0)
    viol = []
    h = hashlib.sha256()
    calls = 0
    for k in range(sps):
        want_idx = list(range(k, n, sps))
        if not want_idx:
            continue                              # the record is shorter than the instant: nothing is claimed
        kk = kval(k, k + n)
        y = SAMPLER(z, kk)
        calls += 1
        ys = np.asarray(y.signal)
        ws = np.array([sig0[i] for i in want_idx])
        if ys.shape != ws.shape:
            viol.append(('sampler:len', f'sps={sps} n={n} k={kk!r}: {ys.shape} samples, expected {len(want_idx)}'))
            continue
        if not np.array_equal(ys, ws):
            viol.append(('sampler:signal', f'sps={sps} n={n} k={kk!r} {kind}: {ys.tolist()[:6]} != {ws.tolist()[:6]}'))
        if noi0 is not None:
            wn = np.array([noi0[i] for i in want_idx])
            yn = y.noise
            if yn is None and zero_noise:
                pass                              # an all-zero noise vector and "no noise" carry the same samples
            elif yn is None or np.asarray(yn).shape != wn.shape or not np.array_equal(np.asarray(yn), wn):
                viol.append(('sampler:noise', f'sps={sps} n={n} k={kk!r} {kind}: noise '
                                              f'{None if yn is None else np.asarray(yn).tolist()[:6]} != {wn.tolist()[:6]}'))
        elif y.noise is not None and np.any(np.asarray(y.noise) != 0):
            viol.append(('sampler:noise', f'sps={sps} n={n} k={kk!r}: noise appeared from a noise-free input'))
        h.update(ys.tobytes())
        if y.noise is not None:
            h.update(np.asarray(y.noise).tobytes())
        # chain: the sampled record (len(want_idx) samples) is a record itself: SAMPLER(y, j) = samples j, j+sps, ... of y
        if k in (0, sps - 1):
            for j in sorted({0, sps - 1}):
                jdx = list(range(j, len(want_idx), sps))
                if not jdx:
                    continue
                y2 = SAMPLER(y, j)
                calls += 1
                w2 = np.array([ws[i] for i in jdx])
                if np.asarray(y2.signal).shape != w2.shape or not np.array_equal(np.asarray(y2.signal), w2):
                    viol.append(('chain:sampler-sampler', f'sps={sps} n={n} {kind}: SAMPLER(SAMPLER(x,{k}),{j}) = '
                                                          f'{np.asarray(y2.signal).tolist()[:6]} != {w2.tolist()[:6]}'))
                elif noi0 is not None and not zero_noise and (y2.noise is None or not np.array_equal(np.asarray(y2.noise), np.array([wn[i] for i in jdx]))):
                    viol.append(('chain:sampler-sampler', f'sps={sps} n={n} {kind}: noise of SAMPLER(SAMPLER(x,{k}),{j}) is wrong'))
    if not unchanged(z, snap):
        viol.append(('sampler:input-changed', f'sps={sps} n={n} {kind}: the input object was modified'))
    return res(viol=_dedup(viol), obs=(case[:3], h.hexdigest()), nontrivial=(n > sps), stats={'sampler_calls': calls})


# ------------------------------------------------------------------ part valid
# expectation classes:
#   'ValueError' / 'TypeError' : exactly this documented exception
#   'reject'   : wrong in type AND range (np.int64(50)) or not a string at all: either documented exception, never accepted
#   'boundary' : |value| == 48, the statement quantifies over the open interval: ValueError or a correct waveform
#   'either'   : an in-range value of a type the statement is silent on (numpy non-float64 scalars, 0-d arrays, bool,
#                integer-valued float T/m): TypeError, or accepted and then the waveform must be the correct one
#   'ok'       : must be accepted and give the correct waveform
#   ('variant', name) : a spelling that normalises (strip, lower) to a documented name: ValueError, or exactly the
#                waveform of the documented name
def _amp_values():
    """(label, value spec, expectation) for Vout and bias"""
    f64, i64 = (lambda v: ('@np', 'float64', v)), (lambda v: ('@np', 'int64', v))
    return [
        ('50', 50, 'ValueError'), ('-50', -50, 'ValueError'), ('48.000001', 48.000001, 'ValueError'),
        ('-48.000001', -48.000001, 'ValueError'), ('nextafter(48,inf)', OUT48, 'ValueError'), ('-nextafter(48,inf)', -OUT48, 'ValueError'),
        ('1e6', 1e6, 'ValueError'), ('inf', math.inf, 'ValueError'), ('-inf', -math.inf, 'ValueError'),
        ('np.float64(50)', f64(50.0), 'ValueError'), ('np.float64(-1e6)', f64(-1e6), 'ValueError'), ('10**30', 10 ** 30, 'ValueError'),
        ('48', 48, 'boundary'), ('-48', -48, 'boundary'), ('48.0', 48.0, 'boundary'), ('-48.0', -48.0, 'boundary'),
        ('np.float64(48)', f64(48.0), 'boundary'),
        ('np.int64(50)', i64(50), 'reject'), ('np.float32(-50)', ('@np', 'float32', -50.0), 'reject'), ('array(50.)', ('@arr', 50.0), 'reject'),
        ('np.int64(-1000)', i64(-1000), 'reject'),
        ("'5'", '5', 'TypeError'), ("''", '', 'TypeError'), ("'nan'", 'nan', 'TypeError'), ('1+1j', 1 + 1j, 'TypeError'), ('[1.0]', [1.0], 'TypeError'),
        ('(1,)', (1,), 'TypeError'), ('array([1.,2.])', ('@arr', [1.0, 2.0]), 'TypeError'), ('array([5.])', ('@arr', [5.0]), 'TypeError'),
        ('{}', {}, 'TypeError'), ('{1}', ('@set', [1]), 'TypeError'), ("b'5'", ('@bytes', '5'), 'TypeError'),
        ('np.complex128(1)', ('@np', 'complex128', 1.0), 'TypeError'),
        ('np.int64(5)', i64(5), 'either'), ('np.int32(-3)', ('@np', 'int32', -3), 'either'), ('np.uint8(5)', ('@np', 'uint8', 5), 'either'),
        ('np.float32(2.5)', ('@np', 'float32', 2.5), 'either'), ('np.float16(2)', ('@np', 'float16', 2.0), 'either'),
        ('array(2.)', ('@arr', 2.0), 'either'), ('array(2)', ('@arr', 2), 'either'), ('np.bool_(True)', ('@np', 'bool_', True), 'either'),
        ('True', True, 'either'), ('False', False, 'either'), ('Fraction(1,2)', ('@frac', 1, 2), 'either'),
        ('np.float64(5)', f64(5.0), 'ok'), ('np.float64(-47.999)', f64(-47.999), 'ok'), ('nextafter(48,0)', IN48, 'ok'),
        ('-nextafter(48,0)', -IN48, 'ok'), ('np.float64(nextafter(48,0))', f64(IN48), 'ok'), ('max of a DAC waveform', ('@chain-max', 3.5), 'ok'),
        ('47.999', 47.999, 'ok'), ('-47.999', -47.999, 'ok'), ('0', 0, 'ok'), ('0.0', 0.0, 'ok'), ('-0.0', -0.0, 'ok'), ('3', 3, 'ok'), ('-2', -2, 'ok'),
        ('1e-300', 1e-300, 'ok'), ('5e-324', 5e-324, 'ok'), ('np.float64(0)', f64(0.0), 'ok'),
    ]


SHAPES_UNKNOWN = ['', ' ', 'r', 'z', 'n', 'g', 'a', 'ss', 'nr', 'rec', 'gauss', 'gaus', 'sian', 'aussian', 'gaussia', 'nrzi', 'nrzz', 'rzz', 'xrz',
                  'rectangular', 'gaussian2', 'supergaussian', 'nrz,rz', 'nrz rz', 'nrz|gaussian', 'n r z', 'triangle', 'sinc', 'raised-cosine',
                  'none', 'None', '0', 'nrz\x00']
SHAPES_NONSTR = [None, 0, 1, True, 1.0, ['nrz'], ('nrz',), ('@bytes', 'nrz'), ('@set', ['nrz'])]
SHAPES_VARIANT = ['Rect', 'RECT', 'Nrz', 'nRZ', 'Rz', 'rZ', 'Gaussian', 'GAUSSIAN', 'GAUSSIAn', 'gAUSSIAN', ' nrz', 'nrz ', 'NRZ ', 'rz\n', '\tgaussian',
                  'RZ ', ' rect ']
SHAPES_OK = ['nrz', 'rect', 'NRZ', 'rz', 'RZ', 'gaussian', ('@npstr', 'nrz'), ('@npstr', 'rz'), ('@npstr', 'gaussian')]
CANON = {'nrz': 'nrz', 'rect': 'nrz', 'rz': 'rz', 'gaussian': 'gaussian'}


def _gauss_values(sps):
    i64 = lambda v: ('@np', 'int64', v)
    T = [('0', 0, 'ValueError'), ('-1', -1, 'ValueError'), ('2sps+1', 2 * sps + 1, 'ValueError'), ('10sps', 10 * sps, 'ValueError'),
         ('10**30', 10 ** 30, 'ValueError'), ('-10**30', -10 ** 30, 'ValueError'),
         ('8.5', 8.5, 'TypeError'), ("'8'", '8', 'TypeError'), ('[4]', [4], 'TypeError'), ('1j', 1j, 'TypeError'), ('None', None, 'TypeError'),
         ('array([4,4])', ('@arr', [4, 4]), 'TypeError'), ('(sps,)', (sps,), 'TypeError'),
         ('float(sps)', float(sps), 'either'), ('np.int64(sps)', i64(sps), 'either'), ('np.int32(sps)', ('@np', 'int32', sps), 'either'),
         ('np.float64(sps)', ('@np', 'float64', float(sps)), 'either'), ('array(sps)', ('@arr', sps), 'either'), ('True', True, 'either'),
         ('np.int64(2sps+1)', i64(2 * sps + 1), 'reject'), ('float(2sps+1)', float(2 * sps + 1), 'reject'), ('np.int64(0)', i64(0), 'reject'),
         ('0.0', 0.0, 'reject'), ('False', False, 'reject'),
         ('1', 1, 'ok'), ('2', 2, 'ok'), ('ceil(sps/2)', math.ceil(sps / 2), 'ok'), ('sps', sps, 'ok'), ('2sps-1', 2 * sps - 1, 'ok'), ('2sps', 2 * sps, 'ok')]
    m = [('0', 0, 'ValueError'), ('-1', -1, 'ValueError'), ('-4', -4, 'ValueError'), ('-10**30', -10 ** 30, 'ValueError'),
         ('1.5', 1.5, 'TypeError'), ("'2'", '2', 'TypeError'), ('[1]', [1], 'TypeError'), ('1j', 1j, 'TypeError'), ('None', None, 'TypeError'),
         ('(2,)', (2,), 'TypeError'),
         ('2.0', 2.0, 'either'), ('np.int64(2)', i64(2), 'either'), ('np.int32(4)', ('@np', 'int32', 4), 'either'), ('True', True, 'either'),
         ('array(2)', ('@arr', 2), 'either'),
         ('False', False, 'reject'), ('np.int64(0)', i64(0), 'reject'), ('0.0', 0.0, 'reject'), ('-1.0', -1.0, 'reject'),
         ('1', 1, 'ok'), ('2', 2, 'ok'), ('3', 3, 'ok'), ('4', 4, 'ok')]
    c = [('1j', 1j, 'TypeError'), ("'0'", '0', 'TypeError'), ('[0.0]', [0.0], 'TypeError'), ('1+0j', 1 + 0j, 'TypeError'), ('None', None, 'TypeError'),
         ('np.complex128(1)', ('@np', 'complex128', 1.0), 'TypeError'), ('array([0.,1.])', ('@arr', [0.0, 1.0]), 'TypeError'), ('(0.0,)', (0.0,), 'TypeError'),
         ('True', True, 'either'), ('False', False, 'either'), ('np.float32(.5)', ('@np', 'float32', 0.5), 'either'), ('np.int64(1)', i64(1), 'either'),
         ('array(.5)', ('@arr', 0.5), 'either'), ('Fraction(1,2)', ('@frac', 1, 2), 'either'),
         ('0', 0, 'ok'), ('0.0', 0.0, 'ok'), ('-0.0', -0.0, 'ok'), ('0.5', 0.5, 'ok'), ('-2', -2, 'ok'), ('1', 1, 'ok'), ('1e-3', 1e-3, 'ok'), ('100.0', 100.0, 'ok'),
         ('np.float64(.5)', ('@np', 'float64', 0.5), 'ok'), ('np.float64(0)', ('@np', 'float64', 0.0), 'ok')]
    return {'T': T, 'm': m, 'c': c}


def valid_cases():
    """case = (what, sps, word, shape spec, kw specs, label, expectation)"""
    cases = []
    for sps in [2, 8, 17, 3, 128]:
        for word in ['1', '010', '000']:
            for shape in ['nrz', 'rz', 'gaussian']:
                for label, val, exp in _amp_values():
                    cases.append(('Vout', sps, word, shape, {'Vout': val}, label, exp))
                    cases.append(('bias', sps, word, shape, {'bias': val}, label, exp))
            for what, vals in _gauss_values(sps).items():
                for label, val, exp in vals:
                    cases.append((what, sps, word, 'gaussian', {what: val}, label, exp))
            for name in SHAPES_UNKNOWN:
                cases.append(('shape', sps, word, name, {}, repr(name), 'ValueError'))
            for name in SHAPES_NONSTR:
                cases.append(('shape', sps, word, name, {}, repr(mk(name)), 'reject'))
            for name in SHAPES_VARIANT:
                cases.append(('shape', sps, word, name, {}, repr(name), ('variant', CANON[name.strip().lower()])))
            for name in SHAPES_OK:
                cases.append(('shape', sps, word, name, {}, repr(mk(name)), 'ok'))
            # further accepted calls: two in-range deviations at once, one argument None, the BW stage (length only), BW=None
            for kw, label in [({'Vout': 3, 'bias': -2}, 'Vout=int,bias=int'), ({'Vout': IN48, 'bias': IN48}, 'both just inside'),
                              ({'Vout': None, 'bias': 47.999}, 'Vout=None'), ({'Vout': -47.999, 'bias': None}, 'bias=None'),
                              ({'BW': None}, 'BW=None'), ({'BW': 0.75e9}, 'BW=0.75R'), ({'BW': 2e9, 'Vout': 5}, 'BW=2R,Vout=5'),
                              ({'BW': ('@np', 'float64', 1e9)}, 'BW=np.float64')]:
                if kw.get('BW') is not None and len(word) * sps < 32:
                    continue      # the low-pass stage (LPF, zero-phase filtering) needs a record longer than its padding: not a DAC clause
                for shape in ['nrz', 'rz', 'gaussian']:
                    cases.append(('accept', sps, word, shape, kw, label, 'ok'))
            for kw, label in [({'T': 2 * sps, 'm': 4}, 'T=2sps,m=4'), ({'T': 1, 'm': 1, 'c': 0}, 'T=1,m=1,c=0'), ({'T': sps, 'c': 0.5, 'Vout': -5}, 'T=sps,c=.5,Vout=-5')]:
                cases.append(('accept', sps, word, 'gaussian', kw, label, 'ok'))
    # one wrong argument TOGETHER with one other (valid) deviation: the rejection must not depend on the companion
    sps, word = 8, '010'
    comp = {'Vout': [{'bias': 2.0}, {'bias': None}, {'BW': 2e9}], 'bias': [{'Vout': -3.0}, {'Vout': None}, {'BW': 2e9}],
            'T': [{'m': 2}, {'c': 0.5}, {'Vout': 5}], 'm': [{'T': sps}, {'c': 0.5}], 'c': [{'T': sps}, {'m': 2}]}
    for shape in ['nrz', 'rz', 'gaussian']:
        for label, val, exp in _amp_values():
            if exp in ('ValueError', 'TypeError', 'reject'):
                for what in ('Vout', 'bias'):
                    for co in comp[what]:
                        cases.append((what, sps, word, shape, {what: val, **co}, f'{label} with {co}', exp))
    for what, vals in _gauss_values(sps).items():
        for label, val, exp in vals:
            if exp in ('ValueError', 'TypeError', 'reject'):
                for co in comp[what]:
                    cases.append((what, sps, word, 'gaussian', {what: val, **co}, f'{label} with {co}', exp))
    for name in SHAPES_UNKNOWN:
        for co in [{'Vout': 5}, {'T': sps}, {'bias': None}]:
            cases.append(('shape', sps, word, name, co, f'{name!r} with {co}', 'ValueError'))
    return cases


def valid_case(case):
    from opticomlib.devices import DAC
    what, sps, word, shape_s, kw_s, label, exp = case
    gv_reset(sps=sps, R=1e9)
    shape = mk(shape_s)
    kw = {k: mk(v) for k, v in kw_s.items()}
    tag = f'DAC({word!r}, pulse_shape={shape!r}, {", ".join(f"{k}={v!r}" for k, v in kw.items())}) sps={sps}'
    viol = []
    x = None
    try:
        x = DAC(word, pulse_shape=shape, **kw)
        got = 'ok'
        n = int(np.asarray(x.signal).shape[0])
    except (TypeError, ValueError) as e:
        got = type(e).__name__
        n = None
        tag += f' [{got}: {str(e)[:80]}]'
    canon = exp[1] if isinstance(exp, tuple) else CANON.get(str(shape).lower() if isinstance(shape, str) else '', None)

    def accepted_ok():
        """an accepted call: length, and - rectangular shapes without the BW stage - the waveform itself"""
        if n != len(word) * sps:
            viol.append((f'len:{canon}:{par(sps)}', f'{tag}: {n} samples, expected {len(word) * sps}'))
        elif canon in ('nrz', 'rz') and kw.get('BW') is None:
            V, b = eff(kw.get('Vout', 1.0), kw.get('bias', 0.0))
            ref = reference_rect(np.array([int(c) for c in word]), sps, V, b, canon == 'rz')
            if not np.all(np.abs(np.asarray(x.signal) - ref) <= 4 * EPS * (abs(V) + abs(b))):
                viol.append((f'valid:{what}:accepted-wrong-waveform', f'{tag}: accepted, but the waveform {np.asarray(x.signal).tolist()[:6]}.. '
                                                                       f'is not bias+Vout*bits = {ref.tolist()[:6]}..'))

    if exp in ('ValueError', 'TypeError'):
        klass = 'range' if exp == 'ValueError' else 'type'
        if got == 'ok':
            viol.append((f'valid:{what}:{klass}:accepted', f'{tag}: no exception, documented {exp}'))
        elif got != exp:
            viol.append((f'valid:{what}:{klass}:wrong-exception', f'{tag}: raised {got}, documented {exp}'))
    elif exp == 'reject':
        if got == 'ok':
            viol.append((f'valid:{what}:type+range:accepted', f'{tag}: no exception for a value that is of the wrong type and out of range'))
    elif exp == 'boundary':
        # |value| == 48: the statement quantifies over the open interval and calls 48 neither valid nor invalid
        if got == 'TypeError':
            viol.append((f'valid:{what}:boundary:wrong-exception', f'{tag}: raised TypeError for a float/int scalar'))
        elif got == 'ok':
            accepted_ok()
    elif exp == 'either':
        if got == 'ValueError':
            viol.append((f'valid:{what}:in-range:wrong-exception', f'{tag}: raised ValueError (out of range) for an in-range value'))
        elif got == 'ok':
            accepted_ok()
    elif isinstance(exp, tuple):
        if got == 'TypeError':
            viol.append((f'valid:shape:wrong-exception', f'{tag}: raised TypeError for a string'))
        elif got == 'ok':
            y = DAC(word, pulse_shape=exp[1], **kw)
            if np.asarray(y.signal).tobytes() != np.asarray(x.signal).tobytes():
                viol.append(('valid:shape:variant-wrong-waveform', f'{tag}: accepted, but the waveform is not that of pulse_shape={exp[1]!r}'))
    else:
        if got != 'ok':
            viol.append((f'valid:{what}:rejected-valid', f'{tag}: raised {got} for an in-range, correctly typed value'))
        else:
            accepted_ok()
    return res(viol=viol, obs=(what, sps, word, repr(shape), label, got, n), nontrivial=(what, repr(shape_s), label, repr(exp)))


# ------------------------------------------------------------------ driver
def run(ctx):
    quick = ctx.quick
    maxlen = 6 if quick else 8
    amps = AMPS_QUICK if quick else AMPS
    sps_rect = SPS_RECT if quick else sorted(SPS_RECT + SPS_RECT_THOROUGH_EXTRA)
    allwords = [w for L in range(1, maxlen + 1) for w in words(L)]
    edge_len = 3 if quick else 5
    ctx.space('words', len(allwords))
    ctx.space('container_forms', len(FORMS + FORMS_EXT))
    ctx.rule(f'rect: EVERY bit word of length 1..{maxlen} ({len(allwords)}) x container forms / bit dtypes {FORMS + FORMS_EXT} (numpy buffers '
             f'write-protected, one object passed twice) x sps {sps_rect} x (Vout,bias) {amps} x shape spellings {NRZ_NAMES + RZ_NAMES} (the extended forms with nrz / rz); whole '
             f'waveform compared with a slot-by-slot reference; SAMPLER applied at EVERY instant k in [0,sps) (k as {KTYPES}, rotating with the '
             f'container form) to the write-protected waveform with index-coded noise attached (and to the noise-free DAC output) and compared '
             f'with explicitly indexed samples of signal and noise; sign-aware threshold at bias+Vout/2 must give the word for every k (NRZ) / '
             f'every k < sps//2 (RZ); the decision is fed to DAC again; DAC(bits) with every default')
    ctx.rule(f'rect, edge lattice: EVERY word of length 1..{edge_len} x the same sps x (Vout,bias) {AMPS_EDGE} x spellings '
             f'{NRZ_NAMES + RZ_NAMES} + numpy str names {NPSTR_NAMES}')
    ctx.assume('numpy indexing, comparison and sha256 are trusted; the reference waveform is built by slice assignment per slot')
    ctx.assume('Vout=None / bias=None mean "no scaling" / "no offset" (devices.py:311,320), i.e. Vout=1, bias=0')
    ctx.assume('tolerance of the slot values: 4*eps*(|Vout|+|bias|) (two correctly rounded operations); SAMPLER outputs are compared bit-exactly')
    # simplest first: short words, small sps, plain amplitudes, canonical names
    names = NRZ_NAMES + RZ_NAMES
    cases = []
    for word in allwords:
        for sps in sps_rect:
            for ai, (Vout, bias) in enumerate(amps):
                for si, shape in enumerate(names):
                    cases.append(((len(word), sps, ai, si, word), (shape, sps, Vout, bias, word, ctx.seed, 'all' if sps in SPS_RECT else 'first')))
            if len(word) <= edge_len:
                for ai, (Vout, bias) in enumerate(AMPS_EDGE):
                    for si, shape in enumerate(names + (NPSTR_NAMES if ai < 2 else [])):
                        cases.append(((len(word), sps, 100 + ai, si, word), (shape, sps, Vout, bias, word, ctx.seed, 'all' if sps in SPS_RECT else 'first')))
    cases.sort(key=lambda c: c[0])
    ctx.pmap('rect', rect_case, [c[1] for c in cases], horizon=120, chunk=64)

    # ---- the mixed words (an isolated one AND runs of adjacent ones elsewhere) in NRZ / RZ: the level of a slot does not depend
    # on what the other slots carry
    wset = 'quick' if quick else 'thorough'
    mix_amps = amps + [(0.5, 0.25), (IN48, -IN48), (-1e-3, -47.5)]
    rm = [(shape, sps, Vout, bias, word, ctx.seed, 'first') for word in MIX_WORDS[wset] for sps in sps_rect for (Vout, bias) in mix_amps
          for shape in ('nrz', 'rz')]
    ctx.rule(f'rect.mix: the {len(MIX_WORDS[wset])} mixed words of gauss.mix (an isolated one and runs of adjacent ones / ones one slot apart elsewhere, '
             f'{min(map(len, MIX_WORDS[wset]))}..{max(map(len, MIX_WORDS[wset]))} slots) x sps {sps_rect} x (Vout,bias) {mix_amps} x nrz / rz x every container form: whole waveform '
             f'against the slot reference, SAMPLER at every instant on the first form, inverse, chain')
    ctx.pmap('rect.mix', rect_case, rm, horizon=120)

    # ---- Gaussian, isolated one
    g_amps = [(1, 0), (-3, -2)] if quick else AMPS
    iso = []
    for (Vout, bias) in g_amps:
        for word in (ISO_WORDS if (Vout, bias) == (1, 0) else [ISO]):
            for sps in SPS_GAUSS:
                for T in range(math.ceil(sps / 2), 2 * sps + 1):
                    for m in (1, 2, 3, 4):
                        iso.append((sps, T, m, Vout, bias, word, ()))
    n_lattice = len(iso)
    # every sps of the quantifier at the limits of T and m, and with T / m omitted (documented defaults sps / 1)
    for sps in range(8, 129):
        for word in (ISO, '010'):
            for T in sorted({math.ceil(sps / 2), sps, 2 * sps}):
                for m in (1, 4):
                    iso.append((sps, T, m, 1, 0, word, ()))
            iso.append((sps, None, None, 1, 0, word, ()))
    # edge amplitudes, explicit c = 0 in every spelling, other spellings / containers / BW=None, defaults of T and m
    opt_axis = [(), (('c', 0),), (('c', 0.0),), (('c', -0.0),), (('c', ('@np', 'float64', 0.0)),), (('pulse_shape', ('@npstr', 'gaussian')),),
                (('BW', None),), (('form', 'ndarray_uint8'),), (('form', 'binary_sequence'),), (('form', 'list_bool'),), (('c', 0.0), ('BW', None))]
    for sps in SPS_GAUSS:
        for T in sorted({math.ceil(sps / 2), sps, 2 * sps}) + [None]:
            for m in (1, 2, 3, 4):
                for (Vout, bias) in AMPS_EDGE:
                    iso.append((sps, T, m, Vout, bias, ISO, ()))
            for m in (1, 4, None):
                for opts in opt_axis:
                    iso.append((sps, T, m, 1, 0, '00100', opts))
    ctx.rule(f'gauss.iso: sps {SPS_GAUSS} x EVERY integer T in [ceil(sps/2), 2*sps] x m in 1..4 x (Vout,bias) {g_amps} on the isolated one {ISO!r}, '
             f'and for (1,0) on {len(ISO_WORDS)} words with isolated ones (single slot, first / last slot, inner slots, two ones, 97 / 127 slots) '
             f'({n_lattice} cases); EVERY sps in 8..128 at T in {{ceil(sps/2), sps, 2sps}} x m in {{1,4}} and with T, m omitted; edge amplitudes '
             f'{AMPS_EDGE}; explicit c=0 spellings, numpy str name, BW=None, container forms, omitted T / m: '
             f'peak position = midpoint of the samples within 1e-9*Vout of the maximum, must lie within 1.0 sample of the slot centre '
             f'slot*sps+(sps-1)/2; |peak-bias-Vout| <= 0.05*|Vout|; half-maximum width (linear interpolation, half of the measured peak '
             f'above bias) within 1.0 sample of T (default T: sps); the width is claimed where both half-maximum points lie inside the record')
    ctx.assume('slot centre = mean index of the sps samples of the slot, (sps-1)/2 (the centroid of the NRZ pulse of the same slot; the '
               'palindromic word 0001000 is mirror-symmetric about exactly this point); the 1e-9 plateau rule only removes the '
               'FFT-rounding ambiguity of flat-topped super-Gaussians')
    pay = ctx.pmap('gauss.iso', gauss_iso_case, iso, horizon=60)
    pay = [p for p in pay if p]
    if pay:
        ctx.extra['gauss_iso_worst'] = {
            'peak_position_error_samples': round(max(p[0] for p in pay), 4),
            'peak_value_error_rel': round(max(p[1] for p in pay), 5),
            'fwhm_error_samples': round(max(p[2] for p in pay if p[2] is not None), 4)}
        print(f"[C05] gauss.iso worst: {ctx.extra['gauss_iso_worst']}", flush=True)

    # ---- Gaussian, mixed words: isolated ones with runs of adjacent ones elsewhere in the same record
    mix = []
    for (Vout, bias) in ([(1, 0)] if quick else [(1, 0), (-3, -2), (47.9, -47.9)]):
        for sps in SPS_GAUSS:
            for T in range(math.ceil(sps / 2), 2 * sps + 1):
                for m in (1, 2, 3, 4):
                    mix.append((sps, T, m, Vout, bias, wset))
    n_mix_lattice = len(mix)
    for sps in SPS_GAUSS:                                  # further amplitudes at the limits of T and m
        for T in sorted({math.ceil(sps / 2), sps, 2 * sps}):
            for m in (1, 4):
                for (Vout, bias) in [(-3, -2), (None, None), (IN48, -IN48), (-1e-3, -47.5), (('@np', 'float64', 2.5), ('@np', 'float64', -1.5))]:
                    mix.append((sps, T, m, Vout, bias, wset))
    for sps in range(8, 129):                              # every sps of the quantifier at the limits, and with T / m omitted
        if sps not in SPS_GAUSS:
            for T in sorted({math.ceil(sps / 2), sps, 2 * sps}):
                for m in (1, 4):
                    mix.append((sps, T, m, 1, 0, 'thin'))
        mix.append((sps, None, None, 1, 0, 'thin'))
    ctx.rule(f'gauss.mix: mixed words = an isolated one (>= {ISO_GAP} empty slots, or the record edge, on each side: the sense of the isolated ones of '
             f'gauss.iso) AND other content elsewhere in the SAME record: a run of r adjacent ones after / before it (r in '
             f'{"2..5" if quick else "2..8, gap 6 / 7 / 9"}), the isolated one between two different runs, two isolated ones around a run, isolated ones in the '
             f'first and last slot, runs touching the record edges, ones one slot apart ({len(MIX_WORDS[wset])} words, container form rotating) x sps '
             f'{SPS_GAUSS} x EVERY integer T in [ceil(sps/2), 2*sps] x m in 1..4 ({n_mix_lattice} lattice cases); further amplitudes at the T / m limits; '
             f'EVERY sps in 8..128 at the limits and with T, m omitted on {len(MIX_WORDS["thin"])} of the words: every isolated one of the word satisfies the '
             f'three clauses of gauss.iso (same measuring rules and tolerances); T <= sps: SAMPLER at k = sps//2 and the threshold give the word back')
    ctx.assume(f'an "isolated 1" is a one with no other one within {ISO_GAP} slots on either side; the clauses about it are clauses about its own slot '
               f'neighbourhood (measuring window: 3 slots on each side) and do not depend on what is transmitted further away in the record')
    payx = [p for p in ctx.pmap('gauss.mix', gauss_mix_case, mix, horizon=120, chunk=8) if p]
    if payx:
        ctx.extra['gauss_mix_worst'] = {
            'peak_position_error_samples': round(max(p[0] for p in payx), 4),
            'peak_value_error_rel': round(max(p[1] for p in payx), 5),
            'fwhm_error_samples': round(max(p[2] for p in payx if p[2] is not None), 4)}
        print(f"[C05] gauss.mix worst: {ctx.extra['gauss_mix_worst']}", flush=True)

    # ---- Gaussian, inversion at k = sps//2 for T <= sps
    i_amps = [(1, 0)] if quick else [(1, 0), (-3, -2), (47.9, -47.9)]
    inv = []
    for L in range(1, maxlen + 1):
        for (Vout, bias) in i_amps:
            for sps in SPS_GAUSS:
                for T in range(math.ceil(sps / 2), sps + 1):
                    for m in (1, 2, 3, 4):
                        inv.append((sps, T, m, Vout, bias, L))
    for L in range(1, edge_len + 1):
        for (Vout, bias) in AMPS_EDGE:
            for sps in SPS_GAUSS:
                for T in sorted({math.ceil(sps / 2), sps}):
                    for m in (1, 4):
                        inv.append((sps, T, m, Vout, bias, L))
    ctx.rule(f'gauss.inv: EVERY word of length 1..{maxlen} (container form rotating with the word index) x sps {SPS_GAUSS} x EVERY integer T in '
             f'[ceil(sps/2), sps] x m in 1..4 x (Vout,bias) {i_amps}, and length 1..{edge_len} x T in {{ceil(sps/2), sps}} x m in {{1,4}} x the edge '
             f'amplitudes: SAMPLER at k=sps//2 equals the indexed samples and the sign-aware '
             f'threshold decision equals the word (T > sps excluded: two neighbouring ones legitimately lift a zero above Vout/2)')
    mg = ctx.pmap('gauss.inv', gauss_inv_case, inv, horizon=120)
    mg = [x for x in mg if x is not None]
    if mg:
        ctx.extra['gauss_inv_min_decision_margin_rel_Vout'] = round(min(mg), 4)
        print(f'[C05] gauss.inv smallest |sample-threshold|/|Vout| = {min(mg):.4f}', flush=True)

    # ---- long structured words
    if quick:
        long_L = [7, 13, 16, 17, 97, 127, 128, 1023, 1024, 1025, 4096, 4097]
        long_sps = [2, 3, 8, 17]
    else:
        long_L = [7, 8, 13, 16, 17, 31, 32, 33, 63, 64, 97, 127, 128, 129, 255, 256, 257, 1023, 1024, 1025, 2047, 2048, 4095, 4096, 4097, 8191, 8192]
        long_sps = [2, 3, 5, 8, 16, 17, 31, 64]
    lc = []
    for L in long_L:
        for sps in long_sps + ([128] if L <= (130 if quick else 1025) else []):
            for pi, pattern in enumerate(LONG_PATTERNS):
                fi = pi + L + sps
                lc.append(('nrz', sps, L, pattern, 1, 0, None, None, ctx.seed, fi))
                lc.append(('rz', sps, L, pattern, -3, -2, None, None, ctx.seed, fi + 1))
                if sps >= 8:
                    for T in sorted({math.ceil(sps / 2), sps, 2 * sps}):
                        for m in ((1, 4) if quick else (1, 2, 3, 4)):
                            lc.append(('gaussian', sps, L, pattern, 0.5, 0.25, T, m, ctx.seed, fi + 2 + m))
    ctx.rule(f'long: structured words {LONG_PATTERNS} of length {long_L} x sps {long_sps} (+128 for the shorter words) x NRZ / RZ / Gaussian '
             f'(T in {{ceil(sps/2), sps, 2sps}}, sps >= 8), container form rotating over {LONG_FORMS}: length, every slot (NRZ/RZ), the '
             f'Gaussian clauses on every isolated one of every pattern (first / last / middle slot, a one every 8 slots, the isolated ones '
             f'between the runs of `mixed` and any of the seeded word), SAMPLER at the instants '
             f'{{0,1,sps//2-1,sps//2,sps-2,sps-1}} with noise, inverse (Gaussian: k=sps//2, T<=sps)')
    ctx.assume('long: the slot reference is built from index arithmetic (slot, j = divmod(i, sps)); the pseudo-random word comes from an own '
               '7-bit shift register / numpy RandomState(VERIF_SEED), not from the library')
    ctx.pmap('long', long_case, lc, horizon=120)

    # ---- SAMPLER on generic records
    sc = []
    for sps in ([2, 3, 4, 5, 8, 16, 17, 128] if quick else [2, 3, 4, 5, 7, 8, 9, 16, 17, 31, 32, 64, 127, 128]):
        for n in sorted({1, 2, 3, sps - 1, sps, sps + 1, 2 * sps, 2 * sps + 1, 3 * sps - 1, 8 * sps, 8 * sps + sps // 2,
                         13, 97, 127, 1023, 1024, 1025, 4096, 4097}):
            if n < 1:
                continue
            for kind in SAMPLER_KINDS:
                sc.append((sps, n, kind, ctx.seed))
    ctx.rule(f'sampler: write-protected records of n samples (1, 2, 3, below / at / above / not a multiple of sps, 13, 97, 127, 1023..1025, 4096, 4097) '
             f'x content {SAMPLER_KINDS} (every sample dtype with noise of the same dtype, mixed dtypes, all-zero / zero-sum / no noise, scales '
             f'1e-12..1e6, big offset), EVERY instant k in [0,sps) with k < n (k as {KTYPES}): signal and noise equal the explicitly indexed '
             f'samples k,k+sps,...; the records sampled at k=0 and k=sps-1 are sampled again (j=0, sps-1)')
    ctx.pmap('sampler', sampler_case, sc, horizon=60)

    # ---- the grid reached through other call forms, and reconfigured between calls
    gc = [(s, form, ctx.seed) for form in GRID_FORMS for s in range(2, 129)]
    ctx.rule(f'grid: EVERY sps in 2..128 x gv call forms {GRID_FORMS} (from a clean grid): words 1 / 0110 in NRZ (every default) and RZ '
             f'(Vout,bias = (-3,-2), (0.5,0.25), (1,0)) against the slot reference, SAMPLER with noise at the instants {{0,1,sps//2-1,sps//2,sps-2,sps-1}}, '
             f'inverse; sps >= 8: the Gaussian pulse with every default on 00100 (position, peak, width = sps, inverse at sps//2). The sps the '
             f'grid reports after the call is the one the clauses are checked against (how gv rounds fs/R is property C14)')
    ctx.pmap('grid', grid_case, gc, horizon=60)
    rs_sps = [2, 3, 8, 16, 17, 128]
    rs_forms = ['sps', 'sps,fs=64G', 'R,fs integer ratio', 'R,fs ratio+0.3', 'fs alone', 'N=64']
    rc = [(a, fa, b, fb, ctx.seed) for a in rs_sps for b in rs_sps if a != b for fa in rs_forms[:3] for fb in rs_forms]
    ctx.rule(f'reconf: grid a -> DAC -> grid b (no clean) -> every clause of the thin slice on b, the waveform made on a sampled on b, '
             f'T=2b accepted / T=2b+1 rejected -> grid a -> thin slice again; a != b in {rs_sps}, first form in {rs_forms[:3]}, second in {rs_forms}')
    ctx.pmap('reconf', reconf_case, rc, horizon=60)

    # ---- validation
    vc = valid_cases()
    ctx.rule('valid: each wrong value alone and together with one valid deviation of another argument (Vout, bias in every shape; T, m, c in the '
             'Gaussian shape; pulse-shape names: unknown words, substrings / prefixes / extensions / lists of documented names, non-strings) on '
             'sps {2,3,8,17,128} x words {1,010,000}: documented exception type; |value|==48 may be rejected (ValueError) or accepted; in-range '
             'values just inside the limits, numpy float64 scalars and numpy str names must be accepted and give the reference waveform; values '
             'that are wrong in type AND range: any documented exception')
    ctx.assume('in-range numpy scalars other than float64, 0-d arrays, bool, Fraction and integer-valued float T / m: the statement is silent on '
               'whether they count as "wrongly typed": TypeError or a CORRECT waveform are both accepted (never ValueError, never a wrong waveform); '
               'spellings that differ from a documented name in case / surrounding white space only: ValueError or exactly the waveform of the '
               'documented name; nan is outside the alphabet')
    ctx.pmap('valid', valid_case, vc, horizon=30)
    if os.environ.get('C05_TIMES'):            # wall seconds per part (diagnostic only, not part of the evidence)
        print('[C05] part walls', ctx.part_wall, flush=True)
