"""C15 - binary_sequence is a closed, immutable-by-operation algebra over {0,1}.

Explicit-state BFS over expression programs built from `a + w`, `w + a`, `~a` and slices, every
transition executed on the REAL objects (the state object is rebuilt by replaying its path from a
leaf) in lock-step with a list-of-bits model.  States are deduplicated by their canonical form
(bit tuple + memory-layout flags of `.data`).  Plus: exhaustive leaf constructions (every word of
length 0..12 in every container form), tables of invalid constructions / operands, long words,
and the threshold comparison of electrical_signal (`>`/`<`).

Hardening pass: extended container / dtype forms of every word (XSEQ_FORMS ...), inputs classified valid / bad / free,
every integer index and slice (`index_case`), never-queried operands (`cold_case`), len/ones/zeros re-asked after the ops in
a rotating order, operands derived from the same object, scaled / offset / extreme comparison classes, a signal container /
dtype axis (`SIG_FORMS`), threshold dtypes, global-grid histories (`gv_case`).  See notes/C15.md "Hardening pass".
"""
from __future__ import annotations
import itertools
from functools import lru_cache
import numpy as np

from mcx.core.kernel import res
from mcx.core.env import freeze, unchanged

ID = 'C15'
LEVEL = 'model_checking'
NONTRIVIAL = ('states whose word has length >= 2 and contains both a 0 and a 1 (order, inversion and slicing are '
              'distinguishable); comparison cases where noise or the threshold changes at least one decision')

MAXLEAF = 12
XFULL_MAXLEN = 7          # leaves up to this length are expanded with the op set 'xfull'
XOPERAND_MAXLEN = 3       # operand words in the extended forms
AFTER_ALL_MAXLEN = 8      # states up to this length: len/ones/zeros of the operand are re-queried after EVERY op (longer: after every 7th op;
                          # 7 is coprime with the 24 (kind, form) pairs per operand word, so every pair is hit over the words)
REQUERY_STRIDE = 7
_LIB = {}


def lib():
    if not _LIB:
        from opticomlib.typing import binary_sequence, electrical_signal
        _LIB['B'] = binary_sequence
        _LIB['E'] = electrical_signal
    return _LIB['B'], _LIB['E']


# ------------------------------------------------------------------ words / canonical forms
class Lazy:
    """message text that is only formatted if a violation is actually reported"""
    __slots__ = ('f',)

    def __init__(self, f):
        self.f = f

    def __str__(self):
        return self.f()

    def __format__(self, spec):
        return self.f()


@lru_cache(maxsize=1 << 14)
def bits_of(code):
    return tuple(int(c) for c in bin(code)[3:])


def code_of(bits):
    c = 1
    for b in bits:
        c = (c << 1) | (1 if b else 0)
    return c


def words(maxlen, minlen=0):
    """all words, shortest first, lexicographic inside a length"""
    for n in range(minlen, maxlen + 1):
        for v in range(1 << n):
            yield (1 << n) | v


def key_of(d):
    """canonical form of a valid sequence: word code and two layout flags of .data"""
    c = 1
    for b in d.tobytes():
        c = (c << 1) | b
    sig = (0 if d.flags.c_contiguous else 1) | (0 if d.flags.aligned else 2)
    return c * 4 + sig


STR_FORMS = ['str', 'str_sp', 'str_cm', 'str_cmsp']
SEQ_FORMS = ['list', 'tuple', 'list_bool', 'nd_bool', 'nd_int', 'nd_float', 'nd_u8']
SCALAR_FORMS = ['sc_int', 'sc_bool', 'sc_float', 'sc_npint', 'sc_npbool']
ND = {'nd_bool': np.bool_, 'nd_int': np.int64, 'nd_float': np.float64, 'nd_u8': np.uint8}
# hardening pass: further spellings of the SAME word (every sample dtype, numerically equal element types, mixed
# separators, non-contiguous input arrays, further scalar kinds).  They are used for the leaf constructions, as BFS start
# forms, and as operand forms of the op set 'xfull'.
XSTR_FORMS = ['str_mix']
XND = {'nd_i8': np.int8, 'nd_i16': np.int16, 'nd_i32': np.int32, 'nd_u16': np.uint16, 'nd_u32': np.uint32,
       'nd_u64': np.uint64, 'nd_f16': np.float16, 'nd_f32': np.float32, 'nd_c64': np.complex64, 'nd_c128': np.complex128,
       'nd_obj': object}
XSEQ_FORMS = ['list_float', 'list_negzero', 'list_complex', 'list_np', 'list_mixed', 'tuple_bool', 'tuple_float'] + \
    list(XND) + ['nd_strided', 'nd_rev']
XSCALAR_FORMS = ['sc_npf64', 'sc_npf32', 'sc_npf16', 'sc_npu8', 'sc_npi8', 'sc_0d_int', 'sc_0d_bool', 'sc_0d_float',
                 'sc_0d_u8', 'sc_complex', 'sc_npc64', 'sc_negzero']
ND.update(XND)
_NPSC = {'sc_npint': np.int64, 'sc_npbool': np.bool_, 'sc_npf64': np.float64, 'sc_npf32': np.float32, 'sc_npf16': np.float16,
         'sc_npu8': np.uint8, 'sc_npi8': np.int8, 'sc_npc64': np.complex64}
_0D = {'sc_0d_int': np.int64, 'sc_0d_bool': np.bool_, 'sc_0d_float': np.float64, 'sc_0d_u8': np.uint8}
_MIXSEP = (' ', ',', ', ', '')
_NPMIX = (np.int64, np.float32, np.bool_, np.uint8)
_PYMIX = (int, bool, float, complex)


def forms_for(n, leaf, ext=False):
    """accepted container forms of a word of length n (the empty *string* is not an accepted spelling)"""
    f = list(SEQ_FORMS)
    if n >= 1:
        f = STR_FORMS + f
    if leaf:
        if n == 1:
            f = f + SCALAR_FORMS
    else:
        f = f + ['bseq']
    if ext:
        f = f + (XSTR_FORMS if n >= 1 else []) + XSEQ_FORMS + (XSCALAR_FORMS if (leaf and n == 1) else [])
    return f


def is_ext(form):
    return form in XSTR_FORMS or form in XSEQ_FORMS or form in XSCALAR_FORMS


def make(bits, form):
    s = ''.join('1' if b else '0' for b in bits)
    if form == 'str': return s
    if form == 'str_sp': return ' '.join(s)
    if form == 'str_cm': return ','.join(s)
    if form == 'str_cmsp': return ', '.join(s)
    if form == 'str_mix': return ''.join(c + (_MIXSEP[i % 4] if i < len(s) - 1 else '') for i, c in enumerate(s))
    if form == 'list': return [int(b) for b in bits]
    if form == 'tuple': return tuple(int(b) for b in bits)
    if form == 'list_bool': return [bool(b) for b in bits]
    if form == 'list_float': return [float(b) for b in bits]
    if form == 'list_negzero': return [1.0 if b else -0.0 for b in bits]
    if form == 'list_complex': return [complex(b) for b in bits]
    if form == 'list_np': return [_NPMIX[i % 4](b) for i, b in enumerate(bits)]
    if form == 'list_mixed': return [_PYMIX[i % 4](b) for i, b in enumerate(bits)]
    if form == 'tuple_bool': return tuple(bool(b) for b in bits)
    if form == 'tuple_float': return tuple(float(b) for b in bits)
    if form in ND: return np.array(bits, dtype=ND[form])
    if form == 'nd_strided': return np.repeat(np.array(bits, dtype=np.int64), 2)[::2]        # non-contiguous view
    if form == 'nd_rev': return np.array(bits[::-1], dtype=np.uint8)[::-1]                     # negative stride
    if form == 'bseq': return lib()[0](np.array(bits, dtype=np.uint8))
    if form == 'sc_int': return int(bits[0])
    if form == 'sc_bool': return bool(bits[0])
    if form == 'sc_float': return float(bits[0])
    if form == 'sc_complex': return complex(bits[0])
    if form == 'sc_negzero': return 1.0 if bits[0] else -0.0
    if form in _NPSC: return _NPSC[form](bits[0])
    if form in _0D: return np.array(bits[0], dtype=_0D[form])
    raise KeyError(form)


def snap(obj):
    if isinstance(obj, list):
        return ('list', list(obj), [type(x) for x in obj], repr(obj))
    if isinstance(obj, np.ndarray) or isinstance(obj, lib()):
        return ('buf', freeze(obj))
    return ('imm', repr(obj))


def same(obj, s):
    if s[0] == 'list':
        return obj == s[1] and [type(x) for x in obj] == s[2] and repr(obj) == s[3]
    if s[0] == 'buf':
        return unchanged(obj, s[1])
    return repr(obj) == s[1]


# ------------------------------------------------------------------ validity of a result
def invalid(r):
    """None if r is a valid binary_sequence, else the name of the broken clause"""
    B = lib()[0]
    if not isinstance(r, B):
        return 'not-a-sequence'
    d = getattr(r, 'data', None)
    if not isinstance(d, np.ndarray):
        return 'data-not-ndarray'
    if d.ndim != 1:
        return 'data-not-1d'
    if d.dtype != np.uint8:
        return 'data-not-uint8'
    if d.tobytes().strip(b'\x00\x01'):
        return 'values-outside-01'
    return None


def show(r):
    """printable form of a result (never a memory address)"""
    if isinstance(r, lib()[0]):
        d = getattr(r, 'data', None)
        return f'binary_sequence(data={d!r})'
    return f'{type(r).__name__} {r!r}'[:200]


def bits_in(r):
    return tuple(r.data.tobytes())


def shares(r, obj):
    d = getattr(obj, 'data', obj) if not isinstance(obj, np.ndarray) else obj
    return isinstance(d, np.ndarray) and np.shares_memory(r.data, d)


# ------------------------------------------------------------------ operations
SLICES = [('[0]', 0), ('[-1]', -1), ('[1:]', slice(1, None)), ('[:-1]', slice(None, -1)),
          ('[::2]', slice(None, None, 2)), ('[::-1]', slice(None, None, -1)), ('[:]', slice(None))]

INVALID_OPERANDS = [
    ('5', lambda: 5), ('2.0', lambda: 2.0), ('[2]', lambda: [2]), ("'2'", lambda: '2'),
    ('[[0,1]]', lambda: [[0, 1]]), ('[[0,1],[1,0]]', lambda: [[0, 1], [1, 0]]),
    ('nd[[0,1]]', lambda: np.array([[0, 1]])), ('nd[2]', lambda: np.array([2])), ('nd[0.5]', lambda: np.array([0.5])),
    ('(0,2)', lambda: (0, 2)), ('[0.5]', lambda: [0.5]), ("'abc'", lambda: 'abc'), ('None', lambda: None), ('-1', lambda: -1),
    ("'1 0; 0 1'", lambda: '1 0; 0 1'), ('[1,2]', lambda: [1, 2]), ("'012'", lambda: '012'), ('[-1]', lambda: [-1]),
]

# hardening pass: further operands that must be refused (one defect each: value strictly inside (0,1), NaN, inf, complex
# with an imaginary part, values that wrap to 0/1 in uint8, every dtype, ragged / nested / EMPTY 2-D containers, strings
# with a row separator or an invalid token, non-data objects).  Executed in both orders from the leaves of length <= 8.
XINVALID_OPERANDS = [
    ('[nan]', lambda: [float('nan')]), ('[inf]', lambda: [float('inf')]), ('[1j]', lambda: [1j]), ('[0.5+0j]', lambda: [0.5 + 0j]),
    ('[1+1e-9j]', lambda: [1 + 1e-9j]), ('(0.5,)', lambda: (0.5,)), ('(1,0,0.5)', lambda: (1, 0, 0.5)), ('[0,1,2]', lambda: [0, 1, 2]),
    ('[1e-9]', lambda: [1e-9]), ('[5e-324]', lambda: [5e-324]), ('[1.0000001]', lambda: [1.0000001]), ('[0.9999999]', lambda: [0.9999999]),
    ('[-1.0]', lambda: [-1.0]), ('[255]', lambda: [255]), ('[256]', lambda: [256]), ('[257]', lambda: [257]), ('[-255]', lambda: [-255]),
    ('[-256]', lambda: [-256]), ('[2**64]', lambda: [2 ** 64]), ('[True,2]', lambda: [True, 2]),
    ('nd_f32[0.5]', lambda: np.array([0.5], dtype=np.float32)), ('nd_f16[0.5]', lambda: np.array([0.5], dtype=np.float16)),
    ('nd_f64[nan]', lambda: np.array([np.nan])), ('nd_f64[1,5e-324]', lambda: np.array([1, 5e-324])),
    ('nd_i8[-1]', lambda: np.array([-1], dtype=np.int8)), ('nd_i8[-128]', lambda: np.array([-128], dtype=np.int8)),
    ('nd_u8[255]', lambda: np.array([255], dtype=np.uint8)), ('nd_u16[256]', lambda: np.array([256], dtype=np.uint16)),
    ('nd_u16[257]', lambda: np.array([257], dtype=np.uint16)), ('nd_c64[1j]', lambda: np.array([1j], dtype=np.complex64)),
    ('nd_obj[2]', lambda: np.array([2], dtype=object)), ('nd_obj[None]', lambda: np.array([None], dtype=object)),
    ('nd_bool2d', lambda: np.zeros((2, 2), dtype=bool)), ('nd(1,1)', lambda: np.ones((1, 1), dtype=np.uint8)),
    ('nd(1,0)', lambda: np.zeros((1, 0))), ('nd(0,1)', lambda: np.zeros((0, 1))), ('nd(2,0)', lambda: np.zeros((2, 0), dtype=np.uint8)),
    ('nd(0,0)', lambda: np.zeros((0, 0), dtype=bool)), ('nd(1,1,1)', lambda: np.zeros((1, 1, 1), dtype=np.uint8)),
    ('[[]]', lambda: [[]]), ('[[],[]]', lambda: [[], []]), ('([],)', lambda: ([],)), ('[[0],[1,0]]', lambda: [[0], [1, 0]]),
    ('[0,[1]]', lambda: [0, [1]]), ('[[0],1]', lambda: [[0], 1]), ('[[0],[]]', lambda: [[0], []]), ('((0,1),(1,0))', lambda: ((0, 1), (1, 0))),
    ('[(0,1)]', lambda: [(0, 1)]), ('[nd[0,1]]', lambda: [np.array([0, 1])]), ('[[[0]]]', lambda: [[[0]]]),
    ("'0;1'", lambda: '0;1'), ("';'", lambda: ';'), ("'01;10'", lambda: '01;10'), ("'1;'", lambda: '1;'), ("'0.5'", lambda: '0.5'),
    ("'0 0.5'", lambda: '0 0.5'), ("'1j'", lambda: '1j'), ("'a'", lambda: 'a'), ("'01a'", lambda: '01a'), ("'0 1 2'", lambda: '0 1 2'),
    ("'10 2'", lambda: '10 2'), ("'-1'", lambda: '-1'), ("'1 -1'", lambda: '1 -1'), ("'nan'", lambda: 'nan'),
    ('[None]', lambda: [None]), ("['a']", lambda: ['a']), ('object()', lambda: object()), ('int', lambda: int),
    ('2+0j', lambda: 2 + 0j), ('1.5', lambda: 1.5), ('0.5', lambda: 0.5), ('nan', lambda: float('nan')), ('np.int64(2)', lambda: np.int64(2)),
    ('np.float64(0.5)', lambda: np.float64(0.5)), ('0d(2)', lambda: np.array(2)), ('0d(0.5)', lambda: np.array(0.5)),
]
# operands on which the statement is silent (not one of the "accepted containers", but every element is numerically 0 or
# 1): either ValueError/TypeError or a valid sequence; never another exception, never an invalid object, operand untouched
FREE_OPERANDS = [
    ('0', lambda: 0), ('1', lambda: 1), ('True', lambda: True), ('False', lambda: False), ('0.0', lambda: 0.0), ('1.0', lambda: 1.0),
    ('1+0j', lambda: 1 + 0j), ('np.int64(1)', lambda: np.int64(1)), ('np.uint8(0)', lambda: np.uint8(0)), ('np.bool_(1)', lambda: np.bool_(True)),
    ('np.float64(1)', lambda: np.float64(1.0)), ('np.float32(0)', lambda: np.float32(0)), ('0d(1)', lambda: np.array(1)),
    ('0d(True)', lambda: np.array(True)), ('0d(0.0)', lambda: np.array(0.0)),
    ("''", lambda: ''), ("' '", lambda: ' '), ("','", lambda: ','), ("'0\\t1'", lambda: '0\t1'), ("'0\\n1'", lambda: '0\n1'),
    ("' 01 '", lambda: ' 01 '), ("'0,,1'", lambda: '0,,1'), ("'0  1'", lambda: '0  1'), ("',01,'", lambda: ',01,'),
    ("'1.0'", lambda: '1.0'), ("'0.0 1.0'", lambda: '0.0 1.0'), ("'+1'", lambda: '+1'), ("'-0'", lambda: '-0'), ("'1+0j'", lambda: '1+0j'),
    ("'1e0'", lambda: '1e0'), ("'0x1'", lambda: '0x1'), ("'True'", lambda: 'True'), ("'0_1'", lambda: '0_1'), ("'\uff11'", lambda: '\uff11'),
    ('range(2)', lambda: range(2)), ('range(0)', lambda: range(0)), ('bytearray([0,1])', lambda: bytearray([0, 1])),
    ("b'\\x01'", lambda: b'\x01'), ("b'01'", lambda: b'01'), ('memoryview', lambda: memoryview(bytes([0, 1]))),
    ('{0,1}', lambda: {0, 1}), ('frozenset', lambda: frozenset([1])), ('{0:1}', lambda: {0: 1}), ('generator', lambda: (i for i in (0, 1))),
    ('iter([0,1])', lambda: iter([0, 1])), ("['0','1']", lambda: ['0', '1']), ("nd['1']", lambda: np.array(['1'])),
    ('electrical_signal([0,1])', lambda: lib()[1]([0, 1])), ('electrical_signal(1)', lambda: lib()[1](1)),
    ('[binary_sequence(1)]', lambda: [lib()[0]('1')]), ('[0d(1),0d(0)]', lambda: [np.array(1), np.array(0)]),
    ('deque([0,1])', lambda: __import__('collections').deque([0, 1])), ("array('B',[0,1])", lambda: __import__('array').array('B', [0, 1])),
]
BADTAB = {'bad+': INVALID_OPERANDS, 'badr+': INVALID_OPERANDS, 'xbad+': XINVALID_OPERANDS, 'xbadr+': XINVALID_OPERANDS,
          'free+': FREE_OPERANDS, 'freer+': FREE_OPERANDS}

_OPS = {}
NSPLIT, NSELFEMPTY = 5, 3


def ops_for(mode):
    """deterministic list of op descriptors. 'full': w of length <= 4, 'deep': w of length <= 2, 'xfull' (leaves of
    length <= 7): 'full' + every word of length <= 3 in every EXTENDED operand form + the extended refusal table + the
    operands the statement is silent on"""
    if mode in _OPS:
        return _OPS[mode]
    wl = 2 if mode == 'deep' else 4
    ops = [('~',)] + [('[]', k) for k in range(len(SLICES))] + [('++',)]
    for wc in words(wl):
        n = wc.bit_length() - 1
        for f in forms_for(n, leaf=False):
            ops.append(('+', wc, f))
            ops.append(('r+', wc, f))
    if mode in ('full', 'xfull'):
        for k in range(len(INVALID_OPERANDS)):
            ops.append(('bad+', k))
            ops.append(('badr+', k))
    # hardening pass: programs whose second operand is derived from the first one (same object on both sides of +)
    if mode == 'deep':
        ops += [('split', 2), ('+e', 2), ('e+', 0), ('+~',)]
    else:
        ops += [('split', j) for j in range(NSPLIT)] + [('+e', j) for j in range(NSELFEMPTY)] + [('e+', j) for j in range(NSELFEMPTY)]
        ops += [('+~',), ('~+',)]
    if mode == 'xfull':
        for wc in words(XOPERAND_MAXLEN):
            n = wc.bit_length() - 1
            for f in forms_for(n, leaf=False, ext=True):
                if is_ext(f):
                    ops.append(('+', wc, f))
                    ops.append(('r+', wc, f))
        for t, tab in (('xbad+', XINVALID_OPERANDS), ('xbadr+', XINVALID_OPERANDS), ('free+', FREE_OPERANDS), ('freer+', FREE_OPERANDS)):
            ops += [(t, k) for k in range(len(tab))]
    _OPS[mode] = ops
    return ops


def split_k(n, j):
    return min(n, max(0, (0, 1, n // 2, n - 1, n)[j]))


def empty_k(n, j):
    return (0, n // 2, n)[j]


_W = {}


def operand(wc, form):
    """operand containers are built once per process, write-protected where they have a buffer, and verified
    unchanged after every use (rebuilt if the library touched them)"""
    k = (wc, form)
    if k not in _W:
        o = make(bits_of(wc), form)
        _W[k] = (o, snap(o))
    return _W[k]


def model_apply(bits, op):
    t = op[0]
    if t == '~':
        return tuple(1 - b for b in bits)
    if t == '[]':
        idx = SLICES[op[1]][1]
        if isinstance(idx, int):
            return (bits[idx],)      # IndexError on the empty word, as for any python sequence
        return tuple(bits[idx])
    if t == '+':
        return bits + bits_of(op[1])
    if t == 'r+':
        return bits_of(op[1]) + bits
    if t == '++':
        return bits + bits
    if t in ('split', '+e', 'e+'):
        return bits
    if t == '+~':
        return bits + tuple(1 - b for b in bits)
    if t == '~+':
        return tuple(1 - b for b in bits) + bits
    raise KeyError(op)


def real_apply(a, op):
    t = op[0]
    if t == '~':
        return ~a
    if t == '[]':
        return a[SLICES[op[1]][1]]
    if t == '+':
        return a + operand(op[1], op[2])[0]
    if t == 'r+':
        return operand(op[1], op[2])[0] + a
    if t == '++':
        return a + a
    if t == 'split':
        k = split_k(len(a), op[1])
        return a[:k] + a[k:]
    if t == '+e':
        k = empty_k(len(a), op[1])
        return a + a[k:k]
    if t == 'e+':
        k = empty_k(len(a), op[1])
        return a[k:k] + a
    if t == '+~':
        return a + ~a
    if t == '~+':
        return ~a + a
    raise KeyError(op)


_SPLITN = ('0', '1', 'n//2', 'n-1', 'n')
_EMPTYN = ('0', 'n//2', 'n')


def op_name(op):
    t = op[0]
    if t == '~': return '~a'
    if t == '++': return 'a + a'
    if t == '[]': return 'a' + SLICES[op[1]][0]
    if t in ('+', 'r+'):
        w = ''.join(map(str, bits_of(op[1])))
        return f"a + <{op[2]} {w!r}>" if t == '+' else f"<{op[2]} {w!r}> + a"
    if t == 'split': return f'a[:k] + a[k:] (k={_SPLITN[op[1]]})'
    if t == '+e': return f'a + a[k:k] (k={_EMPTYN[op[1]]})'
    if t == 'e+': return f'a[k:k] + a (k={_EMPTYN[op[1]]})'
    if t == '+~': return 'a + ~a'
    if t == '~+': return '~a + a'
    if t in BADTAB: return f'a + {BADTAB[t][op[1]][0]}' if t.endswith('d+') or t == 'free+' else f'{BADTAB[t][op[1]][0]} + a'
    return repr(op)


OPK = {'~': 'invert', '[]': 'getitem', '+': 'add', 'r+': 'radd', '++': 'add', 'split': 'add', '+e': 'add', 'e+': 'add',
       '+~': 'add', '~+': 'add'}


def build_leaf(code, form):
    B = lib()[0]
    return B(make(bits_of(code), form))


def replay(leaf_code, leaf_form, path):
    a = build_leaf(leaf_code, leaf_form)
    bits = bits_of(leaf_code)
    for op in path:
        a = real_apply(a, op)
        bits = model_apply(bits, op)
    return a, bits


def expr(leaf_code, leaf_form, path):
    s = f"binary_sequence(<{leaf_form} {''.join(map(str, bits_of(leaf_code)))!r}>)"
    for op in path:
        t = op[0]
        if t == '~':
            s = f'~{s}'
        elif t == '++':
            s = f'({s} + {s})'
        elif t == '[]':
            s = f'{s}{SLICES[op[1]][0]}'
        elif t == 'split':
            s = f'({s}[:k] + {s}[k:] | k={_SPLITN[op[1]]})'
        elif t in ('+e', 'e+'):
            s = f'({s} + {s}[k:k] | k={_EMPTYN[op[1]]})' if t == '+e' else f'({s}[k:k] + {s} | k={_EMPTYN[op[1]]})'
        elif t in ('+~', '~+'):
            s = f'({s} + ~{s})' if t == '+~' else f'(~{s} + {s})'
        else:
            w = f"<{op[2]} {''.join(map(str, bits_of(op[1])))!r}>"
            s = f'({s} + {w})' if t == '+' else f'({w} + {s})'
    return s


def state_laws(a, bits, V, where, order=0):
    """laws every sequence obeys by itself.  `order` rotates which of len / ones / zeros is asked FIRST (a query may fill or
    repair a cached attribute, so the first query on a fresh object matters): 0: len, ones, zeros; 1: ones, zeros, len;
    2: zeros, len, ones.  Callers derive it from the op index, so every op kind meets every order."""
    n = len(bits)
    try:
        if order % 3 == 0:
            ln, ln2, on, ze = len(a), a.len(), a.ones(), a.zeros()
        elif order % 3 == 1:
            on, ze, ln, ln2 = a.ones(), a.zeros(), len(a), a.len()
        else:
            ze, ln, ln2, on = a.zeros(), len(a), a.len(), a.ones()
    except Exception as e:  # noqa
        V('law:ones-zeros-len', f'{where}: len/ones/zeros raised {type(e).__name__}: {e}')
        return
    if ln != n or ln2 != n:
        V('model:len', f'{where}: len()={ln}/{ln2}, model {n}')
    if not (on + ze == ln):
        V('law:ones-zeros-len', f'{where}: ones()={on} zeros()={ze} len()={ln}')
    if not (on == sum(bits) and ze == n - sum(bits)):
        V('model:ones-zeros', f'{where}: ones()={on} zeros()={ze}, model {sum(bits)}/{n - sum(bits)}')


def expand(case):
    """case = (mode, leaf_code, leaf_form, path): rebuild the state by replaying `path` on the real objects, then
    execute EVERY op of the op set `mode` from it and check each result against the model and the laws."""
    mode, leaf_code, leaf_form, path = case
    B = lib()[0]
    viol, seenk = [], {}
    stats = {}

    def V(key, msg):
        stats['viol.' + key] = stats.get('viol.' + key, 0) + 1
        if key not in seenk:
            seenk[key] = 1
            viol.append((key, msg))

    here = expr(leaf_code, leaf_form, path)
    a, bits = replay(leaf_code, leaf_form, path)
    bad = invalid(a)
    if bad or bits_in(a) != bits:
        # the transition that produced this state already reported it; nothing can be built on it
        return res(viol=[('replay:state-differs', f'{here}: replayed state is {bad or bits_in(a)}, model {bits}')],
                   obs=('REPLAY', bad), payload=([], 0))
    n = len(bits)
    a_snap = freeze(a)          # operand write-protected for the whole expansion
    a_id_data = a.data
    a_bytes = a_id_data.tobytes()

    def a_same():
        d = a.data
        return d is a_id_data and d.dtype == np.uint8 and d.shape == (n,) and d.tobytes() == a_bytes
    state_laws(a, bits, V, here, order=leaf_code + len(path))

    succ = {}                   # key -> index of the first op producing it
    obs = []
    ntrans = 0
    nd_broken = False           # after the first `radd:ndarray-left` failure of this case the remaining ndarray-left ops
                                # are skipped (counted): numpy's failing coercion costs ~0.3 ms per element and op
    ops = ops_for(mode)
    after_all = n <= AFTER_ALL_MAXLEN and mode != 'deep'
    on0, ze0 = sum(bits), n - sum(bits)

    def requery(op, what):
        """cached-attribute class: len/ones/zeros of the SAME operand object asked again after an op was executed on it"""
        stats['requery-after-op'] = stats.get('requery-after-op', 0) + 1
        try:
            k = stats['requery-after-op'] % 3
            ok = (len(a) == n and a.len() == n and a.ones() == on0 and a.zeros() == ze0) if k == 0 else \
                 (a.ones() == on0 and a.zeros() == ze0 and len(a) == n and a.len() == n) if k == 1 else \
                 (a.zeros() == ze0 and a.len() == n and a.ones() == on0 and len(a) == n)
        except Exception as e:  # noqa
            V('law:ones-zeros-len', f'{what}: len/ones/zeros of the operand raised {type(e).__name__} after the op')
            return
        if not ok:
            V(f'stale:{OPK.get(op[0], "add")}:operand-queries', f'{what}: after the op the operand answers len()={len(a)} '
              f'ones()={a.ones()} zeros()={a.zeros()}, model {n}/{on0}/{ze0}')
    for oi, op in enumerate(ops):
        t = op[0]
        what = Lazy(lambda op=op: f'{here} :: {op_name(op)}')
        last_of_group = oi == len(ops) - 1 or oi % REQUERY_STRIDE == REQUERY_STRIDE - 1
        # ---------------------------------------------------------------- operands that must be refused / are free
        if t in BADTAB:
            label, mk = BADTAB[t][op[1]]
            w = mk()
            left = t.endswith('r+')
            free = t.startswith('free')
            # free operands are write-protected; refused ones only snapshotted (a write attempt on a protected buffer would
            # raise ValueError and pass for the refusal)
            wsnap = None
            if isinstance(w, np.ndarray):
                wsnap = freeze(w) if free else [(w.shape, w.dtype.str, w.tobytes())]
            elif isinstance(w, (list, bytearray)):
                wsnap = repr(w)
            ndleft = left and isinstance(w, np.ndarray)
            if ndleft and nd_broken:
                stats['skipped.ndarray-left-after-failure'] = stats.get('skipped.ndarray-left-after-failure', 0) + 1
                continue
            try:
                r = (w + a) if left else (a + w)
            except (ValueError, TypeError) as e:
                obs.append('R')
            except Exception as e:  # noqa
                V(f'{"free" if free else "invalid"}-operand:wrong-exception:{type(e).__name__}', f'{what}: raised {type(e).__name__}: {e}')
                obs.append('X')
            else:
                if free:
                    # statement silent: a returned sequence must at least be a valid one
                    bad = invalid(r) if isinstance(r, B) else None
                    if bad:
                        V(f'closure:{"radd" if left else "add"}:{bad}', f'{what}: result {show(r)}')
                    obs.append(('F', bits_in(r) if isinstance(r, B) and not bad else type(r).__name__))
                else:
                    V('radd:ndarray-left' if ndleft else 'invalid-operand:accepted',
                      f'{what}: no exception, returned {show(r)}')
                    nd_broken = nd_broken or ndleft
                    obs.append('A')
            if wsnap is not None and not (unchanged(w, wsnap) if isinstance(w, np.ndarray) else repr(w) == wsnap):
                V('operand-changed:invalid-operand', f'{what}: the refused / free operand itself was modified')
            if not a_same():
                V('operand-changed:invalid-operand', f'{what}: left operand modified')
                a, bits = replay(leaf_code, leaf_form, path); a_snap = freeze(a); a_id_data = a.data
            elif after_all or last_of_group:
                requery(('+',), what)
            stats['ops.free-operand' if free else 'ops.invalid-operand'] = stats.get('ops.free-operand' if free else 'ops.invalid-operand', 0) + 1
            continue
        # ---------------------------------------------------------------- valid ops
        opk = OPK[t]
        other = osnap = None
        if t in ('+', 'r+'):
            other, osnap = operand(op[1], op[2])
        ndleft = t == 'r+' and isinstance(other, np.ndarray)
        if ndleft and nd_broken:
            stats['skipped.ndarray-left-after-failure'] = stats.get('skipped.ndarray-left-after-failure', 0) + 1
            continue
        try:
            exp = model_apply(bits, op)
        except IndexError:
            exp = None          # a[0] / a[-1] on the empty sequence: the statement is silent
        try:
            r = real_apply(a, op)
        except Exception as e:  # noqa
            if exp is None and isinstance(e, IndexError):
                obs.append('IndexError')
                continue
            V('radd:ndarray-left' if ndleft else f'raises:{opk}:{type(e).__name__}',
              f'{what}: raised {type(e).__name__}: {str(e)[:160]}')
            nd_broken = nd_broken or ndleft
            obs.append(('EXC', type(e).__name__))
            if not a_same():
                V(f'operand-changed:{opk}:self', f'{what}: operand modified')
                a, bits = replay(leaf_code, leaf_form, path); a_snap = freeze(a); a_id_data = a.data
            continue
        ntrans += 1
        stats['ops.' + opk] = stats.get('ops.' + opk, 0) + 1
        bad = invalid(r)
        if bad:
            V('radd:ndarray-left' if ndleft else f'closure:{opk}:{bad}',
              f'{what}: result {show(r)}')
            nd_broken = nd_broken or ndleft
            obs.append(('INVALID', bad))
        else:
            got = bits_in(r)
            obs.append(got)
            if exp is not None and got != exp:
                V(f'model:{opk}', f'{what}: got {got}, model {exp}')
            k = key_of(r.data)
            if k not in succ:
                succ[k] = oi
            # new object, no shared memory
            if r is a or r.data is a_id_data:
                V(f'alias:{opk}:same-object', f'{what}: result is the operand itself')
            elif np.shares_memory(r.data, a_id_data):
                V(f'alias:{opk}:shared-memory', f'{what}: result.data shares memory with the operand')
            if other is not None and shares(r, other):
                V(f'alias:{opk}:shared-memory-other', f'{what}: result.data shares memory with the other operand')
            if exp is not None:
                state_laws(r, exp, V, what, order=oi + leaf_code + len(path))
            # algebraic laws, with the library's own == and slicing
            try:
                if t == '+':
                    if len(r) != len(a) + len(bits_of(op[1])):
                        V('law:len-add', f'{what}: len {len(r)} != {len(a)} + {len(bits_of(op[1]))}')
                    if (r[:len(a)] == a) is not True:
                        V('law:prefix', f'{what}: (a+b)[:len(a)] == a is not True; (a+b)={bits_in(r)}')
                elif t == 'r+':
                    lw = len(bits_of(op[1]))
                    if len(r) != len(a) + lw:
                        V('law:len-add', f'{what}: len {len(r)} != {lw} + {len(a)}')
                    if (r[:lw] == other) is not True:
                        V('law:prefix', f'{what}: (w+a)[:len(w)] == w is not True; (w+a)={bits_in(r)}')
                elif t == '++':
                    if len(r) != 2 * len(a):
                        V('law:len-add', f'{what}: len {len(r)} != 2 * {len(a)}')
                    if (r[:len(a)] == a) is not True:
                        V('law:prefix', f'{what}: (a+a)[:len(a)] == a is not True; (a+a)={bits_in(r)}')
                elif t == '~':
                    rr = ~r
                    if invalid(rr) or (rr == a) is not True or bits_in(rr) != bits:
                        V('law:double-invert', f'{what}: ~~a = {show(rr)} != a')
                    if not (r.ones() == a.zeros()):
                        V('law:ones-invert', f'{what}: ones(~a)={r.ones()} zeros(a)={a.zeros()}')
                elif t in ('split', '+e', 'e+'):
                    if len(r) != len(a):
                        V('law:len-add', f'{what}: len {len(r)} != {len(a)} + 0')
                    if (r == a) is not True:
                        V('law:prefix', f'{what}: result == a is not True; result={bits_in(r)}')
                elif t in ('+~', '~+'):
                    if len(r) != 2 * len(a):
                        V('law:len-add', f'{what}: len {len(r)} != 2 * {len(a)}')
                    if ((r[:len(a)] if t == '+~' else r[len(a):]) == a) is not True:
                        V('law:prefix', f'{what}: the half that is a does not compare equal to a; result={bits_in(r)}')
                    if not (r.ones() == len(a) and r.zeros() == len(a)):
                        V('law:ones-invert', f'{what}: ones()={r.ones()} zeros()={r.zeros()}, both must be len(a)={len(a)}')
            except Exception as e:  # noqa
                V(f'law:raises:{opk}', f'{what}: checking the law raised {type(e).__name__}: {str(e)[:160]}')
        # operands unchanged
        if not a_same():
            V(f'operand-changed:{opk}:self', f'{what}: operand modified')
            a, bits = replay(leaf_code, leaf_form, path); a_snap = freeze(a); a_id_data = a.data
        elif after_all or last_of_group:
            requery(op, what)
        if other is not None and not same(other, osnap):
            V(f'operand-changed:{opk}:other', f'{what}: the other operand was modified')
            _W.pop((op[1], op[2]), None)
    if not unchanged(a, a_snap):
        V('operand-changed:any:self', f'{here}: operand differs after the expansion')
    nt = code_of(bits) if (n >= 2 and 0 < sum(bits) < n) else False
    return res(viol=viol, obs=(bits, tuple(obs)), nontrivial=nt, stats=stats,
               payload=(sorted(succ.items()), ntrans))


# ------------------------------------------------------------------ leaves: every word in every container form
UNARY = [('~',)] + [('[]', k) for k in range(len(SLICES))]
UNARY_EXT = [('~',), ('[]', 5), ('[]', 1)]      # extended forms: ~a, a[::-1], a[-1] (the object is the same canonical one)


def leaf_case(case):
    """case = word code (length <= 12). Construct it in every accepted form (base + extended), check validity / model /
    independence of the input buffer, and run the unary ops + laws from every form.  len/ones/zeros are asked BEFORE the
    ops and again AFTER every op on the same object; for one form per word (round-robin) the ops are additionally
    executed on objects that were NEVER queried before (one fresh object per op), and queried afterwards."""
    code = case
    B = lib()[0]
    bits = bits_of(code)
    n = len(bits)
    viol, seenk, stats, obs = [], {}, {}, []

    def V(key, msg):
        if key not in seenk:
            seenk[key] = 1
            viol.append((key, msg))
    keys = set()
    forms = forms_for(n, leaf=True, ext=True)
    cold_form = forms[code % len(forms)]
    short = n <= AFTER_ALL_MAXLEN
    if not short:
        # long words: 7 of the 21 extended forms (rotating with the word code, so every form meets a third of the words)
        xs = [f for f in forms if is_ext(f)]
        keep = {xs[(code + 3 * i) % len(xs)] for i in range(7)} | {cold_form}
        forms = [f for f in forms if not is_ext(f) or f in keep]

    def unary(a, op, what, warm):
        """one unary op on `a`; returns False if the operand was modified"""
        snap_a = freeze(a)
        try:
            exp = model_apply(bits, op)
        except IndexError:
            exp = None
        try:
            r = real_apply(a, op)
        except Exception as e:  # noqa
            if not (exp is None and isinstance(e, IndexError)):
                V(f'raises:{OPK[op[0]]}:{type(e).__name__}', f'{what} :: {op_name(op)}: raised {type(e).__name__}: {e}')
            return True
        stats['leaf-unary-ops'] = stats.get('leaf-unary-ops', 0) + 1
        bad = invalid(r)
        if bad:
            V(f'closure:{OPK[op[0]]}:{bad}', f'{what} :: {op_name(op)}: {show(r)}')
            return True
        if exp is not None and bits_in(r) != exp:
            V(f'model:{OPK[op[0]]}', f'{what} :: {op_name(op)}: got {bits_in(r)}, model {exp}')
        if r is a or np.shares_memory(r.data, a.data):
            V(f'alias:{OPK[op[0]]}:shared-memory', f'{what} :: {op_name(op)}: shares memory with the operand')
        if not warm and exp is not None:
            state_laws(r, exp, V, Lazy(lambda: f'{what} :: {op_name(op)} (operand never queried before)'), order=UNARY.index(op) + code)
            if op[0] == '~' and not (r.ones() == a.zeros()):
                V('law:ones-invert', f'{what} :: ~a on a never-queried operand: ones(~a)={r.ones()} zeros(a)={a.zeros()}')
        if not unchanged(a, snap_a):
            V(f'operand-changed:{OPK[op[0]]}:self', f'{what} :: {op_name(op)}: operand modified')
            return False
        # the same object asked again after the op (long words: once per form, after the last op)
        if short or not warm:
            state_laws(a, bits, V, Lazy(lambda: f'{what} after {op_name(op)}'), order=UNARY.index(op) + code + 1)
        return True

    for form in forms:
        src = make(bits, form)
        ssnap = snap(src)
        what = Lazy(lambda form=form, src=src: f'binary_sequence(<{form}> {src!r})')
        try:
            a = B(src)
        except Exception as e:  # noqa
            V(f'construct:raises:{form}', f'{what}: raised {type(e).__name__}: {str(e)[:160]}')
            obs.append((form, 'EXC', type(e).__name__))
            continue
        stats['constructions'] = stats.get('constructions', 0) + 1
        bad = invalid(a)
        if bad:
            V(f'closure:construct:{bad}', f'{what}: data {getattr(a, "data", None)!r}')
            obs.append((form, bad))
            continue
        if bits_in(a) != bits:
            V('model:construct', f'{what}: got {bits_in(a)}')
        if not same(src, ssnap):
            V('operand-changed:construct', f'{what}: the input container was modified')
        if isinstance(src, np.ndarray) and np.shares_memory(a.data, src):
            V('alias:construct:shared-memory', f'{what}: data shares memory with the input array')
        keys.add(key_of(a.data))
        obs.append((form, bits_in(a), a.data.flags.c_contiguous, a.data.flags.owndata))
        if form == cold_form:
            # accessor methods called on a fresh object BEFORE any op (they touch global numpy print options / build strings)
            q = B(make(bits, form))
            sq = freeze(q)
            try:
                acc = (repr(q), q.__str__('t'), q.sizeof(), q.type(), (q == list(bits)) is True, (q == q) is True)
                if not (acc[4] and acc[5]):        # == is the comparison the statement's laws are written with
                    V('law:prefix', f'{what}: a == <its own word> / a == a answered {acc[4:]}')
            except Exception as e:  # noqa
                V(f'raises:accessor:{type(e).__name__}', f'{what}: repr/str/sizeof/type/== raised {type(e).__name__}: {e}')
            if not unchanged(q, sq):
                V('operand-changed:accessor:self', f'{what}: repr/str/sizeof/type/== modified the sequence')
            state_laws(q, bits, V, Lazy(lambda: f'{what} after repr/str/sizeof/type/=='), order=code + 1)
            unary(q, ('~',), Lazy(lambda: f'{what} after repr/str/sizeof/type/=='), warm=False)
            for op in UNARY:
                stats['leaf-cold-ops'] = stats.get('leaf-cold-ops', 0) + 1
                unary(B(make(bits, form)), op, what, warm=False)
        state_laws(a, bits, V, what, order=code + forms.index(form))
        # unary ops from this very object
        for op in ((UNARY_EXT if short else ()) if is_ext(form) else UNARY):
            if not unary(a, op, what, warm=True):
                break
        else:
            if not short and not is_ext(form):
                state_laws(a, bits, V, Lazy(lambda: f'{what} after the unary ops'), order=code + forms.index(form) + 1)
    stats['leaf.layout-variants'] = max(0, len(keys) - 1)
    return res(viol=viol, obs=tuple(obs), nontrivial=(code if n >= 2 and 0 < sum(bits) < n else False), stats=stats,
               payload=sorted(keys))


def cold_case(case):
    """case = (code, form): EVERY op of the op set 'deep' executed on a FRESH object that was never asked for
    len/ones/zeros (one new object per op); the result is checked against the model, then the operand is queried for
    the first time.  (In `expand` the operand has always been queried before the ops.)"""
    code, form = case
    bits = bits_of(code)
    n = len(bits)
    viol, seenk, stats, obs = [], {}, {}, []

    def V(key, msg):
        if key not in seenk:
            seenk[key] = 1
            viol.append((key, msg))
    for oi, op in enumerate(ops_for('deep')):
        a = build_leaf(code, form)
        sa = freeze(a)
        what = Lazy(lambda op=op: f'{expr(code, form, ())} (never queried) :: {op_name(op)}')
        try:
            exp = model_apply(bits, op)
        except IndexError:
            exp = None
        try:
            r = real_apply(a, op)
        except Exception as e:  # noqa
            if not (exp is None and isinstance(e, IndexError)):
                V(f'raises:{OPK[op[0]]}:{type(e).__name__}', f'{what}: raised {type(e).__name__}: {str(e)[:160]}')
            obs.append(type(e).__name__)
            continue
        stats['cold-ops'] = stats.get('cold-ops', 0) + 1
        bad = invalid(r)
        if bad:
            V(f'closure:{OPK[op[0]]}:{bad}', f'{what}: result {show(r)}')
            obs.append(bad)
            continue
        obs.append(bits_in(r))
        if exp is not None:
            if bits_in(r) != exp:
                V(f'model:{OPK[op[0]]}', f'{what}: got {bits_in(r)}, model {exp}')
            state_laws(r, exp, V, what, order=oi + code)
        if op[0] == '~' and not (r.ones() == a.zeros()):
            V('law:ones-invert', f'{what}: ones(~a)={r.ones()} zeros(a)={a.zeros()}')
        if not unchanged(a, sa):
            V(f'operand-changed:{OPK[op[0]]}:self', f'{what}: operand modified')
        state_laws(a, bits, V, f'{what} (operand, first query after the op)', order=oi + code + 1)
    return res(viol=viol, obs=(code, form, tuple(obs)), nontrivial=(code if n >= 2 and 0 < sum(bits) < n else False), stats=stats)


# ------------------------------------------------------------------ invalid constructions
LAZY = {
    'object()': lambda: object(), 'lambda': lambda: (lambda: 0), 'generator': lambda: (i for i in (0, 1)), 'iter([0,1])': lambda: iter([0, 1]),
    'memoryview': lambda: memoryview(bytes([0, 1])), 'binary_sequence(01)': lambda: lib()[0]('01'),
    '[binary_sequence(1)]': lambda: [lib()[0]('1')], 'electrical_signal([0,1])': lambda: lib()[1]([0, 1]),
    'deque([0,1])': lambda: __import__('collections').deque([0, 1]), "array('B',[0,1])": lambda: __import__('array').array('B', [0, 1]),
    '[nd[0,1]]': lambda: [np.array([0, 1])], '[nd[0,1],nd[1]]': lambda: [np.array([0, 1]), np.array([1])],
    '[0d(1),0d(0)]': lambda: [np.array(1), np.array(0)], '[nd[1]]': lambda: [np.array([1])], 'np.str_(01)': lambda: np.str_('01'),
    'Ellipsis': lambda: Ellipsis, 'NotImplemented': lambda: NotImplemented, 'int': lambda: int,
}


def build_input(spec):
    """inputs are described by plain picklable specs; the object is built inside the case"""
    tag = spec[0]
    if tag == 'raw': return spec[1]
    if tag == 'arr': return np.array(spec[1], dtype=spec[2])
    if tag == 'npsc': return np.dtype(spec[1]).type(spec[2])
    if tag == '0d': return np.array(spec[2], dtype=spec[1])
    if tag == 'zeros': return np.zeros(spec[1], dtype=spec[2])
    if tag == 'lazy': return LAZY[spec[1]]()
    raise KeyError(spec)


def _legacy_invalid():
    """the table + generated part of the first version of this check"""
    out = [("'012'", '012'), ('[0,2]', [0, 2]), ('[[0,1],[1,0]]', [[0, 1], [1, 0]]), ('[[0,1]]', [[0, 1]]),
           ("'1 0; 0 1'", '1 0; 0 1'), ('1.5', 1.5), ('[0.5]', [0.5]), ("'abc'", 'abc'), ('None', None), ('-1', -1),
           ('2', 2), ('[None]', [None]), ("'0.5'", '0.5'), ("'-1'", '-1'), ('[-1]', [-1]), ('nan', float('nan')),
           ('[nan]', [float('nan')]), ("'1;0'", '1;0'), ('[[1]]', [[1]]), ('nd[[1]]', ('nd', [[1]])), ('[[]]', [[]]),
           ('[[[0]]]', [[[0]]]), ("['a']", ['a']), ('0.5', 0.5), ('255', 255), ('256', 256), ('[256]', [256]), ('[257]', [257]),
           ('[1,256]', [1, 256]), ('-255', -255), ('[-255]', [-255]), ('nd_u8[2]', ('nd8', [2])), ('nd_u8[255]', ('nd8', [255])),
           ('1e-9', 1e-9), ('[1.0000001]', [1.0000001]), ('2.0', 2.0)]
    # every word of length <= 4 over {0,1,2} that contains a 2, in five container forms
    for n in range(1, 5):
        for w in itertools.product((0, 1, 2), repeat=n):
            if 2 not in w:
                continue
            s = ''.join(map(str, w))
            out += [(f"'{s}'", s), (f"'{' '.join(s)}'", ' '.join(s)), (f'list{list(w)}', list(w)), (f'tuple{w}', tuple(w)),
                    (f'nd{list(w)}', ('nd', list(w)))]
    # one bad element (-1, 0.5) at each position of the words of length <= 3
    for n in range(1, 4):
        for w in itertools.product((0, 1), repeat=n):
            for pos in range(n):
                for badv in (-1, 0.5):
                    x = list(w); x[pos] = badv
                    out += [(f'list{x}', x), (f'nd{x}', ('nd', x))]
    # 2-D spellings of binary words
    for n in range(1, 3):
        for w in itertools.product((0, 1), repeat=n):
            s = ' '.join(map(str, w))
            out += [(f'[[{s}]]2d', [list(w)]), (f'[[w],[w]]{w}', [list(w), list(w)]), (f"'{s}; {s}'", f'{s}; {s}'),
                    (f'nd2d{w}', ('nd', [list(w), list(w)]))]
    conv = []
    for label, x in out:
        if isinstance(x, tuple) and len(x) == 2 and x[0] in ('nd', 'nd8'):
            conv.append((label, ('arr', x[1], 'uint8' if x[0] == 'nd8' else None), 'bad', None))
        else:
            conv.append((label, ('raw', x), 'bad', None))
    return conv


BAD_VALUES = [2, 3, -1, 255, 256, 257, -255, -256, 65536, 2 ** 32, 2 ** 64, 0.5, 0.25, 1e-9, 5e-324, 1 - 2 ** -53, 1 + 2 ** -52,
              1.0000001, 0.9999999, -0.5, -5e-324, -1.0, 2.0, 1e300, float('nan'), float('inf'), float('-inf'),
              1j, 0.5 + 0j, 1 + 1e-9j, 1 + 1j, -1 + 0j, complex(0, float('nan')), complex(float('nan'), 0)]
BAD_TOKENS = ['2', '3', '-1', '0.5', '.5', '1.5', '0.25', 'nan', 'inf', '1j', '0.5+0j', '1+1j', 'a', 'x', '\u00b2', '1/1', '[1]', "'1'", '1;']
# tokens that some number parser reads as 0 or 1 (python's int() accepts '0_1' and fullwidth digits, float() accepts '1e0'):
# the statement does not fix the string grammar, so these are 'free'
FREE_TOKENS = ['1e0', 'True', '0x1', '0b1', '0_1', '\uff10', '\uff11']
FLOAT_DT = ['float16', 'float32', 'float64', 'complex64', 'complex128']
INT_DT = ['int8', 'int16', 'int32', 'int64', 'uint8', 'uint16', 'uint32', 'uint64']


def invalid_constructions():
    """(label, spec, kind, expected): kind 'bad' = must raise ValueError/TypeError; kind 'free' = statement silent: either
    ValueError/TypeError or a valid sequence (equal to `expected` where the reading is unambiguous)"""
    out = _legacy_invalid()
    seen = {c[0] for c in out}

    def add(label, spec, kind='bad', exp=None):
        if label not in seen:
            seen.add(label)
            out.append((label, spec, kind, exp))
    # -- one non-binary value in every container context (alone; before / after / between valid elements)
    for v in BAD_VALUES:
        r = repr(v)
        add(f'scalar {r}', ('raw', v))
        add(f'0d {r}', ('0d', None, v))
        for ctx_label, mk in (('[v]', lambda v: [v]), ('(v,)', lambda v: (v,)), ('[v,0]', lambda v: [v, 0]), ('[1,v]', lambda v: [1, v]),
                              ('[0,v,1]', lambda v: [0, v, 1]), ('(1,0,v)', lambda v: (1, 0, v)), ('[True,v]', lambda v: [True, v])):
            add(f'{ctx_label} v={r}', ('raw', mk(v)))
        for ctx_label, mk in (('nd[v]', lambda v: [v]), ('nd[0,v]', lambda v: [0, v]), ('nd[v,1,0]', lambda v: [v, 1, 0])):
            add(f'{ctx_label} v={r}', ('arr', mk(v), None))
    # -- the same in every floating / complex / integer dtype: boundary values of that dtype
    for dt in FLOAT_DT:
        fi = np.finfo(dt)
        tiny, below1, above1 = float(fi.smallest_subnormal), float(1 - fi.epsneg), float(1 + fi.eps)
        vals = [0.5, tiny, below1, above1, -tiny, 2.0, float('nan'), float('inf')]
        if dt.startswith('complex'):
            vals += [1j, complex(1, tiny), complex(0, tiny), 0.5 + 0.5j]
        for v in vals:
            add(f'nd_{dt}[{v!r}]', ('arr', [v], dt)); add(f'nd_{dt}[0,{v!r},1]', ('arr', [0, v, 1], dt))
            add(f'0d_{dt}({v!r})', ('0d', dt, v)); add(f'np.{dt}({v!r})', ('npsc', dt, v))
    for dt in INT_DT:
        ii = np.iinfo(dt)
        vals = [2, int(ii.max)] + ([-1, int(ii.min)] if ii.min < 0 else []) + [x for x in (255, 256, 257, 65536) if x <= ii.max]
        for v in vals:
            add(f'nd_{dt}[{v}]', ('arr', [v], dt)); add(f'nd_{dt}[0,{v},1]', ('arr', [0, v, 1], dt))
            add(f'0d_{dt}({v})', ('0d', dt, v)); add(f'np.{dt}({v})', ('npsc', dt, v))
    add('nd_obj[2]', ('arr', [2], 'object')); add('nd_obj[None]', ('arr', [None], 'object')); add('nd_obj[0,0.5]', ('arr', [0, 0.5], 'object'))
    # -- strings: an invalid token alone and next to valid ones, with every separator
    for t in BAD_TOKENS:
        for ctx_label, st in (('t', t), ('0 t', '0 ' + t), ('t 1', t + ' 1'), ('0,t', '0,' + t), ('0, t, 1', '0, ' + t + ', 1'), ('01t', '01' + t),
                              ('t01', t + '01')):
            add(f'str {ctx_label} t={t!r}', ('raw', st))
    for t in FREE_TOKENS:
        for ctx_label, st in (('t', t), ('0 t', '0 ' + t), ('0,t', '0,' + t), ('01t', '01' + t)):
            add(f'free str {ctx_label} t={t!r}', ('raw', st), 'free', None)
    for st in ('0;1', '01;10', '0 1;1 0', '0,1;1,0', '0, 1; 1, 0', '1;', ';1', ';', ';;', '0;1;0', '01;1', '1;01', '0 1;', ' ; ', '0;', '1 ;0'):
        add(f'str2d {st!r}', ('raw', st))
    # -- containers that are not 1-D: every small shape as ndarray (4 dtypes, zeros and ones) and as nested list / tuple
    for shape in ((1, 1), (1, 2), (2, 1), (2, 2), (1, 0), (0, 1), (0, 2), (2, 0), (0, 0), (1, 1, 1), (2, 2, 2), (1, 0, 1), (1, 2, 1), (3, 3)):
        for dt in ('bool', 'uint8', 'int64', 'float64'):
            add(f'zeros{shape}:{dt}', ('zeros', shape, dt))
        if shape[0] > 0:            # (a leading 0 gives the plain empty list, which is 1-D)
            add(f'ones{shape}', ('raw', np.ones(shape, dtype=int).tolist()))
            add(f'zeros{shape}.tolist', ('raw', np.zeros(shape, dtype=int).tolist()))
            add(f'tuple-nest{shape}', ('raw', tuple(map(tuple, np.ones(shape[:2], dtype=int).tolist())) if len(shape) == 2 else ((0,),)))
    add('eye3:bool', ('raw', np.eye(3, dtype=bool).tolist()))
    for label, x in (('[[0,1],[1]]', [[0, 1], [1]]), ('[[0],[1,0]]', [[0], [1, 0]]), ('[0,[1]]', [0, [1]]), ('[[0],1]', [[0], 1]),
                     ('([0],[1,0])', ([0], [1, 0])), ('[[0],[]]', [[0], []]), ('[[],[0]]', [[], [0]]), ('[[[0],[1]],[[0]]]', [[[0], [1]], [[0]]]),
                     ('[(0,1),[1]]', [(0, 1), [1]]), ('((0,1),(1,0))', ((0, 1), (1, 0))), ('[(0,1)]', [(0, 1)]), ('([0,1],)', ([0, 1],)),
                     ('[[0],[1]]', [[0], [1]]), ('[[True],[False]]', [[True], [False]]), ('[[1.0]]', [[1.0]]), ('[[],[]]', [[], []]),
                     ('([],)', ([],)), ('[()]', [()]), ("[[0,1],'01']", [[0, 1], '01'])):
        add(label, ('raw', x))
    add('[nd[0,1]]', ('lazy', '[nd[0,1]]')); add('[nd[0,1],nd[1]]', ('lazy', '[nd[0,1],nd[1]]')); add('[nd[1]]', ('lazy', '[nd[1]]'))
    # -- things that are not data at all
    for label, x in (('[None,1]', [None, 1]), ('[[None]]', [[None]]), ("['a',1]", ['a', 1]), ("['']", ['']), ('[[],1]', [[], 1]),
                     ):
        add(label, ('raw', x))
    for label, x in (('{}', {}), ("{'a':1}", {'a': 1}), ("['01','10']", ['01', '10'])):
        add(f'free {label}', ('raw', x), 'free', None)
    for name in ('object()', 'lambda', 'Ellipsis', 'NotImplemented', 'int'):
        add(name, ('lazy', name))
    # -- statement silent (kind 'free')
    for st, exp in (('', ()), (' ', ()), ('  ', ()), (',', ()), (', ', ()), ('0\t1', (0, 1)), ('0\n1', (0, 1)), ('01\n', (0, 1)), ('\t', ()),
                    ('0\r\n1', (0, 1)), ('0\x0b1', (0, 1)), ('0\xa01', (0, 1)), ('0\u20031', (0, 1)), (' 01 ', (0, 1)), (',01,', (0, 1)),
                    ('0,,1', (0, 1)), ('0  1', (0, 1)), ('0 , 1', (0, 1)), ('0 ,1', (0, 1)), ('01,', (0, 1)), (',01', (0, 1)),
                    ('0.0 1.0', (0, 1)), ('1.0', (1,)), ('0.0', (0,)), ('1.', (1,)), ('+1', (1,)), ('-0', (0,)), ('+0', (0,)), ('-0.0', (0,)),
                    ('1+0j', (1,)), ('0j', (0,)), ('1+0i', (1,)), ('1 1.0', (1, 1)), ('0 1 +1', (0, 1, 1)), ('00', (0, 0)),
                    ('1.0,0.0,1.0', (1, 0, 1))):
        add(f'free str {st!r}', ('raw', st), 'free', exp)
    for label, x, exp in (('range(0)', range(0), ()), ('range(2)', range(2), (0, 1)), ('bytearray([0,1])', bytearray([0, 1]), (0, 1)),
                          ('bytearray()', bytearray(), ()), ("b''", b'', None), ("b'\\x00\\x01'", b'\x00\x01', None), ("b'01'", b'01', None),
                          ("['0','1']", ['0', '1'], (0, 1)), ("['01']", ['01'], None), ("[b'1']", [b'1'], None), ('{0,1}', {0, 1}, None),
                          ('{1}', {1}, None), ('frozenset({0})', frozenset([0]), None), ('{0:1}', {0: 1}, None), ('{0:0,1:0}', {0: 0, 1: 0}, None)):
        add(f'free {label}', ('raw', x), 'free', exp)
    add("free nd['0','1']", ('arr', ['0', '1'], None), 'free', (0, 1))
    for name, exp in (('generator', None), ('iter([0,1])', None), ('memoryview', (0, 1)), ('binary_sequence(01)', (0, 1)),
                      ('[binary_sequence(1)]', None), ('electrical_signal([0,1])', (0, 1)), ('deque([0,1])', (0, 1)),
                      ("array('B',[0,1])", (0, 1)), ('[0d(1),0d(0)]', (1, 0)), ('np.str_(01)', (0, 1))):
        add(f'free {name}', ('lazy', name), 'free', exp)
    return out


def invalid_construction_case(case):
    label, spec, kind, exp = case
    B = lib()[0]
    x = build_input(spec)
    before = (x.shape, x.dtype.str, x.tobytes()) if isinstance(x, np.ndarray) else (repr(x) if isinstance(x, (list, bytearray, dict, set)) else None)

    def touched():
        now = (x.shape, x.dtype.str, x.tobytes()) if isinstance(x, np.ndarray) else (repr(x) if isinstance(x, (list, bytearray, dict, set)) else None)
        return [('operand-changed:construct', f'binary_sequence({label}): the input container was modified')] if now != before else []
    try:
        r = B(x)
    except (ValueError, TypeError) as e:
        return res(viol=touched(), obs=(label, type(e).__name__), nontrivial=label)
    except Exception as e:  # noqa
        return res(viol=[(f'{"free" if kind == "free" else "invalid"}-construction:wrong-exception:{type(e).__name__}',
                          f'binary_sequence({label}) raised {type(e).__name__}: {e}')], obs=(label, type(e).__name__))
    if kind == 'free':
        bad = invalid(r)
        if bad:
            return res(viol=[(f'closure:construct:{bad}', f'binary_sequence({label}) returned an invalid object: data={getattr(r, "data", None)!r}')],
                       obs=(label, bad))
        if exp is not None and bits_in(r) != tuple(exp):
            return res(viol=[('model:construct', f'binary_sequence({label}) accepted the input but stored {bits_in(r)}, its elements are {tuple(exp)}')],
                       obs=(label, bits_in(r)))
        if isinstance(x, np.ndarray) and np.shares_memory(r.data, x):
            return res(viol=[('alias:construct:shared-memory', f'binary_sequence({label}): data shares memory with the input')], obs=(label, 'alias'))
        return res(viol=touched(), obs=(label, 'accepted', bits_in(r)), nontrivial=label, stats={'free-constructions.accepted': 1})
    return res(viol=[('invalid-construction:accepted', f'binary_sequence({label}) did not raise; data={getattr(r, "data", None)!r}')],
               obs=(label, 'accepted'))


# ------------------------------------------------------------------ indexing: every integer index, every slice
INT_KINDS = [('int', int, False), ('np.int64', np.int64, False), ('np.intp', np.intp, False), ('np.int8', np.int8, False),
             ('np.int32', np.int32, False), ('np.uint8', np.uint8, True), ('np.uint64', np.uint64, True),
             ('0d-int64', lambda i: np.array(i, dtype=np.int64), False)]


def index_case(case):
    """case = word code. From ONE write-protected object: every integer index -n-2 .. n+1 in 8 integer kinds (python int,
    numpy signed/unsigned scalars, 0-d array); every slice start:stop:step with start, stop in {None, -n-1 .. n+1} and
    step in {None, 1, 2, 3, -1, -2, -3, n+1, -n-1} as python ints, the step-None ones also with np.int64 bounds, and the
    bounds returned by ones() (a numpy scalar); further index kinds (Ellipsis, 1-tuples, integer lists/arrays, boolean
    masks, None, bool, float, str) with the closure oracle only.  Model: the python tuple indexed the same way."""
    code = case
    B = lib()[0]
    bits = bits_of(code)
    n = len(bits)
    viol, seenk, stats, obs = [], {}, {}, []

    def V(key, msg):
        if key not in seenk:
            seenk[key] = 1
            viol.append((key, msg))
    a = B(list(bits))
    sa = freeze(a)
    here = f'a = binary_sequence({list(bits)})'

    def check(r, exp, what):
        bad = invalid(r)
        if bad:
            V(f'closure:getitem:{bad}', f'{here} :: {what}: result {show(r)}')
            return
        if exp is not None and bits_in(r) != exp:
            V('model:getitem', f'{here} :: {what}: got {bits_in(r)}, model {exp}')
        if r is a or np.shares_memory(r.data, a.data):
            V('alias:getitem:shared-memory', f'{here} :: {what}: result shares memory with the operand')
        if exp is not None:
            state_laws(r, exp, V, f'{here} :: {what}')
    # ---- integer indices
    for i in range(-n - 2, n + 2):
        for kname, conv, unsigned in INT_KINDS:
            if unsigned and i < 0:
                continue
            idx = conv(i)
            what = f'a[{kname}({i})]'
            inrange = -n <= i < n
            try:
                r = a[idx]
            except Exception as e:  # noqa
                if inrange:
                    V(f'raises:getitem:{type(e).__name__}', f'{here} :: {what}: raised {type(e).__name__}: {str(e)[:120]}')
                obs.append(type(e).__name__)         # out of range: the statement is silent
                continue
            stats['index.int'] = stats.get('index.int', 0) + 1
            if inrange:
                check(r, (bits[i],), what)
                obs.append(bits_in(r) if isinstance(r, B) and not invalid(r) else 'INVALID')
            else:
                # out of range and no exception: silent, but a returned sequence must be a valid one
                if isinstance(r, B):
                    check(r, None, what + ' (out of range)')
                obs.append(('OOR', type(r).__name__))
    # ---- slices
    bounds = [None] + list(range(-n - 1, n + 2))
    steps = [None, 1, 2, 3, -1, -2, -3, n + 1, -n - 1]
    for step in steps:
        for start in bounds:
            for stop in bounds:
                for npy in ((False, True) if step is None else (False,)):
                    sl = slice(start, stop, step)
                    exp = tuple(bits[sl])
                    if npy:
                        sl = slice(None if start is None else np.int64(start), None if stop is None else np.int64(stop))
                    what = f'a[{start}:{stop}:{step}]' + (' (np.int64 bounds)' if npy else '')
                    try:
                        r = a[sl]
                    except Exception as e:  # noqa
                        V(f'raises:getitem:{type(e).__name__}', f'{here} :: {what}: raised {type(e).__name__}: {str(e)[:120]}')
                        continue
                    stats['index.slice'] = stats.get('index.slice', 0) + 1
                    check(r, exp, what)
    # ---- bounds returned by the object's own ones() (a numpy scalar): a returned value fed into the next call
    try:
        k = a.ones()
        for what, sl, exp in (('a[:a.ones()]', slice(None, k), tuple(bits[:sum(bits)])), ('a[a.ones():]', slice(k, None), tuple(bits[sum(bits):]))):
            try:
                r = a[sl]
            except Exception as e:  # noqa
                V(f'raises:getitem:{type(e).__name__}', f'{here} :: {what}: raised {type(e).__name__}: {str(e)[:120]}')
                continue
            stats['index.slice'] = stats.get('index.slice', 0) + 1
            check(r, exp, what)
    except Exception as e:  # noqa
        V('law:ones-zeros-len', f'{here}: ones() raised {type(e).__name__}')
    # ---- other index kinds: statement silent on their meaning; closure, aliasing and operand immutability only
    others = [('...', Ellipsis), ('(slice(None),)', (slice(None),)), ('[]', []), ('None', None), ('True', True), ('1.0', 1.0), ("'0'", '0'),
              ('mask-list', [bool(b) for b in bits]), ('mask-nd', np.array(bits, dtype=bool)), ('int-nd-all', np.arange(n)),
              ('int-nd-rev', np.arange(n)[::-1].copy()), ('slice(0,0,0)', slice(0, 0, 0))]
    if n:
        others += [('(0,)', (0,)), ('[0]', [0]), ('[0,n-1]', [0, n - 1]), ('[-1,0]', [-1, 0]), ('(-1,)', (-1,)), ('nd[0,0]', np.array([0, 0]))]
    for label, idx in others:
        isnp = isinstance(idx, np.ndarray)
        s_idx = freeze(idx) if isnp else None
        try:
            r = a[idx]
        except Exception as e:  # noqa
            obs.append((label, type(e).__name__))
            continue
        stats['index.other'] = stats.get('index.other', 0) + 1
        if isinstance(r, B):
            check(r, None, f'a[{label}]')
            obs.append((label, bits_in(r) if not invalid(r) else 'INVALID'))
            if isnp and (not unchanged(idx, s_idx) or np.shares_memory(r.data, idx)):
                V('operand-changed:getitem:index', f'{here} :: a[{label}]: the index array was modified / is shared')
    if not unchanged(a, sa):
        V('operand-changed:getitem:self', f'{here}: the operand differs after the indexing sweep')
    state_laws(a, bits, V, f'{here} after the indexing sweep')
    return res(viol=viol, obs=(code, tuple(obs)), nontrivial=(code if n >= 2 and 0 < sum(bits) < n else False), stats=stats)


# ------------------------------------------------------------------ long words
def long_content(n, kind, seed):
    if kind == 'zeros': return np.zeros(n, dtype=np.uint8)
    if kind == 'ones': return np.ones(n, dtype=np.uint8)
    if kind == 'alt': return (np.arange(n) % 2).astype(np.uint8)
    rng = np.random.RandomState((seed * 1000003 + n * 7 + int(kind[3:])) % (2 ** 31))
    return rng.randint(0, 2, n).astype(np.uint8)


def long_case(case):
    n, kind, seed, form = case
    B = lib()[0]
    w = long_content(n, kind, seed)
    bits = tuple(int(b) for b in w)
    src = make(bits, form)
    viol, seenk, stats = [], {}, {}

    def V(key, msg):
        if key not in seenk:
            seenk[key] = 1
            viol.append((key, msg))
    what = f'long word n={n} {kind} <{form}>'
    a = B(src)
    bad = invalid(a)
    if bad or bits_in(a) != bits:
        return res(viol=[(f'closure:construct:{bad}' if bad else 'model:construct', f'{what}: construction wrong')], obs=(n, kind, form, 'bad'))
    state_laws(a, bits, V, what)
    sa = freeze(a)
    obs = []
    ops = [('~',)] + [('[]', k) for k in range(len(SLICES))] + [('split', 2), ('split', 3), ('+e', 2), ('e+', 0), ('+~',), ('~+',)]
    for wc in (1, 2, 3, 0b101, 0b110):
        for f in ('str', 'list', 'nd_bool', 'bseq'):
            if wc == 1 and f == 'str':
                continue
            ops.append(('+', wc, f))
            if f != 'nd_bool' or n <= 4097:     # a failing numpy coercion (ndarray on the left) costs ~0.4 ms per element
                ops.append(('r+', wc, f))
    nd_broken = False
    for op in ops:
        ndleft = op[0] == 'r+' and op[2].startswith('nd')
        if ndleft and nd_broken:
            stats['skipped.ndarray-left-after-failure'] = stats.get('skipped.ndarray-left-after-failure', 0) + 1
            continue
        exp = model_apply(bits, op)
        try:
            r = real_apply(a, op)
        except Exception as e:  # noqa
            V('radd:ndarray-left' if ndleft else f'raises:{OPK[op[0]]}:{type(e).__name__}', f'{what} :: {op_name(op)}: {type(e).__name__}: {str(e)[:120]}')
            nd_broken = nd_broken or ndleft
            continue
        bad = invalid(r)
        if bad:
            V('radd:ndarray-left' if ndleft else f'closure:{OPK[op[0]]}:{bad}', f'{what} :: {op_name(op)}')
            nd_broken = nd_broken or ndleft
            continue
        stats['long-ops'] = stats.get('long-ops', 0) + 1
        if bits_in(r) != exp:
            V(f'model:{OPK[op[0]]}', f'{what} :: {op_name(op)}: differs from the model')
        if np.shares_memory(r.data, a.data):
            V(f'alias:{OPK[op[0]]}:shared-memory', f'{what} :: {op_name(op)}')
        state_laws(r, exp, V, f'{what} :: {op_name(op)}')
        if op[0] == '~':
            if bits_in(~r) != bits or ((~r) == a) is not True:
                V('law:double-invert', what)
            if not (r.ones() == a.zeros()):
                V('law:ones-invert', f'{what}: ones(~a)={r.ones()} zeros(a)={a.zeros()}')
        if op[0] in ('+', '+~') and (r[:len(a)] == a) is not True:
            V('law:prefix', what)
        if op[0] in ('split', '+e', 'e+') and (r == a) is not True:
            V('law:prefix', f'{what} :: {op_name(op)}: result == a is not True')
        if not unchanged(a, sa):
            V(f'operand-changed:{OPK[op[0]]}:self', f'{what} :: {op_name(op)}')
            break
        state_laws(a, bits, V, f'{what} (operand) after {op_name(op)}')
        obs.append((op_name(op), len(exp), sum(exp)))
    # a + a, a + ~a with itself as the other operand
    try:
        r = a + a
        if invalid(r) or bits_in(r) != bits + bits:
            V('model:add', f'{what}: a + a')
        if (r[:n] == a) is not True or len(r) != 2 * n:
            V('law:prefix', f'{what}: a + a')
        if np.shares_memory(r.data, a.data):
            V('alias:add:shared-memory', f'{what}: a + a')
    except Exception as e:  # noqa
        V(f'raises:add:{type(e).__name__}', f'{what}: a + a raised {e}')
    if not unchanged(a, sa):
        V('operand-changed:add:self', f'{what}: a + a')
    import hashlib
    return res(viol=viol, obs=(n, kind, form, hashlib.sha256(a.data.tobytes()).hexdigest()[:12], tuple(obs)),
               nontrivial=(n, kind) if kind not in ('zeros', 'ones') else False, stats=stats)


# ------------------------------------------------------------------ comparison  x > th, x < th
TH_SCALAR = [('int0', 0), ('int1', 1), ('f.25', 0.25), ('f.5', 0.5), ('f.75', 0.75), ('np.25', np.float64(0.25)),
             ('f2', 2.0), ('neg', -0.25)]
TH_ALPHA = (0.0, 0.25, 0.75)
_INF = float('inf')


def _affine(k, off=0.0):
    """scale / offset variants of the non-negative class. k and off are powers of two, the alphabets dyadic rationals: every
    value, every sum S+N and every tie S+N == th stays exact in binary floating point."""
    f = lambda v: off + v * k
    return dict(S=tuple(f(v) for v in (0.0, 0.25, 0.5, 1.0)), N=tuple(v * k for v in (-0.25, 0.0, 0.25, 0.5)),
                sc=[(l, f(v)) for l, v in TH_SCALAR if v >= 0] + [('neg', -0.25 * k)], alpha=tuple(f(v) for v in TH_ALPHA),
                neg=-0.25 * k, inclass=True, dtyped=False)


CMP = {
    'nonneg':     dict(S=(0.0, 0.25, 0.5, 1.0), N=(-0.25, 0.0, 0.25, 0.5), sc=TH_SCALAR, alpha=TH_ALPHA, neg=-0.25, inclass=True, dtyped=True),
    'nonneg-int': dict(S=(0, 1, 2, 3), N=(-1, 0, 1), sc=TH_SCALAR, alpha=TH_ALPHA, neg=-0.25, inclass=True, dtyped=True),
    'signed':     dict(S=(-1.0, -0.25, 0.0, 0.5), N=(-0.5, 0.0, 0.25), sc=TH_SCALAR, alpha=TH_ALPHA, neg=-0.25, inclass=False, dtyped=True),
    'complex':    dict(S=(1j, -0.5 + 0.5j, 0j, 1 + 0j), N=(0.25j, -0.5 + 0j, 0j), sc=TH_SCALAR, alpha=TH_ALPHA, neg=-0.25, inclass=False, dtyped=False),
    # hardening pass (scale and offset, extreme-but-legal values)
    'nonneg-tiny':   _affine(2.0 ** -40),                   # ~1e-12
    'nonneg-big':    _affine(2.0 ** 20),                    # ~1e6
    'nonneg-offset': _affine(1.0, off=2.0 ** 20),           # large DC offset, small variation
    'nonneg-extreme': dict(S=(0.0, -0.0, 5e-324, 2.0 ** 1000, _INF), N=(0.0, 5e-324),
                           sc=[('0', 0.0), ('-0.0', -0.0), ('tiny', 5e-324), ('2tiny', 1e-323), ('one', 1.0), ('2^1000', 2.0 ** 1000),
                               ('inf', _INF), ('neg', -5e-324)],
                           alpha=(0.0, 5e-324, _INF), neg=-5e-324, inclass=True, dtyped=False),
}
# signal container / dtype axis (hardening pass); 'list' is the form of the main part
SIG_FORMS = {
    'nonneg': ['tuple', 'nd:float16', 'nd:float32', 'nd:float64', 'nd:complex128', 'str', 'scalar', 'npscalar:float32', 'list:dtype=float32',
               'slice', 'index', 'nd:float32|noise:float64', 'nd:float64|noise:float32', 'nd:float16|noise:float32'],
    'nonneg-int': ['tuple', 'nd:int8', 'nd:uint8', 'nd:int16', 'nd:int32', 'nd:int64', 'nd:uint16', 'nd:uint32', 'nd:uint64', 'nd:float32',
                   'nd:float16', 'nd:bool', 'str', 'scalar', 'npscalar:int64', 'npscalar:uint8', 'list:dtype=int32', 'slice', 'index',
                   'nd:uint8|noise:float64', 'nd:int32|noise:int8', 'nd:int64|noise:float32', 'nd:uint8|noise:int8', 'nd:float32|noise:int16'],
}


def thresholds(n, cls='nonneg'):
    """(label, builder, kind, ref); kind: 'ok' (matched length / scalar: the equality clause applies where everything is
    non-negative and real), 'okfree' (boolean thresholds: may be refused with ValueError/TypeError, otherwise as 'ok'), 'mismatch' (length differs: ValueError, or a valid result of the signal's length),
    'mismatch-any' (empty threshold: ValueError/TypeError or a valid result of the signal's length), 'free' (statement silent:
    any exception, or a valid result of the signal's length)"""
    E = lib()[1]
    C = CMP[cls]
    alpha, neg = C['alpha'], C['neg']
    pos = alpha[1]
    out = [(f'scalar:{l}', (lambda v=v: v), 'ok', np.asarray(v)) for l, v in C['sc']]
    arrs = list(itertools.product(alpha, repeat=n)) + [tuple([neg] + [pos] * (n - 1))]
    for w in arrs:
        ref = np.array(w, dtype=float)
        out.append((f'list{w}', (lambda w=w: list(w)), 'ok', ref))
        out.append((f'tuple{w}', (lambda w=w: tuple(w)), 'ok', ref))
        out.append((f'nd{w}', (lambda w=w: np.array(w, dtype=float)), 'ok', ref))
        out.append((f'E{w}', (lambda w=w: E(list(w))), 'ok', ref))
    w = tuple([alpha[2] if alpha[2] != _INF else 1.0] * n)
    out.append((f'Enoisy{w}', (lambda w=w: E(list(w), [pos] * n)), 'free', None))
    out.append(('ndcomplex', (lambda: np.array([0.5j] * n)), 'free', None))
    if n >= 1:
        out.append(('nd-int', (lambda: np.array([1] * n)), 'ok', np.array([1] * n)))
    ms = {n + 1, n + 2, 2 if n >= 3 else n + 3, 2 * n if n >= 2 else n + 1, n - 1 if n >= 3 else n + 1}
    for m in sorted(ms):
        if m == n or m == 1:
            continue
        for f, mk in (('list', lambda m=m: [pos] * m), ('nd', lambda m=m: np.full(m, pos)), ('E', lambda m=m: E([pos] * m)),
                      ('tuple', lambda m=m: (pos,) * m), ('list-int', lambda m=m: [1] * m), ('nd_u8', lambda m=m: np.ones(m, dtype=np.uint8)),
                      ('E-int', lambda m=m: E([1] * m)), ('Enoisy', lambda m=m: E([pos] * m, [pos] * m))):
            out.append((f'mismatch:{f}{m}', mk, 'mismatch', None))
    if n > 1:
        out.append(('len1-list', (lambda: [pos]), 'free', None))
        out.append(('len1-nd', (lambda: np.array([pos])), 'free', None))
        out.append(('len1-E', (lambda: E([pos])), 'free', None))
    # empty thresholds, thresholds that are not 1-D, non-numeric thresholds
    for l, mk in (('[]', lambda: []), ('()', lambda: ()), ('nd-empty', lambda: np.array([]))):
        out.append((f'empty:{l}', mk, 'mismatch-any', None))
    for l, mk in (('[[th]*n]', lambda: [[pos] * n]), ('nd(n,1)', lambda: np.full((n, 1), pos)), ('nd(1,n)', lambda: np.full((1, n), pos)),
                  ('None', lambda: None), ('nan', lambda: float('nan')), ('1+0j', lambda: 1 + 0j), ("'abc'", lambda: 'abc'),
                  ('binary_sequence', lambda: lib()[0]([1] * n))):
        out.append((f'free:{l}', mk, 'free', None))
    if not C['dtyped']:
        return out
    # ---- hardening pass: threshold dtypes and scalar kinds (values stay dyadic / small integers: exact in every dtype)
    for l, v in (('np.int64(1)', np.int64(1)), ('np.uint8(1)', np.uint8(1)), ('np.int8(2)', np.int8(2)), ('np.float32(.25)', np.float32(0.25)),
                 ('np.float16(.5)', np.float16(0.5)), ('True', True), ('np.bool_(True)', np.bool_(True)), ('-0.0', -0.0), ('inf', _INF),
                 ('int3', 3), ('f1.5', 1.5), ('f2.5', 2.5)):
        out.append((f'scalar:{l}', (lambda v=v: v), 'okfree' if isinstance(v, (bool, np.bool_)) else 'ok', np.asarray(v, dtype=float)))
    out.append(('scalar:0d(.25)', (lambda: np.array(0.25)), 'ok', np.asarray(0.25)))
    out.append(('scalar:0d(1)', (lambda: np.array(1)), 'ok', np.asarray(1.0)))
    out.append(('scalar:0d-f32(.75)', (lambda: np.array(0.75, dtype=np.float32)), 'ok', np.asarray(0.75)))
    fw = [tuple([0.25] * n), tuple((0.0, 0.75)[i % 2] for i in range(n)), tuple((1.5, 0.5, 2.5)[i % 3] for i in range(n))]
    iw = [tuple([1] * n), tuple((0, 2)[i % 2] for i in range(n)), tuple((3, 1)[i % 2] for i in range(n))]
    bw = tuple((True, False)[i % 2] for i in range(n))
    for w in dict.fromkeys(fw):
        ref = np.array(w, dtype=float)
        for dt in ('float32', 'float16'):
            out.append((f'nd_{dt}{w}', (lambda w=w, dt=dt: np.array(w, dtype=dt)), 'ok', ref))
        out.append((f'list-np.float32{w}', (lambda w=w: [np.float32(v) for v in w]), 'ok', ref))
        out.append((f'E-dtype=float32{w}', (lambda w=w: E(list(w), dtype=np.float32)), 'ok', ref))
        out.append((f'nd-strided{w}', (lambda w=w: np.repeat(np.array(w, dtype=float), 2)[::2]), 'ok', ref))
        out.append((f'str{w}', (lambda w=w: ' '.join(str(v) for v in w)), 'free', None))
    for w in dict.fromkeys(iw):
        ref = np.array(w, dtype=float)
        out.append((f'list-int{w}', (lambda w=w: list(w)), 'ok', ref))
        out.append((f'tuple-int{w}', (lambda w=w: tuple(w)), 'ok', ref))
        for dt in ('int8', 'uint8', 'int32', 'int64', 'uint64'):
            out.append((f'nd_{dt}{w}', (lambda w=w, dt=dt: np.array(w, dtype=dt)), 'ok', ref))
        out.append((f'E-int{w}', (lambda w=w: E(list(w))), 'ok', ref))
        out.append((f'list-mixed{w}', (lambda w=w: [(np.int64, float, np.uint8)[i % 3](v) for i, v in enumerate(w)]), 'ok', ref))
    out.append((f'list-bool{bw}', (lambda: list(bw)), 'okfree', np.array(bw, dtype=float)))
    out.append((f'nd_bool{bw}', (lambda: np.array(bw)), 'okfree', np.array(bw, dtype=float)))
    return out


def cmp_one(x, S, N, th, kind, ref, in_class, what, V, stats):
    """both operators on one (signal, threshold) pair; returns observation"""
    tot = S + N if N is not None else S
    obs = []
    for opn, fn in (('gt', lambda a, b: a > b), ('lt', lambda a, b: a < b)):
        xs, ts = freeze(x), snap(th)
        try:
            r = fn(x, th)
        except Exception as e:  # noqa
            if kind == 'mismatch':
                if isinstance(e, ValueError):
                    obs.append('VE')
                else:
                    V(f'cmp:mismatch-wrong-exception:{type(e).__name__}', f'{what} {opn}: raised {type(e).__name__}: {e}')
                continue
            if kind == 'mismatch-any':
                if isinstance(e, (ValueError, TypeError)):
                    obs.append(type(e).__name__)
                else:
                    V(f'cmp:mismatch-wrong-exception:{type(e).__name__}', f'{what} {opn}: raised {type(e).__name__}: {e}')
                continue
            if kind == 'free' or (kind == 'okfree' and isinstance(e, (ValueError, TypeError))):
                obs.append(type(e).__name__)
                continue
            V(f'cmp:raises:{type(e).__name__}', f'{what} {opn}: raised {type(e).__name__}: {str(e)[:160]}')
            continue
        stats['cmp.evaluations'] = stats.get('cmp.evaluations', 0) + 1
        bad = invalid(r)
        if bad:
            V(f'closure:cmp:{bad}', f'{what} {opn}: result {show(r)}')
            continue
        if len(r) != len(S):
            # the statement: "always yields a valid binary_sequence of the same length" (for a threshold of another length
            # the library documents ValueError; a result of the signal's length would satisfy the statement as well)
            V('cmp:length', f'{what} {opn}: result length {len(r)} != {len(S)}')
            continue
        got = bits_in(r)
        obs.append(got)
        if kind.startswith('mismatch'):
            stats['cmp.mismatch-accepted-same-length'] = stats.get('cmp.mismatch-accepted-same-length', 0) + 1
        if not unchanged(x, xs) or not same(th, ts):
            V('operand-changed:cmp', f'{what} {opn}: an operand was modified')
        bufs = [x.signal] + ([x.noise] if x.noise is not None else []) + ([th] if isinstance(th, np.ndarray) else []) + \
               ([th.signal] if hasattr(th, 'signal') else [])
        if any(np.shares_memory(r.data, b) for b in bufs):
            V('alias:cmp:shared-memory', f'{what} {opn}: result shares memory with an operand')
        if kind in ('ok', 'okfree') and ref is not None:
            plain = tuple(int(v) for v in np.broadcast_to(fn(tot, ref) if not np.iscomplexobj(tot) else np.zeros(len(S), bool), (len(S),)))
            clause = in_class and not np.iscomplexobj(tot) and bool(np.all(S >= 0)) and bool(np.all(tot >= 0)) and bool(np.all(ref >= 0))
            if clause:
                stats['cmp.in-clause'] = stats.get('cmp.in-clause', 0) + 1
                if got != plain:
                    V(f'cmp:model:{opn}', f'{what} {opn}: got {got}, (S+N) {opn} th = {plain}')
                if N is not None:
                    noiseless = tuple(int(v) for v in np.broadcast_to(fn(S, ref), (len(S),)))
                    if noiseless != plain:
                        stats['cmp.noise-decides'] = stats.get('cmp.noise-decides', 0) + 1
            elif in_class and not np.iscomplexobj(tot) and bool(np.all(S >= 0)) and bool(np.all(ref >= 0)):
                stats['cmp.negative-total'] = stats.get('cmp.negative-total', 0) + 1
                if got != plain:
                    stats['cmp.negative-total.differs'] = stats.get('cmp.negative-total.differs', 0) + 1
    # the queries of the result-independent operand (cached-attribute class): len() of the signal object after the comparisons
    if x.len() != len(S) or len(x.signal) != len(S):
        V('operand-changed:cmp', f'{what}: the signal reports len()={x.len()} after the comparison')
    return tuple(obs)


def build_signal(Sw, Nw, sform):
    """the electrical_signal of the words Sw (signal) and Nw (noise or None) in the container / dtype form `sform`"""
    E = lib()[1]
    n = len(Sw)
    base, _, ndt_forced = sform.partition('|noise:')

    def cont(vals, isnoise):
        if base in ('list', 'slice', 'index') or base.startswith('list:dtype='):
            return list(vals)
        if base == 'tuple':
            return tuple(vals)
        if base == 'str':
            return ' '.join(str(v) for v in vals)
        if base == 'scalar':
            return vals[0]
        kind, _, dt = base.partition(':')
        dt = np.dtype(dt)
        if isnoise:
            if ndt_forced:
                dt = np.dtype(ndt_forced)
            elif dt.kind == 'b' or (dt.kind == 'u' and min(vals) < 0):
                dt = np.dtype('float64')        # a noise word that the signal's dtype cannot hold is given in float64
        if kind == 'npscalar':
            return dt.type(vals[0])
        return np.array(vals, dtype=dt)
    if base in ('slice', 'index'):
        big = E([9] + list(Sw) + [9]) if Nw is None else E([9] + list(Sw) + [9], [0] + list(Nw) + [0])
        return big[1] if base == 'index' else big[1:1 + n]
    kw = {}
    if base.startswith('list:dtype='):
        kw['dtype'] = np.dtype(base.split('=')[1]).type
    if Nw is None:
        return E(cont(Sw, False), **kw)
    return E(cont(Sw, False), cont(Nw, True), **kw)


def thin_noise(Na, n):
    """noise absent, all-zero, and every word with exactly one non-zero entry"""
    zero = 0 * Na[0]
    out = [None, tuple([zero] * n)]
    for pos in range(n):
        for v in Na:
            if v != zero:
                w = [zero] * n; w[pos] = v
                out.append(tuple(w))
    return out


def cmp_case(case):
    """case = (class, S word[, signal form]): every noise word (absent + alphabet^n; for a signal form other than 'list':
    absent, all-zero and the words with one non-zero entry) x every threshold form x {>, <}"""
    cls, Sw = case[0], case[1]
    sform = case[2] if len(case) > 2 else 'list'
    E = lib()[1]
    C = CMP[cls]
    Sa, Na = C['S'], C['N']
    n = len(Sw)
    viol, seenk, stats, obs = [], {}, {}, []

    def V(key, msg):
        if key not in seenk:
            seenk[key] = 1
            viol.append((key, msg))
    ths = thresholds(n, cls)
    nt = False
    noises = [None] + list(itertools.product(Na, repeat=n)) if sform == 'list' else thin_noise(Na, n)
    for Nw in noises:
        S = np.array(Sw)
        N = None if Nw is None else np.array(Nw)
        if sform == 'list':
            x = E(list(Sw)) if Nw is None else E(list(Sw), list(Nw))
        else:
            x = build_signal(Sw, Nw, sform)
        # the stored samples must be the words (a property of the electrical_signal constructor, not of C15: counted, not asserted)
        stored = np.asarray(x.signal).astype(complex) + (0 if x.noise is None else np.asarray(x.noise).astype(complex))
        if x.signal.shape != (n,) or not np.array_equal(stored, (S + N if N is not None else S).astype(complex)):
            stats['cmp.skipped-construction-differs'] = stats.get('cmp.skipped-construction-differs', 0) + 1
            continue
        # bool + bool is a logical OR in numpy: a boolean signal with boolean noise is not a case of the equality clause
        in_class = C['inclass'] and not (x.noise is not None and x.signal.dtype == np.bool_) and not np.iscomplexobj(x.signal)
        stats[f'cmp.signal-dtype.{x.signal.dtype}'] = stats.get(f'cmp.signal-dtype.{x.signal.dtype}', 0) + 1
        for label, mk, kind, ref in ths:
            th = mk()
            what = Lazy(lambda Nw=Nw, label=label: f'electrical_signal<{sform}>({list(Sw)}, noise={None if Nw is None else list(Nw)}) vs th={label}')
            obs.append(cmp_one(x, S, N, th, kind, ref, in_class, what, V, stats))
        # the signal compared with itself / with a copy of itself: the same object on both sides
        what = Lazy(lambda Nw=Nw: f'electrical_signal<{sform}>({list(Sw)}, noise={None if Nw is None else list(Nw)}) vs th=itself')
        obs.append(cmp_one(x, S, N, x, 'ok' if N is None else 'free', (S if N is None and not np.iscomplexobj(S) else None), in_class, what, V, stats))
    if stats.get('cmp.noise-decides') or stats.get('cmp.in-clause'):
        nt = (cls, Sw, sform)
    return res(viol=viol, obs=(cls, Sw, sform, tuple(obs)), nontrivial=nt, stats=stats)


LONG_KINDS = ('f64', 'f64+noise', 'f32', 'f32+noise', 'u8', 'u8+noise', 'i32', 'i32+noise(f64)')


def cmp_long_case(case):
    """seeded fields: float64 / float32 / uint8 / int32 samples, with and without noise (clipped so that S+N >= 0, integer
    noise small enough not to wrap), against scalar, ndarray, list, electrical_signal thresholds (fractional AND
    integer-valued) and a threshold of another length"""
    n, k, seed = case
    E = lib()[1]
    rng = np.random.RandomState((seed * 7919 + n * 31 + k) % (2 ** 31))
    kind = LONG_KINDS[k % len(LONG_KINDS)]
    noisy = '+noise' in kind
    if kind.startswith('f'):
        dt = np.float64 if kind.startswith('f64') else np.float32
        Sx = rng.random_sample(n).astype(dt)
        Nx = np.maximum(rng.normal(0, 0.2, n).astype(dt), -Sx) if noisy else None
        tharr = rng.random_sample(n)
        sc = 0.5
    elif kind.startswith('u8'):
        Sx = rng.randint(0, 200, n).astype(np.uint8)
        Nx = rng.randint(0, 50, n).astype(np.uint8) if noisy else None
        tharr = np.floor(rng.random_sample(n) * 250) + rng.randint(0, 2, n) * 0.5      # integers and half-integers: ties and floor(th) == sample occur
        sc = 99.5
    else:
        Sx = rng.randint(0, 1000, n).astype(np.int32)
        Nx = np.maximum(rng.normal(0, 20, n), -Sx.astype(float)) if noisy else None
        tharr = np.floor(rng.random_sample(n) * 1000) + rng.randint(0, 2, n) * 0.5
        sc = 499.5
    x = E(Sx.copy()) if Nx is None else E(Sx.copy(), Nx.copy())
    # model in the arithmetic of the stored dtype (one rounding of S+N in that dtype is what "signal+noise" is), compared in float64
    S = np.asarray(x.signal)
    N = None if Nx is None else np.asarray(x.noise)
    viol, seenk, stats, obs = [], {}, {}, []

    def V(key, msg):
        if key not in seenk:
            seenk[key] = 1
            viol.append((key, msg))
    if not (np.array_equal(S.astype(float), Sx.astype(float)) and (Nx is None or np.array_equal(N.astype(float), Nx.astype(x.noise.dtype).astype(float)))):
        return res(obs=(n, k, 'construction-differs'), stats={'cmp.skipped-construction-differs': 1})
    thint = np.floor(tharr)
    for label, th, tkind, ref in (('scalar', sc, 'ok', np.asarray(sc)), ('nd', tharr.copy(), 'ok', tharr),
                                  ('list', list(tharr), 'ok', tharr), ('E', E(tharr.copy()), 'ok', tharr),
                                  ('nd-f32', tharr.astype(np.float32), 'ok', tharr.astype(np.float32).astype(float)),
                                  ('nd-int', thint.astype(np.int64), 'ok', thint), ('tuple', tuple(tharr), 'ok', tharr),
                                  ('mismatch', np.full(n + 1, sc), 'mismatch', None), ('mismatch-1', np.full(n + 7, sc), 'mismatch', None)):
        o = cmp_one(x, S, N, th, tkind, ref, True, f'seeded field n={n} {kind} th={label}', V, stats)
        obs.append(tuple(hash(t) & 0xffffffff if isinstance(t, tuple) else t for t in o))
    import hashlib
    return res(viol=viol, obs=(n, k, hashlib.sha256(repr(obs).encode()).hexdigest()[:16]), nontrivial=(n, k), stats=stats)


def gv_case(case):
    """global-grid histories: nothing in the scope of this property reads `gv`; this part demonstrates the independence on
    the enumerated histories instead of assuming it: after every configuration call of a history a BFS expansion, a leaf
    construction sweep, an indexing sweep and two comparison cases are repeated; no violation may appear and the
    observations must be identical to those under the default grid."""
    from mcx.core.env import gv_reset
    hist = GV_HISTORIES[case]

    def observe():
        rs = (expand(('deep', 0b110, 'list', ())), leaf_case(0b101), cmp_case(('nonneg-int', (2,))), cmp_case(('nonneg', (0.25,))),
              index_case(0b101))
        return tuple(r['obs'] for r in rs), [v for r in rs for v in r['viol']]
    gv_reset()
    ref, _ = observe()
    viol = []
    for kw in hist:
        gv_reset(**kw)
        got, viols = observe()
        if viols:
            viol.append((viols[0][0], f'after gv history {hist}: {viols[0][1]}'))
        if got != ref:
            viol.append(('gv-dependence', f'after the gv history {hist} the observations of the binary_sequence algebra / comparison differ from the default grid'))
    gv_reset()
    import hashlib
    return res(viol=viol, obs=(case, hashlib.sha256(repr(ref).encode()).hexdigest()[:16]), nontrivial=case, stats={'gv.configurations': len(hist)})


GV_HISTORIES = [
    [dict(sps=8, R=1e9)], [dict(sps=16, fs=32e9)], [dict(R=2.5e9, fs=40e9)], [dict(sps=7, fs=33.3e9)], [dict(R=1.25e9, fs=13.7e9)],
    [dict(fs=77e9)], [dict(sps=8, R=10e9, wavelength=1310e-9)], [dict(sps=4, R=1e9, N=128)], [dict(sps=1, R=1e9)],
    [dict(sps=8, R=1e9), dict(sps=32, R=40e9, N=7)], [dict(fs=77e9), dict(sps=3, R=1e9)], [dict(sps=8, R=1e9, alpha=0.5, data=[0, 1])],
]


# ------------------------------------------------------------------ driver
def bfs(ctx, name, leaves, depth, expand_maxlen=None, xfull=True):
    """leaves: list of (code, form). Level 0 = the leaves (op set 'full'), level k+1 = the NEW canonical states produced
    by level k (op set 'deep'); every op is executed from every state of the levels < depth.  `expand_maxlen`: states
    of the levels >= 1 longer than this are recorded but not expanded (tier bound).  Returns (states, transitions)."""
    seen = set()
    frontier = []
    for code, form in leaves:
        seen.add(code * 4)
        frontier.append((code, form, ()))
    transitions = 0
    for level in range(depth):
        def mode_of(c):
            if level > 0:
                return 'deep'
            return 'xfull' if (xfull and c.bit_length() - 1 <= XFULL_MAXLEN) else 'full'
        cases = [(mode_of(c), c, f, p) for c, f, p in frontier]
        last = level == depth - 1
        payloads = ctx.pmap(f'{name}.level{level}', expand, cases, horizon=120, quiet=True)
        nxt = []
        nops = 0
        for (m, c, f, p), pl in zip(cases, payloads):
            ops = ops_for(m)
            nops += len(ops)
            if pl is None:
                continue
            succ, nt = pl
            transitions += nt
            for k, oi in succ:
                if k not in seen:
                    seen.add(k)
                    if not last and (expand_maxlen is None or (k >> 2).bit_length() - 1 <= expand_maxlen):
                        nxt.append((c, f, p + (ops[oi],)))
        print(f'[C15] {name} level {level}: expanded={len(frontier)} ops executed or refused={nops} states={len(seen)} '
              f'transitions={transitions} next={len(nxt)}', flush=True)
        frontier = nxt
        if not frontier:
            break
    return len(seen), transitions


def run(ctx):
    thorough = not ctx.quick
    l1max = None if thorough else 14
    ctx.rule('C15: (1) every word of length 0..12 constructed in every accepted container form (str plain/spaced/comma/comma+space/mixed '
             'separators, list/tuple of int, bool, float, -0.0, complex, numpy scalars, mixed element types, ndarray of every sample dtype '
             '[bool, int8..int64, uint8..uint64, float16/32/64, complex64/128, object], non-contiguous and negative-stride arrays, 17 scalar '
             'spellings for length 1) + unary ops from every form, len/ones/zeros asked before and after every op, and on never-queried objects; '
             '(2) BFS over expression programs: every op (a+w, w+a for w in every accepted form [4 str, 3 list/tuple, 4 ndarray, '
             'binary_sequence] of every word of length <= 4 at the first level, <= 2 deeper; ~a; 7 slices; a+a; a[:k]+a[k:], a+a[k:k], a[k:k]+a, '
             'a+~a, ~a+a (13 variants at the first level, 4 deeper); 18 invalid operands in both orders at the first level; from the leaves of length <= ' + str(XFULL_MAXLEN) + ' additionally every word of '
             f'length <= {XOPERAND_MAXLEN} in the {len(XSTR_FORMS) + len(XSEQ_FORMS)} extended operand forms, {len(XINVALID_OPERANDS)} further operands that must be refused and '
             f'{len(FREE_OPERANDS)} operands the statement is silent on) '
             'executed on the real object rebuilt by replaying its path from the leaf, in lock-step with a '
             'tuple-of-bits model; states deduplicated by canonical form (word, layout flags of .data); '
             + ('depth 2 from every leaf of length <= 12, plus depth 4 from the leaves of length <= 6 with its own visited set, plus the '
                'first-level expansion of the leaves of length <= 8 from EVERY container form; ' if thorough else
                'quick: depth 1 from every leaf of length <= 12 and depth 2 from the leaves of length <= 10 (second-level states up to length 14); ')
             + '(3) table + generated invalid constructions (one non-binary value in every container context and dtype, boundary values of '
             'every dtype, invalid string tokens with every separator, every non-1-D shape, ragged / nested containers, non-data objects) and '
             'constructions the statement is silent on; (4) long words up to 65537 bits (fixed patterns + seeded content); '
             '(5) x > th, x < th over value alphabets ^ n (n <= ' + ('3' if thorough else '2') + ') x every noise word x threshold forms, '
             'scaled / offset / extreme-value classes, and a signal container / dtype axis; (6) every integer index (8 integer kinds) and every '
             'slice start:stop:step of every word of length <= ' + ('9' if thorough else '6') + '; (7) never-queried operands x the deep op set; '
             '(8) the same cases after 12 global-grid histories')
    ctx.assume('the behaviour of a binary_sequence depends only on its .data array (bytes, dtype, shape, contiguity/alignment flags), which is '
               'what the canonical form records; execution_time is ignored')
    ctx.assume('comparison clause read conservatively: equality with (S+N) > th is demanded only where S >= 0, S+N >= 0 and th >= 0 '
               '(all real); elsewhere only validity and length (cases with S >= 0 but S+N < 0 are counted in stats cmp.negative-total*); a boolean '
               'signal with boolean noise (numpy: + is OR) is outside the clause; a threshold of another length: ValueError or a result of the '
               "signal's length")
    ctx.assume('a[0] / a[-1] on the empty sequence and every out-of-range integer index: the statement is silent, any exception accepted; '
               'the empty string is not an accepted spelling; inputs listed as "free" (tab/newline separators, doubled separators, float / signed / '
               'complex spellings of 0 and 1 in strings, range, bytearray, sets, generators, lists of strings, binary_sequence / electrical_signal '
               'objects, scalar operands of +): ValueError/TypeError or a valid sequence')
    # -- regression case for the known defect (ndarray on the left of +)
    ctx.run_case('regress', expand, ('deep', 0b110, 'list', ()))

    # (3) invalid constructions
    inv = invalid_constructions()
    ctx.pmap('invalid-constructions', invalid_construction_case, inv, horizon=60)

    # (1) leaves
    leaves = list(words(MAXLEAF))
    pl = ctx.pmap('leaves', leaf_case, leaves, horizon=60)
    leaf_keys = set()
    for x in pl:
        leaf_keys.update(x or [])
    ctx.extra['leaf_canonical_forms'] = len(leaf_keys)

    # (6) indexing, (7) never-queried operands
    ctx.pmap('indexing', index_case, list(words(9 if thorough else 6)), horizon=120)

    def rr(code):
        f = forms_for(code.bit_length() - 1, leaf=True, ext=True)
        return f[code % len(f)]
    ctx.pmap('cold', cold_case, [(c, rr(c)) for c in words(10 if thorough else 8)], horizon=60)

    # (2) BFS from every leaf; the starting object is built from one form per leaf (round-robin over the forms; every
    # form was verified in (1) to give the identical canonical object)
    st, tr = bfs(ctx, 'bfs', [(c, rr(c)) for c in leaves], depth=2, expand_maxlen=l1max)
    ctx.graph(states=st, transitions=tr)
    ctx.extra['bfs_all_leaves'] = {'leaves': len(leaves), 'depth': 2, 'second_level_maxlen': l1max, 'states': st, 'transitions': tr,
                                   'ops_per_state': {m: len(ops_for(m)) for m in ('xfull', 'full', 'deep')}}
    if thorough:
        cases = [('full', c, f, ()) for c in words(8) for f in forms_for(c.bit_length() - 1, leaf=True, ext=True)]
        pls = ctx.pmap('bfs-everyform.level0', expand, cases, horizon=120, quiet=True)
        tr2 = sum(p[1] for p in pls if p)
        ctx.graph(states=0, transitions=tr2)
        ctx.extra['bfs_every_form'] = {'starts': len(cases), 'transitions': tr2}
        print(f'[C15] every-form level 0: starts={len(cases)} transitions={tr2}', flush=True)
        st6, tr6 = bfs(ctx, 'deep6', [(c, rr(c)) for c in words(6)], depth=4, xfull=False)
        ctx.graph(states=0, transitions=tr6)
        ctx.extra['bfs_deep6'] = {'leaves': 127, 'depth': 4, 'states': st6, 'transitions': tr6}

    # (4) long words
    longs = []
    xf = ['str_mix', 'list_np', 'list_complex', 'list_negzero', 'tuple_bool', 'nd_i8', 'nd_f16', 'nd_f32', 'nd_c64', 'nd_u64', 'nd_obj',
          'nd_strided', 'nd_rev']
    j = 0
    for n in (13, 31, 64, 97, 127, 255, 256, 257, 1000, 1023, 1024, 1025, 4095, 4096, 4097, 65535, 65536, 65537):
        for kind in ('zeros', 'ones', 'alt', 'rnd0', 'rnd1'):
            if n <= 4097:
                forms = ['str', 'list', 'nd_bool', 'nd_u8', 'nd_float'] + ([xf[(j + i) % len(xf)] for i in range(3)] if not thorough else xf)
                j += 3
            else:
                forms = ['nd_u8', 'str', 'nd_f32', 'nd_strided']
            for form in forms:
                longs.append((n, kind, ctx.seed, form))
    ctx.pmap('long-words', long_case, longs, horizon=120)

    # (5) comparisons
    cm = []
    for n in ((1, 2, 3) if thorough else (1, 2)):
        for cls in ('nonneg', 'nonneg-int', 'signed', 'complex'):
            for Sw in itertools.product(CMP[cls]['S'], repeat=n):
                cm.append((cls, Sw))
    # scale / offset / extreme-value classes
    for n in ((1, 2) if thorough else (1,)):
        for cls in ('nonneg-tiny', 'nonneg-big'):
            for Sw in itertools.product(CMP[cls]['S'], repeat=n):
                cm.append((cls, Sw))
    for n in (1, 2):
        for cls in ('nonneg-offset', 'nonneg-extreme'):
            for Sw in itertools.product(CMP[cls]['S'], repeat=n):
                cm.append((cls, Sw))
    ctx.pmap('compare', cmp_case, cm, horizon=120)
    # signal container / dtype axis: every word of length 1; length 2: two words covering the alphabet (quick) / every word (thorough)
    cf = []
    for n in (1, 2):
        for cls, forms in SIG_FORMS.items():
            Sa = CMP[cls]['S']
            ws = list(itertools.product(Sa, repeat=n)) if (n == 1 or thorough) else [(Sa[1], Sa[2]), (Sa[3], Sa[0])]
            for Sw in ws:
                for sf in forms:
                    if n > 1 and (sf in ('scalar', 'index') or sf.startswith('npscalar')):
                        continue
                    if sf.startswith('nd:bool') and max(Sw) > 1:
                        continue
                    cf.append((cls, Sw, sf))
    ctx.pmap('compare-forms', cmp_case, cf, horizon=120)
    ctx.pmap('compare-long', cmp_long_case, [(n, k, ctx.seed) for n in (1, 2, 3, 13, 16, 127, 1000, 1023, 1024, 1025, 4096, 4097)
                                             for k in range(len(LONG_KINDS))], horizon=60)
    # (8) global-grid histories
    ctx.pmap('gv-histories', gv_case, list(range(len(GV_HISTORIES))), horizon=120)
