"""C15 - binary_sequence is a closed, immutable-by-operation algebra over {0,1}.

Explicit-state BFS over expression programs built from `a + w`, `w + a`, `~a` and slices, every
transition executed on the REAL objects (the state object is rebuilt by replaying its path from a
leaf) in lock-step with a list-of-bits model.  States are deduplicated by their canonical form
(bit tuple + memory-layout flags of `.data`).  Plus: exhaustive leaf constructions (every word of
length 0..12 in every container form), tables of invalid constructions / operands, long words,
and the threshold comparison of electrical_signal (`>`/`<`).
"""
from __future__ import annotations
import itertools
from functools import lru_cache
import numpy as np

from mcx.core.kernel import res
from mcx.core.env import freeze, unchanged

ID = 'C15'
LEVEL = 'model_checking'
NONTRIVIAL = ('states whose word has length >= 2 and contains both a 0 and a 1 (order, inversion and slicing are '
              'distinguishable); comparison cases where noise or the threshold changes at least one decision')

MAXLEAF = 12
_LIB = {}


def lib():
    if not _LIB:
        from opticomlib.typing import binary_sequence, electrical_signal
        _LIB['B'] = binary_sequence
        _LIB['E'] = electrical_signal
    return _LIB['B'], _LIB['E']


# ------------------------------------------------------------------ words / canonical forms
class Lazy:
    """message text that is only formatted if a violation is actually reported"""
    __slots__ = ('f',)

    def __init__(self, f):
        self.f = f

    def __str__(self):
        return self.f()

    def __format__(self, spec):
        return self.f()


@lru_cache(maxsize=1 << 14)
def bits_of(code):
    return tuple(int(c) for c in bin(code)[3:])


def code_of(bits):
    c = 1
    for b in bits:
        c = (c << 1) | (1 if b else 0)
    return c


def words(maxlen, minlen=0):
    """all words, shortest first, lexicographic inside a length"""
    for n in range(minlen, maxlen + 1):
        for v in range(1 << n):
            yield (1 << n) | v


def key_of(d):
    """canonical form of a valid sequence: word code and two layout flags of .data"""
    c = 1
    for b in d.tobytes():
        c = (c << 1) | b
    sig = (0 if d.flags.c_contiguous else 1) | (0 if d.flags.aligned else 2)
    return c * 4 + sig


STR_FORMS = ['str', 'str_sp', 'str_cm', 'str_cmsp']
SEQ_FORMS = ['list', 'tuple', 'list_bool', 'nd_bool', 'nd_int', 'nd_float', 'nd_u8']
SCALAR_FORMS = ['sc_int', 'sc_bool', 'sc_float', 'sc_npint', 'sc_npbool']
ND = {'nd_bool': np.bool_, 'nd_int': np.int64, 'nd_float': np.float64, 'nd_u8': np.uint8}


def forms_for(n, leaf):
    """accepted container forms of a word of length n (the empty *string* is not an accepted spelling)"""
    f = list(SEQ_FORMS)
    if n >= 1:
        f = STR_FORMS + f
    if leaf:
        if n == 1:
            f = f + SCALAR_FORMS
    else:
        f = f + ['bseq']
    return f


def make(bits, form):
    s = ''.join('1' if b else '0' for b in bits)
    if form == 'str': return s
    if form == 'str_sp': return ' '.join(s)
    if form == 'str_cm': return ','.join(s)
    if form == 'str_cmsp': return ', '.join(s)
    if form == 'list': return [int(b) for b in bits]
    if form == 'tuple': return tuple(int(b) for b in bits)
    if form == 'list_bool': return [bool(b) for b in bits]
    if form in ND: return np.array(bits, dtype=ND[form])
    if form == 'bseq': return lib()[0](np.array(bits, dtype=np.uint8))
    if form == 'sc_int': return int(bits[0])
    if form == 'sc_bool': return bool(bits[0])
    if form == 'sc_float': return float(bits[0])
    if form == 'sc_npint': return np.int64(bits[0])
    if form == 'sc_npbool': return np.bool_(bits[0])
    raise KeyError(form)


def snap(obj):
    if isinstance(obj, list):
        return ('list', list(obj), [type(x) for x in obj])
    if isinstance(obj, np.ndarray) or isinstance(obj, lib()):
        return ('buf', freeze(obj))
    return ('imm', repr(obj))


def same(obj, s):
    if s[0] == 'list':
        return obj == s[1] and [type(x) for x in obj] == s[2]
    if s[0] == 'buf':
        return unchanged(obj, s[1])
    return repr(obj) == s[1]


# ------------------------------------------------------------------ validity of a result
def invalid(r):
    """None if r is a valid binary_sequence, else the name of the broken clause"""
    B = lib()[0]
    if not isinstance(r, B):
        return 'not-a-sequence'
    d = getattr(r, 'data', None)
    if not isinstance(d, np.ndarray):
        return 'data-not-ndarray'
    if d.ndim != 1:
        return 'data-not-1d'
    if d.dtype != np.uint8:
        return 'data-not-uint8'
    if d.tobytes().strip(b'\x00\x01'):
        return 'values-outside-01'
    return None


def show(r):
    """printable form of a result (never a memory address)"""
    if isinstance(r, lib()[0]):
        d = getattr(r, 'data', None)
        return f'binary_sequence(data={d!r})'
    return f'{type(r).__name__} {r!r}'[:200]


def bits_in(r):
    return tuple(r.data.tobytes())


def shares(r, obj):
    d = getattr(obj, 'data', obj) if not isinstance(obj, np.ndarray) else obj
    return isinstance(d, np.ndarray) and np.shares_memory(r.data, d)


# ------------------------------------------------------------------ operations
SLICES = [('[0]', 0), ('[-1]', -1), ('[1:]', slice(1, None)), ('[:-1]', slice(None, -1)),
          ('[::2]', slice(None, None, 2)), ('[::-1]', slice(None, None, -1)), ('[:]', slice(None))]

INVALID_OPERANDS = [
    ('5', lambda: 5), ('2.0', lambda: 2.0), ('[2]', lambda: [2]), ("'2'", lambda: '2'),
    ('[[0,1]]', lambda: [[0, 1]]), ('[[0,1],[1,0]]', lambda: [[0, 1], [1, 0]]),
    ('nd[[0,1]]', lambda: np.array([[0, 1]])), ('nd[2]', lambda: np.array([2])), ('nd[0.5]', lambda: np.array([0.5])),
    ('(0,2)', lambda: (0, 2)), ('[0.5]', lambda: [0.5]), ("'abc'", lambda: 'abc'), ('None', lambda: None), ('-1', lambda: -1),
    ("'1 0; 0 1'", lambda: '1 0; 0 1'), ('[1,2]', lambda: [1, 2]), ("'012'", lambda: '012'), ('[-1]', lambda: [-1]),
]

_OPS = {}


def ops_for(mode):
    """deterministic list of op descriptors. 'full': w of length <= 4, 'deep': w of length <= 2"""
    if mode in _OPS:
        return _OPS[mode]
    wl = 4 if mode == 'full' else 2
    ops = [('~',)] + [('[]', k) for k in range(len(SLICES))] + [('++',)]
    for wc in words(wl):
        n = wc.bit_length() - 1
        for f in forms_for(n, leaf=False):
            ops.append(('+', wc, f))
            ops.append(('r+', wc, f))
    if mode == 'full':
        for k in range(len(INVALID_OPERANDS)):
            ops.append(('bad+', k))
            ops.append(('badr+', k))
    _OPS[mode] = ops
    return ops


_W = {}


def operand(wc, form):
    """operand containers are built once per process, write-protected where they have a buffer, and verified
    unchanged after every use (rebuilt if the library touched them)"""
    k = (wc, form)
    if k not in _W:
        o = make(bits_of(wc), form)
        _W[k] = (o, snap(o))
    return _W[k]


def model_apply(bits, op):
    t = op[0]
    if t == '~':
        return tuple(1 - b for b in bits)
    if t == '[]':
        idx = SLICES[op[1]][1]
        if isinstance(idx, int):
            return (bits[idx],)      # IndexError on the empty word, as for any python sequence
        return tuple(bits[idx])
    if t == '+':
        return bits + bits_of(op[1])
    if t == 'r+':
        return bits_of(op[1]) + bits
    if t == '++':
        return bits + bits
    raise KeyError(op)


def real_apply(a, op):
    t = op[0]
    if t == '~':
        return ~a
    if t == '[]':
        return a[SLICES[op[1]][1]]
    if t == '+':
        return a + operand(op[1], op[2])[0]
    if t == 'r+':
        return operand(op[1], op[2])[0] + a
    if t == '++':
        return a + a
    raise KeyError(op)


def op_name(op):
    t = op[0]
    if t == '~': return '~a'
    if t == '++': return 'a + a'
    if t == '[]': return 'a' + SLICES[op[1]][0]
    if t in ('+', 'r+'):
        w = ''.join(map(str, bits_of(op[1])))
        return f"a + <{op[2]} {w!r}>" if t == '+' else f"<{op[2]} {w!r}> + a"
    if t == 'bad+': return f'a + {INVALID_OPERANDS[op[1]][0]}'
    if t == 'badr+': return f'{INVALID_OPERANDS[op[1]][0]} + a'
    return repr(op)


OPK = {'~': 'invert', '[]': 'getitem', '+': 'add', 'r+': 'radd', '++': 'add'}


def build_leaf(code, form):
    B = lib()[0]
    return B(make(bits_of(code), form))


def replay(leaf_code, leaf_form, path):
    a = build_leaf(leaf_code, leaf_form)
    bits = bits_of(leaf_code)
    for op in path:
        a = real_apply(a, op)
        bits = model_apply(bits, op)
    return a, bits


def expr(leaf_code, leaf_form, path):
    s = f"binary_sequence(<{leaf_form} {''.join(map(str, bits_of(leaf_code)))!r}>)"
    for op in path:
        t = op[0]
        if t == '~':
            s = f'~{s}'
        elif t == '++':
            s = f'({s} + {s})'
        elif t == '[]':
            s = f'{s}{SLICES[op[1]][0]}'
        else:
            w = f"<{op[2]} {''.join(map(str, bits_of(op[1])))!r}>"
            s = f'({s} + {w})' if t == '+' else f'({w} + {s})'
    return s


def state_laws(a, bits, V, where):
    """laws every sequence obeys by itself"""
    n = len(bits)
    try:
        ln, ln2, on, ze = len(a), a.len(), a.ones(), a.zeros()
    except Exception as e:  # noqa
        V('law:ones-zeros-len', f'{where}: len/ones/zeros raised {type(e).__name__}: {e}')
        return
    if ln != n or ln2 != n:
        V('model:len', f'{where}: len()={ln}/{ln2}, model {n}')
    if not (on + ze == ln):
        V('law:ones-zeros-len', f'{where}: ones()={on} zeros()={ze} len()={ln}')
    if not (on == sum(bits) and ze == n - sum(bits)):
        V('model:ones-zeros', f'{where}: ones()={on} zeros()={ze}, model {sum(bits)}/{n - sum(bits)}')


def expand(case):
    """case = (mode, leaf_code, leaf_form, path): rebuild the state by replaying `path` on the real objects, then
    execute EVERY op of the op set `mode` from it and check each result against the model and the laws."""
    mode, leaf_code, leaf_form, path = case
    B = lib()[0]
    viol, seenk = [], {}
    stats = {}

    def V(key, msg):
        stats['viol.' + key] = stats.get('viol.' + key, 0) + 1
        if key not in seenk:
            seenk[key] = 1
            viol.append((key, msg))

    here = expr(leaf_code, leaf_form, path)
    a, bits = replay(leaf_code, leaf_form, path)
    bad = invalid(a)
    if bad or bits_in(a) != bits:
        # the transition that produced this state already reported it; nothing can be built on it
        return res(viol=[('replay:state-differs', f'{here}: replayed state is {bad or bits_in(a)}, model {bits}')],
                   obs=('REPLAY', bad), payload=([], 0))
    n = len(bits)
    a_snap = freeze(a)          # operand write-protected for the whole expansion
    a_id_data = a.data
    a_bytes = a_id_data.tobytes()

    def a_same():
        d = a.data
        return d is a_id_data and d.dtype == np.uint8 and d.shape == (n,) and d.tobytes() == a_bytes
    state_laws(a, bits, V, here)

    succ = {}                   # key -> index of the first op producing it
    obs = []
    ntrans = 0
    nd_broken = False           # after the first `radd:ndarray-left` failure of this case the remaining ndarray-left ops
                                # are skipped (counted): numpy's failing coercion costs ~0.3 ms per element and op
    ops = ops_for(mode)
    for oi, op in enumerate(ops):
        t = op[0]
        what = Lazy(lambda op=op: f'{here} :: {op_name(op)}')
        # ---------------------------------------------------------------- operands that must be refused
        if t in ('bad+', 'badr+'):
            label, mk = INVALID_OPERANDS[op[1]]
            w = mk()
            ndleft = t == 'badr+' and isinstance(w, np.ndarray)
            if ndleft and nd_broken:
                stats['skipped.ndarray-left-after-failure'] = stats.get('skipped.ndarray-left-after-failure', 0) + 1
                continue
            try:
                r = (a + w) if t == 'bad+' else (w + a)
            except (ValueError, TypeError) as e:
                obs.append('R')
            except Exception as e:  # noqa
                V(f'invalid-operand:wrong-exception:{type(e).__name__}', f'{what}: raised {type(e).__name__}: {e}')
                obs.append('X')
            else:
                V('radd:ndarray-left' if ndleft else 'invalid-operand:accepted',
                  f'{what}: no exception, returned {show(r)}')
                nd_broken = nd_broken or ndleft
                obs.append('A')
            if not a_same():
                V('operand-changed:invalid-operand', f'{what}: left operand modified')
                a, bits = replay(leaf_code, leaf_form, path); a_snap = freeze(a); a_id_data = a.data
            stats['ops.invalid-operand'] = stats.get('ops.invalid-operand', 0) + 1
            continue
        # ---------------------------------------------------------------- valid ops
        opk = OPK[t]
        other = osnap = None
        if t in ('+', 'r+'):
            other, osnap = operand(op[1], op[2])
        ndleft = t == 'r+' and isinstance(other, np.ndarray)
        if ndleft and nd_broken:
            stats['skipped.ndarray-left-after-failure'] = stats.get('skipped.ndarray-left-after-failure', 0) + 1
            continue
        try:
            exp = model_apply(bits, op)
        except IndexError:
            exp = None          # a[0] / a[-1] on the empty sequence: the statement is silent
        try:
            r = real_apply(a, op)
        except Exception as e:  # noqa
            if exp is None and isinstance(e, IndexError):
                obs.append('IndexError')
                continue
            V('radd:ndarray-left' if ndleft else f'raises:{opk}:{type(e).__name__}',
              f'{what}: raised {type(e).__name__}: {str(e)[:160]}')
            nd_broken = nd_broken or ndleft
            obs.append(('EXC', type(e).__name__))
            if not a_same():
                V(f'operand-changed:{opk}:self', f'{what}: operand modified')
                a, bits = replay(leaf_code, leaf_form, path); a_snap = freeze(a); a_id_data = a.data
            continue
        ntrans += 1
        stats['ops.' + opk] = stats.get('ops.' + opk, 0) + 1
        bad = invalid(r)
        if bad:
            V('radd:ndarray-left' if ndleft else f'closure:{opk}:{bad}',
              f'{what}: result {show(r)}')
            nd_broken = nd_broken or ndleft
            obs.append(('INVALID', bad))
        else:
            got = bits_in(r)
            obs.append(got)
            if exp is not None and got != exp:
                V(f'model:{opk}', f'{what}: got {got}, model {exp}')
            k = key_of(r.data)
            if k not in succ:
                succ[k] = oi
            # new object, no shared memory
            if r is a or r.data is a_id_data:
                V(f'alias:{opk}:same-object', f'{what}: result is the operand itself')
            elif np.shares_memory(r.data, a_id_data):
                V(f'alias:{opk}:shared-memory', f'{what}: result.data shares memory with the operand')
            if other is not None and shares(r, other):
                V(f'alias:{opk}:shared-memory-other', f'{what}: result.data shares memory with the other operand')
            if exp is not None:
                state_laws(r, exp, V, what)
            # algebraic laws, with the library's own == and slicing
            try:
                if t == '+':
                    if len(r) != len(a) + len(bits_of(op[1])):
                        V('law:len-add', f'{what}: len {len(r)} != {len(a)} + {len(bits_of(op[1]))}')
                    if (r[:len(a)] == a) is not True:
                        V('law:prefix', f'{what}: (a+b)[:len(a)] == a is not True; (a+b)={bits_in(r)}')
                elif t == 'r+':
                    lw = len(bits_of(op[1]))
                    if len(r) != len(a) + lw:
                        V('law:len-add', f'{what}: len {len(r)} != {lw} + {len(a)}')
                    if (r[:lw] == other) is not True:
                        V('law:prefix', f'{what}: (w+a)[:len(w)] == w is not True; (w+a)={bits_in(r)}')
                elif t == '++':
                    if len(r) != 2 * len(a):
                        V('law:len-add', f'{what}: len {len(r)} != 2 * {len(a)}')
                    if (r[:len(a)] == a) is not True:
                        V('law:prefix', f'{what}: (a+a)[:len(a)] == a is not True; (a+a)={bits_in(r)}')
                elif t == '~':
                    rr = ~r
                    if invalid(rr) or (rr == a) is not True or bits_in(rr) != bits:
                        V('law:double-invert', f'{what}: ~~a = {show(rr)} != a')
                    if not (r.ones() == a.zeros()):
                        V('law:ones-invert', f'{what}: ones(~a)={r.ones()} zeros(a)={a.zeros()}')
            except Exception as e:  # noqa
                V(f'law:raises:{opk}', f'{what}: checking the law raised {type(e).__name__}: {str(e)[:160]}')
        # operands unchanged
        if not a_same():
            V(f'operand-changed:{opk}:self', f'{what}: operand modified')
            a, bits = replay(leaf_code, leaf_form, path); a_snap = freeze(a); a_id_data = a.data
        if other is not None and not same(other, osnap):
            V(f'operand-changed:{opk}:other', f'{what}: the other operand was modified')
            _W.pop((op[1], op[2]), None)
    if not unchanged(a, a_snap):
        V('operand-changed:any:self', f'{here}: operand differs after the expansion')
    nt = code_of(bits) if (n >= 2 and 0 < sum(bits) < n) else False
    return res(viol=viol, obs=(bits, tuple(obs)), nontrivial=nt, stats=stats,
               payload=(sorted(succ.items()), ntrans))


# ------------------------------------------------------------------ leaves: every word in every container form
def leaf_case(case):
    """case = word code (length <= 12). Construct it in every accepted form, check validity / model / independence of
    the input buffer, and run the unary ops + laws from every form."""
    code = case
    B = lib()[0]
    bits = bits_of(code)
    n = len(bits)
    viol, seenk, stats, obs = [], {}, {}, []

    def V(key, msg):
        if key not in seenk:
            seenk[key] = 1
            viol.append((key, msg))
    keys = set()
    for form in forms_for(n, leaf=True):
        src = make(bits, form)
        ssnap = snap(src)
        what = f'binary_sequence(<{form}> {src!r})'
        try:
            a = B(src)
        except Exception as e:  # noqa
            V(f'construct:raises:{form}', f'{what}: raised {type(e).__name__}: {str(e)[:160]}')
            obs.append((form, 'EXC', type(e).__name__))
            continue
        stats['constructions'] = stats.get('constructions', 0) + 1
        bad = invalid(a)
        if bad:
            V(f'closure:construct:{bad}', f'{what}: data {getattr(a, "data", None)!r}')
            obs.append((form, bad))
            continue
        if bits_in(a) != bits:
            V('model:construct', f'{what}: got {bits_in(a)}')
        if not same(src, ssnap):
            V('operand-changed:construct', f'{what}: the input container was modified')
        if isinstance(src, np.ndarray) and np.shares_memory(a.data, src):
            V('alias:construct:shared-memory', f'{what}: data shares memory with the input array')
        keys.add(key_of(a.data))
        obs.append((form, bits_in(a), a.data.flags.c_contiguous, a.data.flags.owndata))
        state_laws(a, bits, V, what)
        # unary ops from this very object
        snap_a = freeze(a)
        for op in [('~',)] + [('[]', k) for k in range(len(SLICES))]:
            try:
                exp = model_apply(bits, op)
            except IndexError:
                exp = None
            try:
                r = real_apply(a, op)
            except Exception as e:  # noqa
                if not (exp is None and isinstance(e, IndexError)):
                    V(f'raises:{OPK[op[0]]}:{type(e).__name__}', f'{what} :: {op_name(op)}: raised {type(e).__name__}: {e}')
                continue
            stats['leaf-unary-ops'] = stats.get('leaf-unary-ops', 0) + 1
            bad = invalid(r)
            if bad:
                V(f'closure:{OPK[op[0]]}:{bad}', f'{what} :: {op_name(op)}: {show(r)}')
                continue
            if exp is not None and bits_in(r) != exp:
                V(f'model:{OPK[op[0]]}', f'{what} :: {op_name(op)}: got {bits_in(r)}, model {exp}')
            if r is a or np.shares_memory(r.data, a.data):
                V(f'alias:{OPK[op[0]]}:shared-memory', f'{what} :: {op_name(op)}: shares memory with the operand')
            if not unchanged(a, snap_a):
                V(f'operand-changed:{OPK[op[0]]}:self', f'{what} :: {op_name(op)}: operand modified')
                break
    stats['leaf.layout-variants'] = max(0, len(keys) - 1)
    return res(viol=viol, obs=tuple(obs), nontrivial=(code if n >= 2 and 0 < sum(bits) < n else False), stats=stats,
               payload=sorted(keys))


# ------------------------------------------------------------------ invalid constructions
def invalid_constructions():
    out = [("'012'", '012'), ('[0,2]', [0, 2]), ('[[0,1],[1,0]]', [[0, 1], [1, 0]]), ('[[0,1]]', [[0, 1]]),
           ("'1 0; 0 1'", '1 0; 0 1'), ('1.5', 1.5), ('[0.5]', [0.5]), ("'abc'", 'abc'), ('None', None), ('-1', -1),
           ('2', 2), ('[None]', [None]), ("'0.5'", '0.5'), ("'-1'", '-1'), ('[-1]', [-1]), ('nan', float('nan')),
           ('[nan]', [float('nan')]), ("'1;0'", '1;0'), ('[[1]]', [[1]]), ('nd[[1]]', ('nd', [[1]])), ('[[]]', [[]]),
           ('[[[0]]]', [[[0]]]), ("['a']", ['a']), ('0.5', 0.5), ('255', 255), ('256', 256), ('[256]', [256]), ('[257]', [257]),
           ('[1,256]', [1, 256]), ('-255', -255), ('[-255]', [-255]), ('nd_u8[2]', ('nd8', [2])), ('nd_u8[255]', ('nd8', [255])),
           ('1e-9', 1e-9), ('[1.0000001]', [1.0000001]), ('2.0', 2.0)]
    # every word of length <= 4 over {0,1,2} that contains a 2, in five container forms
    for n in range(1, 5):
        for w in itertools.product((0, 1, 2), repeat=n):
            if 2 not in w:
                continue
            s = ''.join(map(str, w))
            out += [(f"'{s}'", s), (f"'{' '.join(s)}'", ' '.join(s)), (f'list{list(w)}', list(w)), (f'tuple{w}', tuple(w)),
                    (f'nd{list(w)}', ('nd', list(w)))]
    # one bad element (-1, 0.5) at each position of the words of length <= 3
    for n in range(1, 4):
        for w in itertools.product((0, 1), repeat=n):
            for pos in range(n):
                for badv in (-1, 0.5):
                    x = list(w); x[pos] = badv
                    out += [(f'list{x}', x), (f'nd{x}', ('nd', x))]
    # 2-D spellings of binary words
    for n in range(1, 3):
        for w in itertools.product((0, 1), repeat=n):
            s = ' '.join(map(str, w))
            out += [(f'[[{s}]]2d', [list(w)]), (f'[[w],[w]]{w}', [list(w), list(w)]), (f"'{s}; {s}'", f'{s}; {s}'),
                    (f'nd2d{w}', ('nd', [list(w), list(w)]))]
    return out


def invalid_construction_case(case):
    label, x = case
    B = lib()[0]
    if isinstance(x, tuple) and len(x) == 2 and x[0] in ('nd', 'nd8'):
        x = np.array(x[1], dtype=np.uint8 if x[0] == 'nd8' else None)
    try:
        r = B(x)
    except (ValueError, TypeError) as e:
        return res(obs=(label, type(e).__name__), nontrivial=label)
    except Exception as e:  # noqa
        return res(viol=[(f'invalid-construction:wrong-exception:{type(e).__name__}', f'binary_sequence({label}) raised {type(e).__name__}: {e}')],
                   obs=(label, type(e).__name__))
    return res(viol=[('invalid-construction:accepted', f'binary_sequence({label}) did not raise; data={getattr(r, "data", None)!r}')],
               obs=(label, 'accepted'))


# ------------------------------------------------------------------ long words
def long_content(n, kind, seed):
    if kind == 'zeros': return np.zeros(n, dtype=np.uint8)
    if kind == 'ones': return np.ones(n, dtype=np.uint8)
    if kind == 'alt': return (np.arange(n) % 2).astype(np.uint8)
    rng = np.random.RandomState((seed * 1000003 + n * 7 + int(kind[3:])) % (2 ** 31))
    return rng.randint(0, 2, n).astype(np.uint8)


def long_case(case):
    n, kind, seed, form = case
    B = lib()[0]
    w = long_content(n, kind, seed)
    bits = tuple(int(b) for b in w)
    src = make(bits, form)
    viol, seenk, stats = [], {}, {}

    def V(key, msg):
        if key not in seenk:
            seenk[key] = 1
            viol.append((key, msg))
    what = f'long word n={n} {kind} <{form}>'
    a = B(src)
    bad = invalid(a)
    if bad or bits_in(a) != bits:
        return res(viol=[(f'closure:construct:{bad}' if bad else 'model:construct', f'{what}: construction wrong')], obs=(n, kind, form, 'bad'))
    state_laws(a, bits, V, what)
    sa = freeze(a)
    obs = []
    ops = [('~',)] + [('[]', k) for k in range(len(SLICES))]
    for wc in (1, 2, 3, 0b101, 0b110):
        for f in ('str', 'list', 'nd_bool', 'bseq'):
            if wc == 1 and f == 'str':
                continue
            ops.append(('+', wc, f))
            if f != 'nd_bool' or n <= 4097:     # a failing numpy coercion (ndarray on the left) costs ~0.4 ms per element
                ops.append(('r+', wc, f))
    nd_broken = False
    for op in ops:
        ndleft = op[0] == 'r+' and op[2].startswith('nd')
        if ndleft and nd_broken:
            stats['skipped.ndarray-left-after-failure'] = stats.get('skipped.ndarray-left-after-failure', 0) + 1
            continue
        exp = model_apply(bits, op)
        try:
            r = real_apply(a, op)
        except Exception as e:  # noqa
            V('radd:ndarray-left' if ndleft else f'raises:{OPK[op[0]]}:{type(e).__name__}', f'{what} :: {op_name(op)}: {type(e).__name__}: {str(e)[:120]}')
            nd_broken = nd_broken or ndleft
            continue
        bad = invalid(r)
        if bad:
            V('radd:ndarray-left' if ndleft else f'closure:{OPK[op[0]]}:{bad}', f'{what} :: {op_name(op)}')
            nd_broken = nd_broken or ndleft
            continue
        stats['long-ops'] = stats.get('long-ops', 0) + 1
        if bits_in(r) != exp:
            V(f'model:{OPK[op[0]]}', f'{what} :: {op_name(op)}: differs from the model')
        if np.shares_memory(r.data, a.data):
            V(f'alias:{OPK[op[0]]}:shared-memory', f'{what} :: {op_name(op)}')
        state_laws(r, exp, V, f'{what} :: {op_name(op)}')
        if op[0] == '~':
            if bits_in(~r) != bits or ((~r) == a) is not True:
                V('law:double-invert', what)
            if not (r.ones() == a.zeros()):
                V('law:ones-invert', f'{what}: ones(~a)={r.ones()} zeros(a)={a.zeros()}')
        if op[0] == '+' and (r[:len(a)] == a) is not True:
            V('law:prefix', what)
        if not unchanged(a, sa):
            V(f'operand-changed:{OPK[op[0]]}:self', f'{what} :: {op_name(op)}')
            break
        obs.append((op_name(op), len(exp), sum(exp)))
    # a + a, a + ~a with itself as the other operand
    try:
        r = a + a
        if invalid(r) or bits_in(r) != bits + bits:
            V('model:add', f'{what}: a + a')
        if (r[:n] == a) is not True or len(r) != 2 * n:
            V('law:prefix', f'{what}: a + a')
        if np.shares_memory(r.data, a.data):
            V('alias:add:shared-memory', f'{what}: a + a')
    except Exception as e:  # noqa
        V(f'raises:add:{type(e).__name__}', f'{what}: a + a raised {e}')
    if not unchanged(a, sa):
        V('operand-changed:add:self', f'{what}: a + a')
    import hashlib
    return res(viol=viol, obs=(n, kind, form, hashlib.sha256(a.data.tobytes()).hexdigest()[:12], tuple(obs)),
               nontrivial=(n, kind) if kind not in ('zeros', 'ones') else False, stats=stats)


# ------------------------------------------------------------------ comparison  x > th, x < th
CMP = {
    'nonneg':     ((0.0, 0.25, 0.5, 1.0), (-0.25, 0.0, 0.25, 0.5)),
    'nonneg-int': ((0, 1, 2, 3), (-1, 0, 1)),
    'signed':     ((-1.0, -0.25, 0.0, 0.5), (-0.5, 0.0, 0.25)),
    'complex':    ((1j, -0.5 + 0.5j, 0j, 1 + 0j), (0.25j, -0.5 + 0j, 0j)),
}
TH_SCALAR = [('int0', 0), ('int1', 1), ('f.25', 0.25), ('f.5', 0.5), ('f.75', 0.75), ('np.25', np.float64(0.25)),
             ('f2', 2.0), ('neg', -0.25)]
TH_ALPHA = (0.0, 0.25, 0.75)


def thresholds(n):
    """(label, builder, kind) ; kind: 'ok' (matched / scalar), 'mismatch' (must raise ValueError), 'free' (statement silent)"""
    E = lib()[1]
    out = [(f'scalar:{l}', (lambda v=v: v), 'ok', np.asarray(v)) for l, v in TH_SCALAR]
    arrs = list(itertools.product(TH_ALPHA, repeat=n)) + [tuple([-0.25] + [0.25] * (n - 1))]
    for w in arrs:
        ref = np.array(w, dtype=float)
        out.append((f'list{w}', (lambda w=w: list(w)), 'ok', ref))
        out.append((f'tuple{w}', (lambda w=w: tuple(w)), 'ok', ref))
        out.append((f'nd{w}', (lambda w=w: np.array(w, dtype=float)), 'ok', ref))
        out.append((f'E{w}', (lambda w=w: E(list(w))), 'ok', ref))
    w = tuple([1.0] * n)
    out.append((f'Enoisy{w}', (lambda w=w: E(list(w), [0.5] * n)), 'free', None))
    out.append(('ndcomplex', (lambda: np.array([0.5j] * n)), 'free', None))
    if n >= 1:
        out.append(('nd-int', (lambda: np.array([1] * n)), 'ok', np.array([1] * n)))
    for m in sorted({n + 1, n + 2, 2 if n >= 3 else n + 3}):
        if m == n or m == 1:
            continue
        for f, mk in (('list', lambda m=m: [0.25] * m), ('nd', lambda m=m: np.full(m, 0.25)), ('E', lambda m=m: E([0.25] * m))):
            out.append((f'mismatch:{f}{m}', mk, 'mismatch', None))
    if n > 1:
        out.append(('len1-list', (lambda: [0.25]), 'free', None))
        out.append(('len1-nd', (lambda: np.array([0.25])), 'free', None))
    return out


def cmp_one(x, S, N, th, kind, ref, in_class, what, V, stats):
    """both operators on one (signal, threshold) pair; returns observation"""
    tot = S + N if N is not None else S
    obs = []
    for opn, fn in (('gt', lambda a, b: a > b), ('lt', lambda a, b: a < b)):
        xs, ts = freeze(x), snap(th)
        try:
            r = fn(x, th)
        except Exception as e:  # noqa
            if kind == 'mismatch':
                if isinstance(e, ValueError):
                    obs.append('VE')
                else:
                    V(f'cmp:mismatch-wrong-exception:{type(e).__name__}', f'{what} {opn}: raised {type(e).__name__}: {e}')
                continue
            if kind == 'free':
                obs.append(type(e).__name__)
                continue
            V(f'cmp:raises:{type(e).__name__}', f'{what} {opn}: raised {type(e).__name__}: {str(e)[:160]}')
            continue
        stats['cmp.evaluations'] = stats.get('cmp.evaluations', 0) + 1
        if kind == 'mismatch':
            V('cmp:mismatch-accepted', f'{what} {opn}: mismatched lengths accepted, returned {show(r)}')
            continue
        bad = invalid(r)
        if bad:
            V(f'closure:cmp:{bad}', f'{what} {opn}: result {show(r)}')
            continue
        if len(r) != len(S):
            V('cmp:length', f'{what} {opn}: result length {len(r)} != {len(S)}')
            continue
        got = bits_in(r)
        obs.append(got)
        if not unchanged(x, xs) or not same(th, ts):
            V('operand-changed:cmp', f'{what} {opn}: an operand was modified')
        bufs = [x.signal] + ([x.noise] if x.noise is not None else []) + ([th] if isinstance(th, np.ndarray) else []) + \
               ([th.signal] if hasattr(th, 'signal') else [])
        if any(np.shares_memory(r.data, b) for b in bufs):
            V('alias:cmp:shared-memory', f'{what} {opn}: result shares memory with an operand')
        if kind == 'ok' and ref is not None:
            plain = tuple(int(v) for v in np.broadcast_to(fn(tot, ref) if not np.iscomplexobj(tot) else np.zeros(len(S), bool), (len(S),)))
            clause = in_class and not np.iscomplexobj(tot) and bool(np.all(S >= 0)) and bool(np.all(tot >= 0)) and bool(np.all(ref >= 0))
            if clause:
                stats['cmp.in-clause'] = stats.get('cmp.in-clause', 0) + 1
                if got != plain:
                    V(f'cmp:model:{opn}', f'{what} {opn}: got {got}, (S+N) {opn} th = {plain}')
                if N is not None:
                    noiseless = tuple(int(v) for v in np.broadcast_to(fn(S, ref), (len(S),)))
                    if noiseless != plain:
                        stats['cmp.noise-decides'] = stats.get('cmp.noise-decides', 0) + 1
            elif in_class and not np.iscomplexobj(tot) and bool(np.all(S >= 0)) and bool(np.all(ref >= 0)):
                stats['cmp.negative-total'] = stats.get('cmp.negative-total', 0) + 1
                if got != plain:
                    stats['cmp.negative-total.differs'] = stats.get('cmp.negative-total.differs', 0) + 1
    return tuple(obs)


def cmp_case(case):
    """case = (class, S word): every noise word (absent + alphabet^n) x every threshold form x {>, <}"""
    cls, Sw = case
    E = lib()[1]
    Sa, Na = CMP[cls]
    n = len(Sw)
    viol, seenk, stats, obs = [], {}, {}, []

    def V(key, msg):
        if key not in seenk:
            seenk[key] = 1
            viol.append((key, msg))
    ths = thresholds(n)
    nt = False
    for Nw in [None] + list(itertools.product(Na, repeat=n)):
        S = np.array(Sw)
        N = None if Nw is None else np.array(Nw)
        x = E(list(Sw)) if Nw is None else E(list(Sw), list(Nw))
        for label, mk, kind, ref in ths:
            th = mk()
            what = Lazy(lambda Nw=Nw, label=label: f'electrical_signal({list(Sw)}, noise={None if Nw is None else list(Nw)}) vs th={label}')
            obs.append(cmp_one(x, S, N, th, kind, ref, cls in ('nonneg', 'nonneg-int'), what, V, stats))
    if stats.get('cmp.noise-decides') or stats.get('cmp.in-clause'):
        nt = (cls, Sw)
    return res(viol=viol, obs=(cls, Sw, tuple(obs)), nontrivial=nt, stats=stats)


def cmp_long_case(case):
    n, k, seed = case
    E = lib()[1]
    rng = np.random.RandomState((seed * 7919 + n * 31 + k) % (2 ** 31))
    S = rng.random_sample(n)
    N = np.maximum(rng.normal(0, 0.2, n), -S) if k % 2 else None
    x = E(S.copy()) if N is None else E(S.copy(), N.copy())
    viol, seenk, stats, obs = [], {}, {}, []

    def V(key, msg):
        if key not in seenk:
            seenk[key] = 1
            viol.append((key, msg))
    tharr = rng.random_sample(n)
    for label, th, kind, ref in (('scalar.5', 0.5, 'ok', np.asarray(0.5)), ('nd', tharr.copy(), 'ok', tharr),
                                 ('list', list(tharr), 'ok', tharr), ('E', E(tharr.copy()), 'ok', tharr),
                                 ('mismatch', np.full(n + 1, 0.5), 'mismatch', None)):
        o = cmp_one(x, S, N, th, kind, ref, True, f'seeded field n={n} k={k} th={label}', V, stats)
        obs.append(tuple(hash(t) & 0xffffffff if isinstance(t, tuple) else t for t in o))
    import hashlib
    return res(viol=viol, obs=(n, k, hashlib.sha256(repr(obs).encode()).hexdigest()[:16]), nontrivial=(n, k), stats=stats)


# ------------------------------------------------------------------ driver
def bfs(ctx, name, leaves, depth, expand_maxlen=None):
    """leaves: list of (code, form). Level 0 = the leaves (op set 'full'), level k+1 = the NEW canonical states produced
    by level k (op set 'deep'); every op is executed from every state of the levels < depth.  `expand_maxlen`: states
    of the levels >= 1 longer than this are recorded but not expanded (tier bound).  Returns (states, transitions)."""
    seen = set()
    frontier = []
    for code, form in leaves:
        seen.add(code * 4)
        frontier.append((code, form, ()))
    transitions = 0
    for level in range(depth):
        mode = 'full' if level == 0 else 'deep'
        ops = ops_for(mode)
        cases = [(mode, c, f, p) for c, f, p in frontier]
        last = level == depth - 1
        payloads = ctx.pmap(f'{name}.level{level}', expand, cases, horizon=120, quiet=True)
        nxt = []
        for (c, f, p), pl in zip(frontier, payloads):
            if pl is None:
                continue
            succ, nt = pl
            transitions += nt
            for k, oi in succ:
                if k not in seen:
                    seen.add(k)
                    if not last and (expand_maxlen is None or (k >> 2).bit_length() - 1 <= expand_maxlen):
                        nxt.append((c, f, p + (ops[oi],)))
        print(f'[C15] {name} level {level}: expanded={len(frontier)} ops/state={len(ops)} states={len(seen)} '
              f'transitions={transitions} next={len(nxt)}', flush=True)
        frontier = nxt
        if not frontier:
            break
    return len(seen), transitions


def run(ctx):
    thorough = not ctx.quick
    l1max = None if thorough else 14
    ctx.rule('C15: (1) every word of length 0..12 constructed in every accepted container form (str plain/spaced/comma/comma+space, list, '
             'tuple, bool list, ndarray bool/int64/float64/uint8, five scalar spellings for length 1) + the 8 unary ops from every form; '
             '(2) BFS over expression programs: every op (a+w, w+a for w in every accepted form [4 str, 3 list/tuple, 4 ndarray, '
             'binary_sequence] of every word of length <= 4 at the first level, <= 2 deeper; ~a; 7 slices; 18 invalid operands in both '
             'orders at the first level) executed on the real object rebuilt by replaying its path from the leaf, in lock-step with a '
             'tuple-of-bits model; states deduplicated by canonical form (word, layout flags of .data); '
             + ('depth 2 from every leaf of length <= 12, plus depth 4 from the leaves of length <= 6 with its own visited set, plus the '
                'first-level expansion of the leaves of length <= 8 from EVERY container form; ' if thorough else
                'quick: depth 1 from every leaf of length <= 12 and depth 2 from the leaves of length <= 10 (second-level states up to length 14); ')
             + '(3) table + generated invalid constructions; (4) long words up to 65537 bits (fixed patterns + seeded content); '
             '(5) x > th, x < th over value alphabets ^ n (n <= ' + ('3' if thorough else '2') + ') x every noise word x threshold forms')
    ctx.assume('the behaviour of a binary_sequence depends only on its .data array (bytes, dtype, shape, contiguity/alignment flags), which is '
               'what the canonical form records; execution_time is ignored')
    ctx.assume('comparison clause read conservatively: equality with (S+N) > th is demanded only where S >= 0, S+N >= 0 and th >= 0 '
               '(all real); elsewhere only validity and length (cases with S >= 0 but S+N < 0 are counted in stats cmp.negative-total*)')
    ctx.assume('a[0] / a[-1] on the empty sequence: the statement is silent, IndexError accepted; the empty string is not an accepted spelling')
    # -- regression case for the known defect (ndarray on the left of +)
    ctx.run_case('regress', expand, ('deep', 0b110, 'list', ()))

    # (3) invalid constructions
    inv = invalid_constructions()
    ctx.pmap('invalid-constructions', invalid_construction_case, inv, horizon=60)

    # (1) leaves
    leaves = list(words(MAXLEAF))
    pl = ctx.pmap('leaves', leaf_case, leaves, horizon=60)
    leaf_keys = set()
    for x in pl:
        leaf_keys.update(x or [])
    ctx.extra['leaf_canonical_forms'] = len(leaf_keys)

    # (2) BFS from every leaf; the starting object is built from one form per leaf (round-robin over the forms; every
    # form was verified in (1) to give the identical canonical object)
    def rr(code):
        f = forms_for(code.bit_length() - 1, leaf=True)
        return f[code % len(f)]
    st, tr = bfs(ctx, 'bfs', [(c, rr(c)) for c in leaves], depth=2, expand_maxlen=l1max)
    ctx.graph(states=st, transitions=tr)
    ctx.extra['bfs_all_leaves'] = {'leaves': len(leaves), 'depth': 2, 'second_level_maxlen': l1max, 'states': st, 'transitions': tr}
    if thorough:
        cases = [('full', c, f, ()) for c in words(8) for f in forms_for(c.bit_length() - 1, leaf=True)]
        pls = ctx.pmap('bfs-everyform.level0', expand, cases, horizon=120, quiet=True)
        tr2 = sum(p[1] for p in pls if p)
        ctx.graph(states=0, transitions=tr2)
        ctx.extra['bfs_every_form'] = {'starts': len(cases), 'transitions': tr2}
        print(f'[C15] every-form level 0: starts={len(cases)} transitions={tr2}', flush=True)
        st6, tr6 = bfs(ctx, 'deep6', [(c, rr(c)) for c in words(6)], depth=4)
        ctx.graph(states=0, transitions=tr6)
        ctx.extra['bfs_deep6'] = {'leaves': 127, 'depth': 4, 'states': st6, 'transitions': tr6}

    # (4) long words
    longs = []
    for n in (13, 31, 64, 255, 256, 257, 1000, 4097, 65537):
        for kind in ('zeros', 'ones', 'alt', 'rnd0', 'rnd1'):
            for form in (('str', 'list', 'nd_bool', 'nd_u8', 'nd_float') if n <= 4097 else ('nd_u8', 'str')):
                longs.append((n, kind, ctx.seed, form))
    ctx.pmap('long-words', long_case, longs, horizon=120)

    # (5) comparisons
    cm = []
    for n in ((1, 2, 3) if thorough else (1, 2)):
        for cls in CMP:
            for Sw in itertools.product(CMP[cls][0], repeat=n):
                cm.append((cls, Sw))
    ctx.pmap('compare', cmp_case, cm, horizon=120)
    ctx.pmap('compare-long', cmp_long_case, [(n, k, ctx.seed) for n in (16, 1000, 4096) for k in range(4)], horizon=60)
