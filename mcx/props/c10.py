"""C10 - EDFA applies the gain sqrt(G) to ALL of its input (signal and incoming noise, in the
polarisations present) and adds ASE of total power NF*h*f0*(G-1)*fs.

Bounded-exhaustive exploration of the REAL `opticomlib.devices.EDFA`:

part `scripted`    full product  N x layout x noise-kind x G x NF x gv(wavelength, fs) x BW x RNG answer.
                   numpy's global RNG is replaced by `ScriptedRNG`; every answer of the alphabet
                   {zero, one row of ones (4 variants), seeded (+a and -a)} is executed.
part `ase-basis`   N = 8: ALL 32 impulse answers e_(r,k) -> the complete real 32x32 matrix L of the
                   (linear) map "randn(4,N) answer -> ASE"; oracle L^T L = (P_ase/4) I.
part `non-optical` every non-optical input class x BW -> TypeError.
part `conformance` real numpy RNG (np.random.seed), 2^16 samples: binds the scripted seam to the
                   real generator; six-sigma bands from the property text.
part `lattice`     (hardening pass) all configurations with <= 2 deviations from a base point over EXTENDED
                   alphabets: lengths 1..4097, dark/noise-only polarisations and an EDFA cascade, every sample
                   dtype (and noise of another dtype than the signal), G/NF at and one ulp inside the documented
                   limits as int/float/numpy scalars/0-d arrays, gv configured in every documented way, BW from
                   0.001 fs to one ulp below fs, input scale 1e-12..1e6 and a large DC offset, keyword call
                   forms, write-protected inputs, library-made containers; same oracle as `scripted`.
part `sequence`    ONE shared input object through call sequences: grid switches g1,g2,g1 (wavelength / fs / the
                   way gv is configured, with and without gv.clean()), parameter sweeps, EDFA chains.
part `fluct`       real RNG, very short records (N = 1..4), K = 2^16/N repeated calls on one shared input: the
                   realised ASE power must fluctuate like (P/4N) chi2(4N); pooled Gaussian statistics.

Reference model (boring): out.signal = g*in.signal in rows present, 0 in y for 1-pol input;
out.noise(answer) = g*in.noise (same rows) + L(answer), L = sqrt(P/4) x (an isometry of R^(4N));
g = sqrt(10^(G/10)), P = 10^(NF/10) * h * f0 * (10^(G/10) - 1) * fs, f0 = gv.f0 IN FORCE at the call: c/wavelength when the
carrier was configured through gv(wavelength=...) / gv.clean(), the value given when gv.f0 was set on its own (keyword
`gv(..., f0=...)`, assignment `gv.f0 = ...`), whatever a later gv(...) call left there (read by the harness right before the call).
"""
from __future__ import annotations
import functools
import itertools
import math
import numpy as np
from scipy.constants import h as H_PLANCK, c as C0

from mcx.core.kernel import res
from mcx.core.env import gv_reset, ScriptedRNG, scripted_rng, Unscripted

ID = 'C10'
LEVEL = 'exploration'
NONTRIVIAL = ('G > 0 dB and (the input carries non-zero noise or the RNG answer is non-zero), i.e. the gain law on the '
              'incoming noise or the ASE clause has something to bite on; counted by distinct observed outputs')

EPS = np.finfo(float).eps
LAYOUTS = ['1pol', '2pol', '2pol-empty-y']
NKINDS = ['absent', 'zero', 'complex', 'real', 'absent-realsig', 'int', 'absent-intsig']   # int kinds: integer-dtype samples
ANSWERS = ['zero', 'u0', 'u1', 'u2', 'u3', 'seeded']


# ------------------------------------------------------------------ scalar / option spellings
# A scalar argument (G, NF) is either a plain Python number or ('form', value): the same value as a numpy scalar / 0-d array
NPFORMS = {'np.int64': np.int64, 'np.int32': np.int32, 'np.float64': np.float64, 'np.float32': np.float32, '0d': np.array}


def arg(spec):
    """the object that is passed to the library"""
    return NPFORMS[spec[0]](spec[1]) if isinstance(spec, tuple) else spec


def val(spec):
    """its value as a double (np.float32(17.3) is the float32 nearest to 17.3: that value is the argument)"""
    return float(arg(spec))


def seps(spec):
    """working precision of a scalar spelling: a float32 scalar may legitimately be processed in its own precision"""
    if isinstance(spec, tuple) and spec[0] == 'np.float32':
        return float(np.finfo(NPFORMS[spec[0]]).eps)
    return EPS


def aeps(a):
    """working precision of an array: float16/float32/complex64 samples may be processed in their own precision"""
    if a is not None and a.dtype.kind in 'fc' and a.dtype.itemsize < (8 if a.dtype.kind == 'f' else 16):
        return float(np.finfo(a.dtype).eps)
    return EPS


def opt(opts, key, default=None):
    return dict(opts).get(key, default)


def bw_arg(bwspec, fs):
    """BW spelling: None | fraction of fs | ('int'|'np.int64'|'np.float64'|'np.float32', fraction)"""
    if bwspec is None:
        return None
    if isinstance(bwspec, tuple):
        form, f = bwspec
        v = f * fs
        return {'int': lambda q: int(round(q)), 'np.int64': lambda q: np.int64(round(q)), 'np.float64': np.float64, 'np.float32': np.float32}[form](v)
    return bwspec * fs


# ------------------------------------------------------------------ inputs
INT_DT = {'bool': np.bool_, 'int8': np.int8, 'uint8': np.uint8, 'int16': np.int16, 'int32': np.int32, 'int': np.int64, 'int64': np.int64}
FLT_DT = {'float16': np.float16, 'float32': np.float32, 'float64': np.float64, 'complex64': np.complex64, 'complex128': np.complex128,
          'real': np.float64, 'complex': np.complex128}
DTYPE_KINDS = ['bool', 'int8', 'uint8', 'int16', 'int32', 'float16', 'float32', 'complex64']


def cast(a, dt, unit, offset):
    """complex field -> samples of the dtype class `dt` (integers: a/unit rounded, `offset` added for the signed ones)"""
    if dt == 'intfloat':
        return np.rint(a.real / unit) + offset
    if dt in INT_DT:
        v = np.rint(a.real / unit)
        if dt == 'bool':
            return v > 0
        if dt == 'uint8':
            return np.abs(v).astype(np.uint8)
        return (v + offset).astype(INT_DT[dt])
    t = FLT_DT[dt]
    return np.ascontiguousarray(a.astype(t) if np.dtype(t).kind == 'c' else a.real.astype(t))


def kind_dtypes(nkind):
    """noise kind -> (signal dtype class, noise dtype class | None, noise content, assigned after construction?)"""
    if nkind.startswith('mixed:'):                      # noise of another dtype than the signal (assigned after construction:
        sd, nd = nkind[6:].split('/')                   # the constructor would promote both to the common type)
        return sd, nd, 'field', True
    if nkind == 'absent':
        return 'complex', None, None, False
    if nkind.startswith('absent-'):
        return {'realsig': 'real', 'intsig': 'int'}.get(nkind[7:], nkind[7:-3]), None, None, False
    if nkind in ('zero', 'zero-sum'):
        return 'complex', 'complex', nkind, False
    return nkind, nkind, 'field', False


@functools.lru_cache(maxsize=512)
def build_arrays(N, layout, nkind, seed, scale=1):
    """(signal, noise|None, late) arrays of the input (read-only, cached); content: deterministic ramp/tone + seeded field.
    `scale`: factor on the whole input, or 'dc' = DC offset 1 with a 1e-6 variation. late: noise to be assigned after construction"""
    rs = np.random.RandomState([int(seed) % (2 ** 31), N, 1010])
    k = np.arange(N)
    A = math.sqrt(1e-3)            # ~ 0 dBm
    s1 = A * (1 + 0.5 * k / N) * np.exp(2j * np.pi * 3 * k / N) + A / 4 * (rs.randn(N) + 1j * rs.randn(N))
    s2 = A * (0.5 + 0.25 * k / N) * np.exp(-2j * np.pi * 2 * k / N) + A / 4 * (rs.randn(N) + 1j * rs.randn(N))
    sg = A / 20                    # OSNR_in ~ 26 dB
    n1 = sg * ((-1.0) ** k * (0.5 + 0.5j) + 0.5 * (rs.randn(N) + 1j * rs.randn(N)))
    n2 = sg * ((-1.0) ** (k // 2) * (0.5 - 0.5j) + 0.5 * (rs.randn(N) + 1j * rs.randn(N)))
    z = np.zeros(N, complex)
    if layout == '1pol':
        sig, noi = s1, n1
    else:
        sig, noi = {'2pol': ([s1, s2], [n1, n2]), '2pol-empty-y': ([s1, z], [n1, n2]), '2pol-empty-x': ([z, s2], [n1, n2]),
                    '2pol-dark': ([z, z], [n1, n2]),                      # source switched off: noise only
                    '2pol-noise-x-only': ([s1, s2], [n1, z]), '2pol-noise-y-only': ([s1, s2], [z, n2])}[layout]
        sig, noi = np.array(sig), np.array(noi)
    sd, nd, content, late = kind_dtypes(nkind)
    if scale == 'dc':
        sig = np.where(sig != 0, 1.0 + 1e-6 * sig / A, 0)
    else:
        sig, noi = sig * scale, noi * scale
    if content == 'zero':
        noi = np.zeros_like(noi)
    elif content == 'zero-sum':     # every sample is followed by its negative: the sum over the record is exactly 0
        noi = noi.copy()
        noi[..., 1::2] = -noi[..., 0:2 * (N // 2):2]
        if N % 2:
            noi[..., -1] = 0
    sig = cast(sig, sd, A / 4, 1)             # integer classes: signal levels about -5 .. 7
    noi = None if nd is None else cast(noi, nd, sg / 2, 0)      # noise levels about -3 .. 3
    sig.flags.writeable = False
    if noi is not None:
        noi.flags.writeable = False
    return sig, noi, late


def make_input(N, layout, nkind, seed, opts=()):
    """a fresh input object of the case, its content (snapshots taken from the object) and its number of polarisations"""
    from opticomlib.typing import optical_signal
    ctor = opt(opts, 'ctor', 'ndarray')
    cascade = layout == 'cascade'
    sig, noi, late = build_arrays(N, '1pol' if cascade else layout, nkind, seed, opt(opts, 'scale', 1))
    early = None if (noi is None or late) else noi
    if ctor == 'list':
        x = optical_signal(sig.tolist(), None if early is None else early.tolist())
    else:
        x = optical_signal(sig.copy(), None if early is None else early.copy())
    if late:
        x.noise = noi.copy()
        assert ctor == 'list' or x.noise.dtype != x.signal.dtype, 'harness: mixed dtypes'
    if ctor == 'slice':            # containers made by the library itself
        x = x[:]
    elif ctor == 'copy':
        x = x.copy()
    if cascade:                    # the output of a first amplifier (x carries signal, y is dark but noisy) is the input
        from opticomlib.devices import EDFA
        b = np.random.RandomState([int(seed) % (2 ** 31), N, 5050]).randn(4, N)
        with scripted_rng(ScriptedRNG(lambda kind, info: b if kind == 'randn' and info['size'] == (4, N) else None)):
            x = EDFA(x, 10, 5)
    npol = 1 if layout == '1pol' else 2
    assert x.n_pol == npol and np.shape(x.signal) == ((N,) if npol == 1 else (2, N)), 'harness: input construction'
    if nkind == 'real' and not cascade and ctor == 'ndarray':
        assert x.signal.dtype == np.float64 and x.noise.dtype == np.float64, 'harness: real dtype input'
    return x, np.array(x.signal), None if x.noise is None else np.array(x.noise), npol


def snapshot(x):
    return [None if a is None else (a.dtype.str, a.shape, a.tobytes()) for a in (x.signal, x.noise)]


@functools.lru_cache(maxsize=32)
def seeded_answer(N, seed):
    rs = np.random.RandomState([int(seed) % (2 ** 31), N, 4040])
    a = rs.randn(4, N)
    a.flags.writeable = False
    return a


def unit_answer(N, r):
    a = np.zeros((4, N))
    a[r] = 1.0
    return a


def p_ase(G, NF, f0, fs):
    return 10 ** (NF / 10) * H_PLANCK * f0 * (10 ** (G / 10) - 1) * fs


def gain(G):
    return math.sqrt(10 ** (G / 10))


# ------------------------------------------------------------------ calling the real thing
def apply_gv(spec, clean=True):
    """configure gv through ONE spelling of the grid alphabet.  spec = ((key, value), ...):
      plain keys      keywords of one `gv(...)` call (made after `gv.clean()` if `clean`; no call when there is none).  Keywords that
                      are no parameters of gv() (`f0=...`) are documented to become attributes ("Additional attributes to set");
      '=name' keys    plain attribute assignments `gv.name = value` made after that call, in the order given;
      ('then', spec2) a further configuration made afterwards WITHOUT gv.clean() (a later gv(...) call may overwrite what the
                      first one set: the reference reads gv.fs / gv.f0 after everything, right before the EDFA call)."""
    import warnings
    from opticomlib.typing import gv
    if clean:
        gv.clean()
    kw = {k: v for k, v in spec if k != 'then' and not k.startswith('=')}
    if kw:
        with warnings.catch_warnings():
            warnings.simplefilter('ignore')
            gv(**kw)
    for k, v in spec:
        if k.startswith('='):
            setattr(gv, k[1:], v)
    for k, v in spec:
        if k == 'then':
            apply_gv(v, clean=False)
    return gv


def set_grid(wl, fs, opts=()):
    """configure gv for a case; returns (fs, f0) of the reference: own values for the plain form, gv's attributes
    (read before the EDFA call) when the grid is configured through another documented spelling"""
    spec = opt(opts, 'gv')
    if spec is None:
        gv_reset(fs=fs, wavelength=wl)
        return fs, C0 / wl
    gv = apply_gv(spec)
    return float(gv.fs), float(gv.f0)


def run_edfa(x, G, NF, BW, ans, N, form='pos', stats=None):
    """one execution of the real EDFA on the object x under a scripted RNG (gv as it is).
    returns (status, value, requests): ('ok', output) | ('exc', exception)"""
    from opticomlib.devices import EDFA

    def answer(kind, info):
        if kind == 'randn' and info['size'] == (4, N) and ans is not None:
            return ans
        return None
    rng = ScriptedRNG(answer)
    before = snapshot(x)
    Ga, NFa = arg(G), arg(NF)
    try:
        with scripted_rng(rng):
            if form == 'pos':
                y = EDFA(x, Ga, NFa) if BW is None else EDFA(x, Ga, NFa, BW)
            elif form == 'kw':
                y = EDFA(input=x, G=Ga, NF=NFa) if BW is None else EDFA(BW=BW, NF=NFa, G=Ga, input=x)
            else:   # 'kw-mixed'
                y = EDFA(x, Ga, NF=NFa, BW=BW)
    except Unscripted:
        raise
    except Exception as e:  # library exception: classified by the caller
        return 'exc', e, rng.requests
    finally:
        if stats is not None:
            stats['edfa_calls'] = stats.get('edfa_calls', 0) + 1
            if snapshot(x) != before:      # statement silent on the purity of the input: recorded, not a violation
                stats['input_object_changed'] = stats.get('input_object_changed', 0) + 1
    return 'ok', y, rng.requests


def call_edfa(cfg, ans, bwspec, opts=(), stats=None):
    """the same on a FRESH input of the configuration, gv configured anew"""
    N, layout, nkind, G, NF, wl, fs, seed = cfg
    fs_, _ = set_grid(wl, fs, opts)
    x, _, _, _ = make_input(N, layout, nkind, seed, opts)
    if opt(opts, 'frozen'):                # write-protected buffers: a legal input like any other
        for a in (x.signal, x.noise):
            if a is not None:
                a.flags.writeable = False
    return run_edfa(x, G, NF, bw_arg(bwspec, fs_), ans, N, opt(opts, 'call', 'pos'), stats)


def structure(y, N, finite=True):
    """[] if y is a 2-pol optical_signal of N finite samples, else violations"""
    from opticomlib.typing import optical_signal
    if not isinstance(y, optical_signal):
        return [('shape:not-optical_signal', f'EDFA returned {type(y).__name__}')]
    if y.n_pol != 2 or np.shape(y.signal) != (2, N):
        return [('shape:not-2pol', f'n_pol={y.n_pol} signal.shape={np.shape(y.signal)} expected (2,{N})')]
    if y.noise is not None and np.shape(y.noise) != (2, N):
        return [('shape:noise-not-2pol', f'noise.shape={np.shape(y.noise)} expected (2,{N})')]
    for name in ('signal', 'noise') if finite else ():   # finite input, G <= 40 dB: nothing can overflow (G = 0 dB: P_ase = 0, not 0/0)
        a = getattr(y, name)
        if a is not None and not np.all(np.isfinite(a)):
            return [(f'nonfinite:{name}', f'output {name} has {int(np.sum(~np.isfinite(a)))} non-finite sample(s) for a finite input')]
    return []


def near(a, b, k=8, eps=EPS):
    """elementwise |a-b| <= k*eps*|b| : one pow, one sqrt, one (complex) product => a few ulp"""
    a = np.asarray(a)
    b = np.asarray(b)
    return a.shape == b.shape and bool(np.all(np.abs(a - b) <= k * eps * np.abs(b)))


def wide(a):
    """samples as double / double complex (exact for every sample dtype of the alphabet)"""
    a = np.asarray(a)
    return a.astype(complex if a.dtype.kind == 'c' else float)


def noise_of(y, N):
    return np.zeros((2, N), complex) if y.noise is None else np.asarray(y.noise)


def vec32(z):
    """(2,N) complex -> real vector (Re x, Im x, Re y, Im y)"""
    z = np.asarray(z, dtype=complex)
    return np.concatenate([z[0].real, z[0].imag, z[1].real, z[1].imag])


def exc_key(e, nkind):
    return (f'exc:{type(e).__name__}:{nkind}-noise', f'EDFA raised {type(e).__name__}: {e} for an optical input with noise kind {nkind!r}')


def req_check(reqs, N):
    want = [{'fn': 'randn', 'size': (4, N)}]
    if reqs != want:
        return [('rng:request-log', f'RNG requests {reqs!r}, expected exactly one randn(4, {N})')]
    return []


def canon(y):
    s = np.ascontiguousarray(y.signal)
    n = None if y.noise is None else np.ascontiguousarray(y.noise)
    return (s.dtype.str, s.shape, s.tobytes(), None if n is None else (n.dtype.str, n.shape, n.tobytes()))


# ------------------------------------------------------------------ the oracle of one configuration under one answer kind
def check_scripted(call, sig, noi, npol, N, nkind, G, NF, fs, f0, BW, akind, seed, stats):
    """call(answer, BW) executes the real EDFA on the configuration's input (content sig / noi, npol polarisations).
    returns (violations, observation, nontrivial)"""
    Gv, NFv = val(G), val(NF)
    g, P = gain(Gv), p_ase(Gv, NFv, f0, fs)
    amp = math.sqrt(P / 4)
    eps_p = max(seps(G), seps(NF))                  # precision of the scalar spellings
    eps_s = max(aeps(sig), seps(G))                 # ... of the signal path
    eps_n = max(aeps(noi), seps(G))                 # ... of the path of the incoming noise
    viol = []
    if akind == 'zero':
        ans = None
    elif akind == 'seeded':
        ans = seeded_answer(N, seed)
    else:
        ans = unit_answer(N, int(akind[1]))
    nonzero_noise = noi is not None and bool(np.any(noi != 0))
    nt = Gv > 0 and (nonzero_noise or akind != 'zero')
    sig, noi = wide(sig), None if noi is None else wide(noi)

    # ---------------- unfiltered execution under this case's answer
    st, y, reqs = call(ans, None)
    if st == 'exc':
        viol.append(exc_key(y, nkind))
        return viol, ('EXC', type(y).__name__, repr(BW)), nt
    viol += req_check(reqs, N)
    sv = structure(y, N)
    if sv:
        return viol + sv, ('STRUCT', sv[0][0]), nt

    if BW is not None:
        # ------------ band-limiting clause: EDFA(BW) == BPF(unfiltered twin, BW) for the same answer (gv as the calls left it)
        from opticomlib.devices import BPF
        st2, yb, reqs2 = call(ans, BW)
        try:
            ref = BPF(y, BW)
            ref_exc = None
        except Exception as e:  # the filter itself rejects the record (e.g. too short for filtfilt): C11's business
            ref, ref_exc = None, e
        if st2 == 'exc':
            if ref_exc is not None and type(ref_exc) is type(yb):
                stats['bw_filter_rejects_record'] = 1
                return viol, ('BW-EXC', type(yb).__name__), False
            viol.append((f'bw:exc:{type(yb).__name__}', f'EDFA(BW={BW:g}) raised {type(yb).__name__}: {yb} while BPF(EDFA(BW=None), BW) '
                         + ('returns' if ref_exc is None else f'raises {type(ref_exc).__name__}')))
            return viol, ('BW-EXC', type(yb).__name__), nt
        viol += req_check(reqs2, N)
        if ref_exc is None and structure(ref, N):
            stats['bw_filter_output_not_finite'] = 1          # the filter itself overflows on this record: C11's business
            return viol, ('BW-NONFINITE',), False
        sv = structure(yb, N)
        if sv:
            return viol + sv, ('STRUCT', sv[0][0]), nt
        if ref_exc is not None:
            stats['bw_edfa_returns_where_BPF_raises'] = 1     # statement silent: accepted
            return viol, canon(yb), nt
        # same filter on the same data: rounding only. forward-backward 4th order Bessel, unit DC gain:
        # <= 16*N*eps*max|x| allows any evaluation order of the same linear filter
        for name in ('signal', 'noise'):
            a = getattr(yb, name)
            b = getattr(ref, name)
            if (a is None) != (b is None):
                a = np.zeros((2, N)) if a is None else a
                b = np.zeros((2, N)) if b is None else b
            if a is None:
                continue
            tol = 16 * N * EPS * max(float(np.max(np.abs(b))), float(np.max(np.abs(getattr(y, name) if getattr(y, name) is not None else 0))))
            if np.shape(a) != np.shape(b) or not np.all(np.abs(np.asarray(a) - np.asarray(b)) <= tol):
                d = float(np.max(np.abs(np.asarray(a) - np.asarray(b)))) if np.shape(a) == np.shape(b) else float('nan')
                viol.append((f'bw:{name}!=BPF(twin)', f'EDFA(..., BW={BW:g}).{name} differs from BPF(EDFA(..., BW=None), BW).{name} by {d:.3g} (tol {tol:.3g})'))
        return viol, canon(yb), nt

    # ---------------- signal clause (every answer: the signal must not depend on the RNG)
    S = np.asarray(y.signal)
    rows = slice(0, npol)
    want = g * (sig if npol == 2 else sig[None, :])
    if not near(S[rows], want, eps=eps_s):
        d = float(np.max(np.abs(S[rows] - want)))
        viol.append(('signal:!=sqrtG*in', f'signal differs from sqrt(G)*input.signal by {d:.3g} in the rows present (G={Gv:g} dB)'))
    if npol == 1 and np.any(S[1] != 0):
        viol.append(('signal:y-row-nonzero:1pol', f'y-row of the signal is not 0 for a 1-pol input (max {float(np.max(np.abs(S[1]))):.3g})'))

    # ---------------- noise under the zero answer (the twin of every other answer)
    if akind == 'zero':
        y0 = y
    else:
        st0, y0, reqs0 = call(None, None)
        if st0 == 'exc':
            viol.append(exc_key(y0, nkind))
            return viol, ('EXC', type(y0).__name__), nt
        sv = structure(y0, N)
        if sv:
            return viol + sv, ('STRUCT', sv[0][0]), nt
    Z0 = noise_of(y0, N)

    if akind == 'zero':
        if noi is None:
            if np.any(Z0 != 0):
                viol.append(('noise:nonzero:noise-free-input+zero-ASE', f'noise-free input and zero ASE answer but output noise max {float(np.max(np.abs(Z0))):.3g}'))
        else:
            nin = noi if npol == 2 else noi[None, :]
            if not near(Z0[rows], g * nin, eps=eps_n):
                if g != 1 and near(Z0[rows], nin, eps=eps_n):
                    viol.append(('noise:not-amplified', f'incoming noise passes with gain 1 instead of sqrt(G)={g:.6g} (G={Gv:g} dB): '
                                 f'max|out-sqrtG*in|={float(np.max(np.abs(Z0[rows] - g * nin))):.3g}'))
                else:
                    viol.append(('noise:wrong-gain', f'noise in the rows present differs from sqrt(G)*input.noise by {float(np.max(np.abs(Z0[rows] - g * nin))):.3g}'))
            if npol == 1 and np.any(Z0[1] != 0):
                if near(Z0[1], Z0[0]) or near(Z0[1], noi) or near(Z0[1], g * noi):
                    viol.append(('noise:duplicated-into-y:1pol', f'1-pol input: its noise appears in the y-row too (max {float(np.max(np.abs(Z0[1]))):.3g}), expected 0'))
                else:
                    viol.append(('noise:y-row-nonzero:1pol', f'1-pol input, zero ASE answer: y-row of the noise max {float(np.max(np.abs(Z0[1]))):.3g}, expected 0'))
        return viol, (canon(y), repr(reqs)), nt

    # ---------------- ASE clause: L(answer) = noise(answer) - noise(0)
    def ase_of(yy):
        return noise_of(yy, N) - Z0

    if P == 0 and not np.array_equal(noise_of(y, N), Z0):
        # G = 0 dB: (G-1) = 0 exactly, the documented ASE power is exactly 0 whatever is drawn
        viol.append(('ase:nonzero-at-P_ase=0', f'G={Gv:g} dB: documented ASE power is exactly 0 but the output noise depends on the draw '
                     f'(max dev {float(np.max(np.abs(ase_of(y)))):.3g})'))

    def elem_err(*ys):
        # rounding of the library's `g*n + ase` and of my subtraction
        m = max([float(np.max(np.abs(Z0)))] + [float(np.max(np.abs(noise_of(q, N)))) for q in ys])
        return 4 * eps_n * m + 8 * eps_p * amp

    units = []
    for r in range(4):
        if akind == f'u{r}':
            units.append(y)
            continue
        stu, yu, _ = call(unit_answer(N, r), None)
        if stu == 'exc' or structure(yu, N):
            viol.append(('ase:unit-answer-fails', f'EDFA fails under unit answer row {r}: {yu!r}'))
            return viol, ('EXC-U', r), nt
        units.append(yu)
    V = [vec32(ase_of(q)) for q in units]           # responses to "row r all ones"
    e = elem_err(*units)

    def gram_tol(na, nb):
        # <u+du, v+dv> - <u,v>, |du|,|dv| <= sqrt(4N)*e ; plus rounding of P itself (a few ulp)
        n = math.sqrt(4 * N) * e
        return 2 * (na * n + nb * n + n * n) + 32 * eps_p * (P / 4) * N

    if akind.startswith('u'):
        r = int(akind[1])
        nr = math.sqrt(P / 4 * N)
        for s in range(4):
            gk = float(V[r] @ V[s])
            wantg = P / 4 * N if s == r else 0.0
            if not abs(gk - wantg) <= gram_tol(nr, nr):
                if s == r:
                    viol.append(('ase:power', f'ASE response to answer row {r} (all ones) has energy {gk:.6g}, expected (P_ase/4)*N = {wantg:.6g} '
                                 f'(P_ase={P:.6g} W, G={Gv:g} dB, NF={NFv:g} dB)'))
                else:
                    viol.append(('ase:components-not-independent', f'ASE responses to answer rows {r} and {s} are not orthogonal: <.,.>={gk:.3g} (P_ase/4*N={P / 4 * N:.3g})'))
        # documented placement (observation only): x = row0 + j row2, y = row1 + j row3
        doc = np.zeros((2, N), complex)
        doc[r % 2] = amp * (1.0 if r < 2 else 1j)
        if np.all(np.abs(ase_of(y) - doc) <= e + 8 * eps_p * amp):
            stats['placement_as_documented'] = 1
        else:
            stats['placement_other_isometry_or_wrong'] = 1
        return viol, (canon(y), repr(reqs)), nt

    # seeded answer a and its mirror -a
    stn, yn, reqsn = call(-ans, None)
    if stn == 'exc' or structure(yn, N):
        viol.append(('ase:mirror-answer-fails', f'EDFA fails under the mirrored seeded answer: {yn!r}'))
        return viol, ('EXC-M',), nt
    e = elem_err(y, yn, *units)
    La, Lm = ase_of(y), ase_of(yn)
    if not np.all(np.abs(La + Lm) <= 2 * e):
        viol.append(('ase:not-odd-in-answer', f'noise(a)+noise(-a) != 2*noise(0): max dev {float(np.max(np.abs(La + Lm))):.3g}'))
    ea = float(np.sum(np.abs(La) ** 2))
    wantE = P / 4 * float(np.sum(ans ** 2))
    na = math.sqrt(wantE)
    if not abs(ea - wantE) <= gram_tol(na, na) * 2:
        viol.append(('ase:power', f'ASE energy under the seeded answer {ea:.6g}, expected (P_ase/4)*|a|^2 = {wantE:.6g} (P_ase={P:.6g} W, G={Gv:g} dB, NF={NFv:g} dB)'))
    # per-sample superposition of the unit responses (draw (r,k) acts on sample k with the coefficient measured by row r)
    Vc = [ase_of(q) for q in units]
    sup = sum(ans[r][None, :] * Vc[r] for r in range(4))
    amax = float(np.max(np.abs(ans)))
    if np.all(np.abs(La - sup) <= (1 + 4 * amax) * e + 16 * eps_p * amp * amax):
        stats['ase_sample_diagonal'] = 1
    else:
        stats['ase_mixes_samples'] = 1      # still an isometry is acceptable; decided completely in part ase-basis
    # OSNR clause (noisy inputs): mean noise power over the equally likely pair (a, -a) = |noise(0)|^2 + |L a|^2
    if nonzero_noise:
        nin = noi
        Ps_in, Pn_in = float(np.sum(np.abs(sig) ** 2)), float(np.sum(np.abs(nin) ** 2))
        Ps_out = float(np.sum(np.abs(wide(y.signal)) ** 2))
        Pn_out = 0.5 * (float(np.sum(np.abs(noise_of(y, N)) ** 2)) + float(np.sum(np.abs(noise_of(yn, N)) ** 2)))
        # OSNR_out <= OSNR_in  <=>  Ps_out*Pn_in <= Ps_in*Pn_out ; sums of <= 2N squares: relative rounding <= 4N*eps each;
        # plus the working precision of the two gains (signal and noise path) where that is not double
        lhs, rhs = Ps_out * Pn_in, Ps_in * Pn_out
        if lhs > rhs * (1 + 64 * N * EPS + 32 * ((eps_s if eps_s > EPS else 0) + (eps_n if eps_n > EPS else 0))):
            viol.append(('osnr:increased', f'OSNR_out/OSNR_in = {lhs / rhs:.6g} > 1 (G={Gv:g} dB, NF={NFv:g} dB): the amplifier improves the optical SNR'))
    return viol, (canon(y), canon(yn), repr(reqs)), nt


# ------------------------------------------------------------------ parts: scripted (full product) and lattice (<= 2 deviations)
def case_scripted(case):
    N, layout, nkind, G, NF, wl, fs, bwspec, akind, seed = case[:10]
    opts = case[10] if len(case) > 10 else ()
    cfg = (N, layout, nkind, G, NF, wl, fs, seed)
    stats = {'edfa_calls': 0}
    fs_, f0_ = set_grid(wl, fs, opts)
    _, sig, noi, npol = make_input(N, layout, nkind, seed, opts)

    def call(a, bw):
        return call_edfa(cfg, a, None if bw is None else bwspec, opts, stats)

    viol, obs, nt = check_scripted(call, sig, noi, npol, N, nkind, G, NF, fs_, f0_, bw_arg(bwspec, fs_), akind, seed, stats)
    return res(viol, obs=obs, nontrivial=nt, stats=stats)


# ------------------------------------------------------------------ part: sequence (ONE shared input object, ambient gv)
def case_sequence(case):
    """steps = ((gvspec | None, clean?, G, NF, BW/fs | None, feed the output to the next step?), ...).
    Every step is decided by the complete scripted oracle (seeded answer: zero twin, four unit rows, a and -a = 7..8 calls on the
    SAME object) against the content of the object and gv.fs / gv.f0 as they are right before the step."""
    name, N, layout, nkind, seed, frozen, steps = case
    from opticomlib.typing import gv
    stats = {'edfa_calls': 0}
    set_grid(1550e-9, 16e9)
    x, _, _, _ = make_input(N, layout, nkind, seed)
    viol, obs = [], []
    for i, (spec, clean, G, NF, bwf, feed) in enumerate(steps):
        if spec is not None:
            apply_gv(spec, clean)
        fs_, f0_ = float(gv.fs), float(gv.f0)
        if frozen:
            for a in (x.signal, x.noise):
                if a is not None:
                    a.flags.writeable = False
        sig, noi, npol = np.array(x.signal), None if x.noise is None else np.array(x.noise), x.n_pol

        def call(a, bw, x=x, G=G, NF=NF):
            return run_edfa(x, G, NF, bw, a, N, 'pos', stats)

        v, o, _ = check_scripted(call, sig, noi, npol, N, nkind, G, NF, fs_, f0_, None if bwf is None else bwf * fs_, 'seeded', seed, stats)
        viol += [(k, f'step {i} of {name}: {m}') for k, m in v]
        obs.append(o)
        if feed:
            b = seeded_answer(N, seed + 1 + i)
            st, y, _ = run_edfa(x, G, NF, None if bwf is None else bwf * fs_, b, N, 'pos', stats)
            if st == 'exc' and bwf is not None:
                # the filter itself rejects the record (too short for filtfilt): C11's business, the chain ends here
                from opticomlib.devices import BPF
                stu, yu, _ = run_edfa(x, G, NF, None, b, N, 'pos', stats)
                try:
                    BPF(yu, bwf * fs_)
                    ref_exc = None
                except Exception as e:
                    ref_exc = e
                if stu == 'ok' and type(ref_exc) is type(y):
                    stats['bw_filter_rejects_record'] = stats.get('bw_filter_rejects_record', 0) + 1
                    break
            if st == 'exc' or structure(y, N):
                viol.append(('seq:stage-fails', f'step {i} of {name}: EDFA fails: {y!r}'))
                break
            x = y
    return res(viol, obs=tuple(obs), nontrivial=(name, N, layout, nkind), stats=stats)


# ------------------------------------------------------------------ part: ase-basis (complete linear map for N = 8 and N = 1, 2, 3)
def case_basis(case):
    N, layout, nkind, G, NF, wl, fs, seed = case
    cfg = case
    P = p_ase(G, NF, C0 / wl, fs)
    amp = math.sqrt(P / 4)
    viol, stats = [], {'edfa_calls': 0}
    st, y0, _ = call_edfa(cfg, None, None)
    stats['edfa_calls'] += 1
    if st == 'exc':
        return res([exc_key(y0, nkind)], obs=('EXC', type(y0).__name__), nontrivial=G > 0, stats=stats)
    if structure(y0, N):
        return res(structure(y0, N), obs='STRUCT', nontrivial=G > 0, stats=stats)
    Z0 = noise_of(y0, N)
    cols = []
    mx = float(np.max(np.abs(Z0)))
    for r in range(4):
        for k in range(N):
            a = np.zeros((4, N))
            a[r, k] = 1.0
            st, y, reqs = call_edfa(cfg, a, None)
            stats['edfa_calls'] += 1
            if st == 'exc' or structure(y, N):
                return res([('ase:unit-answer-fails', f'EDFA fails under impulse answer ({r},{k}): {y!r}')], obs='EXC-I', nontrivial=G > 0, stats=stats)
            viol += req_check(reqs, N)
            Z = noise_of(y, N)
            mx = max(mx, float(np.max(np.abs(Z))))
            cols.append(vec32(Z - Z0))
    L = np.array(cols).T                       # (4N) x (4N)
    e = 4 * EPS * mx + 8 * EPS * amp
    Gm = L.T @ L
    n = math.sqrt(4 * N) * e
    tol = 2 * (2 * amp * n + n * n) + 32 * EPS * (P / 4)
    D = np.abs(Gm - (P / 4) * np.eye(4 * N))
    if np.any(np.abs(np.diag(Gm) - P / 4) > tol):
        i = int(np.argmax(np.abs(np.diag(Gm) - P / 4)))
        viol.append(('ase:power', f'basis: draw ({i // N},{i % N}) contributes energy {Gm[i, i]:.6g}, expected P_ase/4 = {P / 4:.6g} (G={G} dB, NF={NF} dB)'))
    off = D - np.diag(np.diag(D))
    if np.any(off > tol):
        i, j = np.unravel_index(int(np.argmax(off)), off.shape)
        viol.append(('ase:components-not-independent', f'basis: draws ({i // N},{i % N}) and ({j // N},{j % N}) give non-orthogonal ASE: {Gm[i, j]:.3g} vs P_ase/4={P / 4:.3g}'))
    # documented placement (observation): draw (r,k) -> sample k of x (r even) / y (r odd), real (r<2) / imaginary (r>=2) part
    doc = np.zeros((4 * N, 4 * N))
    for r in range(4):
        for k in range(N):
            comp = {0: 0, 2: 1, 1: 2, 3: 3}[r]     # vec32 order: Re x, Im x, Re y, Im y
            doc[comp * N + k, r * N + k] = amp
    stats['placement_as_documented' if np.all(np.abs(L - doc) <= e + 8 * EPS * amp) else 'placement_other_isometry_or_wrong'] = 1
    return res(viol, obs=(L.tobytes(), canon(y0)), nontrivial=G > 0, stats=stats)


# ------------------------------------------------------------------ part: non-optical
BAD_KINDS = ['ndarray-1d', 'ndarray-2d', 'electrical_signal', 'binary_sequence', 'list', 'tuple', 'None', 'float', 'int', 'complex', 'str', 'dict',
             # hardening pass: invalid in exactly one way / containing a valid token
             'electrical_signal-noise-free', 'list-of-optical', 'tuple-of-optical', 'dict-of-optical', 'object-array-of-optical', 'optical-class',
             'duck-typed', 'bool', 'np.float64', 'np.complex128-0d', 'bytes', 'gv']


class _Duck:
    """looks like an optical_signal (same attributes and methods) but is none"""

    def __init__(self, N):
        self.signal, self.noise, self.n_pol, self.execution_time = np.ones(N, complex), np.ones(N, complex) * 0.1, 1, 0.0

    def len(self):
        return self.signal.shape[-1]

    def __getitem__(self, s):
        return self

    def __mul__(self, o):
        return self


def make_bad(kind, N):
    from opticomlib.typing import electrical_signal, binary_sequence, optical_signal, gv
    ok = lambda: optical_signal(np.ones(N, complex), np.ones(N, complex) * 0.1)
    return {'ndarray-1d': lambda: np.ones(N, complex), 'ndarray-2d': lambda: np.ones((2, N), complex),
            'electrical_signal': lambda: electrical_signal(np.ones(N, complex), np.ones(N, complex) * 0.1),
            'binary_sequence': lambda: binary_sequence([1, 0] * (N // 2)), 'list': lambda: [1.0] * N,
            'tuple': lambda: (1.0,) * N, 'None': lambda: None, 'float': lambda: 1.0, 'int': lambda: 1,
            'complex': lambda: 1 + 1j, 'str': lambda: '1 2 3 4', 'dict': lambda: {'signal': [1, 2]},
            'electrical_signal-noise-free': lambda: electrical_signal(np.ones(N)), 'list-of-optical': lambda: [ok()],
            'tuple-of-optical': lambda: (ok(),), 'dict-of-optical': lambda: {'input': ok()},
            'object-array-of-optical': lambda: np.array(ok(), dtype=object), 'optical-class': lambda: optical_signal,
            'duck-typed': lambda: _Duck(N), 'bool': lambda: True, 'np.float64': lambda: np.float64(1.0),
            'np.complex128-0d': lambda: np.array(1 + 1j), 'bytes': lambda: b'1 0 1 1', 'gv': lambda: gv}[kind]()


def case_bad(case):
    kind, N, G, NF, wl, fs, bwf, form = case
    from opticomlib.devices import EDFA
    gv_reset(fs=fs, wavelength=wl)
    x = make_bad(kind, N)
    rng = ScriptedRNG(lambda k, i: None)
    try:
        with scripted_rng(rng):
            if form == 'kw':
                y = EDFA(input=x, G=G, NF=NF) if bwf is None else EDFA(input=x, G=G, NF=NF, BW=bwf * fs)
            else:
                y = EDFA(x, G, NF) if bwf is None else EDFA(x, G, NF, bwf * fs)
    except TypeError:
        return res([], obs=('TypeError', kind), nontrivial=kind)
    except Unscripted:
        raise
    except Exception as e:
        return res([(f'type:wrong-exception:{type(e).__name__}', f'non-optical input ({kind}) raised {type(e).__name__}: {e}, expected TypeError')],
                   obs=('EXC', type(e).__name__, kind), nontrivial=kind)
    return res([('type:no-TypeError', f'non-optical input ({kind}) accepted, returned {type(y).__name__}')], obs=('RET', kind), nontrivial=kind)


# ------------------------------------------------------------------ part: conformance (real RNG)
SIX = 6.0
CNAMES = ['Re x', 'Im x', 'Re y', 'Im y']


def component_stats(C, v, lags=(1,)):
    """six-sigma bands for four records C[i] (n samples each) that should be i.i.d. N(0, v) and mutually independent"""
    viol = []
    n = len(C[0])
    for i in range(4):
        vi = float(np.mean(C[i] ** 2))
        if not abs(vi / v - 1) <= SIX * math.sqrt(2 / n):
            viol.append(('conf:component-variance', f'{CNAMES[i]}: variance/(P_ase/4) = {vi / v:.5f}, band +-{SIX * math.sqrt(2 / n):.5f}'))
        mi = float(np.mean(C[i]))
        if not abs(mi) <= SIX * math.sqrt(v / n):
            viol.append(('conf:component-mean', f'{CNAMES[i]}: mean {mi:.3g} beyond six sigma {SIX * math.sqrt(v / n):.3g}'))
        # sample kurtosis m4/m2^2 of a normal sample: mean 3, variance 24/N (normalised by the SAMPLE variance,
        # so that a wrong power is reported under its own key only)
        k4 = float(np.mean(C[i] ** 4)) / (3 * vi * vi) if vi > 0 else float('inf')
        if not abs(k4 - 1) <= SIX * math.sqrt(24 / n) / 3:
            viol.append(('conf:not-gaussian-4th-moment', f'{CNAMES[i]}: m4/(3 m2^2) = {k4:.4f}, band +-{SIX * math.sqrt(24 / n) / 3:.4f}'))
        for lag in lags:
            if lag >= n:
                continue
            l1 = float(np.mean(C[i][lag:] * C[i][:-lag])) / v
            if not abs(l1) <= SIX / math.sqrt(n - lag):
                viol.append(('conf:samples-correlated', f'{CNAMES[i]}: lag-{lag} correlation {l1:.4f}, band +-{SIX / math.sqrt(n - lag):.4f}'))
        for j in range(i + 1, 4):
            cij = float(np.mean(C[i] * C[j])) / v
            if not abs(cij) <= SIX / math.sqrt(n):
                viol.append(('conf:components-correlated', f'{CNAMES[i]} / {CNAMES[j]}: correlation {cij:.4f}, band +-{SIX / math.sqrt(n):.4f}'))
    return viol


def case_conf(case):
    N, layout, nkind, G, NF, wl, fs, seed, rseed = case
    from opticomlib.devices import EDFA
    Gv, NFv = val(G), val(NF)
    g, P = gain(Gv), p_ase(Gv, NFv, C0 / wl, fs)
    viol = []
    npol = 1 if layout == '1pol' else 2

    def run(kind, reseed=True):
        gv_reset(fs=fs, wavelength=wl)
        x, s, n, _ = make_input(N, layout, kind, seed)
        if reseed:
            np.random.seed(rseed)
        try:
            return EDFA(x, arg(G), arg(NF)), s, n
        except Exception as e:
            return e, s, n

    y, sig, _ = run('absent')
    if isinstance(y, Exception):
        return res([exc_key(y, 'absent')], obs='EXC', nontrivial=True)
    sv = structure(y, N)
    if sv or (y.noise is None and P > 0):
        return res(sv or [('conf:no-noise', 'noise-free input, G > 0 dB: output carries no ASE')], obs='STRUCT', nontrivial=True)
    A = noise_of(y, N)
    v = P / 4
    six = SIX
    if P == 0:
        # G = 0 dB, the documented lower limit: (G-1) = 0 exactly -> no ASE at all, whatever the generator draws
        if np.any(A != 0):
            viol.append(('ase:nonzero-at-P_ase=0', f'G={Gv:g} dB: documented ASE power is exactly 0 but the output noise has max {float(np.max(np.abs(A))):.3g} (real-RNG run)'))
    else:
        # total power: (P/4)*chi2(4N)/N  ->  sd = P/sqrt(2N)
        Ptot = float(np.mean(np.abs(A[0]) ** 2 + np.abs(A[1]) ** 2))
        if not abs(Ptot / P - 1) <= six / math.sqrt(2 * N):
            viol.append(('conf:ase-power', f'sample ASE power {Ptot:.6g} W vs NF*h*f0*(G-1)*fs = {P:.6g} W: ratio {Ptot / P:.5f}, six-sigma band +-{six / math.sqrt(2 * N):.5f}'))
        viol += component_stats([A[0].real, A[0].imag, A[1].real, A[1].imag], v)
        # freshly drawn: a second call without reseeding gives another, uncorrelated realisation; reseeding reproduces the first
        y2, _, _ = run('absent', reseed=False)
        y3, _, _ = run('absent')
        if isinstance(y2, Exception) or isinstance(y3, Exception) or y2.noise is None or y3.noise is None:
            viol.append(('conf:second-call-fails', 'second call failed'))
        else:
            B = np.asarray(y2.noise)
            cc = float(np.mean((A * np.conj(B)).real)) / (2 * v)
            if np.array_equal(A, B) or not abs(cc) <= six / math.sqrt(2 * N) * math.sqrt(2):
                viol.append(('conf:not-freshly-drawn', f'two successive calls give correlated ASE (corr {cc:.4f})'))
            if not np.array_equal(A, np.asarray(y3.noise)):
                viol.append(('conf:not-from-global-rng', 'np.random.seed(s) does not reproduce the ASE realisation'))
    # signal gain
    S = np.asarray(y.signal)
    if not near(S[:npol], g * (sig if npol == 2 else sig[None, :])):
        viol.append(('signal:!=sqrtG*in', 'signal differs from sqrt(G)*input.signal (real-RNG run)'))
    if npol == 1 and np.any(S[1] != 0):
        viol.append(('signal:y-row-nonzero:1pol', 'y-row of the signal is not 0 for a 1-pol input (real-RNG run)'))
    # noisy twin under the same numpy seed: out.noise - ASE == sqrt(G)*in.noise
    obs_extra = None
    if nkind != 'absent':
        yn, _, noi = run(nkind)
        if isinstance(yn, Exception):
            viol.append(exc_key(yn, nkind))
        elif structure(yn, N) or yn.noise is None:
            viol.append((structure(yn, N) or [('shape:not-2pol', 'noisy twin: bad structure')])[0])
        else:
            Dn = np.asarray(yn.noise) - A
            nin = noi if npol == 2 else noi[None, :]
            tol = 4 * EPS * (float(np.max(np.abs(yn.noise))) + float(np.max(np.abs(A)))) + 8 * EPS * g * float(np.max(np.abs(nin)))
            if not np.all(np.abs(Dn[:npol] - g * nin) <= tol):
                if g != 1 and np.all(np.abs(Dn[:npol] - nin) <= tol):
                    viol.append(('noise:not-amplified', f'real-RNG twin: incoming noise passes with gain 1 instead of sqrt(G)={g:.6g}'))
                else:
                    viol.append(('noise:wrong-gain', 'real-RNG twin: out.noise - ASE != sqrt(G)*in.noise'))
            if npol == 1 and not np.all(np.abs(Dn[1]) <= tol):
                viol.append(('noise:duplicated-into-y:1pol', 'real-RNG twin: 1-pol input, its noise appears in the y-row'))
            obs_extra = canon(yn)
    return res(viol, obs=(canon(y), obs_extra), nontrivial=True, stats={'edfa_calls': 3 + (nkind != 'absent')})


# ------------------------------------------------------------------ part: fluct (real RNG, very short records, repeated calls)
def case_fluct(case):
    """K successive calls on ONE shared input object under the real generator (seeded once).  'freshly drawn, mutually independent
    Gaussian' => the realised ASE power T of one call is (P/4N) chi2(4N): mean P, variance P^2/(2N); it is NOT a constant.
    Six-sigma bands over K*N >= 2^16 samples."""
    N, K, layout, nkind, G, NF, wl, fs, seed, rseed = case
    from opticomlib.devices import EDFA
    from scipy.stats import chi2
    Gv, NFv = val(G), val(NF)
    g, P = gain(Gv), p_ase(Gv, NFv, C0 / wl, fs)
    gv_reset(fs=fs, wavelength=wl)
    x, sig, noi, npol = make_input(N, layout, nkind, seed)
    np.random.seed(rseed)
    A = np.zeros((K, 2, N), complex)
    viol = []
    for i in range(K):
        y = EDFA(x, arg(G), arg(NF))
        if i == 0:
            sv = structure(y, N)
            if sv or y.noise is None:
                return res(sv or [('conf:no-noise', 'G > 0 dB: output carries no ASE')], obs='STRUCT', nontrivial=True)
        A[i] = y.noise
    if not np.all(np.isfinite(A)):
        return res([('nonfinite:noise', f'{int(np.sum(~np.isfinite(A)))} non-finite noise samples in {K} calls')], obs='NONFINITE', nontrivial=True)
    if noi is not None:            # remove the amplified incoming noise (rounding 4 eps |g n| << ASE amplitude)
        A[:, :npol, :] -= g * (wide(noi) if npol == 2 else wide(noi)[None, :])
    d = 4 * N
    T = np.sum(np.abs(A) ** 2, axis=(1, 2)) / N / P            # realised power of each call / nominal
    m = float(np.mean(T))
    if not abs(m - 1) <= SIX / math.sqrt(2 * N * K):
        viol.append(('conf:ase-power', f'mean realised ASE power / nominal over {K} calls of {N} sample(s) = {m:.5f}, six-sigma band +-{SIX / math.sqrt(2 * N * K):.5f}'))
    # spread of the realised power around the nominal one: E (T-1)^2 = 2/d ; its estimator over K calls has the relative
    # standard deviation sqrt((mu4 - sigma^4)/K)/sigma^2 = sqrt((2 + 12/d)/K)   (chi2_d/d: mu4 = 12(d+4)/d^3, sigma^2 = 2/d)
    spread = float(np.mean((T - 1) ** 2)) / (2 / d)
    band = SIX * math.sqrt((2 + 12 / d) / K)
    if spread < 1e-6:
        viol.append(('conf:realised-power-does-not-fluctuate', f'the ASE power realised in a record of {N} sample(s) is the same in all {K} calls '
                     f'(relative spread {math.sqrt(spread * 2 / d):.3g}); independent Gaussian samples give {math.sqrt(2 / d):.3f}'))
    elif not abs(spread - 1) <= band:
        viol.append(('conf:realised-power-spread', f'variance of the realised ASE power over {K} calls of {N} sample(s) is {spread:.4f} x (P^2/2N), band +-{band:.4f}'))
    # how often a call realises more than twice the nominal power: chi2_d > 2d
    p2 = float(chi2.sf(2 * d, d))
    f2 = float(np.mean(T > 2))
    if not abs(f2 - p2) <= SIX * math.sqrt(p2 * (1 - p2) / K):
        viol.append(('conf:realised-power-tail', f'fraction of calls with realised ASE power > 2 P_ase: {f2:.5f}, chi2({d}) gives {p2:.5f} +- {SIX * math.sqrt(p2 * (1 - p2) / K):.5f}'))
    # pooled record (all calls one after the other): i.i.d. N(0, P/4) in the four components, within a call and from call to call
    C = [A[:, 0, :].real.ravel(), A[:, 0, :].imag.ravel(), A[:, 1, :].real.ravel(), A[:, 1, :].imag.ravel()]
    viol += component_stats(C, P / 4, lags=(1, N) if N > 1 else (1,))
    if snapshot(x) != [None if a is None else (a.dtype.str, a.shape, a.tobytes()) for a in (sig, noi)]:
        stats_changed = 1
    else:
        stats_changed = 0
    return res(viol, obs=A.tobytes(), nontrivial=True, stats={'edfa_calls': K, 'input_object_changed': stats_changed})


# ------------------------------------------------------------------ the extended alphabets of the hardening pass
UP = float(np.nextafter(1.0, 0.0))      # the double just below 1


def carrier_spellings(quick):
    """every way the carrier frequency IN FORCE (gv.f0 at the moment of the EDFA call) can come about OTHER than gv(wavelength=...)
    / gv.clean() (those are in the axis already): f0 as a keyword of gv() (documented: extra keywords become attributes; the unchanged
    gv() applies them after f0 = c/wavelength, so the keyword wins), plain attribute assignment, either one next to a wavelength that
    says something else, gv.wavelength assigned on its own (gv.f0 stays), and f0 set first with a later gv(...) call that reconfigures
    the rates (the unchanged gv() then puts f0 back to c/wavelength of THAT call).  The statement's power is NF*h*f0*(G-1)*fs over
    'all gv.f0': the reference takes gv.f0 as the harness reads it right before the call (`set_grid`), whatever its history.
    Values: the O-band and L-band edges c/1310 nm, c/1625 nm, and 187 THz given directly (float and int)."""
    sp = [(('fs', 16e9), ('f0', C0 / 1310e-9)),                                       # gv(fs=..., f0=...)
          (('fs', 16e9), ('=f0', C0 / 1625e-9)),                                      # gv(fs=...); gv.f0 = ...
          (('=f0', 187000000000000),),                                                # gv.clean(); gv.f0 = 187 THz (an int)
          (('fs', 16e9), ('wavelength', 1310e-9), ('f0', C0 / 1625e-9)),              # keyword f0 next to another wavelength
          (('fs', 16e9), ('=wavelength', 1310e-9)),                                   # gv.wavelength = ... alone: gv.f0 unchanged
          (('fs', 16e9), ('f0', 187e12), ('then', (('sps', 8), ('R', 2e9)))),         # f0 set, then the rates reconfigured
          (('sps', 16), ('R', 1e9), ('then', (('=f0', 187e12), ('=wavelength', 1310e-9))))]   # both assigned, inconsistently
    if not quick:
        sp += [(('sps', 16), ('R', 1e9), ('f0', 187e12)),                             # keyword f0 with (sps, R)
               (('sps', 8), ('R', 2e9), ('then', (('f0', C0 / 1310e-9),))),           # a second call gv(f0=...) alone (rates kept)
               (('fs', 160e9), ('wavelength', 1625e-9), ('=f0', C0 / 1310e-9)),       # assignment after a wavelength was configured
               (('fs', 16e9), ('=f0', 187e12), ('then', (('fs', 16e9), ('wavelength', 1310e-9))))]   # assigned, then gv(wavelength=...)
    return sp


def lattice_axes(quick):
    """name -> members that DEVIATE from the base point (N=16, 1pol, complex noise, G=3 (int), NF=3 (int), gv(fs=16e9) at 1550 nm,
    no BW, scale 1, positional call, writable ndarray-built input).  Simplest first."""
    ax = {}
    ax['N'] = [1, 2, 3, 8, 13, 17, 127, 1025] if quick else [1, 2, 3, 4, 5, 8, 13, 15, 17, 64, 97, 127, 1023, 1024, 1025, 4096, 4097]
    ax['layout'] = ['2pol', '2pol-empty-y', '2pol-empty-x', '2pol-dark', '2pol-noise-x-only', '2pol-noise-y-only', 'cascade']
    ax['nkind'] = (['absent', 'zero', 'real', 'absent-realsig', 'int', 'absent-intsig', 'intfloat', 'zero-sum']
                   + DTYPE_KINDS + [f'absent-{d}sig' for d in DTYPE_KINDS]
                   + ['mixed:complex128/float64', 'mixed:complex128/float32', 'mixed:complex128/int8', 'mixed:float64/int64',
                      'mixed:float64/complex128', 'mixed:float32/complex128', 'mixed:int64/float64', 'mixed:complex64/complex128'])
    # G in [0, 40] dB: both limits exactly, one ulp inside, as int / float / numpy scalar / 0-d array; non-integer values
    # (scalar spellings per the policy of HARDEN_BRIEF: Python int/float/bool, np.int64/int32/float64/float32, 0-d arrays; no 8/16-bit scalars)
    ax['G'] = [0, 20, 40, 0.0, 3.0, 40.0, 2.5, 17.3, False, True, 5e-324, float(np.nextafter(40.0, 0.0)),
               ('np.int64', 0), ('np.int64', 40), ('np.int32', 3), ('np.float64', 0.0), ('np.float64', 40.0),
               ('np.float32', 0), ('np.float32', 3), ('np.float32', 40), ('0d', 0), ('0d', 3.0), ('0d', 40)]
    # NF in [3, 10] dB likewise (the base value 3 is the lower limit as an int)
    ax['NF'] = [5, 10, 3.0, 10.0, 4.77, float(np.nextafter(3.0, 4.0)), float(np.nextafter(10.0, 0.0)),
                ('np.int64', 3), ('np.int64', 10), ('np.float64', 3.0), ('np.float64', 10.0), ('np.float32', 3), ('np.float32', 10),
                ('0d', 3), ('0d', 10.0)]
    # every documented way to configure the grid, integer and non-integer fs / R, other wavelengths, N set
    ax['gv'] = [(('fs', 16e9), ('wavelength', 1310e-9)), (('fs', 160e9),), (('sps', 16), ('R', 1e9)), (('sps', 8), ('fs', 20e9)),
                (('R', 2.5e9), ('fs', 40e9)), (('R', 3e9), ('fs', 40e9)), (('sps', 16), ('R', 1e9 / 3)), (('fs', 1e11 / 7),),
                (('fs', 16e9), ('wavelength', 850e-9)), (('sps', 16), ('R', 1e9), ('wavelength', 1625e-9), ('N', 64)),
                (('fs', 16e9), ('N', 128)), (('sps', 4), ('R', 10e9), ('wavelength', 1310e-9)), (('fs', 16000000000),),
                (('sps', 16), ('R', 1e9), ('wavelength', 1550e-9), ('G', 20), ('NF', 5), ('BW', 50e9))]
    ax['gv'] += carrier_spellings(quick)
    # optical bandwidth from very narrow to one ulp below fs (low-pass equivalent cut-off BW/2 < Nyquist), every scalar spelling
    ax['BW'] = [0.2, 0.6, 0.001, 0.01, 0.05, 0.5, 0.9, 0.99, UP, ('int', 0.2), ('np.int64', 0.6), ('np.float64', 0.2), ('np.float32', 0.25)]
    ax['scale'] = [1e-12, 1e-9, 1e-6, 1e6, 'dc']
    ax['call'] = ['kw', 'kw-mixed']
    ax['frozen'] = [True]
    ax['ctor'] = ['list', 'slice', 'copy']
    return ax


LATTICE_BASE = {'N': 16, 'layout': '1pol', 'nkind': 'complex', 'G': 3, 'NF': 3, 'gv': None, 'BW': None,
                'scale': 1, 'call': 'pos', 'frozen': False, 'ctor': 'ndarray'}


def legal(d):
    """combinations that are not inputs at all are left out"""
    sd, nd, _, _ = kind_dtypes(d['nkind'])
    if d['scale'] != 1 and (sd in INT_DT or nd in INT_DT or sd == 'intfloat' or 'float16' in (sd, nd)):
        return False            # a scale factor is meaningless for integer levels and under/overflows float16
    return True


def lattice_cases(quick, seed, k=2):
    ax = lattice_axes(quick)
    names = list(ax)
    out = []
    for r in range(k + 1):
        for combo in itertools.combinations(names, r):
            for vals in itertools.product(*[ax[n] for n in combo]):
                d = dict(LATTICE_BASE)
                d.update(zip(combo, vals))
                if not legal(d):
                    continue
                opts = tuple(sorted((n, d[n]) for n in ('gv', 'scale', 'call', 'frozen', 'ctor') if d[n] != LATTICE_BASE[n]))
                wl, fs = (1550e-9, 16e9) if d['gv'] is None else (None, None)
                for ak in ANSWERS:
                    out.append((d['N'], d['layout'], d['nkind'], d['G'], d['NF'], wl, fs, d['BW'], ak, seed, opts))
    return out


def sequence_cases(quick, seed):
    """call sequences on ONE shared input object"""
    S = [(('fs', 16e9),), (('fs', 16e9), ('wavelength', 1310e-9)), (('fs', 160e9), ('wavelength', 1550e-9)),
         (('sps', 8), ('R', 2.5e9), ('wavelength', 850e-9)), (('sps', 16), ('R', 1e9), ('N', 32)), (('R', 3e9), ('fs', 40e9), ('wavelength', 1625e-9)),
         # the carrier set on its own (keyword / assignment; the latter also WITHOUT any gv() call: on the ambient grid of the step before)
         (('fs', 16e9), ('f0', C0 / 1310e-9)), (('=f0', 187e12),)]
    inputs = [(16, '1pol', 'complex'), (16, '2pol-empty-y', 'complex'), (2, '2pol', 'complex')] + ([] if quick else [(16, '1pol', 'absent'), (17, '2pol', 'int')])
    out = []
    # grid switches g1, g2, g1 (every ordered pair, incl. g1 = g2: the plain repeated call), reconfigured with and without gv.clean()
    for (N, lay, nk), (G, NF) in itertools.product(inputs, [(3, 3), (40, 10)] if quick else [(3, 3), (20, 5), (40, 10)]):
        for a, b in itertools.product(range(len(S)), repeat=2):
            for clean in (False, True):
                steps = tuple((S[i], clean, G, NF, None, False) for i in (a, b, a))
                out.append((f'gv-switch:{a},{b},{a}:{"clean" if clean else "reconf"}', N, lay, nk, seed, False, steps))
    # sweeps of one parameter on the shared object (G over the whole range incl. both limits, NF, BW), writable and write-protected
    sweeps = {'sweep-G': [(None, False, G, 5, None, False) for G in (0, 3, 0.0, 40, ('np.float32', 10), 20, 0, 40.0)],
              'sweep-NF': [(None, False, 20, NF, None, False) for NF in (3, 10, 3.0, ('np.int64', 5), 10.0, 3)],
              'sweep-BW': [(None, False, 20, 5, bw, False) for bw in (None, 0.2, 0.9, 0.01, None, UP, 0.5)],
              # EDFA chains: the output of one amplifier (2-pol, dark but noisy y for a 1-pol source) is the input of the next
              'chain': [(None, False, G, NF, bw, True) for G, NF, bw in ((10, 5, None), (0, 3, None), (3, 10, 0.6), (40, 3, None), (20, 7, 0.2))]}
    for (N, lay, nk), (name, steps), frozen in itertools.product(inputs, sweeps.items(), (False, True)):
        out.append((name + (':frozen' if frozen else ''), N, lay, nk, seed, frozen, tuple(steps)))
    return out


# ------------------------------------------------------------------ driver
def run(ctx):
    seed = int(ctx.seed)
    WL = [1550e-9, 1310e-9]
    if ctx.quick:
        Ns = [8, 16, 64]
        Gs = [0, 3, 20, 40]
        NFs = [3, 5, 10]
        FS = [16e9, 160e9]
        BWs = [None, 0.2, 0.6]       # 0.6 fs: a wide but legal optical filter (its low-pass equivalent cuts at 0.3 fs)
        conf_seeds = [1, 2]
        confN = 2 ** 16
    else:
        Ns = [8, 16, 17, 64, 256]
        Gs = [0, 1, 3, 10, 20, 40]
        NFs = [3, 7, 10]
        FS = [16e9, 40e9, 160e9]
        BWs = [None, 0.1, 0.2, 0.6, 0.9]
        conf_seeds = [1, 2, 3, 4]
        confN = 2 ** 17
    gvs = [(w, f) for w in WL for f in FS]
    ax = lattice_axes(ctx.quick)
    ctx.rule(f'scripted: FULL product N{Ns} x layout{LAYOUTS} x noise-kind{NKINDS} x G{Gs} dB x NF{NFs} dB x wavelength{WL} x fs{FS} x BW/fs{BWs} '
             f'x RNG answer{ANSWERS} (unit cases execute all four unit rows, the seeded case executes +a and -a); simplest first; '
             f'lattice: every configuration with <= 2 deviations from {LATTICE_BASE} over the extended alphabets '
             + '; '.join(f'{n}{v}' for n, v in ax.items()) + f' x RNG answer{ANSWERS} (scale x integer/float16 samples left out); '
             f'sequence: one shared input object, grid switches g1,g2,g1 over all ordered pairs of 8 grid spellings incl. gv(f0=...) and gv.f0 = ... (reconfigured with/without gv.clean()), '
             f'sweeps of G / NF / BW and 5-stage EDFA chains, writable and write-protected, every step decided by the complete scripted oracle; '
             f'ase-basis: all 4N impulse answers for N=8 (and N=1,2,3) over layout x noise{{absent,complex}} x G x NF x gv; non-optical: {len(BAD_KINDS)} input classes x BW x (G,NF) x call form; '
             f'conformance: numpy global RNG reseeded with {conf_seeds}, {confN} samples, six-sigma bands; '
             f'fluct: real RNG, N in 1..4 (thorough ..16), ceil({confN}/N) successive calls on one shared input, six-sigma bands')
    ctx.assume('numpy.random.randn returns i.i.d. standard normal deviates (trusted; bound to the scripted seam by the conformance part)')
    ctx.assume('BPF (devices.BPF) is the optical filter meant by the statement (its own properties are C11); f0 of the statement is gv.f0 as it is '
               'right before the call (= c/wavelength after gv(wavelength=...) / gv.clean(), C14; the value given when gv.f0 was set on its own)')
    ctx.assume('the RNG seam: EDFA draws its ASE through exactly one numpy.random.randn(4, N) request (any other request is reported as rng:request-log)')
    ctx.assume('a G / NF scalar or a sample array of less than double precision (float16, float32, complex64) may be processed in its own precision: '
               'the rounding tolerances scale with that eps')

    cases = []
    for N, lay, nk, G, NF, (wl, fs), bw, ak in itertools.product(Ns, LAYOUTS, NKINDS, Gs, NFs, gvs, BWs, ANSWERS):
        cases.append((N, lay, nk, G, NF, wl, fs, bw, ak, seed))
    # simplest first: short, 1-pol, noise absent, G=0, no filter, zero answer
    order = {v: i for i, v in enumerate(ANSWERS)}
    cases.sort(key=lambda c: (c[0], c[7] is not None, LAYOUTS.index(c[1]), NKINDS.index(c[2]), order[c[8]], c[3], c[4], -c[5], c[6], c[7] or 0))
    ctx.pmap('scripted', case_scripted, cases, horizon=20)

    done = set(map(repr, cases))       # by spelling: G=False is not the case G=0
    lcases = [c for c in lattice_cases(ctx.quick, seed) if not (c[10] == () and repr(c[:10]) in done)]
    ctx.pmap('lattice', case_scripted, lcases, horizon=30)

    ctx.pmap('sequence', case_sequence, sequence_cases(ctx.quick, seed), horizon=60)

    bcases = [(N, lay, nk, G, NF, wl, fs, seed) for N, lay, nk, G, NF, (wl, fs) in itertools.product([1, 2, 3, 8], LAYOUTS, ['absent', 'complex'], Gs, NFs, gvs)]
    ctx.pmap('ase-basis', case_basis, bcases, horizon=20)

    tcases = [(k, 8, G, NF, wl, fs, bw, form) for k, (G, NF), (wl, fs), bw, form in
              itertools.product(BAD_KINDS, [(20, 5), (0, 3), (40, 10.0)], gvs, BWs, ['pos', 'kw'])]
    ctx.pmap('non-optical', case_bad, tcases, horizon=20)

    ccases = []
    # (G, NF): interior points and the corners of the documented ranges [0, 40] dB x [3, 10] dB
    confG = [(3, 3), (20, 5), (40, 10), (40, 3), (0, 10), (('np.float32', 3), 10.0)] if ctx.quick else \
        [(1, 3), (3, 10), (20, 5), (40, 7), (40, 3), (40, 10), (0, 3), (0.0, 10), (('np.float32', 3), 10.0), (17.3, ('np.int64', 3))]
    for rs, (G, NF), (wl, fs), (lay, nk) in itertools.product(conf_seeds, confG, gvs, [('1pol', 'absent'), ('1pol', 'complex'), ('2pol', 'absent'),
                                                                                      ('2pol', 'complex'), ('2pol-empty-y', 'complex')]):
        ccases.append((confN, lay, nk, G, NF, wl, fs, seed, (seed * 1000003 + rs) % (2 ** 32)))
    ctx.pmap('conformance', case_conf, ccases, horizon=60)

    fcases = []
    fN = [1, 2, 3, 4] if ctx.quick else [1, 2, 3, 4, 5, 8, 16]
    fin = [('1pol', 'absent'), ('1pol', 'complex'), ('2pol', 'complex')] + ([] if ctx.quick else [('2pol', 'absent'), ('2pol-empty-y', 'complex')])
    fG = [(3, 3), (40, 10)] if ctx.quick else [(3, 3), (20, 5), (40, 10), (1, 10.0)]
    for rs, N, (lay, nk), (G, NF), (wl, fs) in itertools.product(conf_seeds[:1] if ctx.quick else conf_seeds[:2], fN, fin, fG, gvs[:1]):
        fcases.append((N, -(-confN // N), lay, nk, G, NF, wl, fs, seed, (seed * 1000003 + 77 + rs) % (2 ** 32)))
    ctx.pmap('fluct', case_fluct, fcases, horizon=120)
