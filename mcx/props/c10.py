"""C10 - EDFA applies the gain sqrt(G) to ALL of its input (signal and incoming noise, in the
polarisations present) and adds ASE of total power NF*h*f0*(G-1)*fs.

Bounded-exhaustive exploration of the REAL `opticomlib.devices.EDFA`:

part `scripted`    full product  N x layout x noise-kind x G x NF x gv(wavelength, fs) x BW x RNG answer.
                   numpy's global RNG is replaced by `ScriptedRNG`; every answer of the alphabet
                   {zero, one row of ones (4 variants), seeded (+a and -a)} is executed.
part `ase-basis`   N = 8: ALL 32 impulse answers e_(r,k) -> the complete real 32x32 matrix L of the
                   (linear) map "randn(4,N) answer -> ASE"; oracle L^T L = (P_ase/4) I.
part `non-optical` every non-optical input class x BW -> TypeError.
part `conformance` real numpy RNG (np.random.seed), 2^16 samples: binds the scripted seam to the
                   real generator; six-sigma bands from the property text.

Reference model (boring): out.signal = g*in.signal in rows present, 0 in y for 1-pol input;
out.noise(answer) = g*in.noise (same rows) + L(answer), L = sqrt(P/4) x (an isometry of R^(4N));
g = sqrt(10^(G/10)), P = 10^(NF/10) * h * (c/wavelength) * (10^(G/10) - 1) * fs.
"""
from __future__ import annotations
import functools
import itertools
import math
import numpy as np
from scipy.constants import h as H_PLANCK, c as C0

from mcx.core.kernel import res
from mcx.core.env import gv_reset, ScriptedRNG, scripted_rng, Unscripted

ID = 'C10'
LEVEL = 'exploration'
NONTRIVIAL = ('G > 0 dB and (the input carries non-zero noise or the RNG answer is non-zero), i.e. the gain law on the '
              'incoming noise or the ASE clause has something to bite on; counted by distinct observed outputs')

EPS = np.finfo(float).eps
LAYOUTS = ['1pol', '2pol', '2pol-empty-y']
NKINDS = ['absent', 'zero', 'complex', 'real', 'absent-realsig', 'int', 'absent-intsig']   # int kinds: integer-dtype samples
ANSWERS = ['zero', 'u0', 'u1', 'u2', 'u3', 'seeded']


# ------------------------------------------------------------------ inputs
@functools.lru_cache(maxsize=64)
def build_arrays(N, layout, nkind, seed):
    """(signal, noise|None) arrays of the input (read-only, cached); content: deterministic ramp/tone + seeded field"""
    rs = np.random.RandomState([int(seed) % (2 ** 31), N, 1010])
    k = np.arange(N)
    A = math.sqrt(1e-3)            # ~ 0 dBm
    s1 = A * (1 + 0.5 * k / N) * np.exp(2j * np.pi * 3 * k / N) + A / 4 * (rs.randn(N) + 1j * rs.randn(N))
    s2 = A * (0.5 + 0.25 * k / N) * np.exp(-2j * np.pi * 2 * k / N) + A / 4 * (rs.randn(N) + 1j * rs.randn(N))
    sg = A / 20                    # OSNR_in ~ 26 dB
    n1 = sg * ((-1.0) ** k * (0.5 + 0.5j) + 0.5 * (rs.randn(N) + 1j * rs.randn(N)))
    n2 = sg * ((-1.0) ** (k // 2) * (0.5 - 0.5j) + 0.5 * (rs.randn(N) + 1j * rs.randn(N)))
    if layout == '1pol':
        sig, noi = s1, n1
    elif layout == '2pol':
        sig, noi = np.array([s1, s2]), np.array([n1, n2])
    elif layout == '2pol-empty-y':
        sig, noi = np.array([s1, np.zeros(N)]), np.array([n1, n2])
    else:
        raise AssertionError(layout)
    if nkind in ('absent', 'absent-realsig', 'absent-intsig'):
        noi = None
    elif nkind == 'zero':
        noi = np.zeros_like(noi)
    if nkind in ('real', 'absent-realsig'):
        sig = np.ascontiguousarray(sig.real)
        if noi is not None:
            noi = np.ascontiguousarray(noi.real)
    if nkind in ('int', 'absent-intsig'):
        sig = np.rint(sig.real * 8).astype(np.int64) + 1
        if noi is not None:
            noi = np.rint(noi.real * 64).astype(np.int64)
    sig.flags.writeable = False
    if noi is not None:
        noi.flags.writeable = False
    return sig, noi


def build_input(N, layout, nkind, seed):
    from opticomlib.typing import optical_signal
    sig, noi = build_arrays(N, layout, nkind, seed)
    x = optical_signal(sig.copy(), None if noi is None else noi.copy())
    npol = 1 if layout == '1pol' else 2
    assert x.n_pol == npol and x.signal.shape == sig.shape, 'harness: input construction'
    if nkind == 'real':
        assert x.signal.dtype == np.float64 and x.noise.dtype == np.float64, 'harness: real dtype input'
    return x, sig, noi, npol


@functools.lru_cache(maxsize=16)
def seeded_answer(N, seed):
    rs = np.random.RandomState([int(seed) % (2 ** 31), N, 4040])
    a = rs.randn(4, N)
    a.flags.writeable = False
    return a


def unit_answer(N, r):
    a = np.zeros((4, N))
    a[r] = 1.0
    return a


def p_ase(G, NF, wl, fs):
    return 10 ** (NF / 10) * H_PLANCK * (C0 / wl) * (10 ** (G / 10) - 1) * fs


def gain(G):
    return math.sqrt(10 ** (G / 10))


# ------------------------------------------------------------------ calling the real thing
def call_edfa(cfg, ans, BW):
    """one execution of the real EDFA on a fresh input under a scripted RNG.
    returns (status, value, requests): ('ok', output) | ('exc', exception)"""
    from opticomlib.devices import EDFA
    N, layout, nkind, G, NF, wl, fs, seed = cfg
    gv_reset(fs=fs, wavelength=wl)
    x, _, _, _ = build_input(N, layout, nkind, seed)

    def answer(kind, info):
        if kind == 'randn' and info['size'] == (4, N) and ans is not None:
            return ans
        return None
    rng = ScriptedRNG(answer)
    try:
        with scripted_rng(rng):
            y = EDFA(x, G, NF) if BW is None else EDFA(x, G, NF, BW)
    except Unscripted:
        raise
    except Exception as e:  # library exception: classified by the caller
        return 'exc', e, rng.requests
    return 'ok', y, rng.requests


def structure(y, N):
    """[] if y is a 2-pol optical_signal of N samples, else violations"""
    from opticomlib.typing import optical_signal
    if not isinstance(y, optical_signal):
        return [('shape:not-optical_signal', f'EDFA returned {type(y).__name__}')]
    if y.n_pol != 2 or np.shape(y.signal) != (2, N):
        return [('shape:not-2pol', f'n_pol={y.n_pol} signal.shape={np.shape(y.signal)} expected (2,{N})')]
    if y.noise is not None and np.shape(y.noise) != (2, N):
        return [('shape:noise-not-2pol', f'noise.shape={np.shape(y.noise)} expected (2,{N})')]
    return []


def near(a, b, k=8):
    """elementwise |a-b| <= k*eps*|b| : one pow, one sqrt, one (complex) product => a few ulp"""
    a = np.asarray(a)
    b = np.asarray(b)
    return a.shape == b.shape and bool(np.all(np.abs(a - b) <= k * EPS * np.abs(b)))


def noise_of(y, N):
    return np.zeros((2, N), complex) if y.noise is None else np.asarray(y.noise)


def vec32(z):
    """(2,N) complex -> real vector (Re x, Im x, Re y, Im y)"""
    z = np.asarray(z, dtype=complex)
    return np.concatenate([z[0].real, z[0].imag, z[1].real, z[1].imag])


def exc_key(e, nkind):
    return (f'exc:{type(e).__name__}:{nkind}-noise', f'EDFA raised {type(e).__name__}: {e} for an optical input with noise kind {nkind!r}')


def req_check(reqs, N):
    want = [{'fn': 'randn', 'size': (4, N)}]
    if reqs != want:
        return [('rng:request-log', f'RNG requests {reqs!r}, expected exactly one randn(4, {N})')]
    return []


def canon(y):
    s = np.ascontiguousarray(y.signal)
    n = None if y.noise is None else np.ascontiguousarray(y.noise)
    return (s.dtype.str, s.shape, s.tobytes(), None if n is None else (n.dtype.str, n.shape, n.tobytes()))


# ------------------------------------------------------------------ part: scripted
def case_scripted(case):
    N, layout, nkind, G, NF, wl, fs, bwf, akind, seed = case
    cfg = (N, layout, nkind, G, NF, wl, fs, seed)
    BW = None if bwf is None else bwf * fs
    sig, noi = build_arrays(N, layout, nkind, seed)
    npol = 1 if layout == '1pol' else 2
    g, P = gain(G), p_ase(G, NF, wl, fs)
    amp = math.sqrt(P / 4)
    viol, stats = [], {'edfa_calls': 0}
    if akind == 'zero':
        ans = None
    elif akind == 'seeded':
        ans = seeded_answer(N, seed)
    else:
        ans = unit_answer(N, int(akind[1]))

    def call(a, bw):
        stats['edfa_calls'] += 1
        return call_edfa(cfg, a, bw)

    nonzero_noise = nkind in ('complex', 'real', 'int')
    nt = G > 0 and (nonzero_noise or akind != 'zero')

    # ---------------- unfiltered execution under this case's answer
    st, y, reqs = call(ans, None)
    if st == 'exc':
        viol.append(exc_key(y, nkind))
        return res(viol, obs=('EXC', type(y).__name__, str(bwf)), nontrivial=nt, stats=stats)
    viol += req_check(reqs, N)
    sv = structure(y, N)
    if sv:
        return res(viol + sv, obs=('STRUCT', sv[0][0]), nontrivial=nt, stats=stats)

    if BW is not None:
        # ------------ band-limiting clause: EDFA(BW) == BPF(unfiltered twin, BW) for the same answer
        from opticomlib.devices import BPF
        st2, yb, reqs2 = call(ans, BW)
        gv_reset(fs=fs, wavelength=wl)
        try:
            ref = BPF(y, BW)
            ref_exc = None
        except Exception as e:  # the filter itself rejects the record (e.g. too short for filtfilt): C11's business
            ref, ref_exc = None, e
        if st2 == 'exc':
            if ref_exc is not None and type(ref_exc) is type(yb):
                stats['bw_filter_rejects_record'] = 1
                return res(viol, obs=('BW-EXC', type(yb).__name__), nontrivial=False, stats=stats)
            viol.append((f'bw:exc:{type(yb).__name__}', f'EDFA(BW={BW:g}) raised {type(yb).__name__}: {yb} while BPF(EDFA(BW=None), BW) '
                         + ('returns' if ref_exc is None else f'raises {type(ref_exc).__name__}')))
            return res(viol, obs=('BW-EXC', type(yb).__name__), nontrivial=nt, stats=stats)
        viol += req_check(reqs2, N)
        sv = structure(yb, N)
        if sv:
            return res(viol + sv, obs=('STRUCT', sv[0][0]), nontrivial=nt, stats=stats)
        if ref_exc is not None:
            stats['bw_edfa_returns_where_BPF_raises'] = 1     # statement silent: accepted
            return res(viol, obs=canon(yb), nontrivial=nt, stats=stats)
        # same filter on the same data: rounding only. forward-backward 4th order Bessel, unit DC gain:
        # <= 16*N*eps*max|x| allows any evaluation order of the same linear filter
        for name in ('signal', 'noise'):
            a = getattr(yb, name)
            b = getattr(ref, name)
            if (a is None) != (b is None):
                a = np.zeros((2, N)) if a is None else a
                b = np.zeros((2, N)) if b is None else b
            if a is None:
                continue
            tol = 16 * N * EPS * max(float(np.max(np.abs(b))), float(np.max(np.abs(getattr(y, name) if getattr(y, name) is not None else 0))))
            if np.shape(a) != np.shape(b) or not np.all(np.abs(np.asarray(a) - np.asarray(b)) <= tol):
                d = float(np.max(np.abs(np.asarray(a) - np.asarray(b)))) if np.shape(a) == np.shape(b) else float('nan')
                viol.append((f'bw:{name}!=BPF(twin)', f'EDFA(..., BW={BW:g}).{name} differs from BPF(EDFA(..., BW=None), BW).{name} by {d:.3g} (tol {tol:.3g})'))
        return res(viol, obs=canon(yb), nontrivial=nt, stats=stats)

    # ---------------- signal clause (every answer: the signal must not depend on the RNG)
    S = np.asarray(y.signal)
    rows = slice(0, npol)
    want = g * (sig if npol == 2 else sig[None, :])
    if not near(S[rows], want):
        d = float(np.max(np.abs(S[rows] - want)))
        viol.append(('signal:!=sqrtG*in', f'signal differs from sqrt(G)*input.signal by {d:.3g} in the rows present (G={G} dB)'))
    if npol == 1 and np.any(S[1] != 0):
        viol.append(('signal:y-row-nonzero:1pol', f'y-row of the signal is not 0 for a 1-pol input (max {float(np.max(np.abs(S[1]))):.3g})'))

    # ---------------- noise under the zero answer (the twin of every other answer)
    if akind == 'zero':
        y0 = y
    else:
        st0, y0, reqs0 = call(None, None)
        if st0 == 'exc':
            viol.append(exc_key(y0, nkind))
            return res(viol, obs=('EXC', type(y0).__name__), nontrivial=nt, stats=stats)
        sv = structure(y0, N)
        if sv:
            return res(viol + sv, obs=('STRUCT', sv[0][0]), nontrivial=nt, stats=stats)
    Z0 = noise_of(y0, N)

    if akind == 'zero':
        if noi is None:
            if np.any(Z0 != 0):
                viol.append(('noise:nonzero:noise-free-input+zero-ASE', f'noise-free input and zero ASE answer but output noise max {float(np.max(np.abs(Z0))):.3g}'))
        else:
            nin = noi if npol == 2 else noi[None, :]
            if not near(Z0[rows], g * nin):
                if g != 1 and near(Z0[rows], nin):
                    viol.append(('noise:not-amplified', f'incoming noise passes with gain 1 instead of sqrt(G)={g:.6g} (G={G} dB): '
                                 f'max|out-sqrtG*in|={float(np.max(np.abs(Z0[rows] - g * nin))):.3g}'))
                else:
                    viol.append(('noise:wrong-gain', f'noise in the rows present differs from sqrt(G)*input.noise by {float(np.max(np.abs(Z0[rows] - g * nin))):.3g}'))
            if npol == 1 and np.any(Z0[1] != 0):
                if near(Z0[1], Z0[0]) or near(Z0[1], noi) or near(Z0[1], g * noi):
                    viol.append(('noise:duplicated-into-y:1pol', f'1-pol input: its noise appears in the y-row too (max {float(np.max(np.abs(Z0[1]))):.3g}), expected 0'))
                else:
                    viol.append(('noise:y-row-nonzero:1pol', f'1-pol input, zero ASE answer: y-row of the noise max {float(np.max(np.abs(Z0[1]))):.3g}, expected 0'))
        return res(viol, obs=(canon(y), repr(reqs)), nontrivial=nt, stats=stats)

    # ---------------- ASE clause: L(answer) = noise(answer) - noise(0)
    def ase_of(yy):
        return noise_of(yy, N) - Z0

    def elem_err(*ys):
        # rounding of the library's `g*n + ase` and of my subtraction
        m = max([float(np.max(np.abs(Z0)))] + [float(np.max(np.abs(noise_of(q, N)))) for q in ys])
        return 4 * EPS * m + 8 * EPS * amp

    units = []
    for r in range(4):
        if akind == f'u{r}':
            units.append(y)
            continue
        stu, yu, _ = call(unit_answer(N, r), None)
        if stu == 'exc' or structure(yu, N):
            viol.append(('ase:unit-answer-fails', f'EDFA fails under unit answer row {r}: {yu!r}'))
            return res(viol, obs=('EXC-U', r), nontrivial=nt, stats=stats)
        units.append(yu)
    V = [vec32(ase_of(q)) for q in units]           # responses to "row r all ones"
    e = elem_err(*units)

    def gram_tol(na, nb):
        # <u+du, v+dv> - <u,v>, |du|,|dv| <= sqrt(4N)*e ; plus rounding of P itself (a few ulp)
        n = math.sqrt(4 * N) * e
        return 2 * (na * n + nb * n + n * n) + 32 * EPS * (P / 4) * N

    if akind.startswith('u'):
        r = int(akind[1])
        nr = math.sqrt(P / 4 * N)
        for s in range(4):
            gk = float(V[r] @ V[s])
            wantg = P / 4 * N if s == r else 0.0
            if abs(gk - wantg) > gram_tol(nr, nr):
                if s == r:
                    viol.append(('ase:power', f'ASE response to answer row {r} (all ones) has energy {gk:.6g}, expected (P_ase/4)*N = {wantg:.6g} '
                                 f'(P_ase={P:.6g} W, G={G} dB, NF={NF} dB)'))
                else:
                    viol.append(('ase:components-not-independent', f'ASE responses to answer rows {r} and {s} are not orthogonal: <.,.>={gk:.3g} (P_ase/4*N={P / 4 * N:.3g})'))
        # documented placement (observation only): x = row0 + j row2, y = row1 + j row3
        doc = np.zeros((2, N), complex)
        doc[r % 2] = amp * (1.0 if r < 2 else 1j)
        if np.all(np.abs(ase_of(y) - doc) <= e + 8 * EPS * amp):
            stats['placement_as_documented'] = 1
        else:
            stats['placement_other_isometry_or_wrong'] = 1
        return res(viol, obs=(canon(y), repr(reqs)), nontrivial=nt, stats=stats)

    # seeded answer a and its mirror -a
    stn, yn, reqsn = call(-ans, None)
    if stn == 'exc' or structure(yn, N):
        viol.append(('ase:mirror-answer-fails', f'EDFA fails under the mirrored seeded answer: {yn!r}'))
        return res(viol, obs=('EXC-M',), nontrivial=nt, stats=stats)
    e = elem_err(y, yn, *units)
    La, Lm = ase_of(y), ase_of(yn)
    if not np.all(np.abs(La + Lm) <= 2 * e):
        viol.append(('ase:not-odd-in-answer', f'noise(a)+noise(-a) != 2*noise(0): max dev {float(np.max(np.abs(La + Lm))):.3g}'))
    ea = float(np.sum(np.abs(La) ** 2))
    wantE = P / 4 * float(np.sum(ans ** 2))
    na = math.sqrt(wantE)
    if abs(ea - wantE) > gram_tol(na, na) * 2:
        viol.append(('ase:power', f'ASE energy under the seeded answer {ea:.6g}, expected (P_ase/4)*|a|^2 = {wantE:.6g} (P_ase={P:.6g} W, G={G} dB, NF={NF} dB)'))
    # per-sample superposition of the unit responses (draw (r,k) acts on sample k with the coefficient measured by row r)
    Vc = [ase_of(q) for q in units]
    sup = sum(ans[r][None, :] * Vc[r] for r in range(4))
    amax = float(np.max(np.abs(ans)))
    if np.all(np.abs(La - sup) <= (1 + 4 * amax) * e + 16 * EPS * amp * amax):
        stats['ase_sample_diagonal'] = 1
    else:
        stats['ase_mixes_samples'] = 1      # still an isometry is acceptable; decided completely in part ase-basis
    # OSNR clause (noisy inputs): mean noise power over the equally likely pair (a, -a) = |noise(0)|^2 + |L a|^2
    if nonzero_noise:
        nin = noi
        Ps_in, Pn_in = float(np.sum(np.abs(sig) ** 2)), float(np.sum(np.abs(nin) ** 2))
        Ps_out = float(np.sum(np.abs(np.asarray(y.signal)) ** 2))
        Pn_out = 0.5 * (float(np.sum(np.abs(noise_of(y, N)) ** 2)) + float(np.sum(np.abs(noise_of(yn, N)) ** 2)))
        # OSNR_out <= OSNR_in  <=>  Ps_out*Pn_in <= Ps_in*Pn_out ; sums of <= 2N squares: relative rounding <= 4N*eps each
        lhs, rhs = Ps_out * Pn_in, Ps_in * Pn_out
        if lhs > rhs * (1 + 64 * N * EPS):
            viol.append(('osnr:increased', f'OSNR_out/OSNR_in = {lhs / rhs:.6g} > 1 (G={G} dB, NF={NF} dB): the amplifier improves the optical SNR'))
    return res(viol, obs=(canon(y), canon(yn), repr(reqs)), nontrivial=nt, stats=stats)


# ------------------------------------------------------------------ part: ase-basis (complete linear map for N = 8)
def case_basis(case):
    N, layout, nkind, G, NF, wl, fs, seed = case
    cfg = case
    P = p_ase(G, NF, wl, fs)
    amp = math.sqrt(P / 4)
    viol, stats = [], {'edfa_calls': 0}
    st, y0, _ = call_edfa(cfg, None, None)
    stats['edfa_calls'] += 1
    if st == 'exc':
        return res([exc_key(y0, nkind)], obs=('EXC', type(y0).__name__), nontrivial=G > 0, stats=stats)
    if structure(y0, N):
        return res(structure(y0, N), obs='STRUCT', nontrivial=G > 0, stats=stats)
    Z0 = noise_of(y0, N)
    cols = []
    mx = float(np.max(np.abs(Z0)))
    for r in range(4):
        for k in range(N):
            a = np.zeros((4, N))
            a[r, k] = 1.0
            st, y, reqs = call_edfa(cfg, a, None)
            stats['edfa_calls'] += 1
            if st == 'exc' or structure(y, N):
                return res([('ase:unit-answer-fails', f'EDFA fails under impulse answer ({r},{k}): {y!r}')], obs='EXC-I', nontrivial=G > 0, stats=stats)
            viol += req_check(reqs, N)
            Z = noise_of(y, N)
            mx = max(mx, float(np.max(np.abs(Z))))
            cols.append(vec32(Z - Z0))
    L = np.array(cols).T                       # (4N) x (4N)
    e = 4 * EPS * mx + 8 * EPS * amp
    Gm = L.T @ L
    n = math.sqrt(4 * N) * e
    tol = 2 * (2 * amp * n + n * n) + 32 * EPS * (P / 4)
    D = np.abs(Gm - (P / 4) * np.eye(4 * N))
    if np.any(np.abs(np.diag(Gm) - P / 4) > tol):
        i = int(np.argmax(np.abs(np.diag(Gm) - P / 4)))
        viol.append(('ase:power', f'basis: draw ({i // N},{i % N}) contributes energy {Gm[i, i]:.6g}, expected P_ase/4 = {P / 4:.6g} (G={G} dB, NF={NF} dB)'))
    off = D - np.diag(np.diag(D))
    if np.any(off > tol):
        i, j = np.unravel_index(int(np.argmax(off)), off.shape)
        viol.append(('ase:components-not-independent', f'basis: draws ({i // N},{i % N}) and ({j // N},{j % N}) give non-orthogonal ASE: {Gm[i, j]:.3g} vs P_ase/4={P / 4:.3g}'))
    # documented placement (observation): draw (r,k) -> sample k of x (r even) / y (r odd), real (r<2) / imaginary (r>=2) part
    doc = np.zeros((4 * N, 4 * N))
    for r in range(4):
        for k in range(N):
            comp = {0: 0, 2: 1, 1: 2, 3: 3}[r]     # vec32 order: Re x, Im x, Re y, Im y
            doc[comp * N + k, r * N + k] = amp
    stats['placement_as_documented' if np.all(np.abs(L - doc) <= e + 8 * EPS * amp) else 'placement_other_isometry_or_wrong'] = 1
    return res(viol, obs=(L.tobytes(), canon(y0)), nontrivial=G > 0, stats=stats)


# ------------------------------------------------------------------ part: non-optical
BAD_KINDS = ['ndarray-1d', 'ndarray-2d', 'electrical_signal', 'binary_sequence', 'list', 'tuple', 'None', 'float', 'int', 'complex', 'str', 'dict']


def make_bad(kind, N):
    from opticomlib.typing import electrical_signal, binary_sequence
    return {'ndarray-1d': lambda: np.ones(N, complex), 'ndarray-2d': lambda: np.ones((2, N), complex),
            'electrical_signal': lambda: electrical_signal(np.ones(N, complex), np.ones(N, complex) * 0.1),
            'binary_sequence': lambda: binary_sequence([1, 0] * (N // 2)), 'list': lambda: [1.0] * N,
            'tuple': lambda: (1.0,) * N, 'None': lambda: None, 'float': lambda: 1.0, 'int': lambda: 1,
            'complex': lambda: 1 + 1j, 'str': lambda: '1 2 3 4', 'dict': lambda: {'signal': [1, 2]}}[kind]()


def case_bad(case):
    kind, N, G, NF, wl, fs, bwf = case
    from opticomlib.devices import EDFA
    gv_reset(fs=fs, wavelength=wl)
    x = make_bad(kind, N)
    rng = ScriptedRNG(lambda k, i: None)
    try:
        with scripted_rng(rng):
            y = EDFA(x, G, NF) if bwf is None else EDFA(x, G, NF, bwf * fs)
    except TypeError:
        return res([], obs=('TypeError', kind), nontrivial=kind)
    except Unscripted:
        raise
    except Exception as e:
        return res([(f'type:wrong-exception:{type(e).__name__}', f'non-optical input ({kind}) raised {type(e).__name__}: {e}, expected TypeError')],
                   obs=('EXC', type(e).__name__, kind), nontrivial=kind)
    return res([('type:no-TypeError', f'non-optical input ({kind}) accepted, returned {type(y).__name__}')], obs=('RET', kind), nontrivial=kind)


# ------------------------------------------------------------------ part: conformance (real RNG)
def case_conf(case):
    N, layout, nkind, G, NF, wl, fs, seed, rseed = case
    from opticomlib.devices import EDFA
    cfg = (N, layout, nkind, G, NF, wl, fs, seed)
    g, P = gain(G), p_ase(G, NF, wl, fs)
    viol = []
    npol = 1 if layout == '1pol' else 2

    def run(kind, reseed=True):
        gv_reset(fs=fs, wavelength=wl)
        x, s, n, _ = build_input(N, layout, kind, seed)
        if reseed:
            np.random.seed(rseed)
        try:
            return EDFA(x, G, NF), s, n
        except Exception as e:
            return e, s, n

    y, sig, _ = run('absent')
    if isinstance(y, Exception):
        return res([exc_key(y, 'absent')], obs='EXC', nontrivial=True)
    sv = structure(y, N)
    if sv or y.noise is None:
        return res(sv or [('conf:no-noise', 'noise-free input, G > 0 dB: output carries no ASE')], obs='STRUCT', nontrivial=True)
    A = np.asarray(y.noise)
    C = [A[0].real, A[0].imag, A[1].real, A[1].imag]
    names = ['Re x', 'Im x', 'Re y', 'Im y']
    v = P / 4
    six = 6.0
    # total power: (P/4)*chi2(4N)/N  ->  sd = P/sqrt(2N)
    Ptot = float(np.mean(np.abs(A[0]) ** 2 + np.abs(A[1]) ** 2))
    if abs(Ptot / P - 1) > six / math.sqrt(2 * N):
        viol.append(('conf:ase-power', f'sample ASE power {Ptot:.6g} W vs NF*h*f0*(G-1)*fs = {P:.6g} W: ratio {Ptot / P:.5f}, six-sigma band +-{six / math.sqrt(2 * N):.5f}'))
    for i in range(4):
        vi = float(np.mean(C[i] ** 2))
        if abs(vi / v - 1) > six * math.sqrt(2 / N):
            viol.append(('conf:component-variance', f'{names[i]}: variance/(P_ase/4) = {vi / v:.5f}, band +-{six * math.sqrt(2 / N):.5f}'))
        mi = float(np.mean(C[i]))
        if abs(mi) > six * math.sqrt(v / N):
            viol.append(('conf:component-mean', f'{names[i]}: mean {mi:.3g} beyond six sigma {six * math.sqrt(v / N):.3g}'))
        # sample kurtosis m4/m2^2 of a normal sample: mean 3, variance 24/N (normalised by the SAMPLE variance,
        # so that a wrong power is reported under its own key only)
        k4 = float(np.mean(C[i] ** 4)) / (3 * vi * vi) if vi > 0 else float('inf')
        if abs(k4 - 1) > six * math.sqrt(24 / N) / 3:
            viol.append(('conf:not-gaussian-4th-moment', f'{names[i]}: m4/(3 m2^2) = {k4:.4f}, band +-{six * math.sqrt(24 / N) / 3:.4f}'))
        l1 = float(np.mean(C[i][1:] * C[i][:-1])) / v
        if abs(l1) > six / math.sqrt(N - 1):
            viol.append(('conf:samples-correlated', f'{names[i]}: lag-1 correlation {l1:.4f}, band +-{six / math.sqrt(N - 1):.4f}'))
        for j in range(i + 1, 4):
            cij = float(np.mean(C[i] * C[j])) / v
            if abs(cij) > six / math.sqrt(N):
                viol.append(('conf:components-correlated', f'{names[i]} / {names[j]}: correlation {cij:.4f}, band +-{six / math.sqrt(N):.4f}'))
    # freshly drawn: a second call without reseeding gives another, uncorrelated realisation; reseeding reproduces the first
    y2, _, _ = run('absent', reseed=False)
    y3, _, _ = run('absent')
    if isinstance(y2, Exception) or isinstance(y3, Exception) or y2.noise is None or y3.noise is None:
        viol.append(('conf:second-call-fails', 'second call failed'))
    else:
        B = np.asarray(y2.noise)
        cc = float(np.mean((A * np.conj(B)).real)) / (2 * v)
        if np.array_equal(A, B) or abs(cc) > six / math.sqrt(2 * N) * math.sqrt(2):
            viol.append(('conf:not-freshly-drawn', f'two successive calls give correlated ASE (corr {cc:.4f})'))
        if not np.array_equal(A, np.asarray(y3.noise)):
            viol.append(('conf:not-from-global-rng', 'np.random.seed(s) does not reproduce the ASE realisation'))
    # signal gain
    S = np.asarray(y.signal)
    if not near(S[:npol], g * (sig if npol == 2 else sig[None, :])):
        viol.append(('signal:!=sqrtG*in', 'signal differs from sqrt(G)*input.signal (real-RNG run)'))
    if npol == 1 and np.any(S[1] != 0):
        viol.append(('signal:y-row-nonzero:1pol', 'y-row of the signal is not 0 for a 1-pol input (real-RNG run)'))
    # noisy twin under the same numpy seed: out.noise - ASE == sqrt(G)*in.noise
    obs_extra = None
    if nkind != 'absent':
        yn, _, noi = run(nkind)
        if isinstance(yn, Exception):
            viol.append(exc_key(yn, nkind))
        elif structure(yn, N) or yn.noise is None:
            viol.append(('shape:not-2pol', 'noisy twin: bad structure'))
        else:
            Dn = np.asarray(yn.noise) - A
            nin = noi if npol == 2 else noi[None, :]
            tol = 4 * EPS * (float(np.max(np.abs(yn.noise))) + float(np.max(np.abs(A)))) + 8 * EPS * g * float(np.max(np.abs(nin)))
            if not np.all(np.abs(Dn[:npol] - g * nin) <= tol):
                if g != 1 and np.all(np.abs(Dn[:npol] - nin) <= tol):
                    viol.append(('noise:not-amplified', f'real-RNG twin: incoming noise passes with gain 1 instead of sqrt(G)={g:.6g}'))
                else:
                    viol.append(('noise:wrong-gain', 'real-RNG twin: out.noise - ASE != sqrt(G)*in.noise'))
            if npol == 1 and not np.all(np.abs(Dn[1]) <= tol):
                viol.append(('noise:duplicated-into-y:1pol', 'real-RNG twin: 1-pol input, its noise appears in the y-row'))
            obs_extra = canon(yn)
    return res(viol, obs=(canon(y), obs_extra), nontrivial=True, stats={'edfa_calls': 3 + (nkind != 'absent')})


# ------------------------------------------------------------------ driver
def run(ctx):
    seed = int(ctx.seed)
    WL = [1550e-9, 1310e-9]
    if ctx.quick:
        Ns = [8, 16, 64]
        Gs = [0, 3, 20, 40]
        NFs = [3, 5, 10]
        FS = [16e9, 160e9]
        BWs = [None, 0.2, 0.6]       # 0.6 fs: a wide but legal optical filter (its low-pass equivalent cuts at 0.3 fs)
        conf_seeds = [1, 2]
        confN = 2 ** 16
    else:
        Ns = [8, 16, 17, 64, 256]
        Gs = [0, 1, 3, 10, 20, 40]
        NFs = [3, 7, 10]
        FS = [16e9, 40e9, 160e9]
        BWs = [None, 0.1, 0.2, 0.6, 0.9]
        conf_seeds = [1, 2, 3, 4]
        confN = 2 ** 17
    gvs = [(w, f) for w in WL for f in FS]
    ctx.rule(f'scripted: FULL product N{Ns} x layout{LAYOUTS} x noise-kind{NKINDS} x G{Gs} dB x NF{NFs} dB x wavelength{WL} x fs{FS} x BW/fs{BWs} '
             f'x RNG answer{ANSWERS} (unit cases execute all four unit rows, the seeded case executes +a and -a); simplest first; '
             f'ase-basis: all 32 impulse answers for N=8 over layout x noise{{absent,complex}} x G x NF x gv; non-optical: {len(BAD_KINDS)} input classes x BW; '
             f'conformance: numpy global RNG reseeded with {conf_seeds}, {confN} samples, six-sigma bands')
    ctx.assume('numpy.random.randn returns i.i.d. standard normal deviates (trusted; bound to the scripted seam by the conformance part)')
    ctx.assume('BPF (devices.BPF) is the optical filter meant by the statement (its own properties are C11); gv.f0 = c/wavelength (C14)')
    ctx.assume('the RNG seam: EDFA draws its ASE through exactly one numpy.random.randn(4, N) request (any other request is reported as rng:request-log)')

    cases = []
    for N, lay, nk, G, NF, (wl, fs), bw, ak in itertools.product(Ns, LAYOUTS, NKINDS, Gs, NFs, gvs, BWs, ANSWERS):
        cases.append((N, lay, nk, G, NF, wl, fs, bw, ak, seed))
    # simplest first: short, 1-pol, noise absent, G=0, no filter, zero answer
    order = {v: i for i, v in enumerate(ANSWERS)}
    cases.sort(key=lambda c: (c[0], c[7] is not None, LAYOUTS.index(c[1]), NKINDS.index(c[2]), order[c[8]], c[3], c[4], -c[5], c[6], c[7] or 0))
    ctx.pmap('scripted', case_scripted, cases, horizon=20)

    bcases = [(8, lay, nk, G, NF, wl, fs, seed) for lay, nk, G, NF, (wl, fs) in itertools.product(LAYOUTS, ['absent', 'complex'], Gs, NFs, gvs)]
    ctx.pmap('ase-basis', case_basis, bcases, horizon=20)

    tcases = [(k, 8, 20, 5, wl, fs, bw) for k, (wl, fs), bw in itertools.product(BAD_KINDS, gvs, BWs)]
    ctx.pmap('non-optical', case_bad, tcases, horizon=20)

    ccases = []
    confG = [(3, 3), (20, 5), (40, 10)] if ctx.quick else [(1, 3), (3, 10), (20, 5), (40, 7)]
    for rs, (G, NF), (wl, fs), lay, nk in itertools.product(conf_seeds, confG, gvs, ['1pol', '2pol'], ['absent', 'complex']):
        ccases.append((confN, lay, nk, G, NF, wl, fs, seed, (seed * 1000003 + rs) % (2 ** 32)))
    ctx.pmap('conformance', case_conf, ccases, horizon=60)
