"""C17 - GET_EYE recovers the levels / timing of a clean two-level NRZ signal in any unit.

Bounded-exhaustive exploration: the full product
    bit pattern x sps x level pair (a,b) x noise sigma x noise stream x KMeans seed
is executed on the real `devices.GET_EYE(x, sps_resamp=128)`; every returned field is compared
with the bands of the statement, and every case is repeated on alpha*x+beta for each (alpha,beta)
of the equivariance alphabet (SAME waveform array, SAME numpy seed) and compared with the
affine image of the base result.

Record-length classes (added after seeded wave 3): besides the 64/128-slot records the pattern alphabet holds ODD slot
counts (whole PRBS periods 127 / 511, 65 random bits), a RAGGED record (66.5 slots) and LONG records around and beyond the
default `nslots` of GET_EYE (4097, 5000, 8192 slots, a whole PRBS15 period); a further part calls GET_EYE with an explicit
even `nslots` argument (64, an intermediate value, the record length).  In every case the hypotheses (both symbols, >= 15
transitions, rare symbols) are evaluated on the slots GET_EYE analyses: the first min(nslots, even number of whole slots).

Input-form classes (hardening pass): part `eye-forms` repeats records on a deviation lattice with the SAME waveform
handed over in every other legal form - `electrical_signal` without noise / with the noise in `.noise` (clean signal + noise
separate, also all-zero noise, float32 noise under a float64 signal, complex128 with zero imaginary part), float32 / float16
samples, write-protected buffers compared byte-for-byte afterwards, the grid configured by the other `gv` call forms, the
other call spellings of GET_EYE, very large offsets |beta| = 1e6 ... 1e8 sigma, the same object evaluated again at the end of
the sequence - and part `eye-int` hands over records of integer ADC counts in every integer dtype that holds them.  All of
them are unit changes alpha x + beta of the base record (alpha = 1, beta = 0 for a pure change of form) and are compared with
the affine image of the base result by the same equivariance oracle.

Structural offsets (added after seeded wave 4): part `eye-offsets` places 0 V at every distinguished position RELATIVE TO THE TWO
LEVELS of the record - upper level exactly at 0 V, lower level at 0 V, eye symmetric about 0 V, upper level / lower level just
above and just below 0 V, the record maximum / minimum exactly at 0.0 and 1 % of the eye height either side of it, eyes that are
entirely (and strongly) negative or far above 0 V - each combined with alpha in {1, 1e-3, 1e3}.  They are further members of the
unit-change alphabet (compared with the affine image of the base result), and because the offset record is itself a two-level
waveform with levels alpha a + beta < alpha b + beta, the absolute bands of the statement are asserted on its result as well.

Parity-structured sparse patterns (added after seeded wave 5): part `eye-parity` enumerates the family {mostly marks, mostly
spaces} x {isolated single-slot, two-slot, three-slot exceptions} x {every exception starts on an even slot, on an odd slot,
alternately} x {as generated, shifted cyclically by one slot} x a few exception counts x {128, 64, 256 slots} (minority density 3 %
... 38 %).  GET_EYE folds the record
into a 2-slot window, so these legal records show one level in one of the two eye openings only, or put every transition on one
of the two crossings, or all rising edges on one crossing and all falling edges on the other.  Same oracles (bands on the base
record, affine image for the five unit changes); the spread clause of a symbol is asserted when the eye opening that holds
fewest slots of it still holds 24, the level clause is widened by four standard errors of a mean over those slots when they are few.

The waveform is built without the library (own LFSR for the PRBS bits, np.kron, scipy
Bessel/sosfiltfilt, a private RandomState); only GET_EYE (and gv for sps) is under test.
"""
from __future__ import annotations
import itertools
import zlib
import numpy as np
import scipy.signal as sg

from mcx.core.kernel import res
from mcx.core.env import gv_reset

ID = 'C17'
LEVEL = 'exploration'
NONTRIVIAL = ('every case has both symbols, >= 15 transitions, non-zero noise; counted are cases with DISTINCT returned '
              '(mu0,mu1,s0,s1,threshold,t_left,t_right,t_opt,i) tuples')

SPS_RESAMP = 128
STEP = 1.0 / SPS_RESAMP
R = 1e9

# last two: legal random patterns with one RARE symbol (a 16-PPM frame stream: 1 mark in 16 slots; 6 % isolated spaces)
# then the odd / ragged record lengths: a whole PRBS7 period (127 slots), 65 random bits, 66 slots + half a slot
PATTERNS = ['prbs7:64', 'prbs7:128', 'prbs9:128', 'rand0:64', 'rand1:128', 'rand2:128', 'ppm16:128', 'spaces6:128',
            'prbs7:127', 'rand3:65', 'rand4:66.5']
# expensive records (0.1 ... 0.8 s per call): a whole PRBS9 period and records around / beyond the default nslots = 4096 of
# GET_EYE (odd just above it, not a multiple of it, an exact multiple, a whole PRBS15 period); thorough adds the two
# remaining boundary lengths.  Enumerated on a deviation lattice (see enumerate_long), not in the full product.
PATTERNS_LONG = ['prbs9:511', 'rand5:4097', 'rand6:5000', 'rand7:8192', 'prbs15:32767']
PATTERNS_LONG_THOROUGH = ['rand8:4096', 'rand9:4098']
NSLOTS_DEFAULT = 4096    # default of the `nslots` argument of GET_EYE
SPS = [8, 16, 32]
# last: both levels negative
LEVELS = [(0.0, 1.0), (0.0, 1e-3), (0.0, 100.0), (5.0, 6.0), (-50.0, 50.0), (2e-4, 1.2e-3), (-3.0, -2.0)]
SIGMA_PCT = [0.5, 1.0, 2.0, 5.0]
KSEEDS = [0, 1, 2]
EQUIV = [(1e-3, 0.0), (1e3, 0.0), (1.0, 7.0), (0.02, -3.0), (50.0, 1.0)]
N_UNIT = len(EQUIV)     # variants 0 ... 4: the unit changes of the original alphabet (float64 ndarray, gv(sps,R), keyword call)


def V(alpha, beta, cont='nd', dtype='f64', gvf='sps,R', callf='kw'):
    """one variant = the base record after the unit change alpha x + beta, handed to GET_EYE in one form:
    beta  : volts, or ('s', k): beta = k alpha sigma (offset of k noise standard deviations of the scaled record), or a
            STRUCTURAL offset, defined relative to the record: ('lv', p): 0 V lies at the fraction p of the eye, beta = -alpha (a + p (b-a))
            (p = 0 lower level at 0 V, p = 1 upper level at 0 V, p = 0.5 symmetric eye, p > 1 both levels negative);
            ('max', f) / ('min', f): the record maximum / minimum lies at f alpha (b-a) (f = 0: it is exactly 0.0)
    cont  : 'nd' ndarray | 'es' electrical_signal(x) | 'es+n' electrical_signal(clean, noise) | 'es+0' electrical_signal(x, zeros)
            | 'es+n32' electrical_signal(clean, float32 noise): noise of another dtype than the signal
    dtype : sample dtype ('f64', 'f32', 'f16', 'c128' (zero imaginary part), integer dtypes 'i8' ... 'u64')
    gvf   : call form that configures the global grid (GV_FORMS);  callf: spelling of the GET_EYE call (CALL_FORMS)"""
    return (float(alpha), beta if isinstance(beta, tuple) else float(beta), cont, dtype, gvf, callf)


GV_FORMS = ('sps,R', 'sps,fs', 'R,fs', 'fs', 'R,fs-ulp', 'R,fs+ulp', 'sps-np', 'sps-float', 'R10,wl,N', 'hist')
CALL_FORMS = ('kw', 'pos', 'np', 'input=')
INT_DTYPES = ('i8', 'u8', 'i16', 'u16', 'i32', 'u32', 'i64', 'u64')
NP_DTYPE = {'f64': np.float64, 'f32': np.float32, 'f16': np.float16, 'c128': np.complex128,
            'i8': np.int8, 'u8': np.uint8, 'i16': np.int16, 'u16': np.uint16,
            'i32': np.int32, 'u32': np.uint32, 'i64': np.int64, 'u64': np.uint64}

VARIANTS = [V(a_, b_) for a_, b_ in EQUIV]
# ---- hardening pass: input forms (part eye-forms).  Simplest first inside every group.
FORM_VARIANTS_START = len(VARIANTS)
VARIANTS += [
    # very large offsets (ndarray): |beta| / (alpha sigma) = 1e6, 1e7, 1e8 alone and with the extreme scale factors
    V(1, ('s', 1e6)), V(1, ('s', -1e8)), V(1e3, ('s', 1e8)), V(1e-3, ('s', -1e7)),
    # containers: electrical_signal without noise / noise separate / all-zero noise / float32 noise / complex128
    V(1, 0, 'es'), V(1, 0, 'es+n'), V(50, 1, 'es+n'), V(1e-3, 0, 'es+n'), V(1e3, 0, 'es+n'),
    V(1, ('s', -1e8), 'es+n'), V(1, 0, 'es+0'), V(1, 7, 'es+n32'), V(1, 0, 'es+n', 'c128'), V(1e3, 0, 'es', 'c128'),
    # sample dtypes float32 (2^-9 and 2^9: exact scalings inside [1e-3, 1e3]) and float16
    V(1, 0, 'nd', 'f32'), V(2.0 ** -9, 0, 'nd', 'f32'), V(2.0 ** 9, 0, 'nd', 'f32'), V(1, 7, 'nd', 'f32'),
    V(1e3, 0, 'es+n', 'f32'), V(1e-3, 0, 'es', 'f32'), V(1, 0, 'nd', 'f16'),
    # the other gv call forms (same sps; R only sets dt), alone and with one other deviation
    V(1, 0, gvf='sps,fs'), V(1, 0, gvf='R,fs'), V(1, 0, gvf='fs'), V(1, 0, gvf='R,fs-ulp'), V(1, 0, gvf='R,fs+ulp'),
    V(1, 0, gvf='sps-np'), V(1, 0, gvf='sps-float'), V(1, 0, gvf='R10,wl,N'), V(1, 0, gvf='hist'),
    V(0.02, -3, 'es+n', gvf='R,fs'), V(1, 7, 'nd', 'f32', gvf='hist'),
    # the other spellings of the call
    V(1, 0, callf='pos'), V(1, 0, callf='np'), V(1, 0, callf='input='), V(50, 1, 'es+n', callf='pos'),
    # the same objects once more at the end of the sequence (determinism, no state left behind by the calls in between)
    V(1, 0, 'es+n'), V(1, 0),
]
FORM_ALL = tuple(range(FORM_VARIANTS_START, len(VARIANTS)))
# thin slice for the expensive combinations: one member of every group
FORM_FEW = tuple(VARIANTS.index(v) for v in (
    V(1, ('s', -1e8)), V(1, 0, 'es+n'), V(1, ('s', -1e8), 'es+n'), V(1e-3, 0, 'es+n'), V(1, 0, 'nd', 'f32'),
    V(2.0 ** -9, 0, 'nd', 'f32'), V(1, 0, gvf='R,fs-ulp'), V(1, 0, callf='np'))) + (len(VARIANTS) - 1,)
# ---- hardening pass: integer ADC counts (part eye-int); the base record is the rounded record as float64
INT_VARIANTS_START = len(VARIANTS)
VARIANTS += [V(1, 0, 'nd', dt) for dt in INT_DTYPES] + [V(2, 11, 'nd', dt) for dt in INT_DTYPES] + [
    V(1, 0, 'es', 'i16'), V(1, 0, 'es+n', 'i16'), V(2, 11, 'es+n', 'i32'), V(1, 0, 'es', 'u16'), V(1, 0, 'es+n', 'i64'),
    V(1, 0, 'nd', 'f32'), V(1, 0, 'nd', 'i16', gvf='R,fs', callf='pos'), V(1, 0)]
INT_ALL = tuple(range(INT_VARIANTS_START, len(VARIANTS)))
# ---- seeded wave 4: structural offsets (part eye-offsets): where 0 V lies relative to the two levels / the record extremes.
# Simplest first: upper level at 0 V, lower level at 0 V, symmetric eye; record maximum exactly 0.0; upper level 10 % / 25 % of the eye
# height above and below 0 V, record maximum 1 % above / below 0 V; the same for the lower level / record minimum; both levels
# negative (eye at [-d, 0] ... [-1001 d, -1000 d]) and far above 0 V.  Every offset with every alpha of {1, 1e-3, 1e3}.
OFFSETS = [('lv', 1.0), ('lv', 0.0), ('lv', 0.5), ('max', 0.0), ('lv', 0.9), ('lv', 1.1), ('max', 0.01), ('max', -0.01),
           ('lv', 0.75), ('lv', 1.25), ('min', 0.0), ('min', 0.01), ('min', -0.01), ('lv', 0.1), ('lv', -0.1),
           ('lv', 2.0), ('lv', 11.0), ('lv', 1001.0), ('lv', -1000.0)]
OFFS_ALPHAS = [1.0, 1e-3, 1e3]
OFFS_VARIANTS_START = len(VARIANTS)
VARIANTS += [V(al_, off_) for off_ in OFFSETS for al_ in OFFS_ALPHAS]
OFFS_ALL = tuple(range(OFFS_VARIANTS_START, len(VARIANTS)))
# thin slice: upper level at 0 V with every alpha, one member of every other group
OFFS_FEW = tuple(VARIANTS.index(v) for v in (
    V(1, ('lv', 1.0)), V(1e-3, ('lv', 1.0)), V(1e3, ('lv', 1.0)), V(1, ('max', 0.0)), V(1e3, ('lv', 0.9)), V(1e-3, ('lv', 1.1)),
    V(1, ('lv', 0.5)), V(1, ('min', 0.0)), V(1, ('lv', 11.0))))
BAND_PP = (1e-3, 100.0)  # the bands of the statement are quantified for eye heights from 1e-3 V to 100 V
# level pairs in counts: 1000 counts unipolar / bipolar (12 ... 16 bit converters), 100 counts for the 8-bit types
LEVELS_INT = [(500.0, 1500.0), (-500.0, 500.0), (-50.0, 50.0), (20.0, 120.0)]
MIN_SIGMA_COUNTS = 2.0   # spread bands are asserted on count records only when the Gaussian part dominates the rounding (rms 0.29)

# bands of the statement
BAND_MU = 0.08          # |mu0-a|, |mu1-b| <= 8 % (b-a)
BAND_S_LO = 0.5         # s >= sigma/2
BAND_S_HI = (2.0, 0.03)  # s <= 2 sigma + 3 % (b-a)
BAND_TDIST = 0.10       # |t_right - t_left - 1| <= 10 %
EQ_REL = 1e-6           # equivariance of mu / s relative to alpha (b-a)   (DESIGN 5/C17)
EPS = np.finfo(float).eps
U32 = float(np.finfo(np.float32).eps) / 2      # unit roundoff of float32
EPS16 = float(np.finfo(np.float16).eps)


# ------------------------------------------------------------------ input alphabet
def _lfsr(order, taps, n):
    """Fibonacci LFSR x^order + x^tap + 1, all-ones start (PRBS7: x^7+x^6+1, PRBS9: x^9+x^5+1)"""
    st = [1] * order
    out = []
    for _ in range(n):
        out.append(st[0])
        fb = st[taps[0] - 1] ^ st[taps[1] - 1]
        st = [fb] + st[:-1]
    return np.array(out, dtype=np.uint8)


PRBS_TAPS = {7: (7, 6), 9: (9, 5), 15: (15, 14)}


def pattern_slots(name):
    """(number of bits generated, record length in slots (may end in .5: ragged record), even number of WHOLE slots)"""
    nf = float(name.split(':')[1])
    whole = int(np.floor(nf))
    return int(np.ceil(nf)), nf, 2 * (whole // 2)


def analysed_slots(name, nslots=None):
    """number of leading slots GET_EYE analyses: `nslots` (default 4096) or all whole slots, rounded down to even"""
    return min(pattern_slots(name)[2], NSLOTS_DEFAULT if nslots is None else int(nslots))


def admissible(bits):
    """hypotheses of the statement on the analysed slots (+ the harness' own >= 15 transitions)"""
    return bits.min() == 0 and bits.max() == 1 and int(np.count_nonzero(np.diff(bits.astype(int)))) >= 15


# ---- seeded wave 5: parity-structured sparse patterns (part eye-parity).  GET_EYE folds the record into a 2-slot window: the
# slots of one parity fill the central eye opening, the slots of the other parity the second opening (split over the window
# edges); the slot boundaries even|odd fall on one crossing, the boundaries odd|even on the other.  A sparse pattern whose
# exceptions (runs of the minority symbol) all start on slots of ONE parity therefore shows one of the two levels in one opening
# only (single-slot exceptions), puts every transition on ONE crossing (two-slot exceptions), or puts all rising edges on one
# crossing and all falling edges on the other (three-slot exceptions).  All of them are legal under "both symbols present".
# Member name: par-<majority m|s><exception length 1|2|3><start parity e|o|x><shift 0|1>n<number of exceptions>:<slots>
PAR_MAJ = ('m', 's')            # mostly marks with exceptional spaces / mostly spaces with exceptional marks
PAR_LEN = (1, 2, 3)             # isolated single-slot / two-slot / three-slot exceptions
PAR_PARITY = ('e', 'o', 'x')    # every exception starts on an even slot / on an odd slot / alternately even and odd (mixed)
PAR_SHIFT = (0, 1)              # the pattern as generated / cyclically shifted by one slot (an exception may then straddle the record edge)
PAR_SLOTS = (128, 64, 256)   # 256 slots with 8 exceptions: the sparsest members (minority density 3 % ... 9 %)


def par_counts(length, slots):
    """exception counts: 8 (= 16 transitions, the fewest the harness admits), 12, and for single-slot exceptions 24 (the minority
    symbol then fills 24 slots: the spread clause is asserted for it); 64-slot records: 8 only (denser packings are not sparse);
    256-slot records: 8 only (the low-density end: 8 single-slot exceptions = 3.1 % of the slots)"""
    return (8,) if slots != 128 else ((8, 12, 24) if length == 1 else (8, 12))


def par_name(maj, length, parity, shift, count, slots):
    return f'par-{maj}{length}{parity}{shift}n{count}:{slots}'


def par_family(slots_list=PAR_SLOTS):
    """every member of the family, simplest first (128 slots before 64; fewest exceptions first)"""
    return [par_name(m, L, q, sh, c, n) for n in slots_list for c in (8, 12, 24) for m in PAR_MAJ for L in PAR_LEN
            for q in PAR_PARITY for sh in PAR_SHIFT if c in par_counts(L, n)]


def par_representatives():
    """one pattern per (majority, exception length, parity, shift): 128 slots, the count at which the minority symbol fills 24
    slots (24 single-slot, 12 two-slot, 8 three-slot exceptions), so that every clause of the statement is asserted"""
    return [par_name(m, L, q, sh, 24 // L, 128) for m in PAR_MAJ for L in PAR_LEN for q in PAR_PARITY for sh in PAR_SHIFT]


def par_sparsest():
    """the low-density end of the family: 8 exceptions in 256 slots, one pattern per (majority, exception length, parity, shift)"""
    return [par_name(m, L, q, sh, 8, 256) for m in PAR_MAJ for L in PAR_LEN for q in PAR_PARITY for sh in PAR_SHIFT]


def par_parse(kind):
    body, count = kind[4:].split('n')
    return body[0], int(body[1]), body[2], int(body[3]), int(count)


def par_starts(bits_unshifted, maj):
    """start slots of the exceptions of an unshifted member (runs of the minority symbol)"""
    exc = (bits_unshifted == (0 if maj == 'm' else 1)).astype(int)
    return np.flatnonzero(np.diff(np.concatenate([[0], exc])) == 1)


def par_class(name):
    """input class of a family member for the violation keys: majority symbol + exception length / one parity or mixed"""
    maj, length, parity, shift, count = par_parse(name.split(':')[0])
    return f'par={maj}{length}/' + ('mixed' if parity == 'x' else 'one-parity')


def opening_counts(used):
    """{symbol: number of slots of that symbol in the eye opening that holds FEWEST of them}.  The two eye openings of the 2-slot
    window are the two slot parities; only openings that show both symbols count (GET_EYE has to measure both levels in one
    opening); 0 when neither opening shows both symbols"""
    u = np.asarray(used).astype(int)
    both = [q for q in (0, 1) if 0 < int(u[q::2].sum()) < u[q::2].size]
    return {sym: min([int(np.count_nonzero(u[q::2] == sym)) for q in both], default=0) for sym in (0, 1)}


TDIST_SANITY = 0.25      # harness sanity bound on |t_right - t_left - 1| for the single-slot / one-parity members (NOT the statement's band)


def par_single_one_parity(name):
    """isolated single-slot exceptions that all share one slot parity: every rising edge of the record falls on one crossing of the
    2-slot window and every falling edge on the other.  The statement quantifies over random and PRBS patterns, where both edge
    directions occur on both crossings, and its 10 % band on the crossing distance was stated for that situation: on these members
    the clause is not asserted (coordinator decision, see notes); the distance is recorded and held against TDIST_SANITY only"""
    maj, length, parity, shift, count = par_parse(name.split(':')[0])
    return length == 1 and parity != 'x'


MIN_SLOTS = 24           # spread clause: asserted for a symbol with at least 24 slots (see check_bands)
ISI_ISOLATED = 0.035     # an isolated single-slot pulse of the harness waveform stays <= 3.5 % of b-a short of its level (self-test)


def parity_sampling(used, sigma, d):
    """(spread clauses that are NOT asserted, {level field: allowance added to the 8 % band}) of a parity-structured record, from
    the number of slots that stand behind an estimate.  GET_EYE measures both levels inside ONE eye opening, i.e. on the slots of
    one parity; n = slots of the symbol in the opening that holds fewest of them (opening_counts).
    Spread: the existing 24-slot rule (scatter of a sample standard deviation ~ 1/sqrt(2(n-1)); P(s < sigma/2) ~ 6e-3 for n = 12,
    3e-5 for n = 24), applied to that opening.
    Level: a mean over n slots scatters by sigma/sqrt(n) (one independent noise sample per slot inside the 10 % window at sps = 8),
    on top of the <= 3.5 % that an isolated pulse stays short of its level.  When four standard errors fit into the remaining 4.5 %
    the 8 % band of the statement is asserted as it stands; otherwise the band is widened by those four standard errors (a
    necessary condition of the statement; a level that collapses onto the wrong rail is still reported); n = 0: not asserted."""
    n = opening_counts(used)
    rare = tuple(k for k, sym in (('s0', 0), ('s1', 1)) if n[sym] < MIN_SLOTS)
    widen = {}
    for k, sym in (('mu0', 0), ('mu1', 1)):
        se4 = 4.0 * sigma / np.sqrt(n[sym]) if n[sym] else np.inf
        if se4 > (BAND_MU - ISI_ISOLATED) * d:
            widen[k] = float(se4)
    return rare, widen


def _draw_parity(kind, n, rs):
    """random sequential placement: candidate start slots of the demanded parity in random order, a candidate is accepted when its
    slots and the slot before / after it are free (exceptions never touch each other); None when the count was not reached"""
    maj, length, parity, shift, count = par_parse(kind)
    occupied = np.zeros(n, dtype=bool)
    starts = []
    for want in ([0] * count if parity == 'e' else [1] * count if parity == 'o' else [j % 2 for j in range(count)]):
        cand = np.arange(want, n - length + 1, 2)          # the exception itself never wraps before the shift ...
        for s in cand[rs.permutation(cand.size)]:
            if not occupied[np.arange(s - 1, s + length + 1) % n].any():    # ... but "touching" is cyclic (the shift is)
                occupied[s:s + length] = True
                starts.append(int(s))
                break
        else:
            return None
    bits = np.full(n, 1 if maj == 'm' else 0, dtype=np.uint8)
    bits[occupied] = 0 if maj == 'm' else 1
    assert sorted(starts) == list(par_starts(bits, maj)) and int(occupied.sum()) == count * length
    return np.roll(bits, shift)


def _draw_bits(kind, n, seed, attempt):
    salt = 15485863 * attempt          # attempt 0 = the content used before the redraw loop existed
    if kind.startswith('par-'):
        rs = np.random.RandomState((seed * 1000003 + 611953 + zlib.crc32(f'{kind}:{n}'.encode()) + salt) % (2 ** 32))
        for _ in range(32):
            bits = _draw_parity(kind, n, rs)
            if bits is not None:
                return bits
        raise AssertionError(f'no placement for {kind}:{n}')
    if kind == 'ppm16':
        rs = np.random.RandomState((seed * 1000003 + 104729 + salt) % (2 ** 32))
        bits = np.zeros(n, dtype=np.uint8)
        for f in range(n // 16):
            bits[f * 16 + rs.randint(0, 16)] = 1
    elif kind == 'spaces6':
        rs = np.random.RandomState((seed * 1000003 + 130363 + salt) % (2 ** 32))
        bits = np.ones(n, dtype=np.uint8)
        for f in range(n // 16):                      # one isolated space per 16-slot frame, never on a frame edge
            bits[f * 16 + rs.randint(2, 14)] = 0
    else:
        k = int(kind[4:])
        bits = np.random.RandomState((seed * 1000003 + 7919 * (k + 1) + salt) % (2 ** 32)).randint(0, 2, n).astype(np.uint8)
    return bits


def pattern_bits(name, seed):
    kind = name.split(':')[0]
    n = pattern_slots(name)[0]
    if kind.startswith('prbs'):
        order = int(kind[4:])
        return _lfsr(order, PRBS_TAPS[order], n)
    # seeded members: redraw (deterministically) until the analysed slots satisfy the hypotheses; practically always attempt 0
    for attempt in range(64):
        bits = _draw_bits(kind, n, seed, attempt)
        if admissible(bits[:analysed_slots(name)]):
            return bits
    raise AssertionError(f'no admissible content for {name} seed {seed}')


def waveform01(bits, sps):
    """unit NRZ (levels 0/1), slot k = samples [k sps, (k+1) sps), 4th-order Bessel low-pass of 0.75 R, zero phase"""
    x = np.kron(bits.astype(float), np.ones(sps))
    sos = sg.bessel(N=4, Wn=0.75 * R, btype='low', fs=R * sps, output='sos', norm='mag')
    return sg.sosfiltfilt(sos, x)


def noise01(seed, pat, sps, sig_i, stream, n):
    """unit Gaussian noise from a PRIVATE stream selected by (ctx.seed, pattern, sps, sigma index, stream)"""
    h = zlib.crc32(repr((int(seed), pat, int(sps), int(sig_i), int(stream))).encode())
    return np.random.RandomState(h).standard_normal(n)


def build_parts(case, quant=False):
    """(bits, record x, noise sigma, clean part, noise part): x == clean + noise up to rounding (exactly for count records).
    quant: record of integer ADC counts - the record AND its clean part are rounded to whole counts (still float64)"""
    seed, pat, sps, (a, b), sig_i, stream, kseed = case
    bits = pattern_bits(pat, seed)
    w = waveform01(bits, sps)
    nsamp = int(round(pattern_slots(pat)[1] * sps))     # ragged record: the last slot is cut in the middle
    assert abs(nsamp - pattern_slots(pat)[1] * sps) < 1e-9 and nsamp <= w.size
    w = w[:nsamp]
    sig = SIGMA_PCT[sig_i] / 100.0
    n1 = noise01(seed, pat, sps, sig_i, stream, w.size)
    u = w + sig * n1                                     # unit waveform incl. noise
    x = a + (b - a) * u
    clean = a + (b - a) * w
    noise = (b - a) * sig * n1
    if quant:
        x, clean = np.rint(x), np.rint(clean)
        noise = x - clean                                # whole counts, x == clean + noise exactly
    return bits, x, sig * (b - a), clean, noise


def build(case):
    return build_parts(case)[:3]


# ------------------------------------------------------------------ the call under test
FIELDS = ('mu0', 'mu1', 's0', 's1', 'threshold', 't_left', 't_right', 't_opt', 'i')


def configure_gv(sps, gvf):
    """the global grid configured by one of the documented call forms; always sps samples per slot"""
    import warnings
    from opticomlib.typing import gv
    if gvf == 'sps,R':
        return gv_reset(sps=sps, R=R)
    if gvf == 'sps,fs':
        return gv_reset(sps=sps, fs=sps * R)
    if gvf == 'R,fs':
        return gv_reset(R=R, fs=sps * R)
    if gvf == 'fs':                      # R is the default 1e9 after gv.clean()
        return gv_reset(fs=sps * R)
    if gvf == 'R,fs-ulp':                # non-integer fs/R just below / above sps
        return gv_reset(R=R, fs=float(np.nextafter(sps * R, 0.0)))
    if gvf == 'R,fs+ulp':
        return gv_reset(R=R, fs=float(np.nextafter(sps * R, np.inf)))
    if gvf == 'sps-np':
        return gv_reset(sps=np.int64(sps), R=np.float64(R))
    if gvf == 'sps-float':
        return gv_reset(sps=float(sps), R=R)
    if gvf == 'R10,wl,N':
        return gv_reset(sps=sps, R=10e9, wavelength=1310e-9, N=64)
    if gvf == 'hist':                    # reconfigured after another configuration (slot count N stays set)
        gv_reset(sps=64, R=2.5e9, N=32, wavelength=1310e-9)
        with warnings.catch_warnings():
            warnings.simplefilter('ignore')
            gv(sps=sps, R=R)
        return gv
    raise AssertionError(gvf)


def make_input(cont, dtype, alpha, beta, x, clean, noise):
    """the record alpha x + beta in container `cont` with sample dtype `dtype`; None when the dtype cannot hold the record
    (integer dtype: not whole counts / out of range; float16 / float32: overflow)"""
    from opticomlib.typing import electrical_signal
    dt = NP_DTYPE[dtype]
    xv, cv, nv = alpha * x + beta, alpha * clean + beta, alpha * noise

    def cast(v):
        if dtype in INT_DTYPES:
            info = np.iinfo(dt)
            if not np.array_equal(v, np.rint(v)) or v.min() < info.min or v.max() > info.max:
                return None
            return v.astype(dt)
        if dtype in ('f32', 'f16') and np.max(np.abs(v)) > float(np.finfo(dt).max) / 4:
            return None
        return v.astype(dt)

    if cont == 'nd':
        return cast(xv)
    if cont == 'es':
        v = cast(xv)
        return None if v is None else electrical_signal(v)
    if cont == 'es+0':
        v = cast(xv)
        return None if v is None else electrical_signal(v, np.zeros(v.size, dtype=v.dtype))
    if cont == 'es+n':
        v, n = cast(cv), cast(nv)
        return None if v is None or n is None else electrical_signal(v, n)
    if cont == 'es+n32':
        assert dtype == 'f64'
        return electrical_signal(cv, nv.astype(np.float32))
    raise AssertionError(cont)


def call_eye(x, sps, kseed, nslots=None, gvf='sps,R', callf='kw'):
    """x: ndarray or electrical_signal (see make_input); its buffers are write-protected and compared byte-for-byte afterwards"""
    from opticomlib.devices import GET_EYE
    from mcx.core.env import freeze, unchanged
    xin = x
    snap = freeze(xin)               # write-protects the buffers of the object itself (it may be evaluated again later)
    configure_gv(sps, gvf)
    np.random.seed(kseed)          # sklearn KMeans(random_state=None) draws from numpy's global RNG
    ns = NSLOTS_DEFAULT if nslots is None else int(nslots)
    if callf == 'kw':
        e = GET_EYE(xin, sps_resamp=SPS_RESAMP) if nslots is None else GET_EYE(xin, nslots=ns, sps_resamp=SPS_RESAMP)
    elif callf == 'pos':
        e = GET_EYE(xin, ns, SPS_RESAMP)
    elif callf == 'np':
        e = GET_EYE(xin, nslots=np.int64(ns), sps_resamp=np.int64(SPS_RESAMP))
    elif callf == 'input=':
        e = GET_EYE(input=xin, sps_resamp=SPS_RESAMP, nslots=ns)
    else:
        raise AssertionError(callf)
    out = {k: getattr(e, k, None) for k in FIELDS}
    out['_unchanged'] = bool(unchanged(xin, snap))
    return out


def _num(v):
    """float value of a returned field (0-d / 1-element arrays accepted), None if not numeric"""
    if v is None or isinstance(v, (str, bool)):
        return None
    try:
        a = np.asarray(v, dtype=float)
    except Exception:
        return None
    if a.size != 1:
        return None
    return float(a.reshape(-1)[0])


def canon(out):
    return tuple((k, repr(_num(out[k])) if k != 'i' else repr(out[k])) for k in FIELDS)


def amp_class(pp):
    """input class for keys: decade of the peak-to-peak amplitude handed to GET_EYE"""
    return 'pp=1e%+03dV' % int(np.floor(np.log10(pp) + 1e-9))


# ------------------------------------------------------------------ oracle: bands of the statement
def check_bands(out, a, b, sigma, sps, tag, rare=(), widen=None, tdist_band=None):
    """rare: spread clauses (s0 / s1) not asserted; widen: {mu0 / mu1: sampling allowance added to the 8 % band} (parity_sampling);
    tdist_band: bound on |t_right - t_left - 1| that replaces the 10 % of the statement (the harness' sanity bound for the records
    the band was not stated for, par_single_one_parity)"""
    widen = widen or {}
    d = b - a
    cls = amp_class(d)
    v = []
    val = {k: _num(out[k]) for k in FIELDS}
    ctxt = f'{tag} a={a:g} b={b:g} sigma={sigma:g}: ' + ' '.join(f'{k}={out[k]!r}' for k in FIELDS)
    bad = [k for k in FIELDS if val[k] is None or not np.isfinite(val[k])]
    if bad:
        v.append((f'eye:not-finite:{cls}', f'{bad} not finite; {ctxt}'))
    ok = lambda *ks: all(val[k] is not None and np.isfinite(val[k]) for k in ks)
    for k, lvl, nm in (('mu0', a, 'a'), ('mu1', b, 'b')):
        tol = BAND_MU * d + widen.get(k, 0.0)
        if ok(k) and abs(val[k] - lvl) > tol:
            v.append((f'eye:{k}-band:{cls}', f'|{k}-{nm}|={abs(val[k]-lvl):g} > 8%(b-a)={BAND_MU*d:g}'
                      + (f' + sampling allowance {widen[k]:g}' if k in widen else '') + f'; {ctxt}'))
    for s in ('s0', 's1'):
        # The spread of a symbol that occupies fewer than 24 slots is estimated from fewer than 24 independent samples: its
        # sample standard deviation scatters by ~1/sqrt(2(n-1)) > 15 % and leaves the sigma/2 band by chance (measured 0.0096
        # vs 0.01 on a correct tree), so the spread clause is only asserted for symbols with at least 24 slots.
        if ok(s) and s not in rare:
            lo, hi = BAND_S_LO * sigma, BAND_S_HI[0] * sigma + BAND_S_HI[1] * d
            if val[s] < lo:
                v.append((f'eye:{s}-low:{cls}', f'{s}={val[s]:g} < sigma/2={lo:g}; {ctxt}'))
            if val[s] > hi:
                v.append((f'eye:{s}-high:{cls}', f'{s}={val[s]:g} > 2sigma+3%(b-a)={hi:g}; {ctxt}'))
    if ok('mu0', 'mu1', 'threshold') and not (val['mu0'] < val['threshold'] < val['mu1']):
        v.append((f'eye:threshold-order:{cls}', f'not mu0 < threshold < mu1; {ctxt}'))
    if ok('t_left', 't_right'):
        td = val['t_right'] - val['t_left']
        if abs(td - 1.0) > (BAND_TDIST if tdist_band is None else tdist_band) + 1e-12:
            v.append((f'eye:crossings-not-one-slot-apart:{cls}', f't_right-t_left={td:g}'
                      + ('' if tdist_band is None else f' (outside the sanity bound 1 +/- {tdist_band:g})') + f'; {ctxt}'))
        if ok('t_opt') and abs(val['t_opt'] - 0.5 * (val['t_left'] + val['t_right'])) > STEP + 1e-12:
            v.append((f'eye:t_opt-not-midway:{cls}',
                      f't_opt={val["t_opt"]:g} mid={(val["t_left"]+val["t_right"])/2:g}; {ctxt}'))
    i = out['i']
    if isinstance(i, bool) or not isinstance(i, (int, np.integer)):
        v.append((f'eye:i-not-int:{cls}', f'i={i!r} ({type(i).__name__}); {ctxt}'))
    elif not (0 <= int(i) < sps):
        v.append((f'eye:i-out-of-range:{cls}', f'i={i!r} not in [0,{sps}); {ctxt}'))
    return v


# ------------------------------------------------------------------ oracle: unit equivariance
def check_equiv(base, out, alpha, beta, d, xmax, tag, beta_txt=None, form='', floor=0.0, lowprec=False):
    """base: result on x, out: result on alpha x + beta; d = b-a of x; xmax = max|x|.
    beta_txt: spelling of the offset for the key (offsets given in units of sigma); form: key suffix naming the input form;
    floor: additional rounding floor of the form (reduced-precision samples); lowprec: samples rounded to float32 / float16 (and
    float32 arithmetic inside GET_EYE) - a one-step move of t_opt may then move the integer index by one, and the levels are
    compared only when the timing outputs did not move"""
    v = []
    pair = f'alpha={alpha:g},beta={beta:g}' + (f' [{form}]' if form else '')
    named = beta_txt is not None         # offset given by its definition (k sigma, position of 0 V): part of the key even when it is 0
    if beta_txt is None:
        beta_txt = f'{beta:g}'
    # input class of the key: decade of the eye height before -> after the unit change (+ the offset when there is one)
    cls = amp_class(d) + '->' + amp_class(alpha * d)[3:] + (f',beta={beta_txt}' if (beta or named) else '') + (f',{form}' if form else '')
    # tolerance: the design's 1e-6 relative to the scaled eye height, plus the rounding floor of forming alpha x + beta
    tol = EQ_REL * alpha * d + 64 * EPS * (abs(beta) + alpha * xmax) + floor
    B = {k: _num(base[k]) for k in FIELDS}
    O = {k: _num(out[k]) for k in FIELDS}

    def both(k):
        return B[k] is not None and O[k] is not None and np.isfinite(B[k]) and np.isfinite(O[k])

    def same_kind(k):   # None/nan on both sides is "unchanged" for the equivariance clause (finiteness is a band clause)
        nb = B[k] is None or not np.isfinite(B[k])
        no = O[k] is None or not np.isfinite(O[k])
        return nb == no

    msg = lambda k: f'{tag} {pair}: {k} base={base[k]!r} scaled={out[k]!r}'
    # mu / s are statistics of the samples inside a window placed by t_left, t_right, t_opt.  Reduced-precision samples can move
    # a timing output by the one grid step the timing clause allows; the window then holds other samples and the levels move by
    # O(sigma / sqrt(n)), which no rounding floor covers: the level comparison is made only when the timing outputs are identical
    # (the bands of the statement are asserted on these results by the caller in any case)
    moved = lowprec and any(both(k) and O[k] != B[k] for k in ('t_left', 't_right', 't_opt'))
    for k in ('mu0', 'mu1') if not moved else ():      # (the statement lists mu0, mu1, s0, s1 and the timing outputs; threshold is not compared)
        if not same_kind(k):
            v.append((f'equiv:levels:{cls}', msg(k) + ' (finite on one side only)'))
        elif both(k) and abs(O[k] - (alpha * B[k] + beta)) > tol:
            v.append((f'equiv:levels:{cls}', msg(k) + f' expected {alpha*B[k]+beta!r} tol {tol:g}'))
    for k in ('s0', 's1') if not moved else ():
        if not same_kind(k):
            v.append((f'equiv:levels:{cls}', msg(k) + ' (finite on one side only)'))
        elif both(k) and abs(O[k] - alpha * B[k]) > tol:
            v.append((f'equiv:levels:{cls}', msg(k) + f' expected {alpha*B[k]!r} tol {tol:g}'))
    for k in ('t_left', 't_right', 't_opt'):
        if not same_kind(k):
            v.append((f'equiv:timing:{cls}', msg(k) + ' (finite on one side only)'))
        elif both(k) and abs(O[k] - B[k]) > STEP + 1e-12:
            v.append((f'equiv:timing:{cls}', msg(k) + f' differ by more than one resampled step {STEP:g}'))
    ib, io = base['i'], out['i']
    if isinstance(ib, (int, np.integer)) and isinstance(io, (int, np.integer)):
        slack = 1 if (lowprec and both('t_opt') and O['t_opt'] != B['t_opt']) else 0
        if abs(int(ib) - int(io)) > slack:
            v.append((f'equiv:timing:{cls}', msg('i')))
    elif repr(ib) != repr(io):
        v.append((f'equiv:timing:{cls}', msg('i')))
    # dedupe keys inside one case (first message kept)
    seen, outv = set(), []
    for k, m in v:
        if k not in seen:
            seen.add(k)
            outv.append((k, m))
    return outv


# ------------------------------------------------------------------ case function
def variant_info(var, sigma, xmax, nmax, nwin, rec=None):
    """(alpha, beta in volts, key spelling of beta, key suffix of the form, extra rounding floor, low precision?, structural
    offset?) of a variant; rec = (a, b, record minimum, record maximum) of the base record (needed by the structural offsets)"""
    alpha, beta, cont, dtype, gvf, callf = var
    beta_txt, struct = None, False
    if isinstance(beta, tuple) and beta[0] == 's':       # offset of k standard deviations of the scaled noise
        beta_txt = f'{beta[1]:g}sigma'
        beta = beta[1] * alpha * sigma
    elif isinstance(beta, tuple):                        # structural offset: position of 0 V relative to the levels / extremes
        kind, k = beta
        a, b, xlo, xhi = rec
        struct = True
        if kind == 'lv':
            beta_txt = f'0V@{k:g}'
            beta = -(alpha * (a + k * (b - a)))
        else:                                            # alpha * x + beta is exactly 0.0 at the extreme sample when k = 0
            beta_txt = f'{kind}@{k:g}'
            beta = -(alpha * {'max': xhi, 'min': xlo}[kind]) + k * (alpha * (b - a))
        beta = float(beta) + 0.0                         # (-0.0 -> 0.0)
    parts = ([] if (cont, dtype) == ('nd', 'f64') else [f'{cont}:{dtype}']) + ([] if gvf == 'sps,R' else [f'gv({gvf})']) \
        + ([] if callf == 'kw' else [f'call:{callf}'])
    mag = abs(beta) + alpha * xmax
    floor, lowprec = 0.0, False
    if dtype in ('f32', 'f16'):
        # float32 arithmetic inside GET_EYE (scipy resample / numpy mean, std keep float32; float16 is raised to float32):
        # samples rounded to the dtype + worst case of a plain float32 sum over the <= nwin samples of the central window
        floor = (nwin + 64) * U32 * mag + (EPS16 * mag if dtype == 'f16' else 0.0)
        lowprec = True
    if cont == 'es+n32':
        floor, lowprec = U32 * alpha * nmax, True        # the noise part is rounded to float32
    return alpha, beta, beta_txt, ','.join(parts), floor, lowprec, struct


def eye_case(case):
    """case = (seed, pattern, sps, (a,b), sigma index, noise stream, kmeans seed, variant indices[, nslots argument[, quant]])
    quant: record of whole ADC counts (the base call gets it as float64, the variants in the integer dtypes)"""
    seed, pat, sps, (a, b), sig_i, stream, kseed, eq = case[:8]
    nslots = case[8] if len(case) > 8 else None
    quant = bool(case[9]) if len(case) > 9 else False
    bits, x, sigma, clean, noise = build_parts(case[:7], quant)
    used = bits[:analysed_slots(pat, nslots)]            # the slots GET_EYE analyses
    assert used.size >= 64 and used.size % 2 == 0 and admissible(used), 'pattern alphabet member is degenerate'
    tag = f'{pat} sps={sps} kseed={kseed} stream={stream}' + ('' if nslots is None else f' nslots={nslots}') \
        + (' counts' if quant else '')
    objs = {}                                            # (alpha, beta, container, dtype) -> input object (reused when repeated)

    def obj(alpha, beta, cont, dtype):
        key = (alpha, beta, cont, dtype)
        if key not in objs:
            objs[key] = make_input(cont, dtype, alpha, beta, x, clean, noise)
        return objs[key]

    viol = []

    def call(o, gvf, callf, what):
        out = call_eye(o, sps, kseed, nslots, gvf, callf)
        if not out.pop('_unchanged'):
            viol.append((f'eye:input-modified:{what or "nd:f64"}', f'{tag} a={a:g} b={b:g}: the write-protected input differs after the call'))
        return out

    base = call(obj(1.0, 0.0, 'nd', 'f64'), 'sps,R', 'kw', '')
    n1 = int(used.sum()); n0 = int(used.size - n1)
    rare = tuple(s for s, n in (('s0', n0), ('s1', n1)) if n < 24)
    if quant and sigma < MIN_SIGMA_COUNTS:               # rounding to whole counts is not small against the noise: no spread clause
        rare = ('s0', 's1')
    widen, pcls, tband, stats, payload = {}, '', None, {}, None
    if pat.startswith('par-'):                           # parity-structured record: counts per eye opening, class in the keys
        r2, widen = parity_sampling(used, sigma, b - a)
        rare = tuple(sorted(set(rare) | set(r2)))
        pcls = par_class(pat)
        if par_single_one_parity(pat):                   # crossing distance: recorded, sanity bound only
            tband = TDIST_SANITY
            tl, tr = _num(base['t_left']), _num(base['t_right'])
            if tl is not None and tr is not None and np.isfinite(tl) and np.isfinite(tr):
                payload = ('tdist-1', pat, sps, SIGMA_PCT[sig_i], float(tr - tl - 1.0))
                stats = {'par1_one_parity_cases': 1,
                         'par1_one_parity_outside_10pct': int(abs(tr - tl - 1.0) > BAND_TDIST + 1e-12)}
    viol += [(k + (',' + pcls if pcls else ''), m) for k, m in check_bands(base, a, b, sigma, sps, tag, rare, widen, tband)]
    obs = [canon(base)]
    ncalls, nskip = 1, 0
    xmax, nmax = float(np.max(np.abs(x))), float(np.max(np.abs(noise)))
    rec = (a, b, float(np.min(x)), float(np.max(x)))
    nwin = 8 * used.size                                  # > 0.1 * 1.1 slot of every 2-slot trace at 128 samples per slot
    for j in eq:
        var = VARIANTS[j]
        alpha, beta, beta_txt, form, floor, lowprec, struct = variant_info(var, sigma, xmax, nmax, nwin, rec)
        form = ','.join(p_ for p_ in (form, pcls) if p_)
        o = obj(alpha, beta, var[2], var[3])
        # reduced-precision samples: the record must still carry its noise (rounding of the samples <= sigma/8)
        prec = {'f32': 2 * U32, 'f16': EPS16}.get(var[3], 0.0) * (abs(beta) + alpha * xmax)
        if o is None or prec > alpha * sigma / 8:
            nskip += 1
            obs.append(('skipped', j))
            continue
        out = call(o, var[4], var[5], form)
        ncalls += 1
        ctxt = tag + f' a={a:g} b={b:g} sigma={sigma:g}'
        viol += check_equiv(base, out, alpha, beta, b - a, xmax, ctxt, beta_txt, form, floor, lowprec)
        # the absolute bands of the statement on the result of the variant: for reduced-precision samples (the equivariance tolerance
        # is wide there) and for the structural offsets (the offset record is a two-level waveform with levels alpha a + beta <
        # alpha b + beta in its own right; asserted when its eye height lies in the quantified range 1e-3 V ... 100 V)
        if lowprec or (struct and BAND_PP[0] * (1 - 1e-9) <= alpha * (b - a) <= BAND_PP[1] * (1 + 1e-9)):
            sfx = ','.join(p_ for p_ in (f'beta={beta_txt}' if struct else '', form) if p_)
            viol += [(k + ',' + sfx, m) for k, m in
                     check_bands(out, alpha * a + beta, alpha * b + beta, alpha * sigma, sps, tag + f' [{sfx}]', rare,
                                 {k_: alpha * w_ for k_, w_ in widen.items()}, tband)]
        obs.append(canon(out))
    # one message per key per case
    seen, vv = set(), []
    for k, m in viol:
        if k not in seen:
            seen.add(k)
            vv.append((k, m))
    return res(viol=vv, obs=tuple(obs), nontrivial=True, payload=payload,
               stats=dict(stats, GET_EYE_calls=ncalls, equiv_pairs=ncalls - 1, band_cases=1, variants_skipped=nskip))


def selftest_case(case):
    """harness self-checks: PRBS bits equal an independent LFSR; the oracle rejects hand-made wrong results"""
    for order in (7, 9, 15):  # the LFSR is maximal length: period 2^order - 1, 2^(order-1) ones per period
        seq = _lfsr(order, PRBS_TAPS[order], 2 * (2 ** order - 1))
        per = 2 ** order - 1
        assert np.array_equal(seq[:per], seq[per:]) and int(seq[:per].sum()) == 2 ** (order - 1)
        if order < 15:
            assert all(not np.array_equal(seq[:per], np.roll(seq[:per], k)) for k in range(1, per))
        else:                 # every non-zero 15-bit window occurs exactly once per period <=> the period is not shorter
            win = np.convolve(np.concatenate([seq[:per], seq[:14]]).astype(np.int64), 2 ** np.arange(15), 'valid')
            assert win.size == per and np.unique(win).size == per and win.min() >= 1
    # record-length bookkeeping: (bits generated, slots, even whole slots) and the slots GET_EYE analyses
    assert pattern_slots('prbs7:127') == (127, 127.0, 126) and pattern_slots('rand4:66.5') == (67, 66.5, 66)
    assert pattern_slots('rand3:65')[2] == 64 and pattern_slots('rand6:5000')[2] == 5000
    assert analysed_slots('rand6:5000') == 4096 and analysed_slots('rand5:4097') == 4096 and analysed_slots('prbs9:511') == 510
    assert analysed_slots('rand6:5000', 64) == 64 and analysed_slots('rand1:128', 96) == 96 and analysed_slots('prbs7:127', 4096) == 126
    assert nslots_values('rand1:128', False) == [64, 96, 128] and nslots_values('rand3:65', False) == [64]
    assert nslots_values('prbs7:127', False) == [64, 94, 126] and nslots_values('rand6:5000', False) == [64, 2080]
    assert nslots_values('rand6:5000', True) == [64, 2080, 5000] and nslots_values('prbs15:32767', True) == [64, 2080]
    for pat in PATTERNS + PATTERNS_LONG + PATTERNS_LONG_THOROUGH:
        assert pattern_slots(pat)[2] >= 64
        if pattern_slots(pat)[1] < 600:     # sample count of the record handed to GET_EYE (ragged: 66.5 slots)
            assert build((0, pat, 8, (0.0, 1.0), 0, 0, 0))[1].size == int(round(pattern_slots(pat)[1] * 8))
    good = dict(mu0=0.01, mu1=0.99, s0=0.012, s1=0.012, threshold=0.5, t_left=-0.5, t_right=0.5, t_opt=0.0, i=4)
    assert check_bands(good, 0.0, 1.0, 0.01, 8, 'self') == []
    bads = [dict(good, mu0=0.09), dict(good, mu1=0.9), dict(good, s0=0.004), dict(good, s1=0.06),
            dict(good, threshold=1.0), dict(good, threshold=None), dict(good, t_right=0.39), dict(good, t_opt=0.01),
            dict(good, i=8), dict(good, i=4.0), dict(good, mu0=float('nan'))]
    for bd in bads:
        assert check_bands(bd, 0.0, 1.0, 0.01, 8, 'self'), f'oracle accepted {bd}'
    sc = dict(good, mu0=0.01 * 50 + 1, mu1=0.99 * 50 + 1, s0=0.6, s1=0.6, threshold=26.0)
    assert check_equiv(good, sc, 50.0, 1.0, 1.0, 1.05, 'self') == []
    for bd in (dict(sc, mu0=1.5001), dict(sc, s1=0.6001), dict(sc, t_left=-0.48), dict(sc, i=3)):
        assert check_equiv(good, bd, 50.0, 1.0, 1.0, 1.05, 'self'), f'equivariance oracle accepted {bd}'
    # hardening pass: variant alphabet, input forms, gv call forms
    assert VARIANTS[:N_UNIT] == [V(a_, b_) for a_, b_ in EQUIV] and len(set(FORM_FEW)) == len(FORM_FEW) <= len(FORM_ALL)
    assert all(v[4] in GV_FORMS and v[5] in CALL_FORMS and v[3] in NP_DTYPE for v in VARIANTS)
    assert {v[4] for v in VARIANTS} == set(GV_FORMS) and {v[5] for v in VARIANTS} == set(CALL_FORMS)
    for sps in SPS:
        for gvf in GV_FORMS:
            g = configure_gv(sps, gvf)
            assert g.sps == sps and type(g.sps) is int, (gvf, g.sps)
        assert float(np.nextafter(sps * R, 0.0)) / R != sps != float(np.nextafter(sps * R, np.inf)) / R   # really non-integer
    bits, x, sigma, clean, noise = build_parts((0, 'rand0:64', 8, (5.0, 6.0), 1, 0, 0))
    assert np.array_equal(x, build((0, 'rand0:64', 8, (5.0, 6.0), 1, 0, 0))[1]) and np.max(np.abs(clean + noise - x)) < 8 * EPS * 6
    assert abs(np.std(noise) / sigma - 1) < 0.1 and abs(sigma - 0.01) < 1e-15
    o = make_input('es+n', 'f64', 50.0, 1.0, x, clean, noise)
    assert np.array_equal(o.signal, 50.0 * clean + 1.0) and np.array_equal(o.noise, 50.0 * noise) and o.signal.dtype == np.float64
    o = make_input('es+n32', 'f64', 1.0, 7.0, x, clean, noise)
    assert o.signal.dtype == np.float64 and np.max(np.abs(o.noise - noise)) <= U32 * np.max(np.abs(noise))
    assert make_input('nd', 'f32', 1.0, 0.0, x, clean, noise).dtype == np.float32
    assert make_input('es', 'c128', 1.0, 0.0, x, clean, noise).signal.dtype == np.complex128
    assert make_input('nd', 'i16', 1.0, 0.0, x, clean, noise) is None            # not whole counts
    assert make_input('nd', 'f16', 1e3, 0.0, 100 * x, clean, noise) is None      # float16 overflow
    bits, xq, sq, cq, nq = build_parts((0, 'rand0:64', 8, (500.0, 1500.0), 1, 0, 0), True)
    assert np.array_equal(xq, np.rint(xq)) and np.array_equal(cq + nq, xq) and abs(np.std(nq) / sq - 1) < 0.1 and sq == 10.0
    assert make_input('nd', 'u16', 1.0, 0.0, xq, cq, nq).dtype == np.uint16 and make_input('nd', 'i8', 1.0, 0.0, xq, cq, nq) is None
    assert make_input('nd', 'u8', 1.0, 0.0, xq - 2000, cq, nq) is None            # negative counts do not fit an unsigned dtype
    o = make_input('es+n', 'i32', 2.0, 11.0, xq, cq, nq)
    assert o.signal.dtype == np.int32 and np.array_equal(o.signal.astype(float) + o.noise, 2 * xq + 11)
    for lv in LEVELS_INT:                        # every count level pair is held by at least one integer dtype, at every sigma
        xx = build_parts((0, 'rand0:64', 8, lv, 3, 0, 0), True)[1:]
        assert sum(make_input('nd', dt, 1.0, 0.0, xx[0], xx[2], xx[3]) is not None for dt in INT_DTYPES) >= 1
    al, be, btxt, form, floor, low, st = variant_info(V(1e3, ('s', 1e8), 'es+n', 'f32', 'R,fs', 'pos'), 0.01, 1.1, 0.05, 512)
    assert (al, be, btxt, form, low, st) == (1e3, 1e9, '1e+08sigma', 'es+n:f32,gv(R,fs),call:pos', True, False) and floor > 0
    assert variant_info(V(1, 7), 0.01, 1.1, 0.05, 512)[2:] == (None, '', 0.0, False, False)
    assert variant_info(V(1, 7, 'es+n32'), 0.01, 1.1, 0.05, 512)[3:] == ('es+n32:f64', U32 * 0.05, True, False)
    # seeded wave 4: structural offsets.  rec = (a, b, record minimum, record maximum)
    assert len(OFFS_ALL) == len(OFFSETS) * len(OFFS_ALPHAS) and len(set(OFFS_FEW)) == len(OFFS_FEW) and set(OFFS_FEW) <= set(OFFS_ALL)
    assert {VARIANTS[j][0] for j in OFFS_ALL} == set(OFFS_ALPHAS) and all(VARIANTS[j][2:] == ('nd', 'f64', 'sps,R', 'kw') for j in OFFS_ALL)
    rec = (5.0, 6.0, 4.9, 6.2)
    assert variant_info(V(1, ('lv', 1.0)), 0.01, 6.2, 0.05, 512, rec)[1:] == (-6.0, '0V@1', '', 0.0, False, True)      # upper level at 0 V
    assert variant_info(V(50, ('lv', 0.0)), 0.01, 6.2, 0.05, 512, rec)[1:3] == (-250.0, '0V@0')                          # lower level at 0 V
    assert variant_info(V(1, ('lv', 0.5)), 0.01, 6.2, 0.05, 512, rec)[1] == -5.5                                         # symmetric about 0 V
    assert variant_info(V(1, ('lv', 11.0)), 0.01, 6.2, 0.05, 512, rec)[1] == -16.0                                       # eye at [-11, -10]
    assert variant_info(V(1, ('lv', 0.0)), 0.01, 1.2, 0.05, 512, (0.0, 1.0, -0.1, 1.2))[1:3] == (0.0, '0V@0')           # identity, still named
    xs = build((0, 'rand0:64', 8, (5.0, 6.0), 1, 0, 0))[1]
    rec = (5.0, 6.0, float(xs.min()), float(xs.max()))
    for al in OFFS_ALPHAS:
        bmax = variant_info(V(al, ('max', 0.0)), 0.01, 6.2, 0.05, 512, rec)
        bmin = variant_info(V(al, ('min', 0.0)), 0.01, 6.2, 0.05, 512, rec)
        assert (al * xs + bmax[1]).max() == 0.0 and (al * xs + bmin[1]).min() == 0.0 and bmax[2] == 'max@0'       # exactly 0.0
        hi = (al * xs + variant_info(V(al, ('max', 0.01)), 0.01, 6.2, 0.05, 512, rec)[1]).max()
        lo = (al * xs + variant_info(V(al, ('max', -0.01)), 0.01, 6.2, 0.05, 512, rec)[1]).max()
        assert abs(hi / al - 0.01) < 1e-12 and abs(lo / al + 0.01) < 1e-12
    assert check_equiv(good, dict(good, s0=0.013), 1.0, 0.0, 1.0, 1.05, 'self', beta_txt='0V@0')[0][0] == 'equiv:levels:pp=1e+00V->1e+00V,beta=0V@0'
    # seeded wave 5: parity-structured patterns
    fam, reps = par_family(), par_representatives()
    assert len(fam) == len(set(fam)) == 2 * 3 * 2 * (7 + 3 + 3) == 156 and len(reps) == 36 and set(reps) <= set(fam)
    assert len(par_sparsest()) == 36 and set(par_sparsest()) <= set(fam) and not set(par_sparsest()) & set(reps)
    assert par_parse('par-m1x0n24') == ('m', 1, 'x', 0, 24) and par_class('par-s2e1n12:128') == 'par=s2/one-parity'
    assert par_class('par-m3x0n8:64') == 'par=m3/mixed'
    assert par_single_one_parity('par-m1e0n24:128') and par_single_one_parity('par-s1o1n8:256')
    assert not par_single_one_parity('par-m1x0n24:128') and not par_single_one_parity('par-s2e0n12:128') and not par_single_one_parity('par-m3o1n8:64')
    g88 = dict(good, t_right=0.38, t_opt=-0.06)          # crossings 0.88 slot apart
    assert check_bands(g88, 0.0, 1.0, 0.01, 8, 'self') and check_bands(g88, 0.0, 1.0, 0.01, 8, 'self', tdist_band=TDIST_SANITY) == []
    for tr_ in (-1.5, -0.5, 0.2, 0.8):                  # t_right - t_left = -1, 0, 0.7, 1.3: outside the sanity bound as well
        assert check_bands(dict(good, t_right=tr_, t_opt=(tr_ - 0.5) / 2), 0.0, 1.0, 0.01, 8, 'self', tdist_band=TDIST_SANITY)
    for seed_ in (0, 1):
        for name in fam:
            maj, length, parity, shift, count = par_parse(name.split(':')[0])
            bb = pattern_bits(name, seed_)
            nsl = pattern_slots(name)[2]
            assert bb.size == nsl == analysed_slots(name) and admissible(bb)
            b0 = np.roll(bb, -shift)                     # the member before the cyclic shift
            st = par_starts(b0, maj)
            minority = 0 if maj == 'm' else 1
            assert st.size == count and int(np.count_nonzero(bb == minority)) == count * length
            for s_ in st:                                # runs of exactly `length` slots with the majority symbol either side (cyclically)
                assert all(b0[(s_ + j) % nsl] == minority for j in range(length))
                assert b0[(s_ - 1) % nsl] != minority and b0[(s_ + length) % nsl] != minority
            par = set(int(s_) % 2 for s_ in st)
            assert par == {'e': {0}, 'o': {1}, 'x': {0, 1}}[parity], (name, par)
            # what the structure means for the 2-slot window: single-slot exceptions of one parity leave one opening with one level
            oc = opening_counts(bb)
            if length == 1 and parity != 'x':
                q = ({'e': 0, 'o': 1}[parity] + shift) % 2
                assert set(bb[1 - q::2]) == {1 - minority} and oc[minority] == count
            if length == 2 and parity != 'x':           # every transition on boundaries of one parity
                tr = np.flatnonzero(np.diff(np.concatenate([bb, bb[:1]]).astype(int)))
                assert len(set(int(t_) % 2 for t_ in tr)) == 1
    assert opening_counts(np.array([1, 0] * 8)) == {0: 0, 1: 0}                        # neither opening shows both symbols
    assert opening_counts(np.array([1, 1, 0, 1, 1, 1, 0, 1])) == {0: 2, 1: 2}         # spaces on even slots only
    assert opening_counts(np.array([0, 1, 1, 0, 0, 0, 1, 0, 0, 0])) == {0: 3, 1: 1}
    uu = np.ones(128, dtype=int); uu[0:48:2] = 0                                       # 24 isolated spaces on even slots
    assert parity_sampling(uu, 0.05, 1.0) == ((), {}) and parity_sampling(uu[:96], 0.05, 1.0) == ((), {})
    uu[46] = 1                                                                         # 23 spaces
    assert parity_sampling(uu, 0.05, 1.0) == (('s0',), {})
    uu[8:48] = 1                                                                       # 4 spaces: the exact band only for small noise
    assert parity_sampling(uu, 0.05, 1.0) == (('s0',), {'mu0': 0.1}) and parity_sampling(uu, 0.02, 1.0) == (('s0',), {})
    assert parity_sampling(np.array([1, 0] * 8), 0.01, 1.0)[1] == {'mu0': np.inf, 'mu1': np.inf}
    assert check_bands(dict(good, mu0=0.17), 0.0, 1.0, 0.01, 8, 'self', widen={'mu0': 0.1}) == []
    assert check_bands(dict(good, mu0=0.19), 0.0, 1.0, 0.01, 8, 'self', widen={'mu0': 0.1})
    assert check_bands(dict(good, mu1=0.9), 0.0, 1.0, 0.01, 8, 'self', widen={'mu0': 0.1})
    iso = np.ones(32); iso[16] = 0
    for sps in SPS:                                      # isolated single-slot pulse of the harness waveform: depth, 50 % points
        w_ = waveform01(iso, sps)
        assert 0.02 < w_.min() <= ISI_ISOLATED and abs(w_[16 * sps - 1] + w_[16 * sps] - 1) < 1e-3
    # low-precision index rule and form suffix of the keys
    assert check_equiv(good, dict(good, t_opt=good['t_opt'] + STEP, i=5), 1.0, 0.0, 1.0, 1.05, 'self', lowprec=True) == []
    assert check_equiv(good, dict(good, t_opt=good['t_opt'] + STEP, i=5), 1.0, 0.0, 1.0, 1.05, 'self')
    assert check_equiv(good, dict(good, i=5), 1.0, 0.0, 1.0, 1.05, 'self', lowprec=True)
    assert check_equiv(good, dict(good, mu0=0.013), 1.0, 0.0, 1.0, 1.05, 'self', lowprec=True)          # timing identical: levels compared
    assert check_equiv(good, dict(good, mu0=0.013, t_opt=STEP), 1.0, 0.0, 1.0, 1.05, 'self', lowprec=True) == []   # window moved
    assert check_equiv(good, dict(good, mu0=0.013, t_opt=STEP), 1.0, 0.0, 1.0, 1.05, 'self')
    assert check_equiv(good, dict(good, s0=0.013), 1.0, 0.0, 1.0, 1.05, 'self', form='es+n:f64')[0][0] == 'equiv:levels:pp=1e+00V->1e+00V,es+n:f64'
    return res(obs='selftest-ok', stats={'selftests': 1})


# ------------------------------------------------------------------ enumeration
def _deviations(axes, kmax):
    """index vectors that differ from the all-zero (simplest) vector in <= kmax coordinates, ordered by #deviations"""
    out = []
    n = len(axes)
    for k in range(kmax + 1):
        for pos in itertools.combinations(range(n), k):
            for vals in itertools.product(*[range(1, axes[p]) for p in pos]):
                v = [0] * n
                for p, x in zip(pos, vals):
                    v[p] = x
                out.append(tuple(v))
    return out


def enumerate_cases(ctx):
    streams = [0] if ctx.quick else [0, 1, 2, 3]
    eq_all = tuple(range(len(EQUIV)))
    cases = []
    full = itertools.product(range(len(PATTERNS)), range(len(SPS)), range(len(SIGMA_PCT)), range(len(KSEEDS)))
    full = sorted(full, key=lambda v: (sum(1 for x in v if x), v))      # simplest (fewest deviations) first
    dev2 = _deviations([len(PATTERNS), len(SPS), len(SIGMA_PCT), len(KSEEDS)], 2)
    n_full = n_dev = 0
    for stream in streams:
        for (a, b) in LEVELS:
            small = (b - a) <= 1.0 and a >= 0.0
            idx = full if (small or not ctx.quick) else dev2
            for (p, s, g, k) in idx:
                cases.append((ctx.seed, PATTERNS[p], SPS[s], (a, b), g, stream, KSEEDS[k], eq_all))
            if small or not ctx.quick:
                n_full += len(idx)
            else:
                n_dev += len(idx)
    return cases, n_full, n_dev


EQ_FEW = (0, 2)      # one pure scaling (alpha = 1e-3) and one pure offset (beta = 7) for the expensive / additional parts


def _lattice(ctx):
    """(sps, level pair, sigma, KMeans seed) index vectors within <= 1 (quick) / <= 2 (thorough) deviations of the simplest"""
    return _deviations([len(SPS), len(LEVELS), len(SIGMA_PCT), len(KSEEDS)], 1 if ctx.quick else 2)


def enumerate_long(ctx):
    """expensive records (default nslots): deviation lattice, simplest vector first, all patterns per vector"""
    pats = PATTERNS_LONG + ([] if ctx.quick else PATTERNS_LONG_THOROUGH)
    eq_all = tuple(range(len(EQUIV)))
    cases = []
    for v in _lattice(ctx):
        s, l, g, k = v
        for pat in pats:
            cases.append((ctx.seed, pat, SPS[s], LEVELS[l], g, 0, KSEEDS[k], eq_all if not any(v) else EQ_FEW))
    return cases


def nslots_values(pat, thorough):
    """explicit even `nslots` arguments for a record of L whole slots: the smallest quantified record (64), an intermediate
    value (even midpoint of 64 and min(L, 4096)), and L itself unless that is expensive (quick: L <= 512, thorough: L <= 8192)"""
    L = pattern_slots(pat)[2]
    vals = [64, 2 * ((64 + min(L, NSLOTS_DEFAULT)) // 4)]
    if L <= (8192 if thorough else 512):
        vals.append(L)
    return sorted(set(vals))


def enumerate_nslots(ctx):
    """explicit `nslots` argument: every pattern x nslots_values x deviation lattice; combinations whose analysed prefix
    does not satisfy the hypotheses (one symbol only / < 15 transitions: the rare-symbol patterns cut to 64 slots) are skipped"""
    pats = PATTERNS + PATTERNS_LONG + ([] if ctx.quick else PATTERNS_LONG_THOROUGH)
    eq_all = tuple(range(len(EQUIV)))
    combos, skipped = [], []
    for pat in pats:
        bits = pattern_bits(pat, ctx.seed)
        for ns in nslots_values(pat, not ctx.quick):
            (combos if admissible(bits[:analysed_slots(pat, ns)]) else skipped).append((pat, ns))
    cases = []
    lat1 = set(_deviations([len(SPS), len(LEVELS), len(SIGMA_PCT), len(KSEEDS)], 1))
    for v in _lattice(ctx):
        s, l, g, k = v
        for pat, ns in combos:
            if analysed_slots(pat, ns) > 512 and v not in lat1:     # expensive calls: <= 1 deviation in both tiers
                continue
            cases.append((ctx.seed, pat, SPS[s], LEVELS[l], g, 0, KSEEDS[k], eq_all if not any(v) else EQ_FEW, ns))
    return cases, combos, skipped


FORM_NSLOTS = [None, 64]     # nslots argument of the form / count parts: default and the smallest quantified record


def _form_vectors(ctx, pats, levels, kmax):
    """(pattern, sps, level pair, sigma, KMeans seed, nslots) vectors within <= kmax deviations of the simplest one; vectors whose
    analysed prefix does not satisfy the hypotheses (rare-symbol patterns cut to 64 slots) are left out"""
    out = []
    for v in _deviations([len(pats), len(SPS), len(levels), len(SIGMA_PCT), len(KSEEDS), len(FORM_NSLOTS)], kmax):
        p, s, l, g, k, n = v
        ns = FORM_NSLOTS[n]
        if ns is not None and not admissible(pattern_bits(pats[p], ctx.seed)[:analysed_slots(pats[p], ns)]):
            continue
        out.append((v, (ctx.seed, pats[p], SPS[s], levels[l], g, 0, KSEEDS[k]), ns))
    return out


def enumerate_forms(ctx):
    """part eye-forms: every form variant on all vectors within <= 1 (quick) / <= 2 (thorough) deviations, the thin slice FORM_FEW
    on the vectors with exactly 2 deviations in the quick tier; expensive records: quick two of them (odd length above the default
    nslots, whole PRBS9 period) on the simplest vector with FORM_FEW, thorough all of them with every variant on the simplest vector
    and FORM_FEW on the vectors with one deviation"""
    cases = []
    kfull = 1 if ctx.quick else 2
    for v, c, ns in _form_vectors(ctx, PATTERNS, LEVELS, 2):
        ndev = sum(1 for i in v if i)
        cases.append(c + (FORM_ALL if ndev <= kfull else FORM_FEW, ns))
    for pat in (['rand5:4097', 'prbs9:511'] if ctx.quick else PATTERNS_LONG + PATTERNS_LONG_THOROUGH):
        for v, c, ns in _form_vectors(ctx, [pat], LEVELS, 0 if ctx.quick else 1):
            if ctx.quick or any(v):
                cases.append(c + (FORM_FEW, ns))
            else:                         # every variant, in slices of 8 per case (a call takes up to 0.8 s)
                cases += [c + (FORM_ALL[i:i + 8], ns) for i in range(0, len(FORM_ALL), 8)]
    return cases


def enumerate_int(ctx):
    """part eye-int: records of whole ADC counts; every integer dtype that holds the record, on all (pattern, sps, count level
    pair, sigma, KMeans seed, nslots) vectors within <= 1 (quick) / <= 2 (thorough) deviations of the simplest one"""
    return [c + (INT_ALL, ns, True) for v, c, ns in _form_vectors(ctx, PATTERNS, LEVELS_INT, 1 if ctx.quick else 2)]


def enumerate_offsets(ctx):
    """part eye-offsets: structural offsets x alpha.  quick: every variant on the simplest (pattern, sps, level pair, sigma, KMeans seed)
    vector, the thin slice OFFS_FEW on the vectors with one deviation; thorough: every variant on the full product pattern x sps x
    sigma x KMeans seed for the level pair (0,1) and on all vectors within <= 2 deviations (every level pair)"""
    axes = [len(PATTERNS), len(SPS), len(LEVELS), len(SIGMA_PCT), len(KSEEDS)]
    vecs = [(v, OFFS_ALL if (not ctx.quick or not any(v)) else OFFS_FEW) for v in _deviations(axes, 1 if ctx.quick else 2)]
    if not ctx.quick:
        seen = {v for v, _ in vecs}
        full = sorted(itertools.product(range(axes[0]), range(axes[1]), [0], range(axes[3]), range(axes[4])),
                      key=lambda v: (sum(1 for x in v if x), v))
        vecs += [(v, OFFS_ALL) for v in full if v not in seen]
    return [(ctx.seed, PATTERNS[p], SPS[s], LEVELS[l], g, 0, KSEEDS[k], eq) for (p, s, l, g, k), eq in vecs]


def enumerate_parity(ctx):
    """part eye-parity.  quick: one representative per (majority, exception length, parity, shift) - 128 slots, 24 minority slots -
    at sps 8, level pair (0,1), KMeans seed 0 and the two ends of the noise range (0.5 % and 5 %), all 5 unit changes; the sparsest
    member of every (majority, exception length, parity, shift) - 256 slots, 8 exceptions - at the upper end of the noise range.
    thorough: every member of the family x sps x sigma x KMeans seed for the level pair (0,1) with all 5 unit changes, and every
    member with each other level pair on the simplest (sps, sigma, KMeans seed) vector with one pure scaling and one pure offset"""
    eq_all = tuple(range(N_UNIT))
    if ctx.quick:
        glast = len(SIGMA_PCT) - 1
        return [(ctx.seed, p, SPS[0], LEVELS[0], g, 0, KSEEDS[0], eq_all) for g in (0, glast) for p in par_representatives()] \
            + [(ctx.seed, p, SPS[0], LEVELS[0], glast, 0, KSEEDS[0], eq_all) for p in par_sparsest()]
    fam = par_family()
    full = sorted(itertools.product(range(len(SPS)), range(len(SIGMA_PCT)), range(len(KSEEDS))), key=lambda v: (sum(1 for x in v if x), v))
    cases = [(ctx.seed, p, SPS[s_], LEVELS[0], g, 0, KSEEDS[k], eq_all) for (s_, g, k) in full for p in fam]
    cases += [(ctx.seed, p, SPS[0], lv, 0, 0, KSEEDS[0], EQ_FEW) for lv in LEVELS[1:] for p in fam]
    return cases


# minimal inputs of the two confirmed defects (fixed content: harness seed 0), executed in both tiers
REGRESS = [
    # proposed_fixes/C17_1: crossing KMeans on raw (t, volts): t_left == t_right, nan levels for b-a = 100 V
    (0, 'prbs7:64', 8, (0.0, 100.0), 0, 0, 0, (0, 1, 2, 3, 4)),
    # proposed_fixes/C17_2: absolute 1e-10 tie tolerance of shortest_int: 1 mV eye scaled by 1e-3 moves t_opt / mu0
    (0, 'rand1:128', 8, (0.0, 1e-3), 3, 2, 0, (0,)),
]


def run(ctx):
    ctx.rule('C17: full product bit pattern {PRBS7[:64],PRBS7[:128],PRBS9[:128],3 seeded random, 16-PPM, 6 % spaces, whole PRBS7 '
             'period (127 slots), 65 random bits, 66.5 random slots} x sps {8,16,32} x level pair (a,b) in {(0,1),(0,1e-3),(0,100),'
             '(5,6),(-50,50),(2e-4,1.2e-3),(-3,-2)} x sigma {0.5,1,2,5}% of b-a x KMeans seed {0,1,2} (x 4 private noise streams in '
             'the thorough tier); quick tier: full product for the level pairs with b-a <= 1 V and a >= 0, all vectors deviating '
             'in <= 2 coordinates from the simplest one for the other pairs; each case is executed on x and on alpha x + beta for '
             'all 5 (alpha,beta) pairs (same array, same numpy seed) = 6 GET_EYE(x, sps_resamp=128) calls; oracles: the bands of '
             'the statement and the affine image of the base result')
    ctx.rule('part eye-long: expensive records {whole PRBS9 period 511, 4097, 5000, 8192 random slots, whole PRBS15 period 32767; '
             'thorough also 4096, 4098} x all (sps, level pair, sigma, KMeans seed) vectors within <= 1 (quick) / <= 2 (thorough) '
             'deviations of the simplest one; all 5 unit changes on the simplest vector, (1e-3,0) and (1,7) on the others')
    ctx.rule('part eye-nslots: GET_EYE(x, nslots=n, sps_resamp=128) for every pattern of both alphabets x n in {64, even midpoint of 64 '
             'and min(L,4096), L (quick: L <= 512, thorough: L <= 8192)} (L = even number of whole slots of the record) x the same '
             'deviation lattice and unit changes as eye-long; hypotheses / rare symbols evaluated on the first n slots')
    ctx.rule(f'part eye-forms: the base record (float64 ndarray, gv(sps,R), keyword call) against {len(FORM_ALL)} variants = unit change x '
             'input form: offsets of 1e6 ... 1e8 noise standard deviations; electrical_signal without noise / clean signal + noise in '
             '.noise / all-zero noise / float32 noise under a float64 signal / complex128 with zero imaginary part; float32 and '
             'float16 samples; gv configured by (sps,fs), (R,fs), fs alone, non-integer fs/R one ulp below / above sps, numpy / float '
             'sps, other R + wavelength + N, reconfiguration after another grid; positional / numpy-integer / input= call spellings; '
             'the same objects once more at the end; every buffer write-protected and compared byte-for-byte afterwards. Enumerated '
             'on all (pattern, sps, level pair, sigma, KMeans seed, nslots in {default, 64}) vectors within <= 1 (quick) / <= 2 '
             f'(thorough) deviations of the simplest one; quick: the thin slice of {len(FORM_FEW)} variants on the vectors with 2 '
             'deviations; expensive records on the simplest vector (thorough: + vectors with one deviation, thin slice)')
    ctx.rule(f'part eye-int: records rounded to whole ADC counts, level pairs {LEVELS_INT} counts, base = the count record as float64, '
             f'{len(INT_ALL)} variants = every integer dtype int8 ... uint64 that holds the record, also after the integer unit change '
             '2 x + 11, inside electrical_signal with / without integer noise part; same lattice as eye-forms with <= 1 / <= 2 '
             f'deviations; spread bands asserted for sigma >= {MIN_SIGMA_COUNTS:g} counts only')
    ctx.rule(f'part eye-offsets: structural offsets = position of 0 V relative to the record: 0 V at the fraction p of the eye for p in '
             f'{[k for kind, k in OFFSETS if kind == "lv"]} (1: upper level at 0 V, 0: lower level at 0 V, 0.5: symmetric, > 1: both levels '
             'negative), record maximum / minimum exactly at 0.0 and 1 % of the eye height above / below 0 V; each with alpha in '
             f'{OFFS_ALPHAS} = {len(OFFS_ALL)} variants; oracles: affine image of the base result and the bands of the statement on '
             'the offset record itself (eye height within 1e-3 ... 100 V). quick: all variants on the simplest (pattern, sps, level '
             f'pair, sigma, KMeans seed) vector, thin slice of {len(OFFS_FEW)} on the vectors with one deviation; thorough: all '
             'variants on the full product pattern x sps x sigma x KMeans seed for the level pair (0,1) and on all vectors within '
             '<= 2 deviations')
    ctx.rule('part eye-parity: parity-structured sparse patterns {mostly marks, mostly spaces} x {single-slot, two-slot, three-slot '
             'exceptions, never touching each other} x {every exception starts on an even slot, on an odd slot, alternately even / odd} '
             'x {as generated, shifted cyclically by one slot} x exception count {8, 12, and 24 for single-slot exceptions} x {128 '
             f'slots; 64 and 256 slots with 8 exceptions}} = {len(par_family())} patterns (positions drawn from VERIF_SEED); same oracles as '
             'part eye; with n = slots of a symbol in the eye opening (slot parity) that holds fewest of them: spread clause asserted for '
             'n >= 24, level band widened by 4 sigma/sqrt(n) when that exceeds 4.5 % of b-a; single-slot exceptions on one parity (every '
             'rising edge on one crossing, every falling edge on the other: not a random / PRBS pattern in that respect): crossing '
             f'distance recorded and held against the sanity bound 1 +/- {TDIST_SANITY:g} instead of the 10 % of the statement. quick: one representative per (majority, '
             f'length, parity, shift) = {len(par_representatives())} patterns (128 slots, 24 minority slots) at sps 8, (0,1), KMeans seed 0, sigma 0.5 % and '
             f'5 %, and the {len(par_sparsest())} sparsest patterns (256 slots, 8 exceptions) at sigma 5 %; thorough: every pattern x sps x sigma x KMeans '
             'seed for (0,1), every pattern x the other level pairs on the simplest vector')
    ctx.assume('numpy.random.seed(k) fixes every draw of sklearn KMeans (random_state=None uses the global RNG); '
               'workers are single-threaded so KMeans is deterministic')
    ctx.assume('scipy.signal.bessel/sosfiltfilt (the mild band-limit of the harness waveform) and RandomState are correct')
    ctx.assume('the accuracy bands are asserted on the enumerated waveforms / seeds only (statement: fixed numpy seeds)')
    ctx.run_case('selftest', selftest_case, ('selftest',))
    for c in REGRESS:
        ctx.run_case('regress', eye_case, c)
    cases, n_full, n_dev = enumerate_cases(ctx)
    ctx.space('axes.pattern', len(PATTERNS), quiet=True)
    ctx.space('axes.sps', len(SPS), quiet=True)
    ctx.space('axes.levels', len(LEVELS), quiet=True)
    ctx.space('axes.sigma', len(SIGMA_PCT), quiet=True)
    ctx.space('axes.kmeans_seed', len(KSEEDS), quiet=True)
    ctx.space('axes.equiv_pairs', len(EQUIV), quiet=True)
    ctx.space('cases.full_product', n_full)
    ctx.space('cases.deviation<=2', n_dev)
    ctx.space('axes.pattern_long', len(PATTERNS_LONG) + (0 if ctx.quick else len(PATTERNS_LONG_THOROUGH)), quiet=True)
    ctx.pmap('eye', eye_case, cases, horizon=60, chunk=4)
    ncases, combos, skipped = enumerate_nslots(ctx)
    ctx.space('nslots.pattern_x_nslots', len(combos))
    ctx.space('nslots.skipped_inadmissible_prefix', len(skipped))
    ctx.extra['nslots_skipped'] = [f'{p}/nslots={n}' for p, n in skipped]
    ctx.pmap('eye-nslots', eye_case, ncases, horizon=120, chunk=2)
    fcases = enumerate_forms(ctx)
    ctx.space('axes.form_variants', len(FORM_ALL), quiet=True)
    ctx.space('axes.form_variants_thin', len(FORM_FEW), quiet=True)
    ctx.space('forms.cases_all_variants', sum(1 for c in fcases if c[7] == FORM_ALL))
    ctx.space('forms.cases_thin_slice', sum(1 for c in fcases if c[7] == FORM_FEW))
    ctx.space('forms.cases_long_record_slices', sum(1 for c in fcases if c[7] not in (FORM_ALL, FORM_FEW)))
    # expensive records last inside the part; a case of a long record makes up to 43 calls of 0.1 ... 0.8 s
    ctx.pmap('eye-forms', eye_case, fcases, horizon=900, chunk=1, recheck=2)
    icases = enumerate_int(ctx)
    ctx.space('axes.int_variants', len(INT_ALL), quiet=True)
    ctx.space('axes.levels_int', len(LEVELS_INT), quiet=True)
    ctx.pmap('eye-int', eye_case, icases, horizon=120, chunk=2)
    ocases = enumerate_offsets(ctx)
    ctx.space('axes.offset_positions', len(OFFSETS), quiet=True)
    ctx.space('axes.offset_variants', len(OFFS_ALL), quiet=True)
    ctx.space('axes.offset_variants_thin', len(OFFS_FEW), quiet=True)
    ctx.space('offsets.cases_all_variants', sum(1 for c in ocases if c[7] == OFFS_ALL))
    ctx.space('offsets.cases_thin_slice', sum(1 for c in ocases if c[7] == OFFS_FEW))
    ctx.pmap('eye-offsets', eye_case, ocases, horizon=300, chunk=1)
    pcases = enumerate_parity(ctx)
    ctx.space('parity.family_members', len(par_representatives()), quiet=True)
    ctx.space('parity.patterns', len({c[1] for c in pcases}))
    ctx.space('parity.cases', len(pcases))
    pl = [p_ for p_ in ctx.pmap('eye-parity', eye_case, pcases, horizon=60, chunk=4) if p_ is not None]
    # crossing distance of the single-slot / one-parity members: an observation, not an assertion (beyond the sanity bound)
    worst = max(pl, key=lambda p_: abs(p_[4]), default=None)
    by_sigma = {}
    for p_ in pl:
        by_sigma[p_[3]] = max(by_sigma.get(p_[3], 0.0), abs(p_[4]))
    ctx.extra['parity_single_slot_one_parity'] = {
        'cases': len(pl), 'outside_10pct_band_of_the_statement': sum(abs(p_[4]) > BAND_TDIST + 1e-12 for p_ in pl),
        'max_abs_tdist_minus_1': None if worst is None else abs(worst[4]),
        'max_abs_tdist_minus_1_by_sigma_pct': {f'{k:g}': v for k, v in sorted(by_sigma.items())},
        'worst_case': None if worst is None else list(worst[1:]), 'asserted_sanity_bound': TDIST_SANITY}
    # one long case = 3 ... 6 calls of 0.6 s (idle); generous horizon because the machine is shared; recheck 2 (re-runs are serial)
    ctx.pmap('eye-long', eye_case, enumerate_long(ctx), horizon=600, chunk=1, recheck=2)
    ctx.extra['get_eye_calls'] = ctx.stats.get('GET_EYE_calls', 0)
    ctx.extra['variants_skipped_not_representable'] = ctx.stats.get('variants_skipped', 0)
