"""C17 - GET_EYE recovers the levels / timing of a clean two-level NRZ signal in any unit.

Bounded-exhaustive exploration: the full product
    bit pattern x sps x level pair (a,b) x noise sigma x noise stream x KMeans seed
is executed on the real `devices.GET_EYE(x, sps_resamp=128)`; every returned field is compared
with the bands of the statement, and every case is repeated on alpha*x+beta for each (alpha,beta)
of the equivariance alphabet (SAME waveform array, SAME numpy seed) and compared with the
affine image of the base result.

Record-length classes (added after seeded wave 3): besides the 64/128-slot records the pattern alphabet holds ODD slot
counts (whole PRBS periods 127 / 511, 65 random bits), a RAGGED record (66.5 slots) and LONG records around and beyond the
default `nslots` of GET_EYE (4097, 5000, 8192 slots, a whole PRBS15 period); a further part calls GET_EYE with an explicit
even `nslots` argument (64, an intermediate value, the record length).  In every case the hypotheses (both symbols, >= 15
transitions, rare symbols) are evaluated on the slots GET_EYE analyses: the first min(nslots, even number of whole slots).

The waveform is built without the library (own LFSR for the PRBS bits, np.kron, scipy
Bessel/sosfiltfilt, a private RandomState); only GET_EYE (and gv for sps) is under test.
"""
from __future__ import annotations
import itertools
import zlib
import numpy as np
import scipy.signal as sg

from mcx.core.kernel import res
from mcx.core.env import gv_reset

ID = 'C17'
LEVEL = 'exploration'
NONTRIVIAL = ('every case has both symbols, >= 15 transitions, non-zero noise; counted are cases with DISTINCT returned '
              '(mu0,mu1,s0,s1,threshold,t_left,t_right,t_opt,i) tuples')

SPS_RESAMP = 128
STEP = 1.0 / SPS_RESAMP
R = 1e9

# last two: legal random patterns with one RARE symbol (a 16-PPM frame stream: 1 mark in 16 slots; 6 % isolated spaces)
# then the odd / ragged record lengths: a whole PRBS7 period (127 slots), 65 random bits, 66 slots + half a slot
PATTERNS = ['prbs7:64', 'prbs7:128', 'prbs9:128', 'rand0:64', 'rand1:128', 'rand2:128', 'ppm16:128', 'spaces6:128',
            'prbs7:127', 'rand3:65', 'rand4:66.5']
# expensive records (0.1 ... 0.8 s per call): a whole PRBS9 period and records around / beyond the default nslots = 4096 of
# GET_EYE (odd just above it, not a multiple of it, an exact multiple, a whole PRBS15 period); thorough adds the two
# remaining boundary lengths.  Enumerated on a deviation lattice (see enumerate_long), not in the full product.
PATTERNS_LONG = ['prbs9:511', 'rand5:4097', 'rand6:5000', 'rand7:8192', 'prbs15:32767']
PATTERNS_LONG_THOROUGH = ['rand8:4096', 'rand9:4098']
NSLOTS_DEFAULT = 4096    # default of the `nslots` argument of GET_EYE
SPS = [8, 16, 32]
# last: both levels negative
LEVELS = [(0.0, 1.0), (0.0, 1e-3), (0.0, 100.0), (5.0, 6.0), (-50.0, 50.0), (2e-4, 1.2e-3), (-3.0, -2.0)]
SIGMA_PCT = [0.5, 1.0, 2.0, 5.0]
KSEEDS = [0, 1, 2]
EQUIV = [(1e-3, 0.0), (1e3, 0.0), (1.0, 7.0), (0.02, -3.0), (50.0, 1.0)]

# bands of the statement
BAND_MU = 0.08          # |mu0-a|, |mu1-b| <= 8 % (b-a)
BAND_S_LO = 0.5         # s >= sigma/2
BAND_S_HI = (2.0, 0.03)  # s <= 2 sigma + 3 % (b-a)
BAND_TDIST = 0.10       # |t_right - t_left - 1| <= 10 %
EQ_REL = 1e-6           # equivariance of mu / s relative to alpha (b-a)   (DESIGN 5/C17)
EPS = np.finfo(float).eps


# ------------------------------------------------------------------ input alphabet
def _lfsr(order, taps, n):
    """Fibonacci LFSR x^order + x^tap + 1, all-ones start (PRBS7: x^7+x^6+1, PRBS9: x^9+x^5+1)"""
    st = [1] * order
    out = []
    for _ in range(n):
        out.append(st[0])
        fb = st[taps[0] - 1] ^ st[taps[1] - 1]
        st = [fb] + st[:-1]
    return np.array(out, dtype=np.uint8)


PRBS_TAPS = {7: (7, 6), 9: (9, 5), 15: (15, 14)}


def pattern_slots(name):
    """(number of bits generated, record length in slots (may end in .5: ragged record), even number of WHOLE slots)"""
    nf = float(name.split(':')[1])
    whole = int(np.floor(nf))
    return int(np.ceil(nf)), nf, 2 * (whole // 2)


def analysed_slots(name, nslots=None):
    """number of leading slots GET_EYE analyses: `nslots` (default 4096) or all whole slots, rounded down to even"""
    return min(pattern_slots(name)[2], NSLOTS_DEFAULT if nslots is None else int(nslots))


def admissible(bits):
    """hypotheses of the statement on the analysed slots (+ the harness' own >= 15 transitions)"""
    return bits.min() == 0 and bits.max() == 1 and int(np.count_nonzero(np.diff(bits.astype(int)))) >= 15


def _draw_bits(kind, n, seed, attempt):
    salt = 15485863 * attempt          # attempt 0 = the content used before the redraw loop existed
    if kind == 'ppm16':
        rs = np.random.RandomState((seed * 1000003 + 104729 + salt) % (2 ** 32))
        bits = np.zeros(n, dtype=np.uint8)
        for f in range(n // 16):
            bits[f * 16 + rs.randint(0, 16)] = 1
    elif kind == 'spaces6':
        rs = np.random.RandomState((seed * 1000003 + 130363 + salt) % (2 ** 32))
        bits = np.ones(n, dtype=np.uint8)
        for f in range(n // 16):                      # one isolated space per 16-slot frame, never on a frame edge
            bits[f * 16 + rs.randint(2, 14)] = 0
    else:
        k = int(kind[4:])
        bits = np.random.RandomState((seed * 1000003 + 7919 * (k + 1) + salt) % (2 ** 32)).randint(0, 2, n).astype(np.uint8)
    return bits


def pattern_bits(name, seed):
    kind = name.split(':')[0]
    n = pattern_slots(name)[0]
    if kind.startswith('prbs'):
        order = int(kind[4:])
        return _lfsr(order, PRBS_TAPS[order], n)
    # seeded members: redraw (deterministically) until the analysed slots satisfy the hypotheses; practically always attempt 0
    for attempt in range(64):
        bits = _draw_bits(kind, n, seed, attempt)
        if admissible(bits[:analysed_slots(name)]):
            return bits
    raise AssertionError(f'no admissible content for {name} seed {seed}')


def waveform01(bits, sps):
    """unit NRZ (levels 0/1), slot k = samples [k sps, (k+1) sps), 4th-order Bessel low-pass of 0.75 R, zero phase"""
    x = np.kron(bits.astype(float), np.ones(sps))
    sos = sg.bessel(N=4, Wn=0.75 * R, btype='low', fs=R * sps, output='sos', norm='mag')
    return sg.sosfiltfilt(sos, x)


def noise01(seed, pat, sps, sig_i, stream, n):
    """unit Gaussian noise from a PRIVATE stream selected by (ctx.seed, pattern, sps, sigma index, stream)"""
    h = zlib.crc32(repr((int(seed), pat, int(sps), int(sig_i), int(stream))).encode())
    return np.random.RandomState(h).standard_normal(n)


def build(case):
    seed, pat, sps, (a, b), sig_i, stream, kseed = case
    bits = pattern_bits(pat, seed)
    w = waveform01(bits, sps)
    nsamp = int(round(pattern_slots(pat)[1] * sps))     # ragged record: the last slot is cut in the middle
    assert abs(nsamp - pattern_slots(pat)[1] * sps) < 1e-9 and nsamp <= w.size
    w = w[:nsamp]
    sig = SIGMA_PCT[sig_i] / 100.0
    u = w + sig * noise01(seed, pat, sps, sig_i, stream, w.size)   # unit waveform incl. noise
    x = a + (b - a) * u
    return bits, x, sig * (b - a)


# ------------------------------------------------------------------ the call under test
FIELDS = ('mu0', 'mu1', 's0', 's1', 'threshold', 't_left', 't_right', 't_opt', 'i')


def call_eye(x, sps, kseed, nslots=None):
    from opticomlib.devices import GET_EYE
    gv_reset(sps=sps, R=R)
    np.random.seed(kseed)          # sklearn KMeans(random_state=None) draws from numpy's global RNG
    xin = np.array(x, dtype=float)
    xin.flags.writeable = False
    if nslots is None:
        e = GET_EYE(xin, sps_resamp=SPS_RESAMP)
    else:
        e = GET_EYE(xin, nslots=int(nslots), sps_resamp=SPS_RESAMP)
    return {k: getattr(e, k, None) for k in FIELDS}


def _num(v):
    """float value of a returned field (0-d / 1-element arrays accepted), None if not numeric"""
    if v is None or isinstance(v, (str, bool)):
        return None
    try:
        a = np.asarray(v, dtype=float)
    except Exception:
        return None
    if a.size != 1:
        return None
    return float(a.reshape(-1)[0])


def canon(out):
    return tuple((k, repr(_num(out[k])) if k != 'i' else repr(out[k])) for k in FIELDS)


def amp_class(pp):
    """input class for keys: decade of the peak-to-peak amplitude handed to GET_EYE"""
    return 'pp=1e%+03dV' % int(np.floor(np.log10(pp) + 1e-9))


# ------------------------------------------------------------------ oracle: bands of the statement
def check_bands(out, a, b, sigma, sps, tag, rare=()):
    d = b - a
    cls = amp_class(d)
    v = []
    val = {k: _num(out[k]) for k in FIELDS}
    ctxt = f'{tag} a={a:g} b={b:g} sigma={sigma:g}: ' + ' '.join(f'{k}={out[k]!r}' for k in FIELDS)
    bad = [k for k in FIELDS if val[k] is None or not np.isfinite(val[k])]
    if bad:
        v.append((f'eye:not-finite:{cls}', f'{bad} not finite; {ctxt}'))
    ok = lambda *ks: all(val[k] is not None and np.isfinite(val[k]) for k in ks)
    if ok('mu0') and abs(val['mu0'] - a) > BAND_MU * d:
        v.append((f'eye:mu0-band:{cls}', f'|mu0-a|={abs(val["mu0"]-a):g} > 8%(b-a)={BAND_MU*d:g}; {ctxt}'))
    if ok('mu1') and abs(val['mu1'] - b) > BAND_MU * d:
        v.append((f'eye:mu1-band:{cls}', f'|mu1-b|={abs(val["mu1"]-b):g} > 8%(b-a)={BAND_MU*d:g}; {ctxt}'))
    for s in ('s0', 's1'):
        # The spread of a symbol that occupies fewer than 24 slots is estimated from fewer than 24 independent samples: its
        # sample standard deviation scatters by ~1/sqrt(2(n-1)) > 15 % and leaves the sigma/2 band by chance (measured 0.0096
        # vs 0.01 on a correct tree), so the spread clause is only asserted for symbols with at least 24 slots.
        if ok(s) and s not in rare:
            lo, hi = BAND_S_LO * sigma, BAND_S_HI[0] * sigma + BAND_S_HI[1] * d
            if val[s] < lo:
                v.append((f'eye:{s}-low:{cls}', f'{s}={val[s]:g} < sigma/2={lo:g}; {ctxt}'))
            if val[s] > hi:
                v.append((f'eye:{s}-high:{cls}', f'{s}={val[s]:g} > 2sigma+3%(b-a)={hi:g}; {ctxt}'))
    if ok('mu0', 'mu1', 'threshold') and not (val['mu0'] < val['threshold'] < val['mu1']):
        v.append((f'eye:threshold-order:{cls}', f'not mu0 < threshold < mu1; {ctxt}'))
    if ok('t_left', 't_right'):
        td = val['t_right'] - val['t_left']
        if abs(td - 1.0) > BAND_TDIST + 1e-12:
            v.append((f'eye:crossings-not-one-slot-apart:{cls}', f't_right-t_left={td:g}; {ctxt}'))
        if ok('t_opt') and abs(val['t_opt'] - 0.5 * (val['t_left'] + val['t_right'])) > STEP + 1e-12:
            v.append((f'eye:t_opt-not-midway:{cls}',
                      f't_opt={val["t_opt"]:g} mid={(val["t_left"]+val["t_right"])/2:g}; {ctxt}'))
    i = out['i']
    if isinstance(i, bool) or not isinstance(i, (int, np.integer)):
        v.append((f'eye:i-not-int:{cls}', f'i={i!r} ({type(i).__name__}); {ctxt}'))
    elif not (0 <= int(i) < sps):
        v.append((f'eye:i-out-of-range:{cls}', f'i={i!r} not in [0,{sps}); {ctxt}'))
    return v


# ------------------------------------------------------------------ oracle: unit equivariance
def check_equiv(base, out, alpha, beta, d, xmax, tag):
    """base: result on x, out: result on alpha x + beta; d = b-a of x; xmax = max|x|"""
    v = []
    pair = f'alpha={alpha:g},beta={beta:g}'
    # input class of the key: decade of the eye height before -> after the unit change (+ the offset when there is one)
    cls = amp_class(d) + '->' + amp_class(alpha * d)[3:] + (f',beta={beta:g}' if beta else '')
    # tolerance: the design's 1e-6 relative to the scaled eye height, plus the rounding floor of forming alpha x + beta
    tol = EQ_REL * alpha * d + 64 * EPS * (abs(beta) + alpha * xmax)
    B = {k: _num(base[k]) for k in FIELDS}
    O = {k: _num(out[k]) for k in FIELDS}

    def both(k):
        return B[k] is not None and O[k] is not None and np.isfinite(B[k]) and np.isfinite(O[k])

    def same_kind(k):   # None/nan on both sides is "unchanged" for the equivariance clause (finiteness is a band clause)
        nb = B[k] is None or not np.isfinite(B[k])
        no = O[k] is None or not np.isfinite(O[k])
        return nb == no

    msg = lambda k: f'{tag} {pair}: {k} base={base[k]!r} scaled={out[k]!r}'
    for k in ('mu0', 'mu1'):      # (the statement lists mu0, mu1, s0, s1 and the timing outputs; threshold is not compared)
        if not same_kind(k):
            v.append((f'equiv:levels:{cls}', msg(k) + ' (finite on one side only)'))
        elif both(k) and abs(O[k] - (alpha * B[k] + beta)) > tol:
            v.append((f'equiv:levels:{cls}', msg(k) + f' expected {alpha*B[k]+beta!r} tol {tol:g}'))
    for k in ('s0', 's1'):
        if not same_kind(k):
            v.append((f'equiv:levels:{cls}', msg(k) + ' (finite on one side only)'))
        elif both(k) and abs(O[k] - alpha * B[k]) > tol:
            v.append((f'equiv:levels:{cls}', msg(k) + f' expected {alpha*B[k]!r} tol {tol:g}'))
    for k in ('t_left', 't_right', 't_opt'):
        if not same_kind(k):
            v.append((f'equiv:timing:{cls}', msg(k) + ' (finite on one side only)'))
        elif both(k) and abs(O[k] - B[k]) > STEP + 1e-12:
            v.append((f'equiv:timing:{cls}', msg(k) + f' differ by more than one resampled step {STEP:g}'))
    ib, io = base['i'], out['i']
    if isinstance(ib, (int, np.integer)) and isinstance(io, (int, np.integer)):
        if int(ib) != int(io):
            v.append((f'equiv:timing:{cls}', msg('i')))
    elif repr(ib) != repr(io):
        v.append((f'equiv:timing:{cls}', msg('i')))
    # dedupe keys inside one case (first message kept)
    seen, outv = set(), []
    for k, m in v:
        if k not in seen:
            seen.add(k)
            outv.append((k, m))
    return outv


# ------------------------------------------------------------------ case function
def eye_case(case):
    """case = (seed, pattern, sps, (a,b), sigma index, noise stream, kmeans seed, equiv pair indices[, nslots argument])"""
    seed, pat, sps, (a, b), sig_i, stream, kseed, eq = case[:8]
    nslots = case[8] if len(case) > 8 else None
    bits, x, sigma = build(case[:7])
    used = bits[:analysed_slots(pat, nslots)]            # the slots GET_EYE analyses
    assert used.size >= 64 and used.size % 2 == 0 and admissible(used), 'pattern alphabet member is degenerate'
    tag = f'{pat} sps={sps} kseed={kseed} stream={stream}' + ('' if nslots is None else f' nslots={nslots}')
    base = call_eye(x, sps, kseed, nslots)
    n1 = int(used.sum()); n0 = int(used.size - n1)
    rare = tuple(s for s, n in (('s0', n0), ('s1', n1)) if n < 24)
    viol = check_bands(base, a, b, sigma, sps, tag, rare)
    obs = [canon(base)]
    ncalls = 1
    xmax = float(np.max(np.abs(x)))
    for j in eq:
        alpha, beta = EQUIV[j]
        out = call_eye(alpha * x + beta, sps, kseed, nslots)
        ncalls += 1
        viol += check_equiv(base, out, alpha, beta, b - a, xmax, tag + f' a={a:g} b={b:g} sigma={sigma:g}')
        obs.append(canon(out))
    # one message per key per case
    seen, vv = set(), []
    for k, m in viol:
        if k not in seen:
            seen.add(k)
            vv.append((k, m))
    return res(viol=vv, obs=tuple(obs), nontrivial=True,
               stats={'GET_EYE_calls': ncalls, 'equiv_pairs': len(eq), 'band_cases': 1})


def selftest_case(case):
    """harness self-checks: PRBS bits equal an independent LFSR; the oracle rejects hand-made wrong results"""
    for order in (7, 9, 15):  # the LFSR is maximal length: period 2^order - 1, 2^(order-1) ones per period
        seq = _lfsr(order, PRBS_TAPS[order], 2 * (2 ** order - 1))
        per = 2 ** order - 1
        assert np.array_equal(seq[:per], seq[per:]) and int(seq[:per].sum()) == 2 ** (order - 1)
        if order < 15:
            assert all(not np.array_equal(seq[:per], np.roll(seq[:per], k)) for k in range(1, per))
        else:                 # every non-zero 15-bit window occurs exactly once per period <=> the period is not shorter
            win = np.convolve(np.concatenate([seq[:per], seq[:14]]).astype(np.int64), 2 ** np.arange(15), 'valid')
            assert win.size == per and np.unique(win).size == per and win.min() >= 1
    # record-length bookkeeping: (bits generated, slots, even whole slots) and the slots GET_EYE analyses
    assert pattern_slots('prbs7:127') == (127, 127.0, 126) and pattern_slots('rand4:66.5') == (67, 66.5, 66)
    assert pattern_slots('rand3:65')[2] == 64 and pattern_slots('rand6:5000')[2] == 5000
    assert analysed_slots('rand6:5000') == 4096 and analysed_slots('rand5:4097') == 4096 and analysed_slots('prbs9:511') == 510
    assert analysed_slots('rand6:5000', 64) == 64 and analysed_slots('rand1:128', 96) == 96 and analysed_slots('prbs7:127', 4096) == 126
    assert nslots_values('rand1:128', False) == [64, 96, 128] and nslots_values('rand3:65', False) == [64]
    assert nslots_values('prbs7:127', False) == [64, 94, 126] and nslots_values('rand6:5000', False) == [64, 2080]
    assert nslots_values('rand6:5000', True) == [64, 2080, 5000] and nslots_values('prbs15:32767', True) == [64, 2080]
    for pat in PATTERNS + PATTERNS_LONG + PATTERNS_LONG_THOROUGH:
        assert pattern_slots(pat)[2] >= 64
        if pattern_slots(pat)[1] < 600:     # sample count of the record handed to GET_EYE (ragged: 66.5 slots)
            assert build((0, pat, 8, (0.0, 1.0), 0, 0, 0))[1].size == int(round(pattern_slots(pat)[1] * 8))
    good = dict(mu0=0.01, mu1=0.99, s0=0.012, s1=0.012, threshold=0.5, t_left=-0.5, t_right=0.5, t_opt=0.0, i=4)
    assert check_bands(good, 0.0, 1.0, 0.01, 8, 'self') == []
    bads = [dict(good, mu0=0.09), dict(good, mu1=0.9), dict(good, s0=0.004), dict(good, s1=0.06),
            dict(good, threshold=1.0), dict(good, threshold=None), dict(good, t_right=0.39), dict(good, t_opt=0.01),
            dict(good, i=8), dict(good, i=4.0), dict(good, mu0=float('nan'))]
    for bd in bads:
        assert check_bands(bd, 0.0, 1.0, 0.01, 8, 'self'), f'oracle accepted {bd}'
    sc = dict(good, mu0=0.01 * 50 + 1, mu1=0.99 * 50 + 1, s0=0.6, s1=0.6, threshold=26.0)
    assert check_equiv(good, sc, 50.0, 1.0, 1.0, 1.05, 'self') == []
    for bd in (dict(sc, mu0=1.5001), dict(sc, s1=0.6001), dict(sc, t_left=-0.48), dict(sc, i=3)):
        assert check_equiv(good, bd, 50.0, 1.0, 1.0, 1.05, 'self'), f'equivariance oracle accepted {bd}'
    return res(obs='selftest-ok', stats={'selftests': 1})


# ------------------------------------------------------------------ enumeration
def _deviations(axes, kmax):
    """index vectors that differ from the all-zero (simplest) vector in <= kmax coordinates, ordered by #deviations"""
    out = []
    n = len(axes)
    for k in range(kmax + 1):
        for pos in itertools.combinations(range(n), k):
            for vals in itertools.product(*[range(1, axes[p]) for p in pos]):
                v = [0] * n
                for p, x in zip(pos, vals):
                    v[p] = x
                out.append(tuple(v))
    return out


def enumerate_cases(ctx):
    streams = [0] if ctx.quick else [0, 1, 2, 3]
    eq_all = tuple(range(len(EQUIV)))
    cases = []
    full = itertools.product(range(len(PATTERNS)), range(len(SPS)), range(len(SIGMA_PCT)), range(len(KSEEDS)))
    full = sorted(full, key=lambda v: (sum(1 for x in v if x), v))      # simplest (fewest deviations) first
    dev2 = _deviations([len(PATTERNS), len(SPS), len(SIGMA_PCT), len(KSEEDS)], 2)
    n_full = n_dev = 0
    for stream in streams:
        for (a, b) in LEVELS:
            small = (b - a) <= 1.0 and a >= 0.0
            idx = full if (small or not ctx.quick) else dev2
            for (p, s, g, k) in idx:
                cases.append((ctx.seed, PATTERNS[p], SPS[s], (a, b), g, stream, KSEEDS[k], eq_all))
            if small or not ctx.quick:
                n_full += len(idx)
            else:
                n_dev += len(idx)
    return cases, n_full, n_dev


EQ_FEW = (0, 2)      # one pure scaling (alpha = 1e-3) and one pure offset (beta = 7) for the expensive / additional parts


def _lattice(ctx):
    """(sps, level pair, sigma, KMeans seed) index vectors within <= 1 (quick) / <= 2 (thorough) deviations of the simplest"""
    return _deviations([len(SPS), len(LEVELS), len(SIGMA_PCT), len(KSEEDS)], 1 if ctx.quick else 2)


def enumerate_long(ctx):
    """expensive records (default nslots): deviation lattice, simplest vector first, all patterns per vector"""
    pats = PATTERNS_LONG + ([] if ctx.quick else PATTERNS_LONG_THOROUGH)
    eq_all = tuple(range(len(EQUIV)))
    cases = []
    for v in _lattice(ctx):
        s, l, g, k = v
        for pat in pats:
            cases.append((ctx.seed, pat, SPS[s], LEVELS[l], g, 0, KSEEDS[k], eq_all if not any(v) else EQ_FEW))
    return cases


def nslots_values(pat, thorough):
    """explicit even `nslots` arguments for a record of L whole slots: the smallest quantified record (64), an intermediate
    value (even midpoint of 64 and min(L, 4096)), and L itself unless that is expensive (quick: L <= 512, thorough: L <= 8192)"""
    L = pattern_slots(pat)[2]
    vals = [64, 2 * ((64 + min(L, NSLOTS_DEFAULT)) // 4)]
    if L <= (8192 if thorough else 512):
        vals.append(L)
    return sorted(set(vals))


def enumerate_nslots(ctx):
    """explicit `nslots` argument: every pattern x nslots_values x deviation lattice; combinations whose analysed prefix
    does not satisfy the hypotheses (one symbol only / < 15 transitions: the rare-symbol patterns cut to 64 slots) are skipped"""
    pats = PATTERNS + PATTERNS_LONG + ([] if ctx.quick else PATTERNS_LONG_THOROUGH)
    eq_all = tuple(range(len(EQUIV)))
    combos, skipped = [], []
    for pat in pats:
        bits = pattern_bits(pat, ctx.seed)
        for ns in nslots_values(pat, not ctx.quick):
            (combos if admissible(bits[:analysed_slots(pat, ns)]) else skipped).append((pat, ns))
    cases = []
    lat1 = set(_deviations([len(SPS), len(LEVELS), len(SIGMA_PCT), len(KSEEDS)], 1))
    for v in _lattice(ctx):
        s, l, g, k = v
        for pat, ns in combos:
            if analysed_slots(pat, ns) > 512 and v not in lat1:     # expensive calls: <= 1 deviation in both tiers
                continue
            cases.append((ctx.seed, pat, SPS[s], LEVELS[l], g, 0, KSEEDS[k], eq_all if not any(v) else EQ_FEW, ns))
    return cases, combos, skipped


# minimal inputs of the two confirmed defects (fixed content: harness seed 0), executed in both tiers
REGRESS = [
    # proposed_fixes/C17_1: crossing KMeans on raw (t, volts): t_left == t_right, nan levels for b-a = 100 V
    (0, 'prbs7:64', 8, (0.0, 100.0), 0, 0, 0, (0, 1, 2, 3, 4)),
    # proposed_fixes/C17_2: absolute 1e-10 tie tolerance of shortest_int: 1 mV eye scaled by 1e-3 moves t_opt / mu0
    (0, 'rand1:128', 8, (0.0, 1e-3), 3, 2, 0, (0,)),
]


def run(ctx):
    ctx.rule('C17: full product bit pattern {PRBS7[:64],PRBS7[:128],PRBS9[:128],3 seeded random, 16-PPM, 6 % spaces, whole PRBS7 '
             'period (127 slots), 65 random bits, 66.5 random slots} x sps {8,16,32} x level pair (a,b) in {(0,1),(0,1e-3),(0,100),'
             '(5,6),(-50,50),(2e-4,1.2e-3),(-3,-2)} x sigma {0.5,1,2,5}% of b-a x KMeans seed {0,1,2} (x 4 private noise streams in '
             'the thorough tier); quick tier: full product for the level pairs with b-a <= 1 V and a >= 0, all vectors deviating '
             'in <= 2 coordinates from the simplest one for the other pairs; each case is executed on x and on alpha x + beta for '
             'all 5 (alpha,beta) pairs (same array, same numpy seed) = 6 GET_EYE(x, sps_resamp=128) calls; oracles: the bands of '
             'the statement and the affine image of the base result')
    ctx.rule('part eye-long: expensive records {whole PRBS9 period 511, 4097, 5000, 8192 random slots, whole PRBS15 period 32767; '
             'thorough also 4096, 4098} x all (sps, level pair, sigma, KMeans seed) vectors within <= 1 (quick) / <= 2 (thorough) '
             'deviations of the simplest one; all 5 unit changes on the simplest vector, (1e-3,0) and (1,7) on the others')
    ctx.rule('part eye-nslots: GET_EYE(x, nslots=n, sps_resamp=128) for every pattern of both alphabets x n in {64, even midpoint of 64 '
             'and min(L,4096), L (quick: L <= 512, thorough: L <= 8192)} (L = even number of whole slots of the record) x the same '
             'deviation lattice and unit changes as eye-long; hypotheses / rare symbols evaluated on the first n slots')
    ctx.assume('numpy.random.seed(k) fixes every draw of sklearn KMeans (random_state=None uses the global RNG); '
               'workers are single-threaded so KMeans is deterministic')
    ctx.assume('scipy.signal.bessel/sosfiltfilt (the mild band-limit of the harness waveform) and RandomState are correct')
    ctx.assume('the accuracy bands are asserted on the enumerated waveforms / seeds only (statement: fixed numpy seeds)')
    ctx.run_case('selftest', selftest_case, ('selftest',))
    for c in REGRESS:
        ctx.run_case('regress', eye_case, c)
    cases, n_full, n_dev = enumerate_cases(ctx)
    ctx.space('axes.pattern', len(PATTERNS), quiet=True)
    ctx.space('axes.sps', len(SPS), quiet=True)
    ctx.space('axes.levels', len(LEVELS), quiet=True)
    ctx.space('axes.sigma', len(SIGMA_PCT), quiet=True)
    ctx.space('axes.kmeans_seed', len(KSEEDS), quiet=True)
    ctx.space('axes.equiv_pairs', len(EQUIV), quiet=True)
    ctx.space('cases.full_product', n_full)
    ctx.space('cases.deviation<=2', n_dev)
    ctx.space('axes.pattern_long', len(PATTERNS_LONG) + (0 if ctx.quick else len(PATTERNS_LONG_THOROUGH)), quiet=True)
    ctx.pmap('eye', eye_case, cases, horizon=60, chunk=4)
    ncases, combos, skipped = enumerate_nslots(ctx)
    ctx.space('nslots.pattern_x_nslots', len(combos))
    ctx.space('nslots.skipped_inadmissible_prefix', len(skipped))
    ctx.extra['nslots_skipped'] = [f'{p}/nslots={n}' for p, n in skipped]
    ctx.pmap('eye-nslots', eye_case, ncases, horizon=120, chunk=2)
    # one long case = 3 ... 6 calls of 0.6 s (idle); generous horizon because the machine is shared; recheck 2 (re-runs are serial)
    ctx.pmap('eye-long', eye_case, enumerate_long(ctx), horizon=600, chunk=1, recheck=2)
    ctx.extra['get_eye_calls'] = ctx.stats.get('GET_EYE_calls', 0)
