"""C08 - nonlinear FIBER: returns a finite field, energy law, SPM closed form, convergence to the
scalar NLSE (first order in phi_max), 1-pol == x-row of 2-pol with empty y.

Bounded-exhaustive exploration of a deviation lattice (every point that differs from the baseline
in at most k of 10 coordinates) over input fields x fibre parameters x polarisation layouts; every
case runs the REAL `opticomlib.devices.FIBER` and is compared with conservation laws, closed forms
and an independent Strang/Richardson NLSE solver (c08_ref.py).  See DESIGN.md 5/C08, notes/C08.md.
"""
from __future__ import annotations
import hashlib
import itertools
import math
import signal
import numpy as np

from mcx.core.kernel import res
from mcx.core.env import gv_reset
from mcx.props import c08_ref as R

ID = 'C08'
LEVEL = 'exploration'
NONTRIVIAL = ('the FIBER run of the case took more than one adaptive split step (counted at the ifft seam); '
              'distinct non-trivial cases are counted by the digest of the returned field')

# ----------------------------------------------------------------------------- alphabet
AXES = [  # (name, values) - baseline first
    ('kind',   ['gauss', 'nrz', 'rand', 'cw', 'lead0']),
    ('N',      [64, 128, 256, 65]),      # 65: odd length (fftshift and ifftshift differ)
    ('P',      [0.1, 1e-3, 0.5, 1e-9]),      # peak power per polarisation row [W]; 1e-9 W (-60 dBm): the first step of a
                                             # naive phi_max/(gamma*P) rule is 1e7 km, exp(-alpha*h/2) underflows
    ('L',      [20.0, 1.0, 100.0]),          # km
    ('alpha',  [0.0, 0.2, 0.5]),             # dB/km
    ('b2',     [-20.0, 0.0, 25.0, -5.0]),    # ps^2/km
    ('b3',     [0.0, 0.2, -0.2]),            # ps^3/km
    ('gamma',  [1.3, 0.0, 5.0]),             # 1/W/km
    ('phi',    [0.05, 0.1, 0.01, 5e-4]),     # rad
    ('layout', ['1pol', '2pol-eq', '2pol-y0']),
]
NAMES = [a for a, _ in AXES]
LADDER = (0.1, 0.05, 0.01, 0.002)
PHI_NL_MAX = 10.0                            # rad, constraint gamma*P*L <= 10
K_BOUND = 25.0                               # DESIGN 5/C08 (calibrated: worst observed constant 22 at 10 rad)
FLOOR = 1e-6                                 # reference accuracy (1e-7 self-convergence) x10
MONO_MAX = 0.25                              # the ladder must be non-increasing once the error is below 25 %: above that
                                             # the numerical solution has decorrelated from the true one (saturated error,
                                             # focusing/MI regime at 10 rad) and "smaller step => smaller error" is not implied
E_TOL = 3e-4                                 # energy law: alpha/4.343 vs ln(10)/10 is 1.5e-4 at 50 dB
A_CONST = 3e-4                               # same constant ambiguity seen through amplitude+phase of the field
FFT_BUDGET = 100_000                         # calls of devices.fft+ifft per FIBER call (DESIGN 5/C08 B)
CPU_HORIZON = 30.0                           # seconds of CPU time per FIBER call (DESIGN 5/C08 B: horizon 30 s)
WALL_HORIZON = 300.0                         # kernel back-stop per case (wall clock; the machine is shared)
DB1, DB2 = 1 / 4.343, math.log(10) / 10      # the two admissible dB -> 1/km constants


def lattice(k):
    """all points differing from the baseline in <= k coordinates, simplest first"""
    base = tuple(v[0] for _, v in AXES)
    out = []
    for d in range(k + 1):
        for axes in itertools.combinations(range(len(AXES)), d):
            for vals in itertools.product(*[AXES[i][1][1:] for i in axes]):
                p = list(base)
                for i, v in zip(axes, vals):
                    p[i] = v
                out.append(tuple(p))
    return out


def admissible(p):
    c = dict(zip(NAMES, p))
    return c['gamma'] * c['P'] * c['L'] <= PHI_NL_MAX * (1 + 1e-12)


# ----------------------------------------------------------------------------- seam: FFT budget + CPU horizon
class FFTBudget(Exception):
    pass


class CpuHorizon(Exception):
    pass


def _vt_alarm(signum, frame):
    raise CpuHorizon()


def run_fiber(sig, budget, **kw):
    """FIBER under (a) a budget of fft/ifft calls (deterministic) and (b) a horizon of CPU_HORIZON seconds of
    *CPU time of this process* (ITIMER_VIRTUAL: independent of the load other processes put on the machine).
    returns (output | None, n_fft, n_ifft, reason)"""
    import opticomlib.devices as dv
    cnt = [0, 0]
    of, oi = dv.fft, dv.ifft

    def cf(*a, **k):
        cnt[0] += 1
        if cnt[0] + cnt[1] > budget:
            raise FFTBudget()
        return of(*a, **k)

    def ci(*a, **k):
        cnt[1] += 1
        if cnt[0] + cnt[1] > budget:
            raise FFTBudget()
        return oi(*a, **k)
    reason = None
    old = signal.signal(signal.SIGVTALRM, _vt_alarm)
    dv.fft, dv.ifft = cf, ci
    try:
        signal.setitimer(signal.ITIMER_VIRTUAL, CPU_HORIZON)
        out = dv.FIBER(sig, **kw)
        signal.setitimer(signal.ITIMER_VIRTUAL, 0)
    except FFTBudget:
        out, reason = None, f'{budget} fft/ifft calls'
    except CpuHorizon:
        out, reason = None, f'{CPU_HORIZON:g} s of CPU time'
    finally:
        signal.setitimer(signal.ITIMER_VIRTUAL, 0)
        dv.fft, dv.ifft = of, oi
        signal.signal(signal.SIGVTALRM, old)
    return out, cnt[0], cnt[1], reason


def build(x, layout):
    from opticomlib.typing import optical_signal
    if layout == '1pol':
        return optical_signal(x.copy())
    if layout == '2pol-eq':
        return optical_signal(np.array([x, x]))
    return optical_signal(np.array([x, np.zeros_like(x)]))


def rows_of(a):
    a = np.asarray(a)
    return [a] if a.ndim == 1 else [a[0], a[1]]


def relerr(a, b):
    nb = float(np.linalg.norm(b))
    return float(np.linalg.norm(a - b)) / nb if nb > 0 else float(np.linalg.norm(a))


def sha(a):
    return hashlib.sha1(np.ascontiguousarray(a).tobytes()).hexdigest()[:16]


# ----------------------------------------------------------------------------- the case
def case_fn(case):
    c = dict(zip(NAMES + ['seed'], case))
    kind, N, P, L, alpha, b2, b3, g, phi, layout = [c[n] for n in NAMES]
    gv = gv_reset(sps=R.SPS, R=R.FS / R.SPS)
    assert gv.fs == R.FS
    x = R.make_field(kind, N, P, c['seed'])
    assert x.shape == (N,) and abs(np.max(np.abs(x) ** 2) / P - 1) < 1e-12
    lead0 = bool(x[0] == 0 and x[1] == 0)
    cls = 'first-two-samples-zero' if lead0 else kind
    disp = not (b2 == 0 and b3 == 0)
    viol, stats, obs = [], {'fiber_calls': 0, 'split_steps': 0, 'ref_steps': 0}, []

    # ---- reference for the x row (shared by every rung and by both layouts of the pair check)
    a1 = alpha * DB1
    ref, info = R.nlse_ref(x, L, a1, b2, b3, g)
    if not info['conv']:
        raise AssertionError(f'reference solver did not self-converge: {info}')
    stats['ref_steps'] = info['n']
    Leff = L if alpha == 0 else -math.expm1(-a1 * L) / a1
    phi_nl = g * P * Leff
    extra = A_CONST if alpha > 0 else 0.0

    def budget_for(ph, lay):
        # steps a correct implementation needs: gamma * int(max_t total power) dz / phi_max (+ tail);
        # x4 head-room; never below the DESIGN budget
        tot = 2.0 if lay == '2pol-eq' else 1.0
        est = g * tot * info['pint'] / ph + 2
        return int(max(FFT_BUDGET, 8 * est + 100))

    hung = set()

    def call(ph, lay):
        sig = build(x, lay)
        if lay in hung:          # one non-terminating run per layout is reported; further rungs are skipped
            return None, sig, 0
        out, nf, ni, why = run_fiber(sig, budget_for(ph, lay), length=L, alpha=alpha, beta_2=b2, beta_3=b3,
                                     gamma=g, phi_max=ph)
        stats['fiber_calls'] += 1
        stats['split_steps'] += ni
        if out is None:
            viol.append((f'returns:nontermination:{lay}:{cls}',
                         f'FIBER did not return within {why} '
                         f'(phi_max={ph}, a correct run needs about {2 * (g * info["pint"] / ph + 2):.0f})'))
            obs.append(('NONTERM', lay, ph))
            hung.add(lay)
            return None, sig, ni
        o = out.signal
        obs.append((lay, ph, sha(o), ni))
        return o, sig, ni

    def basic(o, sig, lay, ph):
        """oracles (1) and (2); returns False when the field is unusable"""
        s = sig.signal
        if not isinstance(o, np.ndarray) or o.shape != s.shape:
            viol.append((f'shape:{lay}', f'output shape {getattr(o, "shape", None)} != input shape {s.shape}'))
            return False
        if not np.all(np.isfinite(o)):
            viol.append((f'finite:{lay}:{cls}', f'{int(np.sum(~np.isfinite(o)))} non-finite output samples (phi_max={ph})'))
            return False
        want = 10 ** (-alpha * L / 10)
        for r, (orow, irow) in enumerate(zip(rows_of(o), rows_of(s))):
            ein, eout = float(np.sum(np.abs(irow) ** 2)), float(np.sum(np.abs(orow) ** 2))
            if ein == 0:
                if eout != 0:
                    viol.append((f'energy:{lay}:empty-row-not-empty', f'row {r}: input empty, output energy {eout:.3e}'))
            elif abs(eout / (ein * want) - 1) > E_TOL:
                viol.append((f'energy:{lay}:{"loss" if alpha > 0 else "lossless"}',
                             f'row {r}: E_out/E_in = {eout / ein:.6e}, law 10^(-alpha L/10) = {want:.6e}, '
                             f'ratio-1 = {eout / (ein * want) - 1:+.2e} (phi_max={ph})'))
        return True

    def err_vs_ref(o, sig):
        e = 0.0
        for orow, irow in zip(rows_of(o), rows_of(sig.signal)):
            if np.any(irow):
                e = max(e, relerr(orow, ref))
        return e

    def bound(ph):
        # gamma == 0: the splitting error is a commutator with the nonlinear operator and vanishes identically, every
        # split-step scheme is then exact up to FFT rounding (<= 1e5 steps * eps * log N << FLOOR)
        if g == 0:
            return FLOOR + extra
        return K_BOUND * ph * max(phi_nl, 0.1) + FLOOR + extra

    ratios = [0.0]

    # ---- main run at the case's phi_max
    o, sig, steps = call(phi, layout)
    usable = o is not None and basic(o, sig, layout, phi)
    e_main = None
    if usable:
        if not disp:
            # oracle (3): closed form, either dB constant
            es = []
            for a in (a1, alpha * DB2):
                Le = L if alpha == 0 else -math.expm1(-a * L) / a
                cf = x * np.exp(-a * L / 2 + 1j * g * np.abs(x) ** 2 * Le)
                es.append(max(relerr(orow, cf) for orow, irow in zip(rows_of(o), rows_of(sig.signal)) if np.any(irow)))
            e3 = min(es)
            obs.append(('spm', round(e3, 12)))
            # alpha == 0: |A| is constant along z, so ANY split-step scheme accumulates exactly gamma*|in|^2*L
            # (rounding only); with loss a stepping scheme may be first order in phi_max
            tol3 = 1e-9 if alpha == 0 else phi + 1e-9
            if e3 > tol3:
                viol.append((f'spm-closed-form:{"loss" if alpha > 0 else "lossless"}:{"kerr" if g > 0 else "gamma0"}',
                             f'beta2=beta3=0: relative distance to in*exp(-a L/2)*exp(j g |in|^2 L_eff) is {e3:.3e} '
                             f'> {"1e-9" if alpha == 0 else "phi_max+1e-9"} = {tol3:.3e} (gamma*P*L_eff = {phi_nl:.3f} rad, alpha*L = {alpha * L:.1f} dB)'))
        else:
            e_main = err_vs_ref(o, sig)
            ratios.append(e_main / bound(phi))
            if e_main > bound(phi):
                viol.append((f'nlse-bound:{layout}' + (':gamma0' if g == 0 else ''),
                             f'relative L2 error vs reference NLSE solution {e_main:.3e} > ' + ('floor = ' if g == 0 else 'K*phi_max*max(Phi_NL,0.1)+floor = ') +
                             f'{bound(phi):.3e} (phi_max={phi}, Phi_NL={phi_nl:.3f} rad, split steps={steps})'))

    # ---- oracle (5): 1-pol run == x row of the 2-pol run with empty y
    if layout in ('1pol', '2pol-y0'):
        other = '2pol-y0' if layout == '1pol' else '1pol'
        o2, sig2, _ = call(phi, other)
        ok2 = o2 is not None and basic(o2, sig2, other, phi)
        if usable and ok2:
            a, b = (o, o2[0]) if layout == '1pol' else (o2, o[0])
            d = relerr(a, b)
            if d > 1e-12:
                viol.append(('pol-equivalence:1pol-vs-empty-y',
                             f'1-pol output differs from the x row of the 2-pol run with empty y by {d:.3e} relative (> 1e-12)'))

    # ---- oracle (4): ladder (run where phi_max is at its baseline; other phi_max values are single rungs above)
    if disp and g != 0 and phi == AXES[8][1][0]:
        es = []
        for ph in LADDER:
            if ph == phi:
                oo, ss, st = o, sig, steps
                okk = usable
            else:
                oo, ss, st = call(ph, layout)
                okk = oo is not None and basic(oo, ss, layout, ph)
            if not okk:
                es.append(None)
                continue
            e = e_main if ph == phi else err_vs_ref(oo, ss)
            es.append(e)
            ratios.append(e / bound(ph))
            if ph != phi and e > bound(ph):
                viol.append((f'nlse-bound:{layout}',
                             f'relative L2 error vs reference NLSE solution {e:.3e} > K*phi_max*max(Phi_NL,0.1)+floor = '
                             f'{bound(ph):.3e} (phi_max={ph}, Phi_NL={phi_nl:.3f} rad, split steps={st})'))
        for (p0, e0), (p1, e1) in zip(zip(LADDER, es), list(zip(LADDER, es))[1:]):
            if e0 is not None and e1 is not None and e0 <= MONO_MAX and e1 > 1.05 * e0 + FLOOR:
                viol.append((f'nlse-monotone:{layout}',
                             f'error grows down the ladder: e({p0})={e0:.3e} -> e({p1})={e1:.3e}'))
        obs.append(('ladder', tuple(None if e is None else float(f'{e:.3e}') for e in es)))
        stats['ladders'] = 1

    return res(viol=viol, obs=tuple(obs), nontrivial=bool(steps > 1), stats=stats,
               payload={'steps': steps, 'rmax': max(ratios)})


# ----------------------------------------------------------------------------- reference self-check
def ref_selfcheck(case):
    """the Strang/Richardson reference against (a) an unrelated integrator (DOP853, interaction picture)
    and (b) the analytic fundamental soliton.  A disagreement is a HARNESS error, not a finding."""
    tag = case[0]
    if tag == 'soliton':
        N = 256
        t = (np.arange(N) - N / 2) * 1e12 / R.FS
        T0, b2, g, L = 40.0, 25.0, 1.3, 100.0
        P0 = b2 / (g * T0 ** 2)
        x = (np.sqrt(P0) / np.cosh(t / T0)).astype(complex)
        r, info = R.nlse_ref(x, L, 0.0, b2, 0.0, g)
        e = relerr(r, x * np.exp(0.5j * g * P0 * L))
        assert info['conv'] and e < 1e-7, ('soliton', e, info)
        return res(obs=('soliton', sha(r)), nontrivial='soliton')
    _, kind, N, P, L, alpha, b2, b3, g, seed = case
    x = R.make_field(kind, N, P, seed)
    r, info = R.nlse_ref(x, L, alpha * DB1, b2, b3, g)
    d = R.nlse_ref_dop853(x, L, alpha * DB1, b2, b3, g)
    e = relerr(r, d)
    assert info['conv'] and e < 1e-7, (case, e, info)
    return res(obs=(case, sha(r)), nontrivial=case[:-1])


# ----------------------------------------------------------------------------- driver
def run(ctx):
    k = 3 if ctx.quick else 4
    pts = lattice(k)
    adm = [p for p in pts if admissible(p)]
    ctx.space('lattice-points(all)', len(pts))
    ctx.space('lattice-points(excluded: gamma*P*L > 10 rad)', len(pts) - len(adm))
    ctx.rule(f'deviation lattice: every point differing from the baseline {dict(zip(NAMES, pts[0]))} in <= {k} of the '
             f'10 coordinates {dict(AXES)} subject to gamma*P*L <= 10 rad, enumerated completely, fewest deviations first; '
             f'grid fs = 160 GHz; per case: FIBER at the case phi_max (oracles 1,2,3 / single-rung 4), the partner layout '
             f'for 1pol/2pol-y0 (oracle 5), and where phi_max is at baseline the ladder {LADDER} against the reference '
             f'(oracle 4: bound K={K_BOUND:g}, monotone x1.05 once the error is <= {MONO_MAX})')
    ctx.assume('numpy.fft is correct; the reference NLSE solver (Strang splitting + Richardson, self-converged to 1e-7) is '
               'trusted after its self-check against DOP853 in the interaction picture and the analytic soliton; '
               'the constant K=25 of the first-order bound is a calibration (DESIGN 5/C08), the statement only says "a constant"')
    ctx.assume('VERIF_SEED only selects the content of the seeded random field')
    sc = [('soliton',)] + [('dop',) + t + (ctx.seed,) for t in [
        ('gauss', 64, 0.1, 20.0, 0.0, -20.0, 0.0, 1.3), ('rand', 256, 0.1, 20.0, 0.2, 25.0, 0.2, 5.0),
        ('nrz', 128, 0.5, 20.0, 0.5, -20.0, -0.2, 1.0), ('lead0', 256, 0.02, 100.0, 0.0, 25.0, 0.2, 5.0),
        ('rand', 128, 0.1, 100.0, 0.0, -5.0, -0.2, 1.0)]]
    ctx.pmap('ref-selfcheck', ref_selfcheck, sc, horizon=WALL_HORIZON, recheck=0)
    cases = [p + (ctx.seed,) for p in adm]
    # expensive cases are spread evenly by the kernel's chunking; chunk=1 keeps the tail short
    pay = ctx.pmap('lattice', case_fn, cases, horizon=WALL_HORIZON, chunk=1 if len(cases) < 600 else 4, recheck=4)
    st = [p['steps'] for p in pay if p]
    es = [p['rmax'] for p in pay if p]
    ctx.extra['split_steps_main_run'] = {'min': int(min(st)), 'max': int(max(st)), 'cases_with_more_than_one_step': int(sum(s > 1 for s in st))}
    if es:
        ctx.extra['max_error_over_bound_any_rung'] = round(max(es), 4)
    ctx.extra['bounds'] = {'k': k, 'fft_budget': FFT_BUDGET, 'cpu_horizon_s_per_fiber_call': CPU_HORIZON, 'wall_horizon_s_per_case': WALL_HORIZON, 'K': K_BOUND, 'ladder': list(LADDER)}
