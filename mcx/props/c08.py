"""C08 - nonlinear FIBER: returns a finite field, energy law, SPM closed form, convergence to the
scalar NLSE (first order in phi_max), 1-pol == x-row of 2-pol with empty y.

Bounded-exhaustive exploration of a deviation lattice over 10 "physics" coordinates (field, length,
power, fibre parameters, polarisation layout) and 4 "form" coordinates (sample dtype, spelling of the
scalar parameters, noise component, history of the global grid); every case runs the REAL
`opticomlib.devices.FIBER` and is compared with conservation laws, closed forms and an independent
Strang/Richardson NLSE solver (c08_ref.py).  See DESIGN.md 5/C08, notes/C08.md.
"""
from __future__ import annotations
import hashlib
import io
import itertools
import math
import signal
import warnings
import numpy as np

from mcx.core.kernel import res
from mcx.core.env import gv_reset
from mcx.props import c08_ref as R

ID = 'C08'
LEVEL = 'exploration'
NONTRIVIAL = ('the FIBER run of the case took more than one adaptive split step (counted at the ifft seam); '
              'distinct non-trivial cases are counted by the digest of the returned field')

# ----------------------------------------------------------------------------- alphabet
# (name, values enumerated in both tiers - baseline first, values added by the thorough tier)
PHYS = [
    ('kind',   ['gauss', 'nrz', 'rand', 'cw', 'lead0',
                'white'],                    # white: every DFT bin populated (Nyquist bin of an even N included)
               ['dcr']),                     # dcr: large DC level with a 1e-3 ripple
    ('N',      [64, 128, 256, 65,            # 65: odd length (fftshift and ifftshift differ)
                1, 2],                       # a single sample ((2,1) with two polarisations); 2: a 1-D record that looks like a (2,) column
               [3, 17, 97, 127]),            # 3: shortest odd length > 1; 17 = one slot + 1; 97, 127: primes (non-smooth FFT)
    ('P',      [0.1, 1e-3, 0.5, 1e-9,        # peak power per polarisation row [W]; 1e-9 W (-60 dBm): the first step of a
                                             # naive phi_max/(gamma*P) rule is 1e7 km, exp(-alpha*h/2) underflows
                0.0,                         # the zero field
                'edge-', 'edge+'],           # gamma*P_total*L = phi_max*(1 -/+ 1e-9): the single-step / two-step boundary
               ['edge=', 1e-300]),           # exactly on the boundary; |x| = 1e-150: |x|^2 is close to the underflow threshold
    ('L',      [20.0, 1.0, 100.0, 0.0, 12.5], []),    # km; 0: the zero-length fibre (identity); 12.5: not a whole number of km
    ('alpha',  [0.0, 0.2, 0.5], []),              # dB/km
    ('b2',     [-20.0, 0.0, 25.0, -5.0], [-25.0]),    # ps^2/km (both limits of the quantifier in the thorough tier)
    ('b3',     [0.0, 0.2, -0.2], []),             # ps^3/km
    ('gamma',  [1.3, 0.0, 5.0], []),              # 1/W/km
    ('phi',    [0.05, 0.1, 0.01, 5e-4], []),      # rad (0.1 and 5e-4 are the limits of the quantifier)
    ('layout', ['1pol', '2pol-eq', '2pol-y0', '2pol-ne', '2pol-x0'], []),   # ne: unequal rows; x0: empty x, populated y
]
FORM = [
    # dtype of the sample array handed to optical_signal.  Real dtypes carry the real part of the shape; integer/bool
    # dtypes carry its 0/1 pattern (|x| >= max/2), i.e. 1 W peak - the only members above the 0.5 W of the quantifier
    ('dtype',  ['c128', 'c64', 'f64', 'f32', 'i64', 'i8', 'bool'], ['f16', 'i32', 'i16', 'u8']),
    # spelling of length, alpha, beta_2, beta_3, gamma, phi_max: python floats by keyword; python ints where the value is
    # integral; numpy scalars; 0-d arrays; positional; show_progress=True; chain: two calls of length L/2, the object
    # returned by the first is the input of the second (the NLSE with constant coefficients is a semigroup in z)
    ('call',   ['float', 'int', 'np.f32', '0d', 'progress', 'chain'], ['np.f64', 'np.i64', 'pos']),
    ('noise',  ['none', 'same', 'zero'], ['f32', 'i8', 'x-only']),
    ('grid',   ['sps+R:160G', 'R+fs:28G/10G', 'sps+fs:100G', 'fs:24.5G'],
               ['sps+R:80G', 'sps+R:640G', 'wl1310', 'N=len/sps', 'sps+R,R+fs:28G', 'default']),
]
TIERS = {  # number of form deviations -> largest number of physics deviations enumerated with it
    'quick':    {0: 3, 1: 2, 2: 0},
    'thorough': {0: 4, 1: 2, 2: 1, 3: 0},
}
# Sign/zero-pattern slice (after seeded wave 6): the FULL product of the zero / positive / negative members of beta_2 and
# beta_3 and the zero / positive members of gamma and alpha - every regime of the quantifier "for any alpha >= 0, beta2,
# beta3, gamma >= 0", among them third-order dispersion alone (beta_2 == 0 exactly, beta_3 != 0 of either sign) - at
# wide-band anchor points of the lattice: the white field on the 640 GS/s grid (|w| up to 2 rad/ps, rms of
# beta_3 w^3 L / 6 = 2 rad at 20 km), where beta_3 shapes the solution (asserted per case: the reference solution is at
# least B3_EFFECT_MIN away, relative L2, from the reference solution with beta_3 = 0 - otherwise the member would be vacuous).
# On the lattice itself (deviations from a baseline on the 160 GS/s grid) beta_3 moves the field by 4e-4 only.
# (axis, members in both tiers, members added by the thorough tier)
SIGN = [
    ('b2',     [0.0, 25.0, -20.0,
                0.1, -0.1], []),             # +-0.1 ps^2/km: near the zero-dispersion wavelength; rms of b2 w^2 L/2 = 1.8 rad, the size of
                                             # the beta_3 phase - the steps resolve the dispersion and the bound is K*phi_max*Phi_NL
                                             # (with +25 / -20 on this grid it is the looser K_LIN*phi_max*lin_rms term)
    ('b3',     [0.0, 0.2, -0.2], []),
    ('gamma',  [0.0, 1.3], [5.0]),
    ('alpha',  [0.0, 0.2], [0.5]),
    ('kind',   ['white'], []),
    ('grid',   ['sps+R:640G'], []),
    ('N',      [64], [65, 128]),
    ('layout', ['1pol', '2pol-ne'], ['2pol-y0', '2pol-x0']),
]
B3_EFFECT_MIN = 0.1
NAMES = [a for a, _, _ in PHYS + FORM]
NPHYS = len(PHYS)
PHI0 = PHYS[8][1][0]
P0 = PHYS[2][1][0]
EDGE = {'edge-': -1e-9, 'edge=': 0.0, 'edge+': 1e-9}
GRIDS = {  # name -> sequence of gv(...) calls after gv.clean()
    'sps+R:160G':      lambda N: [dict(sps=16, R=10e9)],
    'R+fs:28G/10G':    lambda N: [dict(R=10e9, fs=28e9)],                  # fs/R = 2.8 -> sps 3, fs != sps*R
    'sps+fs:100G':     lambda N: [dict(sps=8, fs=100e9)],
    'fs:24.5G':        lambda N: [dict(fs=24.5e9)],                        # fs alone against the default R: ratio 24.5
    'sps+R:80G':       lambda N: [dict(sps=8, R=10e9)],
    'sps+R:640G':      lambda N: [dict(sps=64, R=10e9)],
    'wl1310':          lambda N: [dict(sps=16, R=10e9, wavelength=1310e-9)],
    'N=len/sps':       lambda N: [dict(sps=16, R=10e9, N=max(1, N // 16))],  # gv.w / gv.t exist and (16 | N) have the field's length
    'sps+R,R+fs:28G':  lambda N: [dict(sps=16, R=10e9), dict(R=10e9, fs=28e9)],   # reconfigured before the call
    'default':         lambda N: [],                                       # gv never configured: fs = 16 GS/s
}
DTYPES = {'c128': np.complex128, 'c64': np.complex64, 'f64': np.float64, 'f32': np.float32, 'f16': np.float16,
          'i64': np.int64, 'i32': np.int32, 'i16': np.int16, 'i8': np.int8, 'u8': np.uint8, 'bool': np.bool_}
INTS = ('i64', 'i32', 'i16', 'i8', 'u8', 'bool')
REALS = ('f64', 'f32', 'f16')
EPS_IN = {np.dtype(np.complex64): 2.0 ** -23, np.dtype(np.float32): 2.0 ** -23, np.dtype(np.float16): 2.0 ** -10}   # unit roundoff of the sample dtype where below double
LADDER = (0.1, 0.05, 0.01, 0.002)
PHI_NL_MAX = 10.0                            # rad, constraint gamma*P*L <= 10
K_BOUND = 25.0                               # DESIGN 5/C08 (calibrated: worst observed constant 22 at 10 rad)
K_LIN = 2.0                                  # first-order constant per radian of rms dispersive phase (see bound())
CAP = 2.5                                    # |out - ref| <= CAP * gamma * int max_t P dz * |ref| for ANY unit-modulus splitting
RESOLVED = 0.5                               # rad of rms dispersive phase per split step below which the ladder must be monotone
FLOOR = 1e-6                                 # reference accuracy (1e-7 self-convergence) x10
MONO_MAX = 0.25                              # the ladder must be non-increasing once the error is below 25 %: above that
                                             # the numerical solution has decorrelated from the true one (saturated error,
                                             # focusing/MI regime at 10 rad) and "smaller step => smaller error" is not implied
E_TOL = 3e-4                                 # energy law: alpha/4.343 vs ln(10)/10 is 1.5e-4 at 50 dB
A_CONST = 3e-4                               # same constant ambiguity seen through amplitude+phase of the field
FFT_BUDGET = 100_000                         # calls of devices.fft+ifft per FIBER call (DESIGN 5/C08 B)
FFT_BUDGET_SHORT = 2_000                     # ... when a correct run needs fewer than 10 steps
CPU_HORIZON = 30.0                           # seconds of CPU time per FIBER call (DESIGN 5/C08 B: horizon 30 s)
WALL_HORIZON = 300.0                         # kernel back-stop per case (wall clock; the machine is shared)
DB1, DB2 = 1 / 4.343, math.log(10) / 10      # the two admissible dB -> 1/km constants


def axes(tier):
    return [(n, q + (t if tier == 'thorough' else [])) for n, q, t in PHYS + FORM]


def lattice(tier):
    """every point with p physics deviations and f form deviations such that p <= TIERS[tier][f];
    fewest deviations first"""
    ax = axes(tier)
    base = tuple(v[0] for _, v in ax)
    allow = TIERS[tier]
    out = []
    for d in range(max(f + p for f, p in allow.items()) + 1):
        for sel in itertools.combinations(range(len(ax)), d):
            f = sum(i >= NPHYS for i in sel)
            if f not in allow or d - f > allow[f]:
                continue
            for vals in itertools.product(*[ax[i][1][1:] for i in sel]):
                p = list(base)
                for i, v in zip(sel, vals):
                    p[i] = v
                out.append(tuple(p))
    return out


def sign_slice(tier):
    """full product of the SIGN members over the baseline of the lattice; simplest (first members) first"""
    ax = [(n, q + (t if tier == 'thorough' else [])) for n, q, t in SIGN]
    base = dict(zip(NAMES, (v[0] for _, v, _ in PHYS + FORM)))
    out = []
    for vals in sorted(itertools.product(*[range(len(v)) for _, v in ax]), key=lambda t: (sum(t), t)):
        d = dict(base, **{n: v[i] for (n, v), i in zip(ax, vals)})
        out.append(tuple(d[n] for n in NAMES))
    return out


def admissible(p):
    c = dict(zip(NAMES, p))
    if c['dtype'] in INTS:
        # the power coordinate is not free for a 0/1 field: 1 W (listed under the baseline of P) or the zero field
        if c['P'] not in (P0, 0.0):
            return False
        pw = 1.0 if c['P'] else 0.0
    elif isinstance(c['P'], str):
        return c['gamma'] > 0 and c['L'] > 0
    else:
        pw = c['P']
    return c['gamma'] * pw * c['L'] <= PHI_NL_MAX * (1 + 1e-12)


# ----------------------------------------------------------------------------- seam: FFT budget + CPU horizon
class FFTBudget(Exception):
    pass


class CpuHorizon(Exception):
    pass


def _vt_alarm(signum, frame):
    raise CpuHorizon()


def run_fiber(sig, budget, args, kw):
    """FIBER under (a) a budget of fft/ifft calls (deterministic) and (b) a horizon of CPU_HORIZON seconds of
    *CPU time of this process* (ITIMER_VIRTUAL: independent of the load other processes put on the machine).
    returns (output | None, n_fft, n_ifft, reason)"""
    import opticomlib.devices as dv
    cnt = [0, 0]
    of, oi, ot = dv.fft, dv.ifft, dv.tqdm

    def cf(*a, **k):
        cnt[0] += 1
        if cnt[0] + cnt[1] > budget:
            raise FFTBudget()
        return of(*a, **k)

    def ci(*a, **k):
        cnt[1] += 1
        if cnt[0] + cnt[1] > budget:
            raise FFTBudget()
        return oi(*a, **k)

    def quiet_tqdm(*a, **k):     # show_progress=True: the real progress bar, drawn into a buffer instead of stderr
        k['file'] = io.StringIO()
        return ot(*a, **k)
    reason = None
    old = signal.signal(signal.SIGVTALRM, _vt_alarm)
    dv.fft, dv.ifft, dv.tqdm = cf, ci, quiet_tqdm
    try:
        with warnings.catch_warnings():
            warnings.simplefilter('ignore')
            signal.setitimer(signal.ITIMER_VIRTUAL, CPU_HORIZON)
            out = dv.FIBER(sig, *args, **kw)
            signal.setitimer(signal.ITIMER_VIRTUAL, 0)
    except FFTBudget:
        out, reason = None, f'{budget} fft/ifft calls'
    except CpuHorizon:
        out, reason = None, f'{CPU_HORIZON:g} s of CPU time'
    finally:
        signal.setitimer(signal.ITIMER_VIRTUAL, 0)
        dv.fft, dv.ifft, dv.tqdm = of, oi, ot
        signal.signal(signal.SIGVTALRM, old)
    return out, cnt[0], cnt[1], reason


# ----------------------------------------------------------------------------- forms
def spell(v, call):
    """one scalar parameter as the call form passes it"""
    if call in ('float', 'pos', 'progress', 'chain'):
        return float(v)
    if call == 'int':
        return int(v) if float(v).is_integer() else float(v)
    if call == 'np.f32':
        return np.float32(v)
    if call == 'np.f64':
        return np.float64(v)
    if call == 'np.i64':
        return np.int64(v) if float(v).is_integer() else np.float64(v)
    if call == '0d':
        return np.array(float(v))
    raise ValueError(call)


PARAMS = ('length', 'alpha', 'beta_2', 'beta_3', 'gamma', 'phi_max')


def call_args(passed, call):
    if call == 'pos':
        return tuple(passed[k] for k in PARAMS), {}
    kw = dict(passed)
    if call == 'progress':
        kw['show_progress'] = True
    return (), kw


def field_rows(kind, N, P, seed, layout, dtype, scale_to=None):
    """the rows of the signal array in double precision, before the cast to the sample dtype.
    scale_to: target for the peak of the TOTAL power (edge members of the P axis) instead of P per row"""
    real = dtype in REALS or dtype in INTS
    x = R.make_field(kind, N, 1.0 if scale_to is not None else P, seed, real=real)
    if dtype in INTS:
        m = np.max(np.abs(x))
        x = (np.abs(x) >= 0.5 * m).astype(complex) if m > 0 else x
    y = (1.0 if dtype in INTS else 0.6 if real else 0.6j) * np.roll(x[::-1], 3)     # a row different from x
    z = np.zeros_like(x)
    rows = {'1pol': [x], '2pol-eq': [x, x], '2pol-y0': [x, z], '2pol-ne': [x, y], '2pol-x0': [z, x]}[layout]
    if scale_to is not None:
        m = np.max(sum(np.abs(r) ** 2 for r in rows))
        rows = [r * np.sqrt(scale_to / m) if m > 0 else r for r in rows]
    return rows


def noise_rows(nkind, rows, N):
    """noise component for the given signal rows (None = absent).  An empty signal row carries no noise."""
    if nkind == 'none':
        return None
    amp = 0.05 * max(float(np.max(np.abs(r))) for r in rows) or 1e-3
    rs = np.random.RandomState(1234 + N)
    out = []
    for i, r in enumerate(rows):
        nz = rs.standard_normal(N) + 1j * rs.standard_normal(N)
        if nkind == 'zero' or not np.any(r) or (nkind == 'x-only' and i == 1):
            nz = np.zeros(N, complex)
        elif nkind == 'i8':
            nz = (nz.real > 0.5).astype(complex)
        else:
            nz = amp * nz
        out.append(nz)
    if nkind == 'f32':
        return np.array([o.real for o in out], dtype=np.float32)      # a real noise record of lower precision than the signal
    if nkind == 'i8':
        return np.array([o.real for o in out], dtype=np.int8)         # an integer noise record (0/1)
    return np.array(out)


def build(rows, dtype, nrows):
    """(optical_signal, copy of its signal array, copy of its noise array | None) - the copies are taken BEFORE the call"""
    from opticomlib.typing import optical_signal
    dt = DTYPES[dtype]
    arr = np.array([r.real if np.dtype(dt).kind != 'c' else r for r in rows]).astype(dt)
    nz = nrows
    if nz is not None and not np.any(nz):
        nz = np.zeros(nz.shape, dt)            # the all-zero noise has the dtype of the signal (an integer signal stays integer)
    if len(rows) == 1:
        arr, nz = arr[0], (None if nz is None else nz[0])
    sig = optical_signal(arr.copy(), None if nz is None else nz.copy())
    return sig, np.array(sig.signal), (None if sig.noise is None else np.array(sig.noise))


def rows_of(a):
    a = np.asarray(a)
    return [a] if a.ndim == 1 else [a[0], a[1]]


def relerr(a, b):
    nb = float(np.linalg.norm(b))
    return float(np.linalg.norm(a - b)) / nb if nb > 0 else float(np.linalg.norm(a))


def sha(a):
    return hashlib.sha1(np.ascontiguousarray(a).tobytes()).hexdigest()[:16]


# ----------------------------------------------------------------------------- the case
def case_fn(case):
    c = dict(zip(NAMES + ['seed', 'full_ladder', 'slice'], case))      # 'slice' only on the cases of the sign-pattern slice
    nphys = sum(c[n] != v[0] for n, v, _ in PHYS)
    nform = sum(c[n] != v[0] for n, v, _ in FORM)
    kind, N, Psym, layout, dtype, callf, nkind, grid = [c[n] for n in ('kind', 'N', 'P', 'layout', 'dtype', 'call', 'noise', 'grid')]
    gv = gv_reset()
    with warnings.catch_warnings():
        warnings.simplefilter('ignore')
        for kw in GRIDS[grid](N):
            gv(**kw)
    fs = float(gv.fs)                       # the reference works on the grid the library reports (what gv computes from
                                            # its arguments is property C14, not C08)

    # ---- the scalar parameters as passed, and the values they carry
    passed = {k: spell(c[n], callf) for k, n in zip(PARAMS, ('L', 'alpha', 'b2', 'b3', 'gamma', 'phi'))}
    L, alpha, b2, b3, g, phi = [float(passed[k]) for k in PARAMS]
    eps_par = 2.0 ** -23 if callf == 'np.f32' else 0.0

    # ---- the input rows
    if isinstance(Psym, str):
        rows0 = field_rows(kind, N, None, c['seed'], layout, dtype, scale_to=phi * (1 + EDGE[Psym]) / (g * L))
    else:
        rows0 = field_rows(kind, N, Psym, c['seed'], layout, dtype)
        if dtype == 'c128':
            m = float(np.max(np.abs(rows0[-1 if layout == '2pol-x0' else 0]) ** 2))
            assert m == 0 or abs(m / Psym - 1) < 1e-12, (kind, N, Psym, m)
    _, s_main, n_main = build(rows0, dtype, noise_rows(nkind, rows0, N))
    rowsA = [np.asarray(r).astype(complex) for r in rows_of(s_main)]       # what the library actually receives
    P = max(float(np.max(np.abs(r) ** 2)) for r in rowsA)                  # peak power of the strongest row
    xa = rowsA[1] if layout == '2pol-x0' else rowsA[0]
    lead0 = bool(N >= 2 and xa[0] == 0 and xa[1] == 0)
    cls = 'zero-field' if P == 0 else 'first-two-samples-zero' if lead0 else kind
    disp = not (b2 == 0 and b3 == 0)
    viol, stats, obs = [], {'fiber_calls': 0, 'split_steps': 0, 'ref_steps': 0}, []

    a1 = alpha * DB1
    Leff = L if alpha == 0 else -math.expm1(-a1 * L) / a1
    phi_nl = g * P * Leff
    extra = A_CONST if alpha > 0 else 0.0
    # rounding the library is entitled to: the first nonlinear factor computed in the precision of the samples as passed
    # (numpy does so by itself for float16/float32/complex64 arrays), scalar arithmetic in the precision of float32 parameters
    w = R.omega(N, fs)
    lin_phase = float(np.max(np.abs(b2 * w ** 2 / 2) + np.abs(b3 * w ** 3 / 6))) * L + a1 * L / 2

    def lin_rms_of(row):
        """rms of the dispersive phase (b2 w^2/2 + b3 w^3/6) L [rad] over the spectrum of the time-varying part of the row
        (the DC bin propagates trivially and is left out of the weights): how much the dispersion reshapes the intensity
        of THIS field along the fibre"""
        X = np.abs(np.fft.fft(row)) ** 2
        X[0] = 0.0
        return float(np.sqrt(np.sum(X * ((b2 * w ** 2 / 2 + b3 * w ** 3 / 6) * L) ** 2) / np.sum(X))) if np.any(X) else 0.0
    lin_rms = max(lin_rms_of(r) for r in rowsA)
    rnd = 8 * EPS_IN.get(s_main.dtype, 0.0) * (1 + phi_nl) + 8 * eps_par * (1 + phi_nl + lin_phase)

    # ---- reference per distinct non-empty row (each row of FIBER is an independent scalar NLSE)
    refs = {}

    def ref_of(row):
        k = row.tobytes()
        if k not in refs:
            r, info = R.nlse_ref(row, L, a1, b2, b3, g, fs=fs)
            if not info['conv']:
                raise AssertionError(f'reference solver did not self-converge: {info}')
            stats['ref_steps'] += info['n']
            refs[k] = (r, info)
        return refs[k]

    def pint_of(rows):
        return sum(ref_of(r)[1]['pint'] for r in rows if np.any(r))

    phi_int = g * max(pint_of([r]) for r in rowsA)      # gamma * int_0^L max_t |A_row|^2 dz of the strongest row [rad]

    def budget_for(ph, rows):
        # steps a correct implementation needs: gamma * int(max_t total power) dz / phi_max (+ tail);
        # x8 head-room; never below the DESIGN budget (a smaller floor for runs of fewer than 10 steps)
        est = g * pint_of(rows) / ph + 2
        return int(max(FFT_BUDGET if est >= 10 else FFT_BUDGET_SHORT, 8 * est + 100)), est

    # ---- phase 1: all FIBER calls of the case
    partner = {'1pol': '2pol-y0', '2pol-y0': '1pol'}.get(layout)
    inputs = {layout: (rows0, s_main, n_main)}
    if partner:
        rp = [rows0[0]] if partner == '1pol' else [rows0[0], np.zeros_like(rows0[0])]
        _, sp, npn = build(rp, dtype, noise_rows(nkind, rp, N))
        inputs[partner] = (rp, sp, npn)
    hung, runs = set(), {}

    def call(phv, lay):
        """phv: the phi_max value of the axis/ladder; it is passed in the case's spelling"""
        rws, s_in, _ = inputs[lay]
        rin = [np.asarray(r).astype(complex) for r in rows_of(s_in)]
        pp = dict(passed, phi_max=spell(phv, callf))
        ph = float(pp['phi_max'])
        if lay in hung:          # one non-terminating run per layout is reported; further rungs are skipped
            runs[(lay, phv)] = None
            return
        sig, _, _ = build(rws, dtype, noise_rows(nkind, rws, N))        # a fresh object for every call
        bud, est = budget_for(ph, rin)
        a, k = call_args(pp, callf)
        if callf == 'chain':
            k['length'] = L / 2
            out, nf, ni, why = run_fiber(sig, bud, a, k)
            if out is not None:
                out, nf, ni2, why = run_fiber(out, bud, a, k)
                ni += ni2
        else:
            out, nf, ni, why = run_fiber(sig, bud, a, k)
        stats['fiber_calls'] += 1
        stats['split_steps'] += ni
        if out is None:
            key = 'returns:nontermination:zero-length' if L == 0 else f'returns:nontermination:{lay}:{cls}'
            viol.append((key, f'FIBER did not return within {why} (phi_max={ph}, length={L}, a correct run needs about {2 * est:.0f})'))
            obs.append(('NONTERM', lay, phv))
            hung.add(lay)
            runs[(lay, phv)] = None
            return
        o, on = out.signal, out.noise
        obs.append((lay, phv, sha(o), ni))
        ok = True
        if not isinstance(o, np.ndarray) or o.shape != s_in.shape:
            viol.append((f'shape:{lay}', f'output shape {getattr(o, "shape", None)} != input shape {s_in.shape}'))
            ok = False
        elif not np.all(np.isfinite(o)):
            viol.append((f'finite:{lay}:{cls}', f'{int(np.sum(~np.isfinite(o)))} non-finite output samples (phi_max={ph})'))
            ok = False
        if on is not None and (not isinstance(on, np.ndarray) or on.shape != s_in.shape):
            viol.append((f'shape:noise:{lay}', f'the noise component of the output has shape {getattr(on, "shape", None)}, input shape {s_in.shape}'))
            on = None
        runs[(lay, phv)] = (o, on, ni, ph) if ok else None

    call(c['phi'], layout)
    if partner:
        call(c['phi'], partner)
    # the ladder: where phi_max is at its baseline; in the quick tier not for points that deviate in physics AND form
    # coordinates (the two finest rungs are 95 % of the cost of a case; those points keep their single rung)
    ladder = disp and g != 0 and c['phi'] == PHI0 and (c['full_ladder'] or nform == 0 or nphys == 0)
    if ladder:
        for phv in LADDER:
            if phv != c['phi']:
                call(phv, layout)
        stats['ladders'] = 1
    steps = runs[(layout, c['phi'])][2] if runs.get((layout, c['phi'])) else 0

    # ---- phase 2: the oracles, under a reading of "the input" (A: the signal component alone, the noise component is
    # something else; B - only tried when a noise component is present and A fails: the total field signal+noise)
    def evaluate(reading):
        v, ob, ratios = [], [], [0.0]

        def rows_in(lay):
            _, s_in, n_in = inputs[lay]
            t = s_in if reading == 'A' or n_in is None else s_in + n_in
            return [np.asarray(r).astype(complex) for r in rows_of(t)]

        def rows_out(run):
            o, on = run[0], run[1]
            return rows_of(o if reading == 'A' or on is None else o + on)

        def energy(run, lay):
            want = 10 ** (-alpha * L / 10)
            tol = E_TOL + 8 * eps_par * (1 + a1 * L)
            for r, (orow, irow) in enumerate(zip(rows_out(run), rows_in(lay))):
                ein, eout = float(np.sum(np.abs(irow) ** 2)), float(np.sum(np.abs(orow) ** 2))
                if ein == 0:
                    if eout != 0:
                        v.append((f'energy:{lay}:empty-row-not-empty', f'row {r}: input empty, output energy {eout:.3e}'))
                elif abs(eout / (ein * want) - 1) > tol:
                    v.append((f'energy:{lay}:{"loss" if alpha > 0 else "lossless"}',
                              f'row {r}: E_out/E_in = {eout / ein:.6e}, law 10^(-alpha L/10) = {want:.6e}, '
                              f'ratio-1 = {eout / (ein * want) - 1:+.2e} (phi_max={run[3]})'))

        def err_vs_ref(run, lay):
            e = 0.0
            for orow, irow in zip(rows_out(run), rows_in(lay)):
                if np.any(irow):
                    e = max(e, relerr(orow, ref_of(irow)[0]))
            return e

        def bound(ph):
            # gamma == 0: the splitting error is a commutator with the nonlinear operator and vanishes identically, every
            # split-step scheme is then exact up to FFT rounding (<= 1e5 steps * eps * log N << FLOOR)
            if g == 0:
                return FLOOR + extra + rnd
            # first order in phi_max with the calibrated constant K per max(Phi_NL, 0.1) rad - or, for fields that the
            # dispersion reshapes quickly (short records, white spectra, wide grids: the steps chosen from phi_max alone do
            # not resolve the dispersion), K_LIN per radian of rms dispersive phase; the latter never beyond the error ANY
            # splitting with unit-modulus nonlinear factors can make at all (Duhamel: twice the integrated peak phase)
            return max(K_BOUND * ph * max(phi_nl, 0.1), min(CAP * phi_int, K_LIN * ph * lin_rms)) + FLOOR + extra + rnd

        def resolved(ph):
            # rms dispersive phase per split step at this rung (a correct run takes about phi_int/ph steps)
            return lin_rms / max(1.0, phi_int / ph) <= RESOLVED

        for (lay, phv), run in runs.items():
            if run is not None:
                energy(run, lay)
        main = runs.get((layout, c['phi']))
        e_main = None
        if main is not None:
            ph = main[3]
            if not disp:
                # oracle (3): closed form, either dB constant
                es = []
                for a in (a1, alpha * DB2):
                    Le = L if alpha == 0 else -math.expm1(-a * L) / a
                    es.append(max([relerr(orow, irow * np.exp(-a * L / 2 + 1j * g * np.abs(irow) ** 2 * Le))
                                   for orow, irow in zip(rows_out(main), rows_in(layout)) if np.any(irow)] or [0.0]))
                e3 = min(es)
                ob.append(('spm', round(e3, 12)))
                # alpha == 0: |A| is constant along z, so ANY split-step scheme accumulates exactly gamma*|in|^2*L
                # (rounding only); with loss a stepping scheme may be first order in phi_max
                tol3 = (1e-9 if alpha == 0 else ph + 1e-9) + rnd
                if e3 > tol3:
                    v.append((f'spm-closed-form:{"loss" if alpha > 0 else "lossless"}:{"kerr" if g > 0 else "gamma0"}',
                              f'beta2=beta3=0: relative distance to in*exp(-a L/2)*exp(j g |in|^2 L_eff) is {e3:.3e} '
                              f'> {"1e-9" if alpha == 0 else "phi_max+1e-9"} (+rounding of the operand dtypes) = {tol3:.3e} '
                              f'(gamma*P*L_eff = {phi_nl:.3f} rad, alpha*L = {alpha * L:.1f} dB)'))
            else:
                e_main = err_vs_ref(main, layout)
                ratios.append(e_main / bound(ph))
                if e_main > bound(ph):
                    v.append((f'nlse-bound:{layout}' + (':gamma0' if g == 0 else ''),
                              f'relative L2 error vs reference NLSE solution {e_main:.3e} > ' + ('floor = ' if g == 0 else 'K*phi_max*max(Phi_NL,0.1)+floor = ') +
                              f'{bound(ph):.3e} (phi_max={ph}, Phi_NL={phi_nl:.3f} rad, split steps={main[2]})'))

        # oracle (5): 1-pol run == x row of the 2-pol run with empty y
        if partner:
            other = runs.get((partner, c['phi']))
            if main is not None and other is not None:
                a, b = (rows_out(main)[0], rows_out(other)[0])
                d = relerr(a, b)
                if d > 1e-12:
                    v.append(('pol-equivalence:1pol-vs-empty-y',
                              f'1-pol output differs from the x row of the 2-pol run with empty y by {d:.3e} relative (> 1e-12)'))

        # oracle (4): ladder (run where phi_max is at its baseline; other phi_max values are single rungs above)
        if ladder:
            es = []
            for phv in LADDER:
                run = runs.get((layout, phv))
                if run is None:
                    es.append(None)
                    continue
                e = e_main if phv == c['phi'] else err_vs_ref(run, layout)
                es.append(e)
                ratios.append(e / bound(run[3]))
                if phv != c['phi'] and e > bound(run[3]):
                    v.append((f'nlse-bound:{layout}',
                              f'relative L2 error vs reference NLSE solution {e:.3e} > K*phi_max*max(Phi_NL,0.1)+floor = '
                              f'{bound(run[3]):.3e} (phi_max={run[3]}, Phi_NL={phi_nl:.3f} rad, split steps={run[2]})'))
            for (p0, e0), (p1, e1) in zip(zip(LADDER, es), list(zip(LADDER, es))[1:]):
                if e0 is not None and e1 is not None and e0 <= MONO_MAX and resolved(p0) and e1 > 1.05 * e0 + FLOOR + rnd:
                    v.append((f'nlse-monotone:{layout}',
                              f'error grows down the ladder: e({p0})={e0:.3e} -> e({p1})={e1:.3e}'))
            ob.append(('ladder', tuple(None if e is None else float(f'{e:.3e}') for e in es)))
        return v, ob, ratios

    vA, obA, ratios = evaluate('A')
    if vA and nkind != 'none':
        vB, _, _ = evaluate('B')
        if not vB:
            vA = []                 # FIBER propagated the total field signal+noise: the statement does not exclude that
            stats['noise_folded_into_field'] = 1
    viol += vA
    obs += obA
    # sign-pattern slice: how far the reference solution is from the one with beta_3 = 0 (smallest over the non-empty rows)
    b3_effect = None
    if c.get('slice') and b3 != 0 and P > 0 and L > 0:
        b3_effect = min(relerr(ref_of(r)[0], R.nlse_ref(r, L, a1, b2, 0.0, g, fs=fs)[0]) for r in rowsA if np.any(r))
    return res(viol=viol, obs=tuple(obs), nontrivial=bool(steps > 1), stats=stats,
               payload={'steps': steps, 'rmax': max(ratios), 'b3_effect': b3_effect})


# ----------------------------------------------------------------------------- reference self-check
def ref_selfcheck(case):
    """the Strang/Richardson reference against (a) an unrelated integrator (DOP853, interaction picture)
    and (b) the analytic fundamental soliton.  A disagreement is a HARNESS error, not a finding."""
    tag = case[0]
    if tag == 'soliton':
        N = 256
        t = (np.arange(N) - N / 2) * 1e12 / R.FS
        T0, b2, g, L = 40.0, 25.0, 1.3, 100.0
        P0_ = b2 / (g * T0 ** 2)
        x = (np.sqrt(P0_) / np.cosh(t / T0)).astype(complex)
        r, info = R.nlse_ref(x, L, 0.0, b2, 0.0, g)
        e = relerr(r, x * np.exp(0.5j * g * P0_ * L))
        assert info['conv'] and e < 1e-7, ('soliton', e, info)
        return res(obs=('soliton', sha(r)), nontrivial='soliton')
    _, kind, N, P, L, alpha, b2, b3, g, fs, seed = case
    x = R.make_field(kind, N, P, seed)
    r, info = R.nlse_ref(x, L, alpha * DB1, b2, b3, g, fs=fs)
    d = R.nlse_ref_dop853(x, L, alpha * DB1, b2, b3, g, fs=fs)
    e = relerr(r, d)
    assert info['conv'] and e < 1e-7, (case, e, info)
    return res(obs=(case, sha(r)), nontrivial=case[:-1])


# ----------------------------------------------------------------------------- driver
def run(ctx):
    tier = 'quick' if ctx.quick else 'thorough'
    pts = lattice(tier)
    adm = [p for p in pts if admissible(p)]
    ax = axes(tier)
    ctx.space('lattice-points(all)', len(pts))
    ctx.space('lattice-points(excluded: gamma*P*L > 10 rad, edge power undefined, integer dtype with a free power)', len(pts) - len(adm))
    ctx.rule(f'deviation lattice over 10 physics coordinates {dict(ax[:NPHYS])} and 4 form coordinates {dict(ax[NPHYS:])}: '
             f'every point that differs from the baseline {dict(zip(NAMES, pts[0]))} in p physics and f form coordinates with '
             f'p <= {TIERS[tier]}[f], subject to gamma*P*L <= 10 rad (integer/bool dtypes: 0/1 samples, 1 W), enumerated '
             f'completely, fewest deviations first; per case: FIBER at the case phi_max (oracles 1,2,3 / single-rung 4), the partner '
             f'layout for 1pol/2pol-y0 (oracle 5), and where phi_max is at baseline'
             f'{" and not both p > 0 and f > 0" if ctx.quick else ""} the ladder {LADDER} against the reference on the '
             f'grid gv.fs (oracle 4: bound K={K_BOUND:g}, monotone x1.05 once the error is <= {MONO_MAX}); every comparison uses '
             f'copies of the operands taken before the call')
    ctx.assume('numpy.fft is correct; the reference NLSE solver (Strang splitting + Richardson, self-converged to 1e-7) is '
               'trusted after its self-check against DOP853 in the interaction picture and the analytic soliton; '
               'the constant K=25 of the first-order bound is a calibration (DESIGN 5/C08), the statement only says "a constant"')
    ctx.assume('VERIF_SEED only selects the content of the seeded random fields (rand, white)')
    ctx.assume('with a noise component on the input the statement does not say whether "the input" is the signal component or the '
               'total field: either reading is accepted; of the noise component of the output only the shape is asserted')
    sc = [('soliton',)] + [('dop',) + t + (ctx.seed,) for t in [
        ('gauss', 64, 0.1, 20.0, 0.0, -20.0, 0.0, 1.3, R.FS), ('rand', 256, 0.1, 20.0, 0.2, 25.0, 0.2, 5.0, R.FS),
        ('nrz', 128, 0.5, 20.0, 0.5, -20.0, -0.2, 1.0, R.FS), ('lead0', 256, 0.02, 100.0, 0.0, 25.0, 0.2, 5.0, R.FS),
        ('rand', 128, 0.1, 100.0, 0.0, -5.0, -0.2, 1.0, R.FS), ('white', 64, 0.1, 20.0, 0.2, -20.0, 0.2, 1.3, R.FS),
        ('white', 97, 0.1, 20.0, 0.0, 25.0, -0.2, 5.0, 28e9), ('gauss', 65, 0.1, 20.0, 0.5, -20.0, 0.2, 1.3, 640e9)]]
    ctx.pmap('ref-selfcheck', ref_selfcheck, sc, horizon=WALL_HORIZON, recheck=0)
    cases = [p + (ctx.seed, not ctx.quick) for p in adm]
    # expensive cases are spread evenly by the kernel's chunking; chunk=1 keeps the tail short
    pay = ctx.pmap('lattice', case_fn, cases, horizon=WALL_HORIZON, chunk=1 if len(cases) < 600 else 4, recheck=4)
    # ---- the sign/zero-pattern slice at the wide-band anchors (full ladder in both tiers)
    sl = [p for p in sign_slice(tier) if admissible(p)]
    sax = [(n, q + (t if tier == 'thorough' else [])) for n, q, t in SIGN]
    ctx.space('sign-pattern-slice(cases)', len(sl))
    ctx.rule(f'sign-pattern slice: the full product of {dict(sax)} over the baseline (every zero/sign pattern of beta_2, beta_3, '
             f'gamma, alpha on a wide-band field: white spectrum on the 640 GS/s grid), same case function and oracles as the '
             f'lattice, ladder {LADDER} always; for beta_3 != 0 the reference solution must differ from the reference solution '
             f'with beta_3 = 0 by >= {B3_EFFECT_MIN} relative L2 (harness assertion: the member is not vacuous)')
    pay2 = ctx.pmap('sign-patterns', case_fn, [p + (ctx.seed, True, True) for p in sl], horizon=WALL_HORIZON, chunk=1, recheck=2)
    eff = [p['b3_effect'] for p in pay2 if p and p['b3_effect'] is not None]
    # (the effect is a property of the reference alone; cases the library aborted have no payload and are not looked at)
    assert not eff or min(eff) >= B3_EFFECT_MIN, f'sign-pattern slice is vacuous in beta_3: smallest effect {min(eff)}'
    ix = [NAMES.index(n) for n in ('b2', 'b3', 'gamma', 'alpha')]
    pats = {tuple(int(np.sign(p[i])) for i in ix) for p in sl}
    assert len(pats) == 36, f'sign-pattern slice covers {len(pats)} of the 36 patterns'
    ctx.extra['sign_pattern_slice'] = {'cases': len(sl), 'patterns_of_sign(b2,b3,gamma,alpha)': len(pats),
                                       'beta3_effect_on_reference_min_max': [round(min(eff), 4), round(max(eff), 4)] if eff else None,
                                       'split_steps_main_run_max': int(max([p['steps'] for p in pay2 if p] or [0])),
                                       'max_error_over_bound_any_rung': round(max([p['rmax'] for p in pay2 if p] or [0.0]), 4)}
    pay = pay + pay2
    st = [p['steps'] for p in pay if p]
    es = [p['rmax'] for p in pay if p]
    ctx.extra['split_steps_main_run'] = {'min': int(min(st)), 'max': int(max(st)), 'cases_with_more_than_one_step': int(sum(s > 1 for s in st))}
    if es:
        ctx.extra['max_error_over_bound_any_rung'] = round(max(es), 4)
    ctx.extra['bounds'] = {'tier_rule': {str(k): v for k, v in TIERS[tier].items()}, 'fft_budget': FFT_BUDGET, 'cpu_horizon_s_per_fiber_call': CPU_HORIZON,
                           'wall_horizon_s_per_case': WALL_HORIZON, 'K': K_BOUND, 'ladder': list(LADDER)}
